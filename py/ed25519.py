"""Pure-Python Ed25519, transcribed from RFC 8032 section 6 (reference, not constant time).
Independent of ed25519-dalek; used to cross-check the oracle and to sign as a reference responder."""
import hashlib

p = 2**255 - 19
L = 2**252 + 27742317777372353535851937790883648493
d = -121665 * pow(121666, p - 2, p) % p
I = pow(2, (p - 1) // 4, p)

def sha512(s):
    return hashlib.sha512(s).digest()

def point_add(P, Q):
    A = (P[1] - P[0]) * (Q[1] - Q[0]) % p
    B = (P[1] + P[0]) * (Q[1] + Q[0]) % p
    C = 2 * P[3] * Q[3] * d % p
    D = 2 * P[2] * Q[2] % p
    E, F, G, H = B - A, D - C, D + C, B + A
    return (E * F % p, G * H % p, F * G % p, E * H % p)

def point_mul(s, P):
    Q = (0, 1, 1, 0)
    while s > 0:
        if s & 1:
            Q = point_add(Q, P)
        P = point_add(P, P)
        s >>= 1
    return Q

def point_equal(P, Q):
    if (P[0] * Q[2] - Q[0] * P[2]) % p != 0:
        return False
    if (P[1] * Q[2] - Q[1] * P[2]) % p != 0:
        return False
    return True

def recover_x(y, sign):
    if y >= p:
        return None
    x2 = (y * y - 1) * pow(d * y * y + 1, p - 2, p)
    if x2 == 0:
        return None if sign else 0
    x = pow(x2, (p + 3) // 8, p)
    if (x * x - x2) % p != 0:
        x = x * I % p
    if (x * x - x2) % p != 0:
        return None
    if (x & 1) != sign:
        x = p - x
    return x

g_y = 4 * pow(5, p - 2, p) % p
g_x = recover_x(g_y, 0)
G = (g_x, g_y, 1, g_x * g_y % p)

def point_compress(P):
    zinv = pow(P[2], p - 2, p)
    x = P[0] * zinv % p
    y = P[1] * zinv % p
    return int.to_bytes(y | ((x & 1) << 255), 32, "little")

def point_decompress(s):
    if len(s) != 32:
        return None
    y = int.from_bytes(s, "little")
    sign = y >> 255
    y &= (1 << 255) - 1
    x = recover_x(y, sign)
    if x is None:
        return None
    return (x, y, 1, x * y % p)

def secret_expand(secret):
    h = sha512(secret)
    a = int.from_bytes(h[:32], "little")
    a &= (1 << 254) - 8
    a |= (1 << 254)
    return (a, h[32:])

def secret_scalar_bytes(secret):
    """the clamped scalar as 32 little-endian bytes, and the raw first half of SHA-512(seed)"""
    h = sha512(secret)
    a, _ = secret_expand(secret)
    return int.to_bytes(a, 32, "little"), h[:32]

def secret_to_public(secret):
    (a, _) = secret_expand(secret)
    return point_compress(point_mul(a, G))

def sign(secret, msg):
    a, prefix = secret_expand(secret)
    A = point_compress(point_mul(a, G))
    r = int.from_bytes(sha512(prefix + msg), "little") % L
    R = point_mul(r, G)
    Rs = point_compress(R)
    h = int.from_bytes(sha512(Rs + A + msg), "little") % L
    s = (r + h * a) % L
    return Rs + int.to_bytes(s, 32, "little")

def verify(public, msg, signature):
    if len(public) != 32 or len(signature) != 64:
        return False
    A = point_decompress(public)
    if not A:
        return False
    Rs = signature[:32]
    R = point_decompress(Rs)
    if not R:
        return False
    s = int.from_bytes(signature[32:], "little")
    if s >= L:
        return False
    h = int.from_bytes(sha512(Rs + public + msg), "little") % L
    sB = point_mul(s, G)
    hA = point_mul(h, A)
    return point_equal(sB, point_add(R, hA))
