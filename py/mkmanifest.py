#!/usr/bin/env python3
"""Regenerate MANIFEST.json from the per-property table below (kept in one place so the
manifest stays valid and current as checks come online)."""
import json, os
V = os.path.dirname(os.path.dirname(os.path.abspath(__file__)))

TECH = "machine-checked proof in Coq 8.16 (theorems about a Gallina model) + model/implementation correspondence by differential execution of the extracted model"

CLAIMS = {
 "C04": ("Theorems for every leaf count, position and batch sequence: the model of MerkleTree (reset/push/compute_root/get_paths on a reused object) equals a functional Merkle tree; completeness; binding up to an exhibited collision. Tied to merkle.rs by running the extracted model, the functional spec (with the Coq SHA-512) and the real MerkleTree on the same batch sequences.",
         "Trusted: Coq kernel; HashLen (digest is 64 bytes; proved for the Coq SHA-512, observed for ring); collision resistance is NOT assumed (disjunct); hand-written model tied by correspondence (generator quality bounds it); extraction (ExtrOcamlBasic) and driver glue."),
 "C05": ("Theorems for every byte string < 2^32: from_bytes accepts iff the independent reference decoder does, with identical content; API-built aligned messages round-trip; accepted non-empty messages re-encode identically; framing. Tag order/wire facts re-proved against the table regenerated from /repo each run. Tied to message.rs/tag.rs by three-way differential execution (impl / extracted model / extracted spec).",
         "Trusted: Coq kernel; Gen/Tables.v reflection printer; Tag::from_wire being the inverse of wire_value is checked by a sweep over 32-bit words (2^24 per quick run, all 2^32 in thorough), not proved; hand-written model tied by correspondence."),
 "C06": ("Theorems for every byte string of any length: from_bytes never reaches a panic site of the model; values of an accepted message are exactly the bytes after the header; to_string returns normally for every message with recursion bounded by MAX_DISPLAY_DEPTH. Tied by differential execution including display under catch_unwind in a 2 MiB-stack thread.",
         "Trusted: Coq kernel; the model's panic sites are those of message.rs (hand-mapped; a removed guard shows up as impl-panics-where-model-errs); a real stack overflow can only be observed (process crash is reported), not proved absent."),
 "C01": ("Theorems on a model of the client binary (every unwrap / index / assert / expect a Panic value = non-zero exit): with a pinned key the client returns a time only if the response is authentic (signature chain from that key under the version's context strings, midpoint in the delegation window, Merkle proof binding its own request), then verified=Yes and the printed time is the signed midpoint; it never returns an error value (fail = panic); no key => never verified; a response authentic for two different requests exhibits a hash collision (no replay). Tied by running the real client binary (hex/base64 key, both protocols) against a scripted responder over the forgery catalogue; the extracted model predicts exit status / verified / time / index with Ed25519 answers from one-shot dalek, and the property is judged by an independent Python check (RFC 8032 transcription).",
         "Trusted: Coq kernel; Ed25519 abstract; nonce freshness is ring SystemRandom (assumption); clap parsing, chrono formatting (output parsed back with -f '%s %f'), the 4096-byte receive buffer constant hand-modelled."),
 "C03": ("Theorems: the client's request is 1024/1036 bytes and well-formed for the server it names; for every reply the server specification prescribes (any batch <= 64, any position, either protocol, pinned key or none) the client model accepts, reports verified iff a key was supplied and outputs exactly the signed midpoint in (seconds, nanoseconds), for every midpoint chrono represents. Since the server model provably emits those replies (C09), client and server are proved to fit. Tied by the real client binary against an independent Python reference responder (own keys, batch positions 0..63, depths 0..6, midpoints from the epoch to year 9999) and against the real server binary with -n 1/9/40.",
         "Trusted: as C01; SigCorrect/PointOk hypotheses on Ed25519."),
 "C02": ("PARTIAL (fault *rate* measured, not proved). Theorems: with fault injection off the model of server.rs/responder.rs emits exactly the functionally specified replies (C09_drain), and every specified reply, for any batch of up to 2^32 requests and any position, is accepted by an independent verifier written from the protocol texts (literal context strings, 64-byte nodes over the nonce for classic, first-32-bytes nodes over the whole request for IETF), relative to SigCorrect; for every PRNG outcome a fault-injected reply is unchanged or rejected outright. Tied by in-process real Server vs extracted model on the same datagram rounds; every real reply goes through the extracted Coq verifier with signature queries answered by one-shot ed25519-dalek, and through a Python Merkle recomputation; failing share at p = 1/10/50 % measured over >= 2000 replies each.",
         "Trusted: Coq kernel; SigCorrect/PkLen/SigLen/HashLen hypotheses on the primitives; the PRNG (rate is a measurement); UDP loopback preserving send order; harness and Python glue."),
 "C07": ("Theorems for EVERY datagram: the classifier model accepts exactly the protocol spec's well-formed requests (1024..1500 bytes, protocol nonce length, exact IETF frame length, supported version among the first four, SRV absent or this server's) with the same nonce/protocol and never panics; rejected datagrams contribute nothing; with at most 64 requests per batch every reply is <= 1024 bytes <= its request. Tied by classification (impl / model / Coq spec) over length-, nonce-length-, frame-length-targeted and mutated datagrams and by the in-process server incl. full batches of maximum depth.",
         "Trusted: Coq kernel; private constants of request.rs (nonce lengths, ITERATION_LIMIT) are hand-modelled and pinned by boundary inputs; batch_size <= 64 is is_valid_config's range."),
 "C08": ("Theorems: for every datagram queue, log level, fault percentage and PRNG outcome the model of process_events returns normally (every panic site of the modelled code, including the debug! argument nonce[0..4], is unreachable; explicit fuel suffices, so the drain terminates) and re-establishes the state invariant, so the next call emits exactly the specified replies. Tied by the in-process server under catch_unwind at all six log levels with a capturing logger, fault 0 and 50, junk interleaved with valid requests; log-record counts compared with the model.",
         "Trusted: Coq kernel; the model's panic sites are those of the Rust (hand-mapped); mio/OS errors other than WouldBlock, and arrivals during processing, are outside the model (queue is a finite list)."),
 "C09": ("Theorems: for any queue and any state left by earlier traffic the drain emits, per batch of batch_size, exactly one datagram per spec-accepted request — IETF replies in arrival order then classic ones — each to its own source with its own nonce, index and inclusion path; rejected datagrams cause none. Tied by in-process real Server vs extracted model over interleavings from 1..20 sockets, identical nonces from different sockets, bursts smaller/equal/larger than batch_size; per-socket reply sequences, INDX rank, PATH/ROOT recomputation checked on the real replies.",
         "Trusted: Coq kernel; source address = socket identity; loopback send order = arrival order."),
 "C12": ("Theorems on the classifier model: answered as IETF only if VER holds draft-13 within its first four entries, always if it does and the other conditions hold, SRV only when it is this server's, never as classic when framed; the signed SREP states draft-13 and the supported versions. Tied by the exhaustive VER-list matrix (length <= 5 quick / 6 thorough over 4 version numbers x SRV absent/right/wrong), SRV single-bit corruptions and wrong lengths, through impl / model / Coq spec, and sampled through the in-process server.",
         "Trusted: Coq kernel; as C07."),
 "C10": ("Theorems: SRV value and public key are functions of the seed alone; the delegation window contains every signable midpoint; the code's context strings equal the protocol texts' (re-proved against the regenerated table) and the two delegation contexts yield different signed strings. Certificates verifying under the long-term key for every responder and signer history is part of C02_honest_verifies + C13. Tied by LongTermKey::new vs one-shot dalek vs a pure-Python RFC 8032 transcription and hashlib, certificate sequences from one LongTermKey object, repeated in-process server starts.",
         "Trusted: Coq kernel; Ed25519/SHA-512 abstract (the RFC 8032 equality is a correspondence observation, not a theorem); 'never verifies under the other context' needs a signature-binding idealisation and is observed, not proved. Restarts of the real multi-worker binary are covered by C15/C18 runs."),
 "C11": ("Theorems for every clock reading (secs < 2^44, nanos < 10^9): classic MIDP = floor(ns/1000) and RADI = 5 000 000; IETF MIDP = secs and RADI = 5; true time in [MIDP, MIDP+1) units, hence within MIDP +/- RADI. Tied by make_srep at ~1000 clock values on both sides plus independent arithmetic, and by replies of a running in-process server bracketed by harness clock readings.",
         "Trusted: Coq kernel; SystemTime::now() is the clock (observed by bracketing); u64 overflow of secs*10^6 beyond year 559 000 is excluded by the stated guard."),
 "C14": ("PARTIAL. Theorems generic in AEAD and KMS provider: round trip for plaintexts >= 32 bytes and wrapped keys < 2^16 bytes; no panic for any blob and any provider answer; every accepted blob decomposes into validated lengths, a provider-unwrapped 32-byte key, a 12-byte nonce and an AEAD-opened ciphertext (nothing bypasses them); parse injectivity; data flow of the blob. Tamper rejection and non-leakage are cryptographic and are observed against real AES-256-GCM: every single-bit/byte modification at every position, every truncation, extensions, provider faults; substring scan for seed and DEK.",
         "Trusted: Coq kernel; AES-256-GCM (ring) and the provider are abstract; tamper *rejection* and secrecy are properties of the primitives, measured not proved; a provider that itself panics is outside the claim (refutation theorem included)."),
 "C16": ("Theorems for every written integer z, every integer-valued key and both sources: a value the server runs with equals the written one and is in range; out-of-range values of the four range-documented keys are refused, never replaced; in-range values are accepted; file and environment agree (status_interval within 16 bits). Tied by make_config + is_valid_config in a child process per (source, key, value) over a boundary grid incl. the type-width wrap points, plus missing/unknown keys and malformed seeds.",
         "Trusted: Coq kernel; the model enters at the integer (YAML / decimal lexing, string-valued settings, directory checks are correspondence-only)."),
 "C13": ("Theorems for every seed and every operation sequence on one signer object (any chunking, any number of messages): each signature is the one-shot signature of its own message's concatenated chunks, nothing carries over a sign(); the verifier's verdict is the direct verification and it panics exactly on a non-point key / non-64-byte signature. Tied to sign.rs by running operation sequences on the real MsgSigner/MsgVerifier; the byte strings the model says are signed are signed by one-shot ed25519-dalek and by a pure-Python RFC 8032 transcription and compared.",
         "Trusted: Coq kernel; Ed25519 itself is abstract in the theorems (any one-shot primitive); that dalek's one-shot API is RFC 8032 is cross-checked against the Python transcription on a sample, not proved."),
 "C17": ("Theorems for every event history, limit, split across workers and snapshot points: conservation (each event in its own counter or in the overflow count, exactly once), boundedness, per-client = aggregated totals without overflow, reporter merge preserves per-address sums. Tied to stats/*.rs by bounded-exhaustive and random operation sequences on the real recorders (hook: PerClientStats::with_limit, Reporter::merged_client_stats) and by in-process server traffic read back through Server::stats_recorder.",
         "Trusted: Coq kernel; counters are unbounded N in the model (u32/usize widths are a stated bound, < 2^32 events per address per interval); first_seen timestamps, CSV/zstd persistence not modelled."),
}

def main():
    props = [json.loads(l) for l in open(os.path.join(V, "properties.jsonl"))]
    man = {
     "version": 1,
     "setup_cmd": "./setup.sh",
     "hooks": {"guard": "roughenough_verif",
               "enable": "RUSTFLAGS=\"--cfg roughenough_verif\" (set by py/vlib.py for every cargo build of /repo and of harness/)",
               "baseline_off_cmd": "cd /repo && cargo test --workspace --no-fail-fast --offline",
               "source_commits": ["a8e355e", "9b4e0d4"], "add_only": False},
     "engines": [
       {"name": "coq-model", "path": "coq/", "serves_properties": sorted(CLAIMS),
        "kind_free_text": "Coq 8.16.1 development: hand-written Gallina model mirroring the Rust control flow (panics as values), independent executable specs, theorems in Properties/Cnn.v; Gen/Tables.v regenerated from /repo by API reflection on every run"},
       {"name": "correspondence", "path": "check", "serves_properties": sorted(CLAIMS),
        "kind_free_text": "differential execution of the model extracted to OCaml (ocaml/driver.ml) and the real library (harness/) on the same generated cases; Python orchestrator py/"}],
     "checks": [], "not_applicable": [],
     "notes": "DESIGN.md explains the approach; known_findings.json lists recorded findings and the fix: commits made in /repo."}
    for p in props:
        pid = p["id"]
        if pid in CLAIMS:
            text, note = CLAIMS[pid]
            man["checks"].append({
              "property_id": pid, "quick_cmd": "./check %s --tier quick" % pid,
              "thorough_cmd": "./check %s --tier thorough" % pid,
              "evidence_file": "evidence/%s.json" % pid,
              "replay_cmd_template": "./check %s --replay {path}" % pid, "engine": "coq-model",
              "level_claimed": {"category": "proof", "text": text, "design_ref": "DESIGN.md §7 " + pid},
              "level_note": note, "technique": TECH})
        else:
            man["not_applicable"].append({"property_id": pid, "reason": "check not built yet in this round (work in progress, see DESIGN.md §11); not claimed"})
    json.dump(man, open(os.path.join(V, "MANIFEST.json"), "w"), indent=1)
    print("claimed:", sorted(CLAIMS))

if __name__ == "__main__":
    main()
