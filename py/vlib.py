"""vlib — shared machinery for the /verif checks: builds (harness, Coq, extracted driver),
running cases on both sides, proof-obligation audit, evidence and verdicts."""
import fcntl, hashlib, json, os, random, re, shutil, subprocess, sys, time

VERIF = os.path.dirname(os.path.dirname(os.path.abspath(__file__)))
REPO = "/repo"
BUILD = os.path.join(VERIF, ".build")
COQ = os.path.join(VERIF, "coq")
TARGET = os.path.join(BUILD, "target")
HARNESS = os.path.join(TARGET, "debug", "rh-harness")
DRIVER = os.path.join(BUILD, "ocaml", "driver")
REPO_TARGET = os.path.join(BUILD, "repo-target")
CLIENT_BIN = os.path.join(REPO_TARGET, "debug", "roughenough-client")
SERVER_BIN = os.path.join(REPO_TARGET, "debug", "roughenough-server")
GUARD_FLAGS = "--cfg roughenough_verif"
NCPU = 16

ENV = dict(os.environ)
ENV.update({"CARGO_NET_OFFLINE": "true", "RUSTFLAGS": GUARD_FLAGS, "CARGO_TERM_COLOR": "never"})

ALLOWED_AXIOMS = {
    # none expected: every property theorem should print "Closed under the global context".
}

FORBIDDEN = re.compile(
    r"\b(Admitted|admit|Axiom|Axioms|Parameter|Parameters|Conjecture|Conjectures|Admit Obligations|"
    r"Unset Guard Checking|Unset Positivity Checking|Unset Universe Checking|bypass_check|"
    r"type-in-type|impredicative-set)\b")


class CheckFailure(Exception):
    pass


def log(msg):
    print(msg, flush=True)


def sh(cmd, cwd=None, timeout=1800, env=None, check=False):
    p = subprocess.run(cmd, cwd=cwd, env=env or ENV, timeout=timeout, stdout=subprocess.PIPE,
                       stderr=subprocess.STDOUT, text=True, errors="replace")
    if check and p.returncode != 0:
        raise CheckFailure("command failed: %s\n%s" % (" ".join(cmd), p.stdout[-4000:]))
    return p.returncode, p.stdout


class Lock:
    def __init__(self, name):
        os.makedirs(BUILD, exist_ok=True)
        self.path = os.path.join(BUILD, name + ".lock")

    def __enter__(self):
        self.f = open(self.path, "w")
        fcntl.flock(self.f, fcntl.LOCK_EX)
        return self

    def __exit__(self, *a):
        fcntl.flock(self.f, fcntl.LOCK_UN)
        self.f.close()


# ---------------------------------------------------------------- builds

def build_harness():
    """Build the Rust harness against /repo's current working tree (hook cfg on)."""
    with Lock("cargo"):
        lock_src = os.path.join(REPO, "Cargo.lock")
        lock_dst = os.path.join(VERIF, "harness", "Cargo.lock")
        if os.path.exists(lock_src) and not os.path.exists(lock_dst):
            shutil.copy(lock_src, lock_dst)
        env = dict(ENV, CARGO_TARGET_DIR=TARGET)
        rc, out = sh(["cargo", "build", "--offline"], cwd=os.path.join(VERIF, "harness"), env=env,
                     timeout=1500)
        flag = os.path.join(BUILD, "harness_degraded")
        if rc != 0:
            # an API used only by an optional command may have changed: rebuild without those commands
            # (they then answer UNAVAILABLE, which the checks that need them report for themselves)
            rc2, out2 = sh(["cargo", "build", "--offline", "--no-default-features"],
                           cwd=os.path.join(VERIF, "harness"), env=env, timeout=1500)
            if rc2 != 0:
                raise CheckFailure("harness build failed (does /repo still compile?):\n" + out[-6000:])
            open(flag, "w").write(out[-3000:])
            log("NOTE harness built without optional commands (API drift): " + out[-400:].replace("\n", " | "))
        elif os.path.exists(flag):
            os.unlink(flag)
    return out


def build_repo_bins():
    """Build /repo's own binaries (client, server) from the working tree, hook cfg on."""
    with Lock("cargo-repo"):
        env = dict(ENV, CARGO_TARGET_DIR=REPO_TARGET)
        rc, out = sh(["cargo", "build", "--offline", "--bins"], cwd=REPO, env=env, timeout=1500)
        if rc != 0:
            raise CheckFailure("repo binaries build failed:\n" + out[-6000:])
    return out


RS2COQ = os.path.join(BUILD, "rs2coq-target", "debug", "rs2coq")


def build_rs2coq():
    """the Rust -> Gallina translator (syn-based, /verif/rs2coq); independent of /repo"""
    with Lock("cargo-rs2coq"):
        env = dict(os.environ, CARGO_NET_OFFLINE="true", CARGO_TARGET_DIR=os.path.join(BUILD, "rs2coq-target"))
        rc, out = sh(["cargo", "build", "--offline"], cwd=os.path.join(VERIF, "rs2coq"), env=env, timeout=900)
        if rc != 0:
            raise CheckFailure("rs2coq build failed:\n" + out[-3000:])


def gen_code():
    """translate the target functions of /repo's CURRENT sources to Gen/Code.v. A function that has left
    the translated subset is left out of the file together with the targets that call it (exit status 2:
    everything else is still generated), so only the lemmas about the affected functions
    (Proofs/Code*.v) stop compiling and only the properties that import those report the broken tie.
    The same holds for a function that translates but whose translation does not type-check in Coq
    (e.g. a comparison emitted for the wrong type after a rename): Gen/Code.v is compiled here, the
    definition at the error position is named to rs2coq (--skip) and the file is regenerated without it.
    Any other failure replaces the file by a stub without definitions."""
    build_rs2coq()
    dest = os.path.join(COQ, "Gen", "Code.v")
    targets = os.path.join(VERIF, "rs2coq", "targets.txt")
    skip = []
    out = ""
    for attempt in range(8):
        cmd = [RS2COQ, REPO, targets, dest] + (["--skip", ",".join(skip)] if skip else [])
        rc, out = sh(cmd)
        if rc not in (0, 2) or not os.path.exists(dest):
            stub = "(* GENERATED: translation FAILED on this run *)\n(* %s *)\n" % out.strip().replace("*)", "* )")[:3000]
            if not os.path.exists(dest) or open(dest).read() != stub:
                open(dest, "w").write(stub)
            log("NOTE rs2coq: " + out.strip()[:600])
            return out
        if rc == 2:
            log("NOTE rs2coq (partial): " + out.strip()[:900])
        bad = code_type_error(dest)
        if bad is None:
            return out
        if bad == "" or bad in skip:
            log("NOTE Gen/Code.v does not type-check and the failing definition could not be isolated")
            return out
        log("NOTE Gen/Code.v: the translation of %s does not type-check; regenerating without it" % bad)
        skip.append(bad)
    return out


def code_type_error(dest):
    """compile Gen/Code.v (after its dependencies); None if it checks, otherwise the name of the
    generated definition that contains the error position ('' if it cannot be determined)"""
    with Lock("coq"):
        coq_makefile()
        rc, deps = sh(["coqdep", "-Q", ".", "RV", "Gen/Code.v"], cwd=COQ)
        m = re.search(r":\s*(.*)", deps.replace("\\\n", " "))
        dep_vos = [d for d in (m.group(1).split() if m else []) if d.endswith(".vo")]
        rc, out = sh(["timeout", "900", "make", "-j%d" % NCPU] + dep_vos, cwd=COQ, timeout=1000)
        if rc != 0:
            return None          # the models themselves do not build: reported by the property's own build
        rc, out = sh(["timeout", "600", "make", "Gen/Code.vo"], cwd=COQ, timeout=650)
    if rc == 0:
        return None
    m = re.search(r'File "\./Gen/Code\.v", line (\d+)', out)
    if not m:
        return ""
    line = int(m.group(1))
    name = ""
    for i, l in enumerate(open(dest).read().split("\n"), 1):
        mm = re.match(r"(?:Definition|Fixpoint) ([A-Za-z0-9_']+)", l)
        if mm:
            if i > line:
                break
            name = mm.group(1)
    return name


def gen_tables():
    with Lock("coq"):
        rc, out = sh([sys.executable, os.path.join(VERIF, "py", "gen_tables.py"), HARNESS,
                      os.path.join(COQ, "Gen", "Tables.v")])
        if rc != 0:
            raise CheckFailure("table generation failed:\n" + out)
        out2 = ""
        gs = os.path.join(VERIF, "py", "gen_sites.py")
        if os.path.exists(gs):
            rc, out2 = sh([sys.executable, gs, REPO, os.path.join(COQ, "Gen", "Sites.v")])
            if rc != 0:
                raise CheckFailure("site generation failed:\n" + out2)
    gen_code()      # after the tables: Gen/Code.v is compiled against today's Gen/Tables.v
    return out + out2


def coq_makefile():
    mk = os.path.join(COQ, "Makefile")
    proj = os.path.join(COQ, "_CoqProject")
    if not os.path.exists(mk) or os.path.getmtime(mk) < os.path.getmtime(proj):
        sh(["coq_makefile", "-f", "_CoqProject", "-o", "Makefile"], cwd=COQ, check=True)


def coq_make(targets, timeout=1500):
    """make the given .vo targets; returns (ok, log)."""
    with Lock("coq"):
        coq_makefile()
        rc, out = sh(["timeout", str(timeout), "make", "-j%d" % NCPU] + targets, cwd=COQ,
                     timeout=timeout + 30)
    return rc == 0, out


def build_driver():
    """(Re)build the extracted OCaml driver when the model changed."""
    ok, out = coq_make(["Extract/Extract.vo"])
    if not ok:
        raise CheckFailure("model does not compile / extract:\n" + out[-6000:])
    with Lock("ocaml"):
        odir = os.path.join(BUILD, "ocaml")
        os.makedirs(odir, exist_ok=True)
        srcs = [os.path.join(COQ, "Extract", "model.ml"), os.path.join(COQ, "Extract", "model.mli"),
                os.path.join(VERIF, "ocaml", "driver.ml")]
        stamp = hashlib.sha256(b"".join(open(s, "rb").read() for s in srcs)).hexdigest()
        sf = os.path.join(odir, "stamp")
        if os.path.exists(DRIVER) and os.path.exists(sf) and open(sf).read() == stamp:
            return
        for s in srcs:
            shutil.copy(s, odir)
        rc, out = sh(["ocamlfind", "ocamlopt", "-O3", "-w", "-a", "-o", "driver", "model.mli",
                      "model.ml", "driver.ml"], cwd=odir, timeout=600)
        if rc != 0:
            raise CheckFailure("driver build failed:\n" + out[-4000:])
        rc, out = sh([DRIVER, "selftest"])
        if rc != 0 or "SELFTEST-OK" not in out:
            raise CheckFailure("driver selftest failed:\n" + out)
        open(sf, "w").write(stamp)


# ---------------------------------------------------------------- proof obligations

def audit_sources():
    """No Admitted/Axiom/... anywhere in the development (comments excluded)."""
    bad = []
    for root, _, files in os.walk(COQ):
        for f in files:
            if not f.endswith(".v"):
                continue
            p = os.path.join(root, f)
            src = open(p).read()
            # strip comments (nested)
            out, depth, i = [], 0, 0
            while i < len(src):
                if src.startswith("(*", i):
                    depth += 1; i += 2
                elif src.startswith("*)", i) and depth > 0:
                    depth -= 1; i += 2
                else:
                    if depth == 0:
                        out.append(src[i])
                    i += 1
            code = "".join(out)
            for m in FORBIDDEN.finditer(code):
                bad.append("%s: %s" % (os.path.relpath(p, COQ), m.group(0)))
            # Variable/Hypothesis outside a section
            depth = 0
            for line in code.splitlines():
                s = line.strip()
                if re.match(r"(Section|Module Type)\b", s):
                    depth += 1
                elif re.match(r"End\b", s) and depth > 0:
                    depth -= 1
                elif depth == 0 and re.match(r"(Variable|Variables|Hypothesis|Hypotheses|Context)\b", s):
                    bad.append("%s: %s outside a section" % (os.path.relpath(p, COQ), s.split()[0]))
    return bad


THEOREM_RE = re.compile(r"^\s*(Theorem|Lemma|Corollary|Example)\s+([A-Za-z0-9_']+)", re.M)


def prove_property(pid, thorough=False):
    """Build the dependencies of Properties/<pid>.v with make, then run coqc on the property
    file itself so that its Print Assumptions output is captured on every run.
    Returns dict(obligations=[names], discharged=[names], failed=str|None, assumptions={name: text})."""
    vfile = "Properties/%s.v" % pid
    src = open(os.path.join(COQ, vfile)).read()
    names = [m.group(2) for m in THEOREM_RE.finditer(src)]
    theorem_names = [m.group(2) for m in THEOREM_RE.finditer(src) if m.group(1) == "Theorem"]
    res = {"obligations": names, "discharged": [], "failed": None, "assumptions": {}, "log": ""}
    with Lock("coq"):
        coq_makefile()
        # dependencies (everything the property file Requires)
        rc, deps = sh(["coqdep", "-Q", ".", "RV", vfile], cwd=COQ)
        m = re.search(r":\s*(.*)", deps.replace("\\\n", " "))
        dep_vos = [d for d in (m.group(1).split() if m else []) if d.endswith(".vo")]
        rc, out = sh(["timeout", "1500", "make", "-j%d" % NCPU] + dep_vos, cwd=COQ, timeout=1600)
        res["log"] = out[-6000:]
        if rc != 0:
            res["failed"] = "dependencies of %s do not check:\n%s" % (vfile, out[-3000:])
            return res
        rc, out = sh(["timeout", "600", "coqc", "-q", "-Q", ".", "RV", "-w",
                      "-notation-overridden,-deprecated-hint-without-locality", vfile], cwd=COQ,
                     timeout=630)
        res["log"] += out[-6000:]
        if rc != 0:
            res["failed"] = "%s does not check:\n%s" % (vfile, out[-3000:])
            return res
    # parse Print Assumptions blocks: they are printed in file order
    blocks = re.split(r"(?m)^(?=Closed under the global context|Axioms:|Section Variables:)", out)
    pa_names = re.findall(r"Print Assumptions\s+([A-Za-z0-9_']+)", src)
    blocks = [b.strip() for b in blocks if b.strip().startswith(("Closed", "Axioms", "Section"))]
    for n, b in zip(pa_names, blocks):
        res["assumptions"][n] = b
    bad = []
    for n in pa_names:
        b = res["assumptions"].get(n)
        if b is None:
            bad.append("%s: no Print Assumptions output" % n)
        elif not b.startswith("Closed under the global context"):
            axs = re.findall(r"^\s*([A-Za-z0-9_.']+)\s*:", b, re.M)
            unknown = [a for a in axs if a not in ALLOWED_AXIOMS]
            if unknown:
                bad.append("%s depends on %s" % (n, ", ".join(unknown)))
    missing = [n for n in theorem_names if n not in pa_names]
    if missing:
        bad.append("no Print Assumptions for: " + ", ".join(missing))
    if bad:
        res["failed"] = "assumption audit failed: " + "; ".join(bad)
        return res
    res["discharged"] = list(names)
    if thorough:
        # independent re-check of the compiled property file and everything it depends on
        with Lock("coq"):
            rc, out = sh(["timeout", "1700", "make", "-j%d" % NCPU, "Properties/%s.vo" % pid], cwd=COQ,
                         timeout=1800)
            if rc == 0:
                rc, out = sh(["timeout", "1700", "coqchk", "-o", "-silent", "-Q", ".", "RV",
                              "RV.Properties.%s" % pid], cwd=COQ, timeout=1800)
        res["coqchk"] = out[-1500:]
        m = re.search(r"\* Axioms:\s*(.*?)\n\s*\n", out, re.S)
        axioms = m.group(1).strip() if m else "?"
        clean = (rc == 0 and axioms == "<none>"
                 and all(re.search(r"\* %s: <none>" % re.escape(k), out) for k in (
                     "Constants/Inductives relying on type-in-type",
                     "Constants/Inductives relying on unsafe (co)fixpoints",
                     "Inductives whose positivity is assumed")))
        if not clean:
            res["failed"] = "coqchk does not confirm %s: rc=%d axioms=%s\n%s" % (pid, rc, axioms, out[-1500:])
            res["discharged"] = []
    return res


# ---------------------------------------------------------------- running cases

def _run_file(binary, lines, tag, timeout):
    cdir = os.path.join(BUILD, "cases")
    os.makedirs(cdir, exist_ok=True)
    path = os.path.join(cdir, "%s-%d-%s.txt" % (tag, os.getpid(), hashlib.md5(("\n".join(lines[:50]) + str(len(lines))).encode()).hexdigest()[:10]))
    with open(path, "w") as f:
        f.write("\n".join(lines))
        f.write("\n")
    try:
        p = subprocess.run([binary, "run", path], stdout=subprocess.PIPE, stderr=subprocess.PIPE,
                           timeout=timeout, env=ENV)
        out = p.stdout.decode("utf-8", "replace").split("\n")
        if out and out[-1] == "":
            out.pop()
        return p.returncode, out, p.stderr.decode("utf-8", "replace")[-2000:]
    finally:
        try:
            os.unlink(path)
        except OSError:
            pass


def run_lines(binary, lines, tag, shards=NCPU, timeout=900, per_shard=200):
    """Run command lines through a line-protocol binary, sharded; returns list of output lines
    (same length as lines). A crashed process yields 'CRASH' for its unanswered lines."""
    if not lines:
        return []
    n = len(lines)
    shards = max(1, min(shards, (n + per_shard - 1) // per_shard))
    size = (n + shards - 1) // shards
    chunks = [lines[i:i + size] for i in range(0, n, size)]
    from concurrent.futures import ThreadPoolExecutor
    results = [None] * len(chunks)

    def work(i):
        rc, out, err = _run_file(binary, chunks[i], "%s%d" % (tag, i), timeout)
        if len(out) < len(chunks[i]):
            out = out + ["CRASH rc=%s" % rc] * (len(chunks[i]) - len(out))
        results[i] = out[:len(chunks[i])]

    with ThreadPoolExecutor(max_workers=shards) as ex:
        list(ex.map(work, range(len(chunks))))
    return [l for c in results for l in c]


def run_impl(lines, **kw):
    return run_lines(HARNESS, lines, "impl", **kw)


def run_model(lines, **kw):
    return run_lines(DRIVER, lines, "model", **kw)


# ---------------------------------------------------------------- known findings

def load_known(pid):
    p = os.path.join(VERIF, "known_findings.json")
    if not os.path.exists(p):
        return []
    data = json.load(open(p))
    return [k for k in data.get("known", []) if k["property"] == pid]


# ---------------------------------------------------------------- context / evidence

class Ctx:
    def __init__(self, pid, tier, seed):
        self.pid, self.tier, self.seed = pid, tier, seed
        self.rng = random.Random(seed * 1000003 + int(hashlib.md5(pid.encode()).hexdigest()[:6], 16))
        self.t0 = time.time()
        self.evaluations = 0
        self.nontrivial = set()
        self.samples = []
        self.notes = []
        self.distribution = {}
        self.violations = []      # (kind, description, replay dict)
        self.known_hits = []
        self.proof = None
        self.traces_validated = 0
        self.extra = {}
        self.assumptions = []
        self.trusted = []
        self.rule = ""

    @property
    def thorough(self):
        return self.tier == "thorough"

    def count(self, key, n=1):
        self.distribution[key] = self.distribution.get(key, 0) + n

    def sample(self, s, limit=8):
        if len(self.samples) < limit:
            self.samples.append(s)

    def note(self, msg):
        if len(self.notes) < 50:
            self.notes.append(msg)
        log("NOTE " + msg)

    def nontriv(self, key):
        self.nontrivial.add(key if isinstance(key, (str, int, tuple)) else str(key))

    def violation(self, kind, desc, replay):
        """kind: 'property' (the property itself fails on the real code on this input) or
        'tie' (proof obligation / correspondence no longer checks, no failing input)."""
        self.violations.append((kind, desc, replay))

    # ---- verdict
    def finish(self):
        wall = time.time() - self.t0
        known = load_known(self.pid)
        for k in known:
            log("KNOWN-FINDING: property=%s %s" % (self.pid, k["what"]))
        rdir = os.path.join(VERIF, "evidence", "replay")
        os.makedirs(rdir, exist_ok=True)
        exit_code = 0
        vcount = 0
        # property violations first, then tie breaks
        prop_v = [v for v in self.violations if v[0] == "property"]
        tie_v = [v for v in self.violations if v[0] == "tie"]
        reported = prop_v[:3] if prop_v else tie_v[:3]
        for i, (kind, desc, replay) in enumerate(reported):
            path = os.path.join(rdir, "%s-%s-%d-%d.json" % (self.pid, self.tier, self.seed, i))
            replay = dict(replay)
            replay.update({"property": self.pid, "kind": kind, "description": desc,
                           "replay_cmd": "cd /verif && ./check %s --replay %s" % (self.pid, path)})
            json.dump(replay, open(path, "w"), indent=1)
            suffix = "" if kind == "property" else " no-failing-input-found"
            log("VIOLATION property=%s replay=%s%s" % (self.pid, path, suffix))
            log("  " + desc[:1500])
            vcount += 1
            exit_code = 1
        ob = self.proof["obligations"] if self.proof else []
        di = self.proof["discharged"] if self.proof else []
        cov = {
            "obligations": len(ob),
            "discharged": len(di),
            "checker_cmd": "make -C /verif/coq <deps>.vo && coqc -Q . RV Properties/%s.v (Coq 8.16.1 kernel; Print Assumptions parsed; source audit for Admitted/Axiom/...)" % self.pid,
            "trusted_base": self.trusted or default_trusted(),
            "obligation_names": ob,
            "assumptions_printed": (self.proof or {}).get("assumptions", {}),
            "coqchk": (self.proof or {}).get("coqchk", "not run in the quick tier (thorough runs coqchk -o on the property file)"),
            "evaluations": self.evaluations,
            "distinct_nontrivial": len(self.nontrivial),
            "rule": self.rule,
            "samples": self.samples[:8] if self.samples else ["(no samples)"],
            "traces_validated_against_impl": self.traces_validated,
            "input_distribution": self.distribution,
            "notes": self.notes,
        }
        cov.update(self.extra)
        ev = {
            "property_id": self.pid, "tier": self.tier, "seed": self.seed, "level": "proof",
            "coverage": cov, "assumptions": self.assumptions or assumptions_for(self.pid), "wall_s": round(wall, 2),
            "violations": vcount,
        }
        os.makedirs(os.path.join(VERIF, "evidence"), exist_ok=True)
        tmp = os.path.join(VERIF, "evidence", "%s.json.tmp" % self.pid)
        json.dump(ev, open(tmp, "w"), indent=1)
        os.replace(tmp, os.path.join(VERIF, "evidence", "%s.json" % self.pid))
        log("%s %s: obligations %d/%d, evaluations %d, nontrivial %d, violations %d, %.1fs" % (
            self.pid, self.tier, len(di), len(ob), self.evaluations, len(self.nontrivial), vcount, wall))
        return exit_code


# premises of the closed theorems (Section hypotheses after the sections close) and the named
# environment assumptions of each property, printed into the evidence
HYP = {
 "HashLen": "HashLen: the hash returns 64 bytes (proved for the Coq SHA-512, C04_sha512_length; observed for ring)",
 "PkLen": "PkLen: Ed25519 public keys are 32 bytes",
 "SigLen": "SigLen: Ed25519 signatures are 64 bytes",
 "SigCorrect": "SigCorrect: verify (pk s) m (sign s m) = true (Ed25519 correctness; the primitive itself is abstract)",
 "PointOk": "PointOk: a public key derived from a seed is a valid curve point",
}
ASSUME = {
 "C01": ["HashLen", "collision resistance is NOT assumed: C01_no_replay concludes `... or a Collision`", "nonce freshness = ring::rand::SystemRandom (not a theorem)"],
 "C02": ["HashLen", "PkLen", "SigLen", "SigCorrect", "the fault RATE is a property of SmallRng/Bernoulli: measured, not proved"],
 "C03": ["HashLen", "PkLen", "SigLen", "SigCorrect", "PointOk", "chrono formatting is checked by parsing the output back, not modelled"],
 "C04": ["HashLen", "collision resistance is NOT assumed (binding concludes `... or a Collision`)"],
 "C05": ["inputs shorter than 2^32 bytes (where `as u32` is the identity)"],
 "C06": ["a real stack overflow can only be observed, not proved absent (display recursion is proved bounded by MAX_DISPLAY_DEPTH)"],
 "C07": ["HashLen", "PkLen", "SigLen", "batch_size <= 64 (is_valid_config's range)"],
 "C08": ["HashLen", "PkLen", "SigLen", "the receive queue of one process_events call is a finite list; mio/OS errors other than WouldBlock are outside the model"],
 "C09": ["HashLen", "PkLen", "SigLen", "source address = socket identity; loopback preserves send order", "send failures are an explicit input (send_fails)"],
 "C10": ["Ed25519 and SHA-512 abstract: equality with RFC 8032 is a correspondence observation", "`never verifies under the other context` needs a signature-binding idealisation: observed, not proved"],
 "C11": ["secs < 2^44, nanos < 10^9 (stated guards)", "SystemTime::now() is the clock; observed by bracketing and by the concurrent-sender race"],
 "C12": ["as C07"],
 "C13": ["Ed25519 abstract (any one-shot primitive); dalek's one-shot API cross-checked against a pure-Python RFC 8032 transcription"],
 "C14": ["AEAD and KMS provider abstract (round-trip hypotheses AeadCorrect / KmsCorrect as premises)", "tamper rejection and secrecy are properties of AES-256-GCM / the provider: measured, not proved"],
 "C15": ["Linux bind / accept / edge-triggered epoll semantics as written into Model/Process.v", "thread creation, scheduling, timing observed"],
 "C16": ["the model enters at the integer written / at the getters' values (YAML and decimal lexing observed)"],
 "C17": ["HashLen", "PkLen", "SigLen", "counters unbounded N in the model (< 2^32 events per address per interval)", "first_seen timestamps, CSV/zstd persistence not modelled"],
 "C18": ["HashLen", "PkLen", "SigLen", "the kernel delivers each datagram to exactly one SO_REUSEPORT socket; workers share no mutable state but the stats queue (observed)"],
 "C19": ["HashLen", "PkLen", "SigLen", "signal delivery, ctrlc thread, joins and wall-clock bounds observed", "KNOWN FINDING flood-shutdown (known_findings.json)"],
 "C20": ["that compiled code has no emission path outside the scanned call sites, and that public keys / signatures do not reveal the seed, are not theorems"],
}


def assumptions_for(pid):
    return [HYP.get(a, a) for a in ASSUME.get(pid, [])]


def default_trusted():
    return [
        "Coq 8.16.1 kernel (coqc); vm_compute used in finite lemmas; no native_compute",
        "no axioms: every property theorem prints 'Closed under the global context' (audited each run)",
        "model is hand-written Gallina mirroring the Rust; tie = Gen/Tables.v (API reflection) + Gen/Sites.v (log / panic sites and the integer literals of every modelled function, lexical scan) regenerated from /repo each run and re-proved against, and differential execution of the extracted model vs the real library (harness/) and binaries",
        "extraction to OCaml with ExtrOcamlBasic only; driver byte<->int glue self-tested",
        "Rust harness glue, OCaml driver, Python orchestrator and generators (generator quality bounds the correspondence)",
    ]


def prepare(ctx, need_bins=False):
    """Common build steps; proof obligations for ctx.pid. Never raises for a broken proof:
    that is a verdict, recorded in ctx.proof['failed']."""
    build_harness()
    gen_tables()
    if need_bins:
        build_repo_bins()
    bad = audit_sources()
    ctx.proof = prove_property(ctx.pid, ctx.thorough)
    if bad:
        ctx.proof["failed"] = "source audit: " + "; ".join(bad[:10])
        ctx.proof["discharged"] = []
    build_driver()
    if ctx.proof["failed"]:
        log("PROOF-BROKEN " + ctx.proof["failed"][:3000])


def run_sessions(binary, sessions, tag, shards=NCPU, timeout=900):
    """sessions: list of lists of command lines that must run in order in ONE process (they share
    state, e.g. an in-process server). Returns a list of lists of output lines."""
    if not sessions:
        return []
    shards = max(1, min(shards, len(sessions)))
    groups = [[] for _ in range(shards)]
    for i, s in enumerate(sessions):
        groups[i % shards].append(i)
    from concurrent.futures import ThreadPoolExecutor
    results = [None] * len(sessions)

    def work(g):
        idxs = groups[g]
        lines = []
        for i in idxs:
            lines += sessions[i]
        rc, out, err = _run_file(binary, lines, "%s-s%d" % (tag, g), timeout)
        if len(out) < len(lines):
            out = out + ["CRASH rc=%s" % rc] * (len(lines) - len(out))
        k = 0
        for i in idxs:
            results[i] = out[k:k + len(sessions[i])]
            k += len(sessions[i])

    with ThreadPoolExecutor(max_workers=shards) as ex:
        list(ex.map(work, range(shards)))
    return results
