"""C16 — effective settings equal the written ones (file or env), else start is refused."""
import os, subprocess, tempfile
from concurrent.futures import ThreadPoolExecutor
import vlib, rt
from props.codec import proof_verdict

SEED = "a32049da0ffde0ded92ce10a0230d35fe615ec8461c14986baa63fe3b3bac3db"
KEYS = {"port": "ROUGHENOUGH_PORT", "batch_size": "ROUGHENOUGH_BATCH_SIZE", "status_interval": "ROUGHENOUGH_STATUS_INTERVAL",
        "health_check_port": "ROUGHENOUGH_HEALTH_CHECK_PORT", "fault_percentage": "ROUGHENOUGH_FAULT_PERCENTAGE",
        "num_workers": "ROUGHENOUGH_NUM_WORKERS"}
OUTKEY = {"port": "port", "batch_size": "batch", "status_interval": "status", "health_check_port": "health",
          "fault_percentage": "fault", "num_workers": "workers"}
DOC_RANGE = {"port": (1, 65535), "batch_size": (1, 64), "fault_percentage": (0, 50), "num_workers": (1, 2**64 - 1)}


def probe(source, settings, workdir, idx):
    """returns ('RUN', {getters}) | ('REFUSED', reason)"""
    env = {k: v for k, v in os.environ.items() if not k.startswith("ROUGHENOUGH_")}
    if source == "File":
        path = os.path.join(workdir, "c%d.yaml" % idx)
        with open(path, "w") as f:
            for k, v in settings:
                f.write("%s: %s\n" % (k, v))
        arg = path
    else:
        for k, v in settings:
            env[KEYS.get(k, "ROUGHENOUGH_" + k.upper())] = str(v)
        arg = "ENV"
    p = subprocess.run([vlib.HARNESS, "config", arg], env=env, capture_output=True, text=True, timeout=30)
    out = p.stdout.strip()
    if p.returncode != 0:
        return ("REFUSED", "exit %d (panic)" % p.returncode)
    if out.startswith("ERR"):
        return ("REFUSED", out)
    d = dict(tok.split("=", 1) for tok in out.split()[1:] if "=" in tok)
    if d.get("valid") != "1":
        return ("REFUSED", "is_valid_config = false")
    return ("RUN", d)


def run_c16(ctx):
    ctx.rule = ("every integer-valued documented key x boundary grid (min-1, min, typical, max, max+1, 255/256/300/"
                "65535/65536/70000, negatives, 2^31, 2^32, 2^63-1) x both sources through make_config + is_valid_config "
                "in a child process; missing / unknown keys; seed strings of wrong length or alphabet; whole configurations: "
                "product of per-setting classes x client_stats x persistence directory state (none/good/read-only/file/missing); non-trivial = "
                "distinct (source, key, value) with the value outside the narrow type's range or at a documented bound; case variants of the "
                "enabling spellings of client_stats in both sources; the real binary started with num_workers = 1 and cores + 3 from both sources, worker threads counted")
    vlib.prepare(ctx, need_bins=True)
    grid = [-70000, -256, -1, 0, 1, 2, 32, 49, 50, 51, 63, 64, 65, 100, 254, 255, 256, 257, 300, 1000, 8686, 65534, 65535,
            65536, 65537, 70000, 2**31 - 1, 2**31, 2**32 - 1, 2**32, 2**32 + 1, 2**63 - 1, 2**63, 2**64 - 1, 2**64]
    base = [("interface", "127.0.0.1"), ("port", 8686), ("seed", SEED)]
    cases = []
    for src in ("File", "Env"):
        for key in KEYS:
            for z in grid:
                settings = [(k, v) for k, v in base if k != key] + [(key, z)]
                cases.append((src, key, z, settings))
    workdir = tempfile.mkdtemp(prefix="cfg", dir=vlib.BUILD)
    with ThreadPoolExecutor(max_workers=vlib.NCPU) as ex:
        results = list(ex.map(lambda a: probe(a[1][0], a[1][3], workdir, a[0]), enumerate(cases)))
    model = vlib.run_model(["cfg %s %s %d" % (s, k, z) for s, k, z, _ in cases])
    ctx.evaluations += len(cases)
    by_kz = {}
    for (src, key, z, settings), (st, info), lm in zip(cases, results, model):
        rep = {"cmd": "config", "source": src, "key": key, "value": z, "settings": [[k, str(v)] for k, v in settings],
               "impl": [st, str(info)[:300]], "model": lm}
        got = ("RUN " + info[OUTKEY[key]]) if st == "RUN" else "REFUSED"
        ctx.count("%s:%s" % (src, "run" if st == "RUN" else "refused"))
        # ---- property on the real loader
        if st == "RUN" and int(info[OUTKEY[key]]) != z:
            ctx.violation("property", "%s %s = %d is silently replaced by %s" % (src, key, z, info[OUTKEY[key]]), rep); continue
        if key in DOC_RANGE:
            lo, hi = DOC_RANGE[key]
            if not (lo <= z <= hi) and st == "RUN":
                ctx.violation("property", "%s %s = %d is outside the documented range %d..%d but start-up is not refused" % (src, key, z, lo, hi), rep); continue
            if lo <= z <= hi and st != "RUN" and not (key == "num_workers" and z > 2**31):
                ctx.violation("property", "%s %s = %d is inside the documented range but start-up is refused (%s)" % (src, key, z, info), rep); continue
        by_kz.setdefault((key, z), {})[src] = got
        if got != lm:
            ctx.violation("tie", "model and implementation disagree on the effective setting: impl %s / model %s" % (got, lm), rep)
        else:
            ctx.traces_validated += 1
            if z in (0, 1, 50, 51, 64, 65, 255, 256, 300, 65535, 65536, 70000) or z < 0:
                ctx.nontriv("%s:%s:%d" % (src, key, z))
    for (key, z), d in by_kz.items():
        if key == "status_interval" and z > 65535:
            continue
        if key == "num_workers" and z > 2**63 - 1:
            continue      # a literal above the YAML integer range is not an integer for the file loader
        if len(d) == 2 and d["File"] != d["Env"]:
            ctx.violation("property", "%s = %d: file gives %s but environment gives %s" % (key, z, d["File"], d["Env"]),
                          {"cmd": "config", "key": key, "value": z})
    ctx.sample({"case": [cases[3][0], cases[3][1], cases[3][2]], "impl": str(results[3])[:200], "model": model[3]})
    # ---- missing required, unknown key, seed strings, string-valued settings
    extra = []
    for src in ("File", "Env"):
        for drop in ("interface", "port", "seed"):
            extra.append((src, [(k, v) for k, v in base if k != drop], "REFUSED", "missing " + drop))
        extra.append((src, base, "RUN", "minimal"))
        for bad, why in ((SEED[:-2], "short seed"), (SEED + "00", "long seed"), ("zz" + SEED[2:], "non-hex seed"), ("", "empty seed")):
            extra.append((src, [(k, (bad if k == "seed" else v)) for k, v in base], "REFUSED", why))
        extra.append((src, base + [("client_stats", "on")], "REFUSED", "client_stats without persistence_directory"))
        extra.append((src, base + [("client_stats", "on"), ("persistence_directory", workdir)], "RUN", "client_stats with directory"))
        extra.append((src, base + [("client_stats", "off")], "RUN", "client_stats off"))
        # the documented spellings are matched case-insensitively, in BOTH sources alike
        for v in ("ON", "On", "oN", "YES", "Yes", "yEs"):
            extra.append((src, base + [("client_stats", v)], "REFUSED", "client_stats %s without persistence_directory" % v))
            extra.append((src, base + [("client_stats", v), ("persistence_directory", workdir)], "RUN", "client_stats %s with directory" % v))
        # (bare `true` / `1` are not strings in YAML: the file source refuses them with a panic, which is
        #  a refusal, not a silent replacement; they are left out so that both sources see the same string)
        for v in ("OFF", "No", "no", "enabled", "y"):
            extra.append((src, base + [("client_stats", v)], "RUN", "client_stats %s (not an enabling spelling)" % v))
        extra.append((src, base + [("kms_protection", "plaintext")], "RUN", "plaintext kms"))
        extra.append((src, base + [("interface", "not an address")][-1:] + [b for b in base if b[0] != "interface"], "REFUSED", "bad interface"))
    extra.append(("File", base + [("bogus_key", 1)], "REFUSED", "unknown key"))
    extra.append(("File", base + [("batch_size", "sixty")], "REFUSED", "non-integer batch_size"))
    with ThreadPoolExecutor(max_workers=vlib.NCPU) as ex:
        res = list(ex.map(lambda a: probe(a[1][0], a[1][1], workdir, 100000 + a[0]), enumerate(extra)))
    ctx.evaluations += len(extra)
    for (src, settings, want, why), (st, info) in zip(extra, res):
        ctx.count("extra:" + why)
        if st != want:
            ctx.violation("property", "%s configuration with %s: expected %s, got %s (%s)" % (src, why, want, st, str(info)[:100]),
                          {"cmd": "config", "source": src, "settings": [[k, str(v)] for k, v in settings], "why": why})
        else:
            ctx.nontriv("extra:%s:%s" % (src, why))
    whole_config_grid(ctx, workdir)
    text_level_loaders(ctx, workdir)
    effective_batch_size(ctx)
    running_server_uses_written_values(ctx, workdir)
    import shutil
    subprocess.run(["chmod", "-R", "u+w", workdir])
    shutil.rmtree(workdir, ignore_errors=True)
    proof_verdict(ctx)


# ---------------------------------------------------------------- the loaders at the level of the TEXT
ENV_MAX = {"port": 65535, "batch_size": 255, "status_interval": 65535, "health_check_port": 65535,
           "fault_percentage": 255, "num_workers": 2**64 - 1}
FILE_MAX = {"port": 65535, "batch_size": 255, "status_interval": 2**63 - 1, "health_check_port": 65535,
            "fault_percentage": 255, "num_workers": 2**63 - 1}


def _int_texts(rng, mx):
    """texts for an integer-valued setting: mostly valid decimal, plus the shapes str::parse refuses"""
    vals = [0, 1, 2, 50, 64, 255, 256, 300, 8686, 65535, 65536, 70000, 2**31, 2**32, 2**63 - 1, 2**63, 2**64 - 1, 2**64, 10**30]
    out = [str(v) for v in vals]
    small = vals[:8]
    out += ["+%d" % rng.choice(vals), "-%d" % rng.choice(vals), "-0", "+0", "00%d" % rng.choice(small), " %d" % rng.choice(small),
            "%d " % rng.choice(small), "", "+", "-", "1_000", "0x10", "1e3", "12a", "٣", "1.0", "++1"]
    if mx:
        out += [str(mx), str(mx + 1), str(mx - 1)]
    return out


def _parse_kv(line):
    return dict(tok.split("=", 1) for tok in line.split()[1:] if "=" in tok)


def text_level_loaders(ctx, workdir):
    """FileConfig::new / EnvironmentConfig::new against Model/LoadModel.v on the same TEXT: YAML files (the
    model is given the values yaml-rust produced for the file) and environment strings. Besides the tie, an
    independent oracle on the integer settings: a configuration that loads carries, for each integer
    variable that is set, the number its text denotes (strict decimal, optional '+'), which fits the type."""
    import re, binascii
    rng = ctx.rng
    hexs = lambda b: binascii.hexlify(b).decode() if b else "-"
    # ---- environment cases
    env_cases = []
    for key, var in KEYS.items():
        for t in _int_texts(rng, ENV_MAX[key]):
            env_cases.append({var: t})
    seeds = [SEED, SEED.upper(), SEED[:10].upper() + SEED[10:], SEED[:-1], SEED + "0", "zz" + SEED[2:], "", " " + SEED, SEED + "\n"]
    for sd in seeds:
        env_cases.append({"ROUGHENOUGH_SEED": sd, "ROUGHENOUGH_PORT": "2002"})
    for cs in ("on", "ON", "yes", "YeS", "oN", "off", "true", "1", "", "yes ", "ön", "ONN"):
        env_cases.append({"ROUGHENOUGH_CLIENT_STATS": cs})
    for kms in ("plaintext", "Plaintext", "arn:aws:kms:x", "arn:", "ar", "projects/p/locations/l", "projects", "projects/", "", "plaintext "):
        env_cases.append({"ROUGHENOUGH_KMS_PROTECTION": kms})
    for pd in ("/tmp", "", "relative/dir", "/a b"):
        env_cases.append({"ROUGHENOUGH_PERSISTENCE_DIRECTORY": pd})
    env_cases.append({"ROUGHENOUGH_INTERFACE": "127.0.0.1"})
    env_cases.append({})
    for _ in range(40 if ctx.tier == "quick" else 400):
        c = {}
        for key, var in rng.sample(sorted(KEYS.items()), rng.randint(1, 4)):
            c[var] = rng.choice(_int_texts(rng, ENV_MAX[key]))
        if rng.random() < 0.5:
            c["ROUGHENOUGH_SEED"] = rng.choice(seeds)
        env_cases.append(c)

    def run_env(c):
        env = {k: v for k, v in os.environ.items() if not k.startswith("ROUGHENOUGH_")}
        env.update(c)
        p = subprocess.run([vlib.HARNESS, "loadcfg", "env"], env=env, capture_output=True, text=True, timeout=60)
        return p.stdout.strip().split("\n")
    with ThreadPoolExecutor(max_workers=vlib.NCPU) as ex:
        env_out = list(ex.map(run_env, env_cases))
    lines = []
    for c, out in zip(env_cases, env_out):
        cores = out[0].split()[1] if out and out[0].startswith("CORES") else "1"
        vars_ = ",".join("%s=%s" % (hexs(k.encode()), hexs(v.encode())) for k, v in sorted(c.items())) or "-"
        lines.append("envload %s %s" % (cores, vars_))
    model = vlib.run_model(lines)
    ctx.evaluations += len(env_cases)
    strict = re.compile(r"^\+?[0-9]+$")
    for c, out, lm, ln in zip(env_cases, env_out, model, lines):
        got = out[-1] if out else "NO-OUTPUT"
        rep = {"cmd": "loadcfg-env", "env": c, "impl": got, "model": lm, "model_line": ln}
        ctx.count("env-text:" + got.split()[0])
        if got.startswith("OK"):
            d = _parse_kv(got)
            bad = None
            for key, var in KEYS.items():
                if var in c:
                    t = c[var]
                    if not strict.match(t) or not t.isascii():
                        bad = "%s=%r is not a decimal number but the configuration loads (%s=%s)" % (var, t, OUTKEY[key], d[OUTKEY[key]])
                    elif int(t) != int(d[OUTKEY[key]]):
                        bad = "%s=%r is loaded as %s" % (var, t, d[OUTKEY[key]])
                    elif int(t) > ENV_MAX[key]:
                        bad = "%s=%r exceeds the field's type but loads" % (var, t)
            if bad:
                ctx.violation("property", bad, rep)
                continue
        if got != lm:
            ctx.violation("tie", "environment loader and its model disagree on the same variables: impl %s / model %s" % (got[:120], lm[:120]), rep)
        else:
            ctx.traces_validated += 1
            if not got.startswith("OK") or len(c) > 1:
                ctx.nontriv("envtext:" + rt.fnv64(repr(sorted(c.items())).encode()))
    ctx.sample({"env": env_cases[5], "impl": env_out[5][-1][:200], "model": model[5][:200]})

    # ---- file cases
    def yaml_of(entries):
        return "".join("%s: %s\n" % (k, v) for k, v in entries)
    files = []
    for key in KEYS:
        for t in _int_texts(rng, FILE_MAX[key]) + ['"80"', "'80'", "8.5", "true", "~", "0o17", "0b11", "[1]", "{a: 1}"]:
            files.append(yaml_of([(key, t)]))
    files += [yaml_of([("port", 1), ("port", 2)]), yaml_of([("port", 70000), ("port", 2)]), yaml_of([("port", 2), ("port", 70000)]),
              "", "---\n", "port: 1\n---\nport: 2\n", "- 1\n- 2\n", "just a string\n", "1: 2\n", "? [a]\n: 1\n", "port: 1\nbogus: 2\n",
              "Port: 1\n", "port : 1\n", "port:\n", "\tport: 1\n", "port: 1\n  batch_size: 2\n", "port: &a 5\nbatch_size: *a\n"]
    for sd in seeds:
        files.append(yaml_of([("seed", sd), ("port", 2002)]))
        files.append(yaml_of([("seed", '"%s"' % sd.strip()), ("port", 2002)]))
    files.append(yaml_of([("seed", "12" * 32)]))      # all digits: a YAML number, not a string
    files.append(yaml_of([("seed", "12345678")]))
    for cs in ("on", "ON", "yes", "YeS", "off", "true", "1", '"on"', "On", "y", "~"):
        files.append(yaml_of([("client_stats", cs)]))
    for kms in ("plaintext", "Plaintext", "arn:aws:kms:x", '"arn:"', "ar", "projects/p/locations/l", "projects", "projects/", "5"):
        files.append(yaml_of([("kms_protection", kms)]))
    for pd in ("/tmp", "5", '""', "relative/dir", "~"):
        files.append(yaml_of([("persistence_directory", pd)]))
    files.append(yaml_of([("interface", "127.0.0.1")]))
    files.append(yaml_of([("interface", "5")]))
    allkeys = list(KEYS) + ["interface", "seed", "client_stats", "kms_protection", "persistence_directory", "bogus"]
    for _ in range(40 if ctx.tier == "quick" else 400):
        es = []
        for key in [rng.choice(allkeys) for _ in range(rng.randint(1, 5))]:
            if key in KEYS:
                es.append((key, rng.choice(_int_texts(rng, FILE_MAX[key])[:24])))
            elif key == "seed":
                es.append((key, rng.choice(seeds[:6]) or '""'))
            else:
                es.append((key, rng.choice(["on", "plaintext", "/tmp", "127.0.0.1", "5", "arn:x"])))
        files.append(yaml_of(es))

    def run_file(a):
        i, text = a
        path = os.path.join(workdir, "t%d.yaml" % i)
        with open(path, "w") as f:
            f.write(text)
        env = {k: v for k, v in os.environ.items() if not k.startswith("ROUGHENOUGH_")}
        p = subprocess.run([vlib.HARNESS, "loadcfg", "file", path], env=env, capture_output=True, text=True, timeout=60)
        return p.stdout.strip().split("\n")
    with ThreadPoolExecutor(max_workers=vlib.NCPU) as ex:
        file_out = list(ex.map(run_file, enumerate(files)))
    lines = []
    for out in file_out:
        cores = out[0].split()[1] if out and out[0].startswith("CORES") else "1"
        docs = out[1][5:] if len(out) > 1 and out[1].startswith("DOCS ") else "P"
        lines.append("fileload %s %s" % (cores, docs))
    model = vlib.run_model(lines)
    ctx.evaluations += len(files)
    for text, out, lm, ln in zip(files, file_out, model, lines):
        got = out[-1] if out else "NO-OUTPUT"
        rep = {"cmd": "loadcfg-file", "yaml": text, "impl": got, "model": lm, "model_line": ln}
        ctx.count("file-text:" + got.split()[0])
        if got.startswith("OK"):
            # a file is ONE mapping: anything else (no document, several documents) must be refused — settings
            # written after a `---` would otherwise be dropped without a word
            parts = ln.split(" ")
            if len(parts) >= 3 and parts[2].isdigit() and int(parts[2]) != 1:
                ctx.violation("property", "a file holding %s YAML documents loads: only the first is read, the settings written in the others are silently dropped" % parts[2], rep)
                continue
            # oracle on single-line integer files: what is written is the integer the YAML library reads from the
            # line (yaml-rust has its own leniencies, e.g. `++1` is 1: lexing YAML is the library's business,
            # not the loader's); the loaded value must be that integer
            m = re.match(r"^(\w+): (\S*)\n$", text)
            if m and m.group(1) in KEYS:
                key, t = m.group(1), m.group(2)
                d = _parse_kv(got)
                mi = re.match(r"^H:s[0-9a-f]+=i(-?[0-9]+)$", ln.split(" ", 3)[3]) if ln.count(" ") >= 3 else None
                if mi is None:
                    ctx.violation("property", "%s: %s is not a YAML integer but the file loads (%s=%s)" % (key, t, OUTKEY[key], d[OUTKEY[key]]), rep)
                    continue
                if int(mi.group(1)) != int(d[OUTKEY[key]]):
                    ctx.violation("property", "%s: %s (the integer %s) is loaded as %s" % (key, t, mi.group(1), d[OUTKEY[key]]), rep)
                    continue
        if got != lm:
            ctx.violation("tie", "file loader and its model disagree on the same YAML values: impl %s / model %s" % (got[:120], lm[:120]), rep)
        else:
            ctx.traces_validated += 1
            if not got.startswith("OK") or text.count("\n") > 1:
                ctx.nontriv("filetext:" + rt.fnv64(text.encode()))
    ctx.sample({"yaml": files[3], "impl": file_out[3][-1][:200], "model": model[3][:200]})


def effective_batch_size(ctx):
    """the batch_size the server RUNS with is the one written: an in-process server is given a backlog of
    2b + 1 classic requests before ONE process_events call; grouping the replies by their signed response
    (one SREP per batch) must give batches of b, b, 1 (b, 1 for the large ones) for every b, powers of two or not"""
    from props import server as srvmod
    r = ctx.rng
    bs = [1, 2, 3, 5, 6, 7, 12, 33, 63]
    sessions = []
    for b in bs:
        # (the backlog must fit the socket's receive buffer: 2b + 1 datagrams up to b = 12, b + 1 above)
        nreq = 2 * b + 1 if b <= 12 else b + 1
        reqs = [rt.mk_classic(bytes(r.getrandbits(8) for _ in range(64)), 1024) for _ in range(nreq)]
        sessions.append(["serve new %d 0 3 0 %s" % (b, SEED), "serve run 4 " + ";".join("%d:%s" % (i % 4, rt.hx(d)) for i, d in enumerate(reqs)), "serve drop"])
    outs = vlib.run_sessions(vlib.HARNESS, sessions, "c16b")
    for b, sess, out in zip(bs, sessions, outs):
        ctx.evaluations += 1
        rep = {"cmd": "serve", "lines": sess, "batch_size": b, "impl": [o[:200] for o in out]}
        pr = srvmod.parse_run(out[1])
        import collections
        cnt = collections.Counter()
        for _, reply in pr["replies"]:
            f = srvmod.fields_of(reply, "Google")
            cnt[dict(f).get("SREP") if f else None] += 1
        sizes = sorted(cnt.values(), reverse=True)
        want = [1, 1, 1] if b == 1 else ([b, b, 1] if b <= 12 else [b, 1])
        if sizes != want:
            ctx.violation("property", "batch_size %d is written but a backlog of %d requests was answered in batches of %s" % (b, sum(want), sizes), rep)
        else:
            ctx.traces_validated += 1
            ctx.nontriv("batch:%d" % b)


def running_server_uses_written_values(ctx, workdir):
    """the value the server RUNS with is the value written: the real binary is started from both sources
    with num_workers = 1 and = (number of cores + 3) and its worker threads are counted"""
    from props import process as procmod
    ncpu = os.cpu_count() or 4
    for src in ("file", "env"):
        for nw in (1, ncpu + 3):
            srv = procmod.Server({"num_workers": nw}, source=src, workdir=workdir)
            rep = {"cmd": "config-run", "source": src, "num_workers": nw}
            try:
                ready = srv.wait_ready()
                # the workers are spawned one after the other: the first one serving does not mean the last one
                # has been started yet, so the count is polled until it is the written one (or 15 s have passed);
                # two more looks afterwards see a server that keeps spawning
                import time as _t
                t_end = _t.time() + 15
                while True:
                    workers = sorted({t for t in srv.threads() if t.startswith("worker-")})
                    if len(workers) == nw or _t.time() > t_end or not ready:
                        break
                    _t.sleep(0.1)
                if len(workers) == nw:
                    for _ in range(2):
                        _t.sleep(0.2)
                        workers = sorted({t for t in srv.threads() if t.startswith("worker-")})
                ctx.evaluations += 1
                if not ready:
                    ctx.violation("property", "server with num_workers=%d (%s) did not start serving" % (nw, src), dict(rep, log=srv.log()[-800:]))
                elif len(workers) != nw:
                    ctx.violation("property", "num_workers=%d written (%s) but the server runs %d worker threads" % (nw, src, len(workers)),
                                  dict(rep, workers=workers))
                else:
                    ctx.nontriv("run:%s:%d" % (src, nw))
            finally:
                srv.stop()


def whole_config_grid(ctx, workdir):
    """is_valid_config over WHOLE configurations: the full product of per-setting classes (each
    setting valid / invalid in its documented ways) x client_stats x the state of the persistence
    directory x both sources. An invalid value must refuse start-up whatever the other settings are."""
    import itertools
    good = os.path.join(workdir, "pd_good"); os.makedirs(good, exist_ok=True)
    ro = os.path.join(workdir, "pd_readonly"); os.makedirs(ro, exist_ok=True); os.chmod(ro, 0o555)
    afile = os.path.join(workdir, "pd_file"); open(afile, "w").write("x")
    missing = os.path.join(workdir, "pd_missing")
    dirs = {"none": None, "good": good, "readonly": ro, "file": afile, "missing": missing}
    dirinfo = {"none": "-", "good": "1,1,0", "readonly": "1,1,1", "file": "1,0,0", "missing": "0,0,0"}
    ports = [0, 8686]
    ifaces = ["127.0.0.1", None, "not-an-address"]
    seeds = [(0, None), (31, SEED[:-2]), (32, SEED), (33, SEED + "ab"), (100, SEED * 3 + "00" * 4)]
    kmss = [0, 1]
    batches = [0, 1, 64, 65]
    faults = [50, 51]
    workers = [0, 1]
    cstats = [0, 1]
    combos = list(itertools.product(ports, ifaces, seeds, kmss, batches, faults, workers, cstats, dirs))
    r = ctx.rng
    # every pair (invalid setting, client_stats on + each directory state) and a random share of the rest
    def key(c):
        port, iface, (sl, _), kms, b, f, w, cs, d = c
        bad = (port == 0) + (iface != "127.0.0.1") + (sl != 32 if not kms else sl <= 32) + (b in (0, 65)) + (f == 51) + (w == 0)
        return bad
    chosen = [c for c in combos if key(c) <= 1] + r.sample([c for c in combos if key(c) > 1], 150 if not ctx.thorough else 2500)
    cases = []
    for src in ("File", "Env"):
        for c in chosen:
            port, iface, (sl, seedhex), kms, b, f, w, cs, d = c
            st = [("port", port), ("batch_size", b), ("fault_percentage", f), ("num_workers", w)]
            if iface is not None:
                st.append(("interface", iface))
            if seedhex is not None:
                st.append(("seed", seedhex))
            if kms:
                st.append(("kms_protection", "arn:aws:kms:us-east-2:1:key/k"))
            st.append(("client_stats", "on" if cs else "off"))
            if dirs[d] is not None:
                st.append(("persistence_directory", dirs[d]))
            addr_ok = iface == "127.0.0.1"
            mline = "cfgvalid %d %d %d %d %d %d %d %d %s %d" % (port, 1 if iface is None else 0, sl, kms, b, f, w, cs, dirinfo[d], 1 if addr_ok else 0)
            ok = (port != 0 and iface == "127.0.0.1" and (sl == 32 if not kms else sl > 32) and 1 <= b <= 64 and f <= 50 and w != 0
                  and (not cs or d == "good"))
            cases.append((src, st, mline, ok, c))
    with ThreadPoolExecutor(max_workers=vlib.NCPU) as ex:
        res = list(ex.map(lambda a: probe(a[1][0], a[1][1], workdir, 200000 + a[0]), enumerate(cases)))
    model = vlib.run_model([c[2] for c in cases])
    ctx.evaluations += len(cases)
    for (src, st, mline, ok, c), (state, info), lm in zip(cases, res, model):
        rep = {"cmd": "config", "source": src, "settings": [[k, str(v)] for k, v in st], "impl": [state, str(info)[:300]],
               "model": lm, "model_line": mline, "documented_ok": ok}
        ctx.count("whole:%s:%s" % (src, state))
        got = "VALID" if state == "RUN" else ("PANIC" if "panic" in str(info) else "INVALID")
        if state == "RUN" and not ok:
            ctx.violation("property", "%s configuration that violates the documented constraints is accepted (is_valid_config = true): %s" % (src, [kv for kv in st if kv[0] not in ("seed",)]), rep); continue
        if state != "RUN" and ok:
            ctx.violation("property", "%s configuration inside every documented range is refused: %s" % (src, str(info)[:100]), rep); continue
        if got != lm:
            ctx.violation("tie", "model and implementation disagree on is_valid_config: impl %s / model %s" % (got, lm), rep)
        else:
            ctx.traces_validated += 1
            if not ok and c[7] == 1:
                ctx.nontriv("whole:%s:%s" % (src, mline))
    os.chmod(ro, 0o755)


def replay(ctx, rep):
    vlib.build_harness()
    wd = tempfile.mkdtemp(prefix="cfg", dir=vlib.BUILD)
    print(probe(rep.get("source", "File"), [(k, v) for k, v in rep.get("settings", [])], wd, 0))
    print(rep)
    return 0
