"""C02 / C07 / C08 / C09 / C12 — the serving path: in-process real Server vs the extracted
model of server.rs/responder.rs/request.rs, judged by spec-derived oracles."""
import hashlib, struct
import vlib, rt
from props.codec import proof_verdict

SEED = "a32049da0ffde0ded92ce10a0230d35fe615ec8461c14986baa63fe3b3bac3db"


def rnd(r, n):
    return bytes(r.getrandbits(8) for _ in range(n))


# ------------------------------------------------------------------ datagram generators

def valid_classic(r, size=None):
    size = size or r.choice([1024, 1024, 1028, 1200, 1500])
    return rt.mk_classic(rnd(r, 64), size)


def valid_ietf(r, srv=None, size=None, vers=None):
    size = size or r.choice([1024, 1012, 1100, 1488])
    vers = vers or (rt.DRAFT13,)
    d = rt.mk_ietf(rnd(r, 32), size, vers=vers, srv=srv)
    return d[:1500] if len(d) > 1500 else d


def offset_mutant(r, d, hdr_at):
    """a valid request whose offset table (>= 3 tags) is mutated: swapped / decreasing / past the end /
    unaligned offsets, keeping length and tags — the decoder must reject it, never panic"""
    b = bytearray(d)
    n = struct.unpack_from("<I", b, hdr_at)[0]
    if n < 3:
        return bytes(b)
    offs = [struct.unpack_from("<I", b, hdr_at + 4 + 4 * i)[0] for i in range(n - 1)]
    body = len(b) - hdr_at - 8 * n
    how = r.randrange(6)
    if how == 0:
        i = r.randrange(n - 2); offs[i], offs[i + 1] = offs[i + 1], offs[i]
        if offs[i] == offs[i + 1]:
            offs[i] = offs[i + 1] + 32
    elif how == 1:
        offs[0] = offs[1] + 4 * r.randint(1, 8)
    elif how == 2:
        offs[r.randrange(n - 1)] = body + 4 * r.randint(0, 3)
    elif how == 3:
        offs[r.randrange(n - 1)] += r.choice([1, 2, 3])
    elif how == 4:
        offs[-1] = len(b) - 4 * r.randint(0, 2)
    else:
        offs = sorted(offs, reverse=True)
    for i, o in enumerate(offs):
        struct.pack_into("<I", b, hdr_at + 4 + 4 * i, o & 0xffffffff)
    return bytes(b)


# unsupported version numbers chosen so that the draft-13 wire bytes 0c 00 00 80 appear at every
# misaligned offset of the concatenated list (a scan must look at aligned 4-byte entries only)
STRADDLE = [(bytes.fromhex("0100000c"), bytes.fromhex("00008000")),
            (bytes.fromhex("01000c00"), bytes.fromhex("00800000")),
            (bytes.fromhex("010c0000"), bytes.fromhex("80000000"))]


def big_tagcount(r):
    """a legal-sized, 4-aligned datagram whose tag count is so large that the offset table still fits
    (4n <= len) but offsets + tags do not (8n > len): zero / small aligned offsets pass the per-offset
    checks, the tag reads run off the end. Classic and RFC-framed."""
    total = r.choice([1024, 1028, 1200, 1500 - 1500 % 4])
    framed = r.random() < 0.5
    body = total - 12 if framed else total
    n = r.randint(body // 8 + 1, min(body // 4, 1024))
    b = bytearray(body)
    struct.pack_into("<I", b, 0, n)
    if r.random() < 0.5:      # a few aligned, in-range offsets instead of all zero
        for i in range(min(n - 1, 8)):
            struct.pack_into("<I", b, 4 + 4 * i, 4 * r.randint(0, 10))
    return rt.frame(bytes(b)) if framed else bytes(b)


JUNK_CLASSES = 22


def junk(r, good_srv, k=None):
    """one malformed / unanswerable datagram; k selects the class (None: drawn)"""
    if k is None:
        k = r.randrange(JUNK_CLASSES)
    if k == 19:
        return big_tagcount(r)
    if k == 20:  # a tag written twice in an otherwise ordinary classic request of legal size (tags must strictly increase)
        n = rnd(r, 64)
        which = r.randrange(3)
        f = [[("NONC", n), ("NONC", n), ("PAD", b"")], [("NONC", n), ("NONC", rnd(r, 64)), ("PAD", b"")], [("NONC", n), ("PAD", b""), ("PAD", b"")]][which]
        base = len(rt.encode(f)); pad = 1024 - base; pad -= pad % 4
        f[-1] = (f[-1][0], bytes(pad))
        return rt.encode(f)
    if k == 21:  # the same in an IETF request: VER or NONC or the padding twice
        n = rnd(r, 32)
        which = r.randrange(3)
        f = [[("VER", rt.DRAFT13), ("VER", rt.DRAFT13), ("NONC", n), ("ZZZZ", b"")], [("VER", rt.DRAFT13), ("NONC", n), ("NONC", n), ("ZZZZ", b"")],
             [("VER", rt.DRAFT13), ("NONC", n), ("ZZZZ", b""), ("ZZZZ", b"")]][which]
        base = len(rt.encode(f)); pad = 1024 - base; pad -= pad % 4
        f[-1] = (f[-1][0], bytes(pad))
        return rt.frame(rt.encode(f))
    if k == 16:  # >= 3 tags, mutated offset table (IETF request with SRV has 4 tags)
        return offset_mutant(r, valid_ietf(r, srv=good_srv if r.random() < 0.5 else None), 12)
    if k == 17:  # classic request with an extra field so that it has 3 tags
        return offset_mutant(r, rt.encode([("NONC", rnd(r, 64)), ("ZZZZ", bytes(8)), ("PAD", bytes(1024 - 8 * 3 - 64 - 8))]), 0)
    if k == 18:  # unsupported versions whose bytes contain draft-13 at a misaligned offset
        a, b = r.choice(STRADDLE)
        return valid_ietf(r, vers=r.choice([(a, b), (bytes.fromhex("01000000"), a, b), (a, b, bytes.fromhex("0b000080"))]))
    if k == 0:
        return rnd(r, r.choice([0, 1, 3, 4, 100, 1023]))
    if k == 1:
        return rnd(r, r.choice([1024, 1025, 1500, 1501, 2000]))
    if k == 2:
        return rt.mk_classic(rnd(r, 64), 1024)[: r.choice([1020, 1023, 512])]
    if k == 3:
        return rt.mk_classic(rnd(r, 64), 1504)
    if k == 4:   # wrong nonce lengths
        return rt.mk_classic(rnd(r, r.choice([0, 4, 32, 60, 68, 128, 1000])), 1024)
    if k == 5:
        return rt.mk_ietf(rnd(r, r.choice([0, 4, 28, 36, 64])), 1024)
    if k == 6:   # frame length off
        d = bytearray(valid_ietf(r))
        struct.pack_into("<I", d, 8, struct.unpack_from("<I", d, 8)[0] + r.choice([-4, 4, 1, 8, -8]))
        return bytes(d)
    if k == 7:   # unsupported versions only
        return valid_ietf(r, vers=(bytes.fromhex("01000000"), bytes.fromhex("0b000080")))
    if k == 8:   # wrong SRV
        return valid_ietf(r, srv=rnd(r, 32))
    if k == 9:   # no NONC (classic with only PAD) of valid size
        return rt.encode([("PAD", bytes(1016))])
    if k == 10:  # single bit flip in a valid request header
        d = bytearray(valid_classic(r, 1024)); i = r.randrange(24); d[i] ^= 1 << r.randrange(8); return bytes(d)
    if k == 11:
        d = bytearray(valid_ietf(r)); i = r.randrange(48); d[i] ^= 1 << r.randrange(8); return bytes(d)
    if k == 12:  # magic only
        return rt.MAGIC + bytes(1020)
    if k == 13:  # no VER
        return rt.mk_ietf(rnd(r, 32), 1024, drop_ver=True)
    if k == 14:  # draft13 listed fifth
        return valid_ietf(r, vers=(bytes(4), bytes.fromhex("01000000"), bytes.fromhex("02000000"), bytes.fromhex("03000000"), rt.DRAFT13))
    return valid_ietf(r, srv=good_srv)  # valid with the right SRV


def gen_round(r, nsock, n, good_srv, p_invalid=0.25):
    out = []
    for _ in range(n):
        s = r.randrange(nsock)
        x = r.random()
        if x < p_invalid:
            out.append((s, junk(r, good_srv)))
        elif x < p_invalid + (1 - p_invalid) / 2:
            out.append((s, valid_classic(r)))
        else:
            out.append((s, valid_ietf(r, srv=good_srv if r.random() < 0.3 else None)))
    return out


# ------------------------------------------------------------------ running

def session_lines(cfg, seed, rounds, nsock):
    batch, fault, level, cs = cfg
    lines = ["serve new %d %d %d %d %s" % (batch, fault, level, cs, seed)]
    for rd in rounds:
        lines.append("serve run %d %s" % (nsock, ";".join("%d:%s" % (s, rt.hx(d)) for s, d in rd)))
    lines.append("serve drop")
    return lines


def parse_run(line):
    """-> dict(status, stats{}, t0, t1, log, replies[(sock, bytes)])"""
    out = {"status": line.split(" ", 1)[0], "stats": {}, "replies": [], "log": 0, "t0": 0, "t1": 0, "raw": line[:300]}
    i = line.find(" R=")
    head = line if i < 0 else line[:i]
    if i >= 0:
        for item in line[i + 3:].split(";"):
            if item:
                s, h = item.split(":", 1)
                out["replies"].append((int(s), bytes.fromhex(h) if h != "-" else b""))
    for tok in head.split():
        if "=" in tok:
            k, v = tok.split("=", 1)
            if k == "T":
                a, b = v.split(","); out["t0"], out["t1"] = int(a), int(b)
            elif k == "LOG":
                out["log"] = int(v)
            elif v.isdigit():
                out["stats"][k] = int(v)
    return out


def fields_of(reply, ver):
    payload = reply if ver == "Google" else rt.unframe(reply)
    if payload is None:
        return None
    m = rt.decode(payload)
    return None if m is None else dict(m)


def guess_ver(reply):
    return "RfcDraft13" if reply[:8] == rt.MAGIC else "Google"


def masked(reply):
    """reply with signature / key / clock dependent fields blanked, for impl-vs-model comparison"""
    ver = guess_ver(reply)
    f = fields_of(reply, ver)
    if f is None:
        return ("UNDECODABLE", ver, len(reply))
    out = {"ver": ver, "len": len(reply), "tags": tuple(f.keys())}
    for t in ("NONC", "PATH", "INDX"):
        out[t] = f.get(t)
    sm = rt.decode(f.get("SREP", b"")) or []
    sm = dict(sm)
    out["SREP"] = tuple((t, (None if t == "MIDP" else v)) for t, v in sm.items())
    cm = dict(rt.decode(f.get("CERT", b"")) or [])
    dm = dict(rt.decode(cm.get("DELE", b"")) or [])
    out["CERT"] = (tuple(cm.keys()), len(cm.get("SIG", b"")), tuple((t, (len(v) if t == "PUBK" else v)) for t, v in dm.items()))
    out["SIGLEN"] = len(f.get("SIG", b""))
    return tuple(sorted(out.items(), key=lambda kv: kv[0]))


def merkle_root(ver, leaf, index, path):
    w = 64 if ver == "Google" else 32
    if len(path) % w:
        return None
    h = hashlib.sha512(b"\x00" + leaf).digest()[:w]
    for k in range(0, len(path), w):
        p = path[k:k + w]
        h = hashlib.sha512(b"\x01" + (h + p if index % 2 == 0 else p + h)).digest()[:w]
        index //= 2
    return h


class Engine:
    """runs sessions on both sides and evaluates the oracles of one property"""

    def __init__(self, ctx, pid):
        self.ctx, self.pid = ctx, pid
        self.sessions = []   # dict(cfg, seed, rounds, nsock)

    def add(self, cfg, rounds, nsock, seed=SEED):
        self.sessions.append({"cfg": cfg, "seed": seed, "rounds": rounds, "nsock": nsock})

    def run(self, shards=None):
        """shards=1: all sessions run one after another in ONE harness process (state that survives a
        Server object — statics, caches — is shared between them)"""
        ctx = self.ctx
        lines = [session_lines(s["cfg"], s["seed"], s["rounds"], s["nsock"]) for s in self.sessions]
        impl = vlib.run_sessions(vlib.HARNESS, lines, "impl", **({"shards": shards} if shards else {}))
        mlines = []
        for l, il in zip(lines, impl):
            pk = [t[3:] for t in il[0].split() if t.startswith("pk=")]
            mlines.append([l[0] + " 0 " + (pk[0] if pk else "-")] + l[1:])
        model = vlib.run_sessions(vlib.DRIVER, mlines, "model")
        # --- spec classification of every datagram, spec verification of every reply
        dgrams = {}
        for s, il in zip(self.sessions, impl):
            s["pk"] = None
            for tok in il[0].split():
                if tok.startswith("pk="):
                    s["pk"] = tok[3:]
        srv_of = {}
        for s in self.sessions:
            if s["pk"]:
                srv_of[s["pk"]] = hashlib.sha512(b"\xff" + bytes.fromhex(s["pk"])).digest()[:32]
        wf_lines, wf_index = [], {}
        for s in self.sessions:
            srv = srv_of.get(s["pk"], bytes(32))
            for rd in s["rounds"]:
                for _, d in rd:
                    key = (srv, d)
                    if key not in wf_index:
                        wf_index[key] = len(wf_lines)
                        wf_lines.append("wfspec %s %s" % (rt.hx(srv), rt.hx(d)))
        wf_out = vlib.run_model(wf_lines)
        cl_out = vlib.run_impl(["classify" + l[6:] for l in wf_lines])
        cm_out = vlib.run_model(["classify" + l[6:] for l in wf_lines])
        self.wf = lambda srv, d: wf_out[wf_index[(srv, d)]]
        ctx.evaluations += len(wf_lines)
        for l, a, b, c in zip(wf_lines, wf_out, cl_out, cm_out):
            acc_spec = a.startswith("OK")
            acc_impl = b.startswith("OK")
            rep = {"cmd": "classify", "line": l[:6000], "spec": a, "impl": b, "model": c}
            ctx.count("classify:" + (b.split()[1].split("(")[0] if b.startswith("ERR") else b.split()[0]))
            if b in ("PANIC",) or b.startswith(("CRASH", "HARNESS")):
                ctx.violation("property", "request classification panicked", rep)
            elif acc_spec != acc_impl or (acc_spec and a != b):
                ctx.violation("property", "server accepts=%s a datagram the protocol spec classifies as wellformed=%s" % (acc_impl, acc_spec), rep)
            elif b != c:
                if b.startswith("ERR") and c.startswith("ERR"):
                    ctx.note("error variant differs impl %s / model %s" % (b, c))
                else:
                    ctx.violation("tie", "model and implementation disagree on classify", rep)
            else:
                ctx.traces_validated += 1
        self.results = list(zip(self.sessions, lines, impl, model))
        return self.results

    # ---------------------------------------------------------------- oracles
    def judge(self):
        ctx, pid = self.ctx, self.pid
        vresp_lines, vresp_meta = [], []
        for s, lines, il, ml in self.results:
            batch, fault, level, cs = s["cfg"]
            rep0 = {"cmd": "serve", "cfg": list(s["cfg"]), "seed": s["seed"], "lines": [l[:200000] for l in lines]}
            if not il[0].startswith("OK"):
                ctx.violation("property", "Server::new failed: " + il[0][:200], rep0)
                continue
            srv = hashlib.sha512(b"\xff" + bytes.fromhex(s["pk"])).digest()[:32]
            cum_model = {}
            for k, rd in enumerate(s["rounds"]):
                li, lm = il[1 + k], ml[1 + k]
                pi, pm = parse_run(li), parse_run(lm)
                rep = dict(rep0, round=k, impl=li[:3000], model=lm[:3000])
                ctx.evaluations += 1
                ctx.count("round_size:%s" % ("0" if not rd else "<=b" if len(rd) <= batch else ">b"))
                if pi["status"] != "OK":
                    ctx.violation("property", "process_events did not return normally (%s) at log level %d" % (pi["status"], level), rep)
                    break
                # expected accepted requests by the protocol spec, batch structure
                acc = []   # (pos, sock, d, ver, nonce)
                for pos, (sock, d) in enumerate(rd):
                    w = self.wf(srv, d)
                    if w.startswith("OK"):
                        _, nh, ver = w.split()
                        acc.append((pos, sock, d, ver, bytes.fromhex(nh)))
                if len(rd) >= 2 and acc:
                    ctx.nontriv("%s:%d:%s" % (s["cfg"], k, rt.fnv64(b"".join(d[:40] for _, d in rd))))
                # ---- C09 / C07 / C02 on the real replies
                per_sock = {}
                for sock, b in pi["replies"]:
                    per_sock.setdefault(sock, []).append(b)
                pending = {}
                for a in acc:
                    pending.setdefault(a[1], []).append(a)
                matched = []
                bad = False
                for sock, reps in per_sock.items():
                    for b in reps:
                        ver = guess_ver(b)
                        f = fields_of(b, ver)
                        cands = pending.get(sock, [])
                        hit = None
                        if f is not None and "NONC" in f:
                            for a in cands:
                                if a[3] == ver and a[4] == f["NONC"]:
                                    hit = a; break
                        if hit is None and fault > 0:
                            # fault-injected replies may be undecodable / lack NONC: match by protocol
                            for a in cands:
                                if a[3] == ver:
                                    hit = a; break
                        if hit is None:
                            if pid in ("C09", "C07", "C02", "C08", "C12"):
                                ctx.violation("property", "socket %d received a datagram that answers none of its accepted requests (%d bytes)" % (sock, len(b)), rep)
                            bad = True
                            continue
                        cands.remove(hit)
                        matched.append((hit, b, f))
                if bad:
                    continue
                left = [a for v in pending.values() for a in v]
                if left:
                    ctx.violation("property", "%d accepted request(s) got no response (first: position %d, socket %d, %s)" % (len(left), left[0][0], left[0][1], left[0][3]), rep)
                    continue
                # batch structure: rank within protocol within chunk of batch_size
                rank = {}
                for c0 in range(0, len(rd), batch):
                    cnt = {"Google": 0, "RfcDraft13": 0}
                    for a in acc:
                        if c0 <= a[0] < c0 + batch:
                            rank[a[0]] = (c0 // batch, cnt[a[3]]); cnt[a[3]] += 1
                pop = {}
                for a in acc:
                    pop[(rank[a[0]][0], a[3])] = pop.get((rank[a[0]][0], a[3]), 0) + 1
                for a, b, f in matched:
                    pos, sock, d, ver, nonce = a
                    if len(b) > len(d):
                        if pid in ("C07",):
                            ctx.violation("property", "response of %d bytes is longer than its %d-byte request" % (len(b), len(d)), rep)
                        continue
                    if fault > 0:
                        continue
                    if f is None:
                        ctx.violation("property", "response is not a decodable message", rep); continue
                    leaf = nonce if ver == "Google" else d
                    sm = dict(rt.decode(f.get("SREP", b"")) or [])
                    indx = struct.unpack("<I", f["INDX"])[0] if len(f.get("INDX", b"")) == 4 else -1
                    want_idx = rank[pos][1]
                    n_in = pop[(rank[pos][0], ver)]
                    depth = (n_in - 1).bit_length()
                    w = 64 if ver == "Google" else 32
                    if pid in ("C09", "C02"):
                        if indx != want_idx:
                            ctx.violation("property", "INDX=%d but the request is number %d of its protocol in its batch" % (indx, want_idx), rep); continue
                        if len(f.get("PATH", b"")) != w * depth:
                            ctx.violation("property", "PATH length %d inconsistent with a batch of %d (%d x %d expected)" % (len(f.get("PATH", b"")), n_in, w, depth), rep); continue
                        if merkle_root(ver, leaf, indx, f.get("PATH", b"")) != sm.get("ROOT"):
                            ctx.violation("property", "PATH/INDX do not prove inclusion of the request's own leaf under the signed ROOT", rep); continue
                    vresp_lines.append("vresp %s %s %s %s" % (ver, s["pk"], rt.hx(d), rt.hx(b)))
                    vresp_meta.append(rep)
                # ---- correspondence impl vs model (fault = 0): same replies per socket, masked
                if fault == 0:
                    if pm["status"] != "OK":
                        ctx.violation("tie", "model did not return normally: " + lm[:200], rep); continue
                    mi, mm = {}, {}
                    for sock, b in pi["replies"]:
                        mi.setdefault(sock, []).append(masked(b))
                    for sock, b in pm["replies"]:
                        mm.setdefault(sock, []).append(masked(b))
                    if mi != mm:
                        ctx.violation("tie", "model and implementation disagree on the replies of a round", rep); continue
                    for key in ("rfc", "classic", "invalid", "rfcresp", "classicresp", "bytes"):
                        cum_model[key] = cum_model.get(key, 0) + pm["stats"].get(key, 0)
                        if cum_model[key] != pi["stats"].get(key, -1):
                            ctx.violation("tie", "statistics totals differ (%s: impl %s / model %s)" % (key, pi["stats"].get(key), cum_model[key]), rep)
                            break
                    else:
                        cum_model["log"] = cum_model.get("log", 0) + pm["log"]
                        if cum_model["log"] != pi["log"]:
                            ctx.violation("tie", "number of log records differs at level %d (impl %d / model %d)" % (level, pi["log"], cum_model["log"]), rep)
                        else:
                            ctx.traces_validated += 1
        # ---- spec verifier over every fault-free reply
        if vresp_lines and pid in ("C02", "C09", "C12"):
            vout = vlib.run_model(vresp_lines, per_shard=40)
            qlines, qmap = [], {}
            for o in vout:
                i = o.find("Q=")
                for q in (o[i + 2:].split(";") if i >= 0 else []):
                    if q and q not in qmap:
                        qmap[q] = len(qlines)
                        qlines.append("edverify " + q.replace(",", " "))
            qout = vlib.run_impl(qlines)
            for o, rep, l in zip(vout, vresp_meta, vresp_lines):
                ctx.evaluations += 1
                i = o.find("Q=")
                qs = [q for q in (o[i + 2:].split(";") if i >= 0 else []) if q]
                ok = o.startswith("V=1") and all(qout[qmap[q]] == "1" for q in qs) and len(qs) == 2
                if not ok:
                    ctx.violation("property", "independent spec verifier rejects a fault-free response (%s; signature checks %s)" % (o[:5], [qout[qmap[q]] for q in qs]), dict(rep, vresp=l[:8000]))
            ctx.count("replies_spec_verified", len(vresp_lines))
            if vresp_lines:
                ctx.sample({"vresp": vresp_lines[0][:300], "verdict": vout[0][:40]})


def classify_compare(ctx, srv, dgrams, tagfn=None):
    """impl / model / Coq spec on request classification for a list of datagrams"""
    seen, uniq = set(), []
    for d in dgrams:
        if d not in seen:
            seen.add(d); uniq.append(d)
    wf_lines = ["wfspec %s %s" % (rt.hx(srv), rt.hx(d)) for d in uniq]
    wf_out = vlib.run_model(wf_lines)
    cl_out = vlib.run_impl(["classify" + l[6:] for l in wf_lines])
    cm_out = vlib.run_model(["classify" + l[6:] for l in wf_lines])
    ctx.evaluations += len(uniq)
    res = {}
    for d, l, a, b, c in zip(uniq, wf_lines, wf_out, cl_out, cm_out):
        rep = {"cmd": "classify", "line": l[:140000], "spec": a, "impl": b, "model": c}
        res[d] = a
        acc_spec, acc_impl = a.startswith("OK"), b.startswith("OK")
        ctx.count("classify:" + (b.split()[1].split("(")[0] if b.startswith("ERR") else b.split()[0]))
        if b == "PANIC" or b.startswith(("CRASH", "HARNESS")):
            ctx.violation("property", "request classification panicked on a %d-byte datagram" % len(d), rep)
        elif acc_spec != acc_impl or (acc_spec and a != b):
            ctx.violation("property", "server accepts=%s a %d-byte datagram that the protocol spec classifies as wellformed=%s" % (acc_impl, len(d), acc_spec), rep)
        elif b != c:
            if b.startswith("ERR") and c.startswith("ERR"):
                ctx.note("error variant differs impl %s / model %s" % (b, c))
            else:
                ctx.violation("tie", "model and implementation disagree on classify", rep)
        else:
            ctx.traces_validated += 1
            if 1024 <= len(d) <= 1500:
                ctx.nontriv("cl:" + rt.fnv64(d))
    return res


def length_stream(ctx, good_srv):
    """datagrams targeting the length gate, the nonce length and the frame length"""
    r = ctx.rng
    out = []
    for L in list(range(1016, 1033)) + list(range(1492, 1509)) + [0, 1, 4, 8, 12, 500, 2000, 4096, 65507]:
        out.append(rnd(r, L))
        c = rt.mk_classic(rnd(r, 64), max(L, 100))
        out.append(c[:L] if len(c) >= L else c + bytes(L - len(c)))
        i = rt.mk_ietf(rnd(r, 32), max(L - 12, 100))
        out.append(i[:L] if len(i) >= L else i + bytes(L - len(i)))
    for L in range(1024, 1501, 4):      # every aligned valid size
        out.append(rt.mk_classic(rnd(r, 64), L))
        if L >= 1036:
            out.append(rt.mk_ietf(rnd(r, 32), L - 12))
    step = 4 if ctx.thorough else 36
    for nl in list(range(0, 1000, step)) + [28, 32, 36, 60, 64, 68, 1016]:   # aligned nonce lengths
        out.append(rt.mk_classic(rnd(r, nl), 1024))
        out.append(rt.mk_ietf(rnd(r, nl), 1024))
    base = rt.mk_ietf(rnd(r, 32), 1024)
    true_len = len(base) - 12
    for delta in list(range(-16, 17)) + [-1024, 1024, 2**31, -true_len]:   # frame-length values
        d = bytearray(base); struct.pack_into("<I", d, 8, (true_len + delta) & 0xffffffff); out.append(bytes(d))
    for _ in range(300 if not ctx.thorough else 5000):
        out.append(junk(r, good_srv))
    return out


def ver_matrix(ctx, good_srv):
    """every VER list of length 0..6 over {draft-13, classic 0, two unknown numbers} x SRV absent/right/wrong"""
    import itertools
    r = ctx.rng
    words = [rt.DRAFT13, bytes(4), bytes.fromhex("0b000080"), bytes.fromhex("01000000")]
    out = []
    maxlen = 6 if ctx.thorough else 5
    nonce = rnd(r, 32)
    for L in range(0, maxlen + 1):
        for vs in itertools.product(words, repeat=L):
            for srv in (None, good_srv, bytes(32)):
                if not ctx.thorough and L == 5 and srv is not None and (hash(vs) % 3):
                    continue
                if L == 0:
                    d = rt.mk_ietf(nonce, 1024, vers=(), srv=srv)
                else:
                    d = rt.mk_ietf(nonce, 1024, vers=vs, srv=srv)
                want = (rt.DRAFT13 in vs[:4]) and (srv is None or srv == good_srv)
                out.append((d, want))
    # unsupported lists whose concatenated bytes contain the draft-13 number at a misaligned offset
    for a, b in STRADDLE:
        for vs in ((a, b), (bytes(4), a, b), (a, b, bytes.fromhex("0b000080")), (a, b, a, b)):
            for srv in (None, good_srv):
                out.append((rt.mk_ietf(nonce, 1024, vers=vs, srv=srv), False))
        out.append((rt.mk_ietf(nonce, 1024, vers=(a, b, rt.DRAFT13), srv=None), True))
    # SRV wrong in two bytes whose differences cancel under XOR, bytes swapped, all bytes complemented
    for i, j in ((0, 31), (3, 4), (10, 20)):
        s2 = bytearray(good_srv); s2[i] ^= 0x01; s2[j] ^= 0x01; out.append((rt.mk_ietf(nonce, 1024, srv=bytes(s2)), False))
        s2 = bytearray(good_srv); s2[i] ^= 0xff; s2[j] ^= 0xff; out.append((rt.mk_ietf(nonce, 1024, srv=bytes(s2)), False))
        s2 = bytearray(good_srv); s2[i], s2[j] = s2[j], s2[i]
        if bytes(s2) != good_srv:
            out.append((rt.mk_ietf(nonce, 1024, srv=bytes(s2)), False))
    out.append((rt.mk_ietf(nonce, 1024, srv=bytes(x ^ 0xff for x in good_srv)), False))
    # SRV under every single-bit corruption, wrong lengths, another server's value
    for bit in range(256):
        s2 = bytearray(good_srv); s2[bit // 8] ^= 1 << (bit % 8)
        out.append((rt.mk_ietf(nonce, 1024, srv=bytes(s2)), False))
    for L in (0, 28, 36, 64):
        out.append((rt.mk_ietf(nonce, 1024, srv=(good_srv * 2)[:L]), False))
    out.append((rt.mk_ietf(nonce, 1024, srv=hashlib.sha512(b"\xff" + bytes(32)).digest()[:32]), False))
    out.append((rt.mk_ietf(nonce, 1024, srv=good_srv), True))
    # the size gate on the framed path: the DATAGRAM (12-byte frame header included) must be 1024..1500 bytes
    for msg_size, want in ((1008, False), (1012, True), (1016, True), (1020, True), (1024, True), (1488, True), (1492, False)):
        for srv in (None, good_srv):
            out.append((rt.mk_ietf(nonce, msg_size, srv=srv), want))
    # tags the server does not know: such a message is malformed whatever else it holds, and what an
    # unknown tag carries must never be read as the value of a known one
    wire = dict(rt.tag_table())
    unknown = {"U_AAA": b"AAA\x00", "U_SRA": b"SRA\x00", "U_VEQ": b"VEQ\x00", "U_HIGH": b"\xff\xff\xff\xff"}
    wire.update(unknown)
    def num(t):
        return struct.unpack("<I", wire[t])[0]
    def build(fields):
        fields = sorted(fields, key=lambda f: num(f[0]))
        base = len(rt.encode(fields + [("ZZZZ", b"")] if not any(t == "ZZZZ" for t, _ in fields) else fields, wire))
        pad = max(0, 1024 - base); pad -= pad % 4
        fields = sorted(fields + [("ZZZZ", bytes(pad))], key=lambda f: num(f[0]))
        return rt.frame(rt.encode(fields, wire))
    other = bytes.fromhex("0b000080") + bytes.fromhex("01000000")
    for u in unknown:
        out.append((build([(u, rt.DRAFT13), ("VER", other), ("NONC", nonce)]), False))                 # draft-13 only under the unknown tag
        out.append((build([(u, rt.DRAFT13), ("VER", rt.DRAFT13), ("NONC", nonce)]), False))           # otherwise acceptable
        out.append((build([(u, good_srv), ("VER", rt.DRAFT13), ("SRV", bytes(32)), ("NONC", nonce)]), False))
        out.append((build([(u, nonce), ("VER", rt.DRAFT13), ("NONC", rnd(r, 32))]), False))
        out.append((build([(u, b""), ("VER", rt.DRAFT13), ("SRV", good_srv), ("NONC", nonce)]), False))
    return out


def standard_sessions(ctx, eng, fault=0, levels=(3,), batches=None, rounds_per=6):
    r = ctx.rng
    batches = batches or ([1, 2, 3, 5, 8, 16, 33, 63, 64] if not ctx.thorough else list(range(1, 65)))
    pk = "d0756ee69ff5fe96cbcf9273208fec53124b1dd3a24d3910e07c7c54e2473012"
    good_srv = hashlib.sha512(b"\xff" + bytes.fromhex(pk)).digest()[:32]
    for b in batches:
        for level in levels:
            nsock = r.choice([1, 3, 8, 20])
            rounds = []
            for _ in range(rounds_per):
                n = r.choice([0, 1, b - 1, b, b + 1, 2 * b, r.randint(1, 70)])
                n = max(0, min(n, 90))
                rounds.append(gen_round(r, nsock, n, good_srv))
            # identical nonces from different sockets, several requests per socket
            same = valid_classic(r)
            rounds.append([(i % nsock, same) for i in range(min(6, 2 * nsock))] + [(0, valid_ietf(r)), (0, valid_ietf(r))])
            eng.add((b, fault, level, 0), rounds, nsock)
    return good_srv


def run_generic(ctx, pid, rule, fault=0, levels=(3,)):
    ctx.rule = rule
    vlib.prepare(ctx)
    eng = Engine(ctx, pid)
    standard_sessions(ctx, eng, fault=fault, levels=levels)
    eng.run()
    eng.judge()
    ctx.sample({"session": eng.sessions[0]["cfg"], "first_round": [(s, rt.hx(d)[:60]) for s, d in eng.sessions[0]["rounds"][0][:3]]})
    return eng


def run_c09(ctx):
    run_generic(ctx, "C09", "in-process server, interleavings of valid classic / valid IETF / invalid datagrams from 1..20 sockets (several per socket, identical nonces from different sockets), bursts smaller / equal / larger than batch_size; Responder::send_responses with destinations the kernel refuses anywhere in a batch (a refused send must cost exactly that one reply); non-trivial = distinct round with >= 2 datagrams of which at least one is accepted")
    from props import stats as statsmod
    statsmod.responder_send_failures(ctx)      # C09_drain_send_failures: every OTHER request still gets its reply
    proof_verdict(ctx)


def measure_faults(ctx):
    """fault_percentage p: every reply either verifies in full or fails outright; failing share ~ p"""
    r = ctx.rng
    import math
    for p in ((1, 10, 50) if not ctx.thorough else (1, 5, 10, 25, 50)):
        eng = Engine(ctx, "C02F")
        nrounds = 36
        for _ in range(4):
            rounds = [[(i % 6, valid_classic(r, 1024) if (i % 2) else valid_ietf(r, size=1012)) for i in range(16)] for _ in range(32)]
            eng.add((16, p, 3, 0), rounds * 1, 6)
        eng.run()
        pairs = []
        groups = []        # (session, round, protocol) of each reply: one send_responses call
        for s, lines, il, ml in eng.results:
            for k, rd in enumerate(s["rounds"]):
                pi = parse_run(il[1 + k])
                if pi["status"] != "OK":
                    ctx.violation("property", "process_events failed with fault_percentage %d" % p, {"cmd": "serve", "cfg": list(s["cfg"]), "seed": s["seed"], "lines": lines, "round": k})
                    continue
                reqs = {}
                for sock, d in rd:
                    reqs.setdefault(sock, []).append(d)
                for sock, b in pi["replies"]:
                    ver = guess_ver(b)
                    # candidates: requests of that socket and protocol; a reply verifies for at most its own request
                    cands = [d for d in reqs.get(sock, []) if (d[:8] == rt.MAGIC) == (ver == "RfcDraft13")]
                    pairs.append((s, ver, cands, b))
                    groups.append((id(s), k, ver))
        lines = []
        for s, ver, cands, b in pairs:
            for d in cands:
                lines.append("vresp %s %s %s %s" % (ver, s["pk"], rt.hx(d), rt.hx(b)))
        vout = vlib.run_model(lines, per_shard=60)
        qlines, qmap = [], {}
        for o in vout:
            i = o.find("Q=")
            for q in (o[i + 2:].split(";") if i >= 0 else []):
                if q and q not in qmap:
                    qmap[q] = len(qlines); qlines.append("edverify " + q.replace(",", " "))
        qout = vlib.run_impl(qlines)
        k = 0
        n = fails = 0
        outcome = []
        for s, ver, cands, b in pairs:
            ok_any = False
            for d in cands:
                o = vout[k]; k += 1
                i = o.find("Q=")
                qs = [q for q in (o[i + 2:].split(";") if i >= 0 else []) if q]
                if o.startswith("V=1") and len(qs) == 2 and all(qout[qmap[q]] == "1" for q in qs):
                    ok_any = True
            n += 1
            fails += 0 if ok_any else 1
            outcome.append(ok_any)
        ctx.evaluations += n
        exp = p / 100.0 * (1 - 1 / 1440.0)
        sigma = math.sqrt(exp * (1 - exp) / max(n, 1))
        share = fails / max(n, 1)
        ctx.extra.setdefault("fault_rate_measurements", []).append({"p": p, "replies": n, "failing": fails, "share": round(share, 4), "expected": round(exp, 4), "six_sigma": round(6 * sigma, 4)})
        # the decision is made per RESPONSE: within one batch of one protocol the outcomes are independent,
        # so batches whose replies all fail or all verify are rare in a computable way; perfectly correlated
        # outcomes keep the mean at p but put the share outside any binomial band most of the time
        if p >= 5:
            by = {}
            for g, okr in zip(groups, outcome):
                by.setdefault(g, []).append(okr)
            sizes = [len(v) for v in by.values() if len(v) >= 4]
            uniform = sum(1 for v in by.values() if len(v) >= 4 and (all(v) or not any(v)))
            e_uni = sum(exp ** m + (1 - exp) ** m for m in sizes)
            ctx.extra.setdefault("fault_batch_uniformity", []).append({"p": p, "batches": len(sizes), "uniform": uniform, "expected_uniform": round(e_uni, 2)})
            if sizes and uniform > e_uni + 6 * math.sqrt(max(e_uni, 1.0)) + 3:
                ctx.violation("property", "with fault_percentage=%d, %d of %d multi-reply batches are uniform (all replies fail or all verify) where independent per-response decisions give %.1f: the failing share over a run is not p within statistical error" % (p, uniform, len(sizes), e_uni),
                              {"cmd": "fault-rate", "p": p, "batches": len(sizes), "uniform": uniform, "expected_uniform": e_uni})
        if n < 2000:
            ctx.note("fault measurement at p=%d has only %d replies" % (p, n))
        if abs(share - exp) > 6 * sigma + 1e-9:
            ctx.violation("property", "with fault_percentage=%d the failing share is %.4f over %d replies, expected %.4f +/- %.4f (6 sigma)" % (p, share, n, exp, 6 * sigma),
                          {"cmd": "fault-rate", "p": p, "replies": n, "failing": fails})


def run_c02(ctx):
    run_generic(ctx, "C02", "every (request, reply) of in-process server rounds over batch sizes and protocol mixes is judged by the Coq spec verifier (signature queries answered by one-shot ed25519-dalek) and by Python Merkle recomputation; with fault_percentage 1/10/50 >= 2000 replies each are classified verify-in-full / fail-outright and the failing share is compared with p within 6 sigma (a measurement, not a theorem); non-trivial = distinct round with >= 2 datagrams and an accepted request")
    measure_faults(ctx)
    proof_verdict(ctx)


PK = "d0756ee69ff5fe96cbcf9273208fec53124b1dd3a24d3910e07c7c54e2473012"
GOOD_SRV = hashlib.sha512(b"\xff" + bytes.fromhex(PK)).digest()[:32]


def run_c07(ctx):
    eng = run_generic(ctx, "C07", "datagrams of length 0..65507 (random, truncated / extended valid requests at every length around the gates, every aligned valid size, aligned nonce lengths, frame-length values, field mutations) through request classification (impl / model / Coq spec) and through the in-process server incl. full batches of 64 for maximum-depth paths; non-trivial = distinct datagram that passes the length gate, or a round with an accepted request")
    classify_compare(ctx, GOOD_SRV, length_stream(ctx, GOOD_SRV))
    r = ctx.rng
    # every class of unanswerable datagram, several of each, whatever the random rounds happened to draw
    classify_compare(ctx, GOOD_SRV, [junk(r, GOOD_SRV, k) for k in range(JUNK_CLASSES) for _ in range(4)])
    # full batches of maximum depth, both protocols: reply length vs request length
    eng2 = Engine(ctx, "C07")
    for b in (64, 63, 33):
        rounds = [[(i % 8, valid_classic(r, 1024)) for i in range(64)], [(i % 8, valid_ietf(r, size=1012)) for i in range(64)],
                  [(i % 8, valid_classic(r, 1024) if i % 2 else valid_ietf(r, size=1012)) for i in range(64)]]
        eng2.add((b, 0, 3, 0), rounds, 8)
    eng2.run(); eng2.judge()
    proof_verdict(ctx)


def run_c08(ctx):
    ctx.rule = "in-process server at every log level Off..Trace, fault 0 and 50, junk interleaved with valid requests and a sentinel; non-trivial = distinct round with >= 2 datagrams and an accepted request"
    vlib.prepare(ctx)
    eng = Engine(ctx, "C08")
    standard_sessions(ctx, eng, fault=0, levels=(0, 1, 2, 3, 4, 5), batches=[1, 5, 64] if not ctx.thorough else [1, 2, 5, 17, 63, 64])
    standard_sessions(ctx, eng, fault=50, levels=(4, 5), batches=[3, 64])
    eng.run()
    eng.judge()
    proof_verdict(ctx)


def run_c12(ctx):
    ctx.rule = "every VER list of length 0..5 (thorough: 0..6) over {draft-13, classic 0, two unknown numbers} x SRV absent / correct / wrong, SRV under every single-bit corruption, wrong lengths and another server's value, through classification (impl / model / Coq spec) and, sampled, through the in-process server; non-trivial = distinct request that passes the length gate"
    vlib.prepare(ctx)
    mat = ver_matrix(ctx, GOOD_SRV)
    res = classify_compare(ctx, GOOD_SRV, [d for d, _ in mat])
    ctx.count("ver_matrix_rows", len(mat))
    for d, want in mat:
        got = res[d].startswith("OK")
        if got != want:
            ctx.violation("tie", "Coq spec `wellformed` disagrees with the property's accept rule on the version/SRV matrix (want %s)" % want,
                          {"cmd": "classify", "line": "wfspec %s %s" % (rt.hx(GOOD_SRV), rt.hx(d))})
    # a sample of the matrix through the real server: answered iff accepted, reply states draft-13 in SREP
    r = ctx.rng
    eng = Engine(ctx, "C12")
    sample = [mat[r.randrange(len(mat))] for _ in range(240 if not ctx.thorough else 2000)] + mat[-262:][::8]
    for k in range(0, len(sample), 40):
        eng.add((16, 0, 3, 0), [[(i % 4, d) for i, (d, _) in enumerate(sample[k:k + 40])]], 4)
    # a full batch of requests that must be ignored (unsupported versions / another server's SRV) with
    # acceptable ones queued right behind them, then silence: the acceptable ones are still answered
    rej = [d for d, want in mat if not want and 1024 <= len(d) <= 1500]
    acc_ = [d for d, want in mat if want]
    if rej and acc_:
        for bsz in (4, 16):
            q = [(i % 4, rej[r.randrange(len(rej))]) for i in range(bsz)] + [(i % 4, acc_[r.randrange(len(acc_))]) for i in range(3)]
            eng.add((bsz, 0, 3, 0), [q], 4)
            q2 = [(0, rej[r.randrange(len(rej))]) for _ in range(2 * bsz)] + [(1, acc_[r.randrange(len(acc_))])]
            eng.add((bsz, 0, 3, 0), [q2], 4)
    eng.run(); eng.judge()
    for s_, lines, il, ml in eng.results:
        pi = parse_run(il[1])
        for sock, b in pi["replies"]:
            f = fields_of(b, guess_ver(b)) or {}
            sm = dict(rt.decode(f.get("SREP", b"")) or [])
            if guess_ver(b) != "RfcDraft13" or sm.get("VER") != rt.DRAFT13 or sm.get("VERS") != bytes(4) + rt.DRAFT13:
                ctx.violation("property", "IETF reply does not state draft-13 and the supported versions inside SREP",
                              {"cmd": "serve", "cfg": list(s_["cfg"]), "seed": s_["seed"], "lines": lines})
    ctx.sample({"matrix_row": rt.hx(mat[7][0])[:160], "want": mat[7][1]})
    proof_verdict(ctx)


def replay(ctx, rep):
    vlib.build_harness(); vlib.gen_tables(); vlib.build_driver()
    if rep.get("cmd") == "serve":
        out = vlib.run_sessions(vlib.HARNESS, [rep["lines"]], "replay")[0]
        mout = vlib.run_sessions(vlib.DRIVER, [rep["lines"]], "replaym")[0]
        for l, a, b in zip(rep["lines"], out, mout):
            print(">", l[:160]); print("  impl :", a[:400]); print("  model:", b[:400])
    elif rep.get("cmd") == "classify":
        l = rep["line"]
        print("spec :", vlib.run_model([l])[0]); print("impl :", vlib.run_impl(["classify" + l[6:]])[0]); print("model:", vlib.run_model(["classify" + l[6:]])[0])
    else:
        print({k: str(v)[:400] for k, v in rep.items()})
    return 0
