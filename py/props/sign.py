"""C13 — MsgSigner / MsgVerifier vs one-shot Ed25519 (dalek) and the RFC 8032 transcription."""
import vlib, rt, ed25519
from props.codec import proof_verdict


def rnd(r, n):
    return bytes(r.getrandbits(8) for _ in range(n))


def run_c13(ctx):
    ctx.rule = ("small-order public keys / R with s = 0 against direct verification; random operation sequences on one MsgSigner (<= 32 messages, lengths 0..4096, 1..17 chunks "
                "incl. empty chunks); the model names the byte strings signed, one-shot dalek and the Python "
                "RFC 8032 code sign them, all signature lists must agree; verifier on valid triples and "
                "single-bit corruptions of message / signature / key, messages 0..4096 bytes in 1..17 chunks incl. cuts at multiples of 1024; non-trivial = distinct sequence with "
                ">= 2 messages on one signer, or a corrupted triple")
    vlib.prepare(ctx)
    r = ctx.rng
    nseq = 60 if not ctx.thorough else 600
    seqs = []
    for k in range(nseq):
        seed = rnd(r, 32) if k else bytes.fromhex("9d61b19deffd5a60ba844af492ec2cc44449c5697b326919703bac031cae7f60")
        ops = []
        nmsg = r.choice([1, 2, 3, 5, 8, 32]) if k % 10 else 32
        for _ in range(nmsg):
            total = r.choice([0, 0, 1, 31, 32, 33, 64, 100, 1024, 4096, r.randint(0, 4096)])
            nch = r.choice([0, 1, 1, 2, 3, 17])
            cuts = sorted(r.randint(0, total) for _ in range(max(0, nch - 1)))
            msg = rnd(r, total)
            pieces = [msg[a:b] for a, b in zip([0] + cuts, cuts + [total])] if nch else []
            if nch == 0:
                pieces = [] if total == 0 else [msg]
            for p in pieces:
                ops.append("u:" + rt.hx(p))
            ops.append("s")
        if k % 7 == 0:
            ops.append("u:aabb")     # trailing update never signed
        seqs.append((seed, ops))
    lines = ["signer %s %s" % (rt.hx(s), ",".join(o)) for s, o in seqs]
    impl = vlib.run_impl(lines)
    model = vlib.run_model(lines)
    ctx.evaluations += len(lines)
    oracle_lines, meta = [], []
    for (seed, ops), li, lm in zip(seqs, impl, model):
        rep = {"cmd": "signer", "line": ("signer %s %s" % (rt.hx(seed), ",".join(ops)))[:20000], "impl": li[:2000], "model": lm[:2000]}
        if not li.startswith("PK=") or not lm.startswith("M="):
            ctx.violation("property", "signer did not return normally: %s / %s" % (li[:60], lm[:60]), rep)
            continue
        parts = li.split(" ")
        pk, sigs = parts[0][3:], parts[1:]
        msgs = [m for m in lm[2:].split(",")] if lm != "M=" else []
        if len(msgs) != len(sigs):
            ctx.violation("tie", "model predicts %d messages, implementation produced %d signatures" % (len(msgs), len(sigs)), rep)
            continue
        ctx.count("messages_per_signer:%d" % len(msgs))
        if len(msgs) >= 2:
            ctx.nontriv("seq:" + rt.fnv64(",".join(ops).encode()))
        for m, sg in zip(msgs, sigs):
            oracle_lines.append("edsign %s %s" % (rt.hx(seed), m))
            meta.append((seed, m, sg, pk, rep))
    out = vlib.run_impl(oracle_lines)
    ctx.evaluations += len(out)
    for i, ((seed, m, sg, pk, rep), o) in enumerate(zip(meta, out)):
        if o != sg:
            ctx.violation("property", "signature differs from the one-shot Ed25519 signature of the message's concatenated chunks alone", dict(rep, message=m[:400], got=sg, oneshot=o))
        else:
            ctx.traces_validated += 1
        if i % 40 == 0:   # RFC 8032 transcription on a sample (pure Python is slow)
            mb = bytes.fromhex(m) if m != "-" else b""
            if ed25519.sign(seed, mb).hex() != sg or ed25519.secret_to_public(seed).hex() != pk:
                ctx.violation("property", "signature / public key differ from the RFC 8032 reference", dict(rep, message=m[:400], got=sg))
            ctx.count("rfc8032_cross_checks")
    ctx.sample({"signer": lines[0][:200], "impl": impl[0][:200], "model": model[0][:120]})
    # ---- verifier
    vcases = []
    for k in range(60 if not ctx.thorough else 600):
        seed = rnd(r, 32)
        # the property's range is 0..=4096 bytes; lengths around the buffers' 1024-byte growth step,
        # fed in one chunk, in a few, in many, and cut exactly at / just around multiples of 1024
        msg = rnd(r, [0, 1, 32, 100, 1000, 1023, 1024, 1025, 1500, 2047, 2048, 2049, 3000, 4095, 4096][k % 15]
                  if k % 4 else r.randint(0, 4096))
        pk = ed25519.secret_to_public(seed)
        sg = ed25519.sign(seed, msg)
        nch = [1, 1, 2, 3, 5, 17][(k // 3) % 6]
        if k % 5 == 0 and len(msg) > 1024:
            cuts = sorted(min(len(msg), max(0, 1024 * j + r.choice([-1, 0, 1]))) for j in range(1, len(msg) // 1024 + 1))
        else:
            cuts = sorted(r.randint(0, len(msg)) for _ in range(nch - 1))
        ctx.count("verify:chunks=%d,len>1024=%s" % (len(cuts) + 1, len(msg) > 1024))
        def chunked(m):
            return [m[a:b] for a, b in zip([0] + cuts, cuts + [len(m)])]
        vcases.append((pk, chunked(msg), sg, "valid"))
        for _ in range(6 if not ctx.thorough else 20):
            which = r.choice(["msg", "sig", "key"])
            if which == "msg" and msg:
                m2 = bytearray(msg); m2[r.randrange(len(m2))] ^= 1 << r.randrange(8)
                vcases.append((pk, chunked(bytes(m2)), sg, "msg bit"))
            elif which == "sig":
                s2 = bytearray(sg); s2[r.randrange(64)] ^= 1 << r.randrange(8)
                vcases.append((pk, chunked(msg), bytes(s2), "sig bit"))
            else:
                p2 = bytearray(pk); p2[r.randrange(32)] ^= 1 << r.randrange(8)
                vcases.append((bytes(p2), chunked(msg), sg, "key bit"))
        vcases.append((pk, chunked(msg), sg[:63], "short sig"))
        vcases.append((pk[:31], chunked(msg), sg, "short key"))
    # small-order public keys and small-order R with s = 0: plain Ed25519 verification accepts some of
    # these triples (e.g. the neutral element as key and as R, for every message); the incremental
    # verifier must agree with the direct verification whatever it says
    small = [bytes.fromhex(h) for h in (
        "0100000000000000000000000000000000000000000000000000000000000000",
        "ecffffffffffffffffffffffffffffffffffffffffffffffffffffffffffff7f",
        "0000000000000000000000000000000000000000000000000000000000000000",
        "0000000000000000000000000000000000000000000000000000000000000080",
        "26e8958fc2b227b045c3f489f2ef98f0d5dfac05d3c63339b13802886d53fc05",
        "26e8958fc2b227b045c3f489f2ef98f0d5dfac05d3c63339b13802886d53fc85",
        "c7176a703d4dd84fba3c0b760d10670f2a2053fa2c39ccc64ec7fd7792ac037a",
        "c7176a703d4dd84fba3c0b760d10670f2a2053fa2c39ccc64ec7fd7792ac03fa")]
    for a in small:
        for b in small[:4]:
            for m in (b"", b"abc", rnd(r, 1500)):
                vcases.append((a, [m], b + bytes(32), "small-order key / R"))
    pts = vlib.run_impl(["edpoint " + rt.hx(pk) for pk, _, _, _ in vcases])
    direct = vlib.run_impl(["edverify %s %s %s" % (rt.hx(pk), rt.hx(b"".join(ch)), rt.hx(sg)) for pk, ch, sg, _ in vcases])
    ilines = ["verify %s %s %s" % (rt.hx(pk), ",".join(rt.hx(c) for c in ch), rt.hx(sg)) for pk, ch, sg, _ in vcases]
    impl = vlib.run_impl(ilines)
    model = vlib.run_model([l + " %s %s" % (pt, "1" if dv == "1" else "0") for l, pt, dv in zip(ilines, pts, direct)])
    ctx.evaluations += len(vcases)
    for (pk, ch, sg, what), li, lm, pt, dv, line in zip(vcases, impl, model, pts, direct, ilines):
        rep = {"cmd": "verify", "line": line[:8000], "impl": li, "model": lm, "direct": dv, "point": pt, "what": what}
        ctx.count("verify:" + what)
        # property: accepts exactly when a direct verification does (where one is defined)
        if dv in ("0", "1"):
            if li != "OK " + dv:
                ctx.violation("property", "MsgVerifier verdict %s differs from direct Ed25519 verification %s (%s)" % (li, dv, what), rep)
                continue
            pyv = ed25519.verify(pk, b"".join(ch), sg)
            if what in ("valid",) and not pyv:
                ctx.violation("tie", "RFC 8032 reference rejects a valid triple", rep)
        if li != lm:
            ctx.violation("tie", "model and implementation disagree on verify", rep)
        else:
            ctx.traces_validated += 1
            if what != "valid":
                ctx.nontriv("v:" + rt.fnv64(line.encode()))
    verifier_sequences(ctx)
    proof_verdict(ctx)


def verifier_sequences(ctx):
    """ONE verifier object asked several times: after any updates and any earlier verify calls, verify(sig)
    answers what a direct Ed25519 verification of (key, everything fed so far, sig) answers — the object
    remembers the data, never an earlier answer"""
    r = ctx.rng
    seqs = []
    for k in range(40 if not ctx.thorough else 400):
        seed = rnd(r, 32)
        pk = ed25519.secret_to_public(seed)
        m1, m2 = rnd(r, r.choice([0, 1, 32, 100, 1500])), rnd(r, r.choice([1, 8, 64, 1024]))
        s1, s12 = ed25519.sign(seed, m1), ed25519.sign(seed, m1 + m2)
        shapes = [["u:" + rt.hx(m1), "v:" + rt.hx(s1), "u:" + rt.hx(m2), "v:" + rt.hx(s1), "v:" + rt.hx(s12)],       # accept, then the same signature over more data
                  ["u:" + rt.hx(m1), "v:" + rt.hx(s12), "u:" + rt.hx(m2), "v:" + rt.hx(s12), "v:" + rt.hx(s1)],     # reject, then the same signature becomes right
                  ["v:" + rt.hx(s1), "u:" + rt.hx(m1), "v:" + rt.hx(s1), "v:" + rt.hx(s1)],
                  ["u:" + rt.hx(m1), "v:" + rt.hx(s1), "v:" + rt.hx(s12), "v:" + rt.hx(s1), "u:" + rt.hx(m2), "v:" + rt.hx(s12), "v:" + rt.hx(s1)]]
        seqs.append((pk, shapes[k % len(shapes)]))
    lines = ["verifyseq %s %s" % (rt.hx(pk), ",".join(ops)) for pk, ops in seqs]
    impl = vlib.run_impl(lines)
    ctx.evaluations += len(lines)
    for (pk, ops), li, line in zip(seqs, impl, lines):
        rep = {"cmd": "verifyseq", "line": line[:8000], "impl": li}
        data, want = b"", []
        for o in ops:
            if o.startswith("u:"):
                data += bytes.fromhex(o[2:]) if o[2:] != "-" else b""
            else:
                want.append("1" if ed25519.verify(pk, data, bytes.fromhex(o[2:])) else "0")
        ctx.count("verifier_sequences")
        if li != "OK " + ",".join(want):
            ctx.violation("property", "one verifier object asked %d times answered %s; direct Ed25519 verification of what had been fed each time answers %s" % (len(want), li, ",".join(want)), rep)
        else:
            ctx.traces_validated += 1
            ctx.nontriv("vseq:" + rt.fnv64(line.encode()))


def replay(ctx, rep):
    vlib.build_harness(); vlib.gen_tables(); vlib.build_driver()
    print("impl :", vlib.run_impl([rep["line"]])[0][:2000])
    if rep.get("cmd") == "signer":
        print("model:", vlib.run_model([rep["line"]])[0][:2000])
    print({k: str(v)[:300] for k, v in rep.items()})
    return 0
