"""C17 — statistics recorders: impl vs extracted model, conservation oracle, merge, wiring."""
import os
import itertools
import vlib, rt
from props.codec import proof_verdict
from props import server as srvmod

KINDS = "icxhrkft"


def parse_out(line):
    d = {}
    for tok in line.split():
        if "=" in tok:
            k, v = tok.split("=", 1); d[k] = v
    return d


def clients_of(cstr):
    out = {}
    if cstr and cstr != "-":
        for item in cstr.split(";"):
            a, vals = item.split(":")
            out[int(a)] = [int(x) for x in vals.split("/")]
    return out

# index of each kind in the per-client tuple: rfc/classic/invalid/health/rfcresp/classicresp/bytes/failed/retried
KIDX = {"i": 0, "c": 1, "x": 2, "h": 3, "r": 4, "k": 5, "f": 7, "t": 8}


def oracle(ctx, ops, limit, li, rep):
    """conservation / boundedness on the real recorder's output"""
    d = parse_out(li)
    cl = clients_of(d.get("C"))
    O = int(d.get("O", 0))
    want = {}
    wbytes = {}
    for op in ops:
        k = op[0]; rest = op[1:].split(":")
        a = int(rest[0]); n = int(rest[1]) if len(rest) > 1 else 0
        want[(k, a)] = want.get((k, a), 0) + 1
        wbytes[a] = wbytes.get(a, 0) + n
    if len(cl) > limit:
        ctx.violation("property", "tracked addresses %d exceed the limit %d" % (len(cl), limit), rep); return
    missing = 0
    for (k, a), n in want.items():
        got = cl.get(a, [0] * 9)[KIDX[k]]
        if got > n:
            ctx.violation("property", "counter %s for address %d is %d but only %d such events occurred" % (k, a, got, n), rep); return
        missing += n - got
    for a, vals in cl.items():
        for k, idx in KIDX.items():
            if vals[idx] and (k, a) not in want:
                ctx.violation("property", "counter %s for address %d is non-zero without any such event" % (k, a), rep); return
        if vals[6] > wbytes.get(a, 0):
            ctx.violation("property", "bytes for address %d exceed what was sent" % a, rep); return
    if missing != O:
        ctx.violation("property", "events not reflected exactly once: %d events missing from their counters but overflow count is %d" % (missing, O), rep); return
    T = [int(x) for x in d["T"].split(",")]
    sums = [sum(v[i] for v in cl.values()) for i in range(9)]
    if T != sums:
        ctx.violation("property", "reported totals %s differ from the per-client sums %s" % (T, sums), rep)


def run_c17(ctx):
    ctx.rule = ("an in-process server with a 2 s status interval: aggregated totals across statistics ticks; sequences of the eight recording operations over 3-4 addresses and limits 0..3: bounded-exhaustive "
                "to length 3 (quick) / 4 (thorough), random to length 10 000; splits across recorders merged by the "
                "Reporter (IPv4, IPv4-mapped and IPv6 addresses); in-process server traffic with the recorder read back; Responder::send_responses with destinations the kernel refuses (send failures anywhere in a batch); non-trivial = distinct sequence with "
                "at least one overflow, or a merge of >= 2 snapshots")
    vlib.prepare(ctx)
    r = ctx.rng
    alphabet = [k + str(a) + (":%d" % n if k in "rk" else "") for k in KINDS for a in (1, 2, 3) for n in ((408,) if k in "rk" else (0,))]
    L = 4 if ctx.thorough else 3
    seqs = []
    for n in range(0, L + 1):
        for seq in itertools.product(alphabet, repeat=n):
            seqs.append(list(seq))
    ctx.count("exhaustive_len<=%d" % L, len(seqs))
    cases = []
    # exhaustive sequences: each with one limit chosen round-robin (all limits for the short ones)
    for i, s in enumerate(seqs):
        lims = (0, 1, 2, 3) if len(s) <= 2 else (i % 4,)
        for lim in lims:
            cases.append((lim, s))
    for _ in range(300 if not ctx.thorough else 3000):
        n = r.choice([5, 8, 20, 100, 1000, 10000]) if r.random() < 0.9 else 10000
        if not ctx.thorough and n == 10000 and r.random() < 0.8:
            n = 300
        na = r.choice([2, 4, 6])
        fam = r.choice([0, 0, 1000, 2000])
        s = []
        for _ in range(n):
            k = r.choice(KINDS); a = r.randint(1, na) + (fam if r.random() < 0.5 else 0)
            s.append(k + str(a) + (":%d" % r.choice([0, 1, 408, 432, 1024]) if k in "rk" else ""))
        cases.append((r.choice([0, 1, 2, 3, 5, 100]), s))
    ctx.count("random_sequences", 300 if not ctx.thorough else 3000)
    lines_pc = ["stats pc %d %s" % (lim, ",".join(s)) for lim, s in cases]
    lines_ag = ["stats agg 0 %s" % ",".join(s) for lim, s in cases]
    impl = vlib.run_impl(lines_pc)
    model = vlib.run_model(lines_pc)
    impl_a = vlib.run_impl(lines_ag)
    model_a = vlib.run_model(lines_ag)
    ctx.evaluations += 2 * len(cases)
    for (lim, s), li, lm, la, lma, line in zip(cases, impl, model, impl_a, model_a, lines_pc):
        rep = {"cmd": "stats", "line": line[:20000], "impl": li[:1500], "model": lm[:1500], "agg": la[:300]}
        if li.startswith(("PANIC", "CRASH", "HARNESS")) or la.startswith(("PANIC", "CRASH", "HARNESS")):
            ctx.violation("property", "statistics recorder panicked", rep); continue
        oracle(ctx, s, lim, li, rep)
        d, da = parse_out(li), parse_out(la)
        if d.get("O") == "0" and d.get("T") != da.get("T"):
            ctx.violation("property", "no overflow occurred but per-client totals %s differ from aggregated totals %s" % (d.get("T"), da.get("T")), rep)
        if d.get("O") not in (None, "0"):
            ctx.nontriv("ovf:" + rt.fnv64(line.encode()))
        if li != lm or la != lma:
            ctx.violation("tie", "model and implementation disagree on stats", rep)
        else:
            ctx.traces_validated += 1
    ctx.sample({"line": lines_pc[-1][:200], "impl": impl[-1][:200]})
    # ---- merge
    mcases = []
    for _ in range(400 if not ctx.thorough else 4000):
        nseg = r.randint(1, 4)
        apool = r.choice([[1, 2, 3, 4], [1, 2, 1001, 1002], [1, 1001, 2001, 2002], [2001, 2002, 2003, 1003]])
        segs = []
        for _ in range(nseg):
            n = r.choice([0, 1, 3, 10, 50])
            # plain IPv4, the IPv4-mapped IPv6 form of the same numbers (distinct clients) and IPv6
            segs.append([(lambda k, a: k + str(a) + (":%d" % r.choice([1, 408]) if k in "rk" else ""))(r.choice(KINDS), r.choice(apool)) for _ in range(n)])
        mcases.append((r.choice([1, 2, 3, 10]), segs))
    mlines = ["merge %d %s" % (lim, "|".join(",".join(s) for s in segs)) for lim, segs in mcases]
    impl = vlib.run_impl(mlines)
    model = vlib.run_model(mlines)
    per = vlib.run_impl(["stats pc %d %s" % (lim, ",".join(s)) for lim, segs in mcases for s in segs])
    ctx.evaluations += len(mcases)
    k = 0
    for (lim, segs), li, lm, line in zip(mcases, impl, model, mlines):
        rep = {"cmd": "merge", "line": line[:8000], "impl": li[:1500], "model": lm[:1500]}
        # property: merged per-address sums = sums of the per-worker snapshots
        want = {}
        for s in segs:
            cl = clients_of(parse_out(per[k]).get("C")); k += 1
            for a, vals in cl.items():
                cur = want.setdefault(a, [0] * 9)
                for i in range(9):
                    cur[i] += vals[i]
        got = clients_of(parse_out(li).get("C"))
        if li.startswith(("PANIC", "CRASH", "HARNESS")):
            ctx.violation("property", "reporter merge panicked", rep); continue
        if got != want:
            ctx.violation("property", "merging per-worker snapshots does not preserve per-address sums", dict(rep, want=str(want)[:600])); continue
        if li != lm:
            ctx.violation("tie", "model and implementation disagree on merge", rep)
        else:
            ctx.traces_validated += 1
            if len([s for s in segs if s]) >= 2:
                ctx.nontriv("merge:" + rt.fnv64(line.encode()))
    # ---- the published file: Reporter::report() on the merged map of the first cases, the zstd/CSV file it
    # writes decoded again by the harness. Expected (report_spec, C17_translated_report_is_spec, with a file
    # that can be created and records that serialise): one file holding every merged record exactly once when
    # something was merged and a directory is configured, no file otherwise; the merged map itself untouched.
    HEADER = "rfc_requests,classic_requests,invalid_requests,health_checks,rfc_responses_sent,classic_responses_sent,bytes_sent,failed_send_attempts,retried_send_attempts,first_seen,ip_addr"
    nrep = 60 if not ctx.thorough else 400
    rdir = os.path.join(vlib.BUILD, "report-%d" % os.getpid())
    rcases = [(lim, segs, (i % 5 != 4)) for i, (lim, segs) in enumerate(mcases[:nrep])]
    # one scratch directory PER CASE: the lines are sharded over several harness processes that run side by side
    rlines = ["report %s %d %s" % ("%s-%d" % (rdir, i) if withdir else "-", lim, "|".join(",".join(s) for s in segs)) for i, (lim, segs, withdir) in enumerate(rcases)]
    rout = vlib.run_impl(rlines)
    ctx.evaluations += len(rlines)
    for (lim, segs, withdir), lr, lmerge, line in zip(rcases, rout, impl, rlines):
        rep = {"cmd": "report", "line": line[:8000], "impl": lr[:2500], "merge": lmerge[:1500]}
        if lr.startswith("UNAVAILABLE"):
            ctx.violation("tie", "the harness cannot drive Reporter::report any more (API drift)", rep); break
        if lr.startswith(("PANIC", "CRASH", "HARNESS")):
            ctx.violation("property", "Reporter::report panicked", rep); continue
        d = dict(kv.split("=", 1) for kv in lr.split(" ") if "=" in kv)
        merged = parse_out(lmerge).get("C")
        want_files = "1" if (withdir and merged != "-") else "0"
        want_rows = merged if want_files == "1" else "-"
        if d.get("M") != merged or d.get("AFTER") != merged:
            ctx.violation("property", "the reporter's merged map around report() is %s / %s, the merge of the same snapshots is %s" % (d.get("M"), d.get("AFTER"), merged), rep); continue
        if d.get("FILES") != want_files or d.get("BAD") != "0" or d.get("NAMES") != "true":
            ctx.violation("property", "report() left %s file(s) (undecodable parts: %s), expected %s" % (d.get("FILES"), d.get("BAD"), want_files), rep); continue
        if d.get("R") != want_rows or (want_files == "1" and d.get("HEADER") != HEADER):
            ctx.violation("property", "the published statistics file holds %s (header %s) but the merged per-client counters are %s" % (d.get("R"), d.get("HEADER"), want_rows), rep); continue
        ctx.traces_validated += 1
        if want_files == "1" and merged.count(";") >= 1:
            ctx.nontriv("report:" + rt.fnv64(line.encode()))
    ctx.count("published_files_checked", len(rlines))
    # ---- wiring: in-process server traffic, recorder read back (aggregated and per-client)
    eng = srvmod.Engine(ctx, "C17")
    for cs in (0, 1):
        for b in (1, 7, 64):
            nsock = 5
            rounds = [srvmod.gen_round(r, nsock, r.choice([1, 5, 20, 70]), None) for _ in range(3)]
            # every class of unanswerable datagram at least once per session (wrong SRV, unsupported versions,
            # bad framing, ...): what is not answered must still be counted, whatever the reason
            every = [(r.randrange(nsock), srvmod.junk(r, None, k)) for k in range(srvmod.JUNK_CLASSES)]
            r.shuffle(every)
            rounds.append(every)
            eng.add((b, 0, 3, cs), rounds, nsock)
    eng.run()
    eng.judge()
    # recorded totals equal what was actually received and sent (spec classification + observed replies)
    for s, lines, il, ml in eng.results:
        tot = {"rfc": 0, "classic": 0, "invalid": 0, "resp": 0, "bytes": 0}
        import hashlib
        srv = hashlib.sha512(b"\xff" + bytes.fromhex(s["pk"])).digest()[:32]
        for kround, rd in enumerate(s["rounds"]):
            pi = srvmod.parse_run(il[1 + kround])
            for _, d in rd:
                w = eng.wf(srv, d)
                if w.startswith("OK"):
                    tot["rfc" if w.endswith("RfcDraft13") else "classic"] += 1
                else:
                    tot["invalid"] += 1
            tot["resp"] += len(pi["replies"]); tot["bytes"] += sum(len(b) for _, b in pi["replies"])
            st = pi["stats"]
            got = {"rfc": st.get("rfc"), "classic": st.get("classic"), "invalid": st.get("invalid"), "resp": st.get("resp"), "bytes": st.get("bytes")}
            if got != tot:
                ctx.violation("property", "recorded totals %s differ from the traffic actually received and sent %s (client_stats=%d)" % (got, tot, s["cfg"][3]),
                              {"cmd": "serve", "cfg": list(s["cfg"]), "seed": s["seed"], "lines": lines, "round": kround})
                break
    big_reporter_pass(ctx)
    responder_send_failures(ctx)
    shared_queue(ctx)
    totals_survive_publication_ticks(ctx)
    proof_verdict(ctx)


def big_reporter_pass(ctx):
    """one reporter pass over MANY records (several hundred thousand, in a few large snapshots whose address
    ranges overlap by half): every record is merged in that pass — the sums are preserved whatever the size —
    and nothing stays behind on the queue"""
    cases = [(3, 100000), (2, 200000)] if not ctx.thorough else [(3, 100000), (2, 200000), (5, 120000), (1, 400000)]
    lines = ["mergebig %d %d" % c for c in cases]
    out = vlib.run_impl(lines)
    ctx.evaluations += len(lines)
    for (nsnap, per), li, line in zip(cases, out, lines):
        rep = {"cmd": "mergebig", "line": line, "impl": li}
        want_clients = (nsnap - 1) * (per // 2) + per          # union of the overlapping ranges
        want = "CLIENTS=%d REQUESTS=%d QUEUED=0" % (want_clients, nsnap * per)
        ctx.count("big_reporter_pass_records", nsnap * per)
        if li != want:
            ctx.violation("property", "one reporter pass over %d snapshots of %d records: %s, but merging preserves every per-address sum only if it is %s" % (nsnap, per, li, want), rep)
        else:
            ctx.traces_validated += 1
            ctx.nontriv("mergebig:%d:%d" % (nsnap, per))


def totals_survive_publication_ticks(ctx):
    """aggregated statistics (the default) are cumulative: the periodic hand-off of per-client records
    (every tenth of the status interval) has nothing to hand off and must not lose what was counted.
    An in-process server with a 2 s status interval (tick every 200 ms) serves a round, idles for
    0.7 s of event-loop passes, serves another round; the recorder's totals must equal the traffic."""
    r = ctx.rng
    seed = "%064x" % r.getrandbits(256)
    def classic():
        return rt.hx(rt.mk_classic(bytes(r.getrandbits(8) for _ in range(64))))
    def ietf():
        return rt.hx(rt.mk_ietf(bytes(r.getrandbits(8) for _ in range(32)), 1024))
    junk = rt.hx(bytes(1024))
    lines = ["serve new 64 0 3 0 %s 0 2000" % seed,
             "serve run 3 0:%s;1:%s;2:%s;0:%s" % (classic(), ietf(), junk, classic()),
             "serve idle 700",
             "serve run 2 0:%s;1:%s" % (ietf(), junk),
             "serve idle 400",
             "serve stats"]
    out = vlib.run_sessions(vlib.HARNESS, [lines], "c17ticks")[0]
    ctx.evaluations += 1
    rep = {"cmd": "serve", "lines": lines, "impl": [o[:300] for o in out]}
    want = [None, dict(rfc=1, classic=2, invalid=1, resp=3), dict(rfc=1, classic=2, invalid=1, resp=3),
            dict(rfc=2, classic=2, invalid=2, resp=4), dict(rfc=2, classic=2, invalid=2, resp=4), dict(rfc=2, classic=2, invalid=2, resp=4)]
    for k, (o, w) in enumerate(zip(out, want)):
        if w is None:
            continue
        st = srvmod.parse_run(o)["stats"]
        got = {key: st.get(key) for key in w}
        if got != w:
            ctx.violation("property", "aggregated totals after step %d (%s) are %s but the traffic so far is %s: counts were lost at a statistics tick"
                          % (k, lines[k].split(" ", 2)[1] + " " + lines[k].split(" ", 2)[2][:12], got, w), rep)
            return
    ctx.nontriv("ticks:aggregated")
    ctx.traces_validated += 1


def shared_queue(ctx):
    """the StatsQueue between workers and reporter: publishes (force_push) and drains in arbitrary
    order, small capacities; the reporter's merged map vs the model's q_run; property: while no more
    than `capacity` snapshots are published between two drains nothing may be missing from the sums"""
    r = ctx.rng
    lines, meta = [], []
    for k in range(300 if not ctx.thorough else 3000):
        cap = r.choice([1, 2, 2, 4, 8])
        limit = r.choice([1, 2, 5, 100])
        ops, pending, within = [], 0, True
        for _ in range(r.choice([1, 3, 6, 12, 30])):
            if r.random() < 0.3:
                ops.append("D"); pending = 0
            else:
                n = r.choice([0, 1, 2, 5])
                evs = [(lambda kk, a: kk + str(a) + (":%d" % r.choice([1, 408]) if kk in "rk" else ""))(r.choice(KINDS), r.choice([1, 2, 3, 1001, 2001])) for _ in range(n)]
                ops.append("P:" + ",".join(evs))
                if n:
                    pending += 1
                    if pending > cap and k % 3:          # two thirds of the cases stay within capacity
                        ops.pop(); ops.append("D"); pending = 0
                    elif pending > cap:
                        within = False
        ops.append("D")
        lines.append("squeue %d %d %s" % (cap, limit, "|".join(ops))); meta.append((cap, limit, ops, within))
    impl = vlib.run_impl(lines)
    model = vlib.run_model(lines)
    per = vlib.run_impl(["stats pc %d %s" % (limit, o[2:]) for cap, limit, ops, _ in meta for o in ops if o.startswith("P:")])
    ctx.evaluations += len(lines)
    j = 0
    for (cap, limit, ops, within), line, li, lm in zip(meta, lines, impl, model):
        rep = {"cmd": "squeue", "line": line[:8000], "impl": li[:1500], "model": lm[:1500]}
        want = {}
        for o in ops:
            if o.startswith("P:"):
                cl = clients_of(parse_out(per[j]).get("C")); j += 1
                for a, vals in cl.items():
                    cur = want.setdefault(a, [0] * 9)
                    for i in range(9):
                        cur[i] += vals[i]
        if li.startswith(("PANIC", "CRASH", "HARNESS")):
            ctx.violation("property", "publishing to / draining the statistics queue panicked", rep); continue
        got = clients_of(parse_out(li).get("C"))
        ctx.count("squeue:" + ("within-capacity" if within else "overflowing"))
        if within and got != want:
            ctx.violation("property", "no more than `capacity` snapshots were published between drains, yet the reporter's per-address sums differ from what the workers recorded", dict(rep, want=str(want)[:600])); continue
        for a, vals in got.items():
            if any(v > w for v, w in zip(vals, want.get(a, [0] * 9))):
                ctx.violation("property", "the reporter reports more for address %d than the workers recorded" % a, rep); break
        else:
            if li != lm.split(" LOST=")[0]:
                ctx.violation("tie", "model and implementation disagree on the shared statistics queue", rep)
            else:
                ctx.traces_validated += 1
                if not within or len([o for o in ops if o.startswith("P:")]) >= 2:
                    ctx.nontriv("squeue:" + rt.fnv64(line.encode()))


def responder_send_failures(ctx):
    """Responder::send_responses driven directly, with destinations the kernel refuses to send to
    (127.0.0.1:0 -> EINVAL, 255.255.255.255 without SO_BROADCAST -> EACCES) anywhere in a batch:
    recorded responses / bytes must equal what the sockets actually received, every refused send is
    one failed attempt, and nothing else changes (model: send_fails, theorem C17_wiring)."""
    r = ctx.rng
    lines = []
    for k in range(60 if not ctx.thorough else 600):
        ver = ("Google", "RfcDraft13")[k % 2]
        nsock = r.choice([1, 2, 4])
        batches = []
        for _ in range(r.choice([1, 1, 2, 3])):
            items = []
            n = r.choice([1, 2, 3, 4, 7, 8])
            pat = r.choice(["none", "first", "middle", "last", "random", "all"])
            for i in range(n):
                bad = {"none": False, "first": i == 0, "middle": 0 < i < n - 1, "last": i == n - 1,
                       "random": r.random() < 0.4, "all": True}[pat]
                dest = r.choice(["F", "B"]) if bad else str(r.randrange(nsock))
                if ver == "Google":
                    nonce = bytes(r.getrandbits(8) for _ in range(64)); items.append("%s:%s:-" % (dest, nonce.hex()))
                else:
                    nonce = bytes(r.getrandbits(8) for _ in range(32)); items.append("%s:%s:%s" % (dest, nonce.hex(), rt.mk_ietf(nonce, 1024).hex()))
            batches.append(";".join(items))
        lines.append("respond %s %s %d %s" % (ver, srvmod.SEED, nsock, "|".join(batches)))
    impl = vlib.run_impl(lines, per_shard=8)
    model = vlib.run_model(lines, per_shard=8)
    ctx.evaluations += len(lines)
    import re
    for line, li, lm in zip(lines, impl, model):
        rep = {"cmd": "respond", "line": line[:30000], "impl": li[:1500], "model": lm[:1500]}
        if li.startswith("UNAVAILABLE"):
            ctx.violation("tie", "Responder::new / add_*_request / send_responses no longer have the signatures the harness drives "
                          "(harness built without the responder command): the send-failure correspondence cannot run", rep); break
        if not li.startswith("OK") :
            ctx.violation("property", "Responder::send_responses did not return normally with an unsendable destination in the batch: " + li[:60], rep); continue
        bi = re.findall(r"\[(.*?) R=(.*?)\]", li); bm = re.findall(r"\[(.*?) R=(.*?)\]", lm)
        batches = line.split(" ", 4)[4].split("|")
        tot_fail = tot_resp = tot_bytes = 0
        okp = True
        for (sti, ri), batch in zip(bi, batches):
            d = dict(t.split("=") for t in sti.split())
            items = batch.split(";")
            tot_fail += sum(1 for it in items if it[0] in "FB")
            got = [x for x in ri.split(",") if x]
            tot_resp += len(got); tot_bytes += sum(int(x.split(":")[1]) for x in got)
            if len(got) != sum(1 for it in items if it[0] not in "FB"):
                ctx.violation("property", "a reply whose send succeeded was not delivered / an extra datagram was delivered (batch %s)" % batch[:80], rep); okp = False; break
            if (int(d["failed"]), int(d["resp"]), int(d["bytes"])) != (tot_fail, tot_resp, tot_bytes):
                ctx.violation("property", "recorded failed/responses/bytes = %s/%s/%s but %d sends were refused and the sockets received %d datagrams, %d bytes" % (d["failed"], d["resp"], d["bytes"], tot_fail, tot_resp, tot_bytes), rep); okp = False; break
        if not okp:
            continue
        def canon(bs):
            out = []
            for st, rr in bs:
                d = dict(t.split("=") for t in st.split())
                out.append((d["failed"], d["rfcresp"], d["classicresp"], d["bytes"], rr))
            return out
        if len(bi) != len(bm) or canon(bi) != canon(bm):
            ctx.violation("tie", "model and implementation disagree on send_responses with refused destinations", rep)
        else:
            ctx.traces_validated += 1
            if tot_fail:
                ctx.nontriv("respond:" + rt.fnv64(line.encode()))
    ctx.count("responder_sessions_with_refused_sends", len(lines))


def replay(ctx, rep):
    vlib.build_harness(); vlib.gen_tables(); vlib.build_driver()
    if rep.get("cmd") in ("stats", "merge", "respond", "squeue"):
        print("impl :", vlib.run_impl([rep["line"]])[0][:2000]); print("model:", vlib.run_model([rep["line"]])[0][:2000])
    else:
        return srvmod.replay(ctx, rep)
    return 0
