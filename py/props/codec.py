"""C05 / C06 — wire codec: correspondence (impl vs extracted model), property oracle
(impl vs the Coq reference decoder and the stated equations), proof obligations."""
import itertools, os, struct
import vlib, rt


def le32(w):
    return struct.pack("<I", w & 0xffffffff)


def alphabet():
    tags = rt.tag_table()
    words = [0, 1, 2, 3, 4, 5, 8, 12, 16, 0xfffffffc, 0xffffffff, 1024, 1025, 0x80000000]
    tw = [struct.unpack("<I", w)[0] for _, w in tags]
    words += tw
    words += [0x41414141, 0x00000100, tw[3] ^ 1, tw[0] ^ 0x01000000]
    seen, out = set(), []
    for w in words:
        if w not in seen:
            seen.add(w); out.append(w)
    return out


def gen_word_sequences(ctx, maxlen_exh, n_random):
    A = alphabet()
    cases = []
    for L in range(0, maxlen_exh + 1):
        for seq in itertools.product(A, repeat=L):
            cases.append(b"".join(le32(w) for w in seq))
    ctx.count("wordseq_exhaustive_len<=%d" % maxlen_exh, len(cases))
    r = ctx.rng
    for _ in range(n_random):
        L = r.randint(maxlen_exh + 1, 12)
        cases.append(b"".join(le32(r.choice(A)) for _ in range(L)))
    ctx.count("wordseq_random_len<=12", n_random)
    return cases


def rand_value(r, maxlen):
    k = r.choice([0, 0, 4, 4, 8, 12, 32, 64, 68, r.randrange(0, maxlen + 1, 4)])
    k = min(k, maxlen - maxlen % 4)
    return bytes(r.getrandbits(8) for _ in range(k))


def gen_valid_fields(ctx, n, maxval=128):
    """n random field lists built in ascending tag order with aligned values"""
    r = ctx.rng
    names = [t for t, _ in rt.tag_table()]
    out = []
    for _ in range(n):
        k = r.choice([0, 1, 1, 2, 2, 3, 4, 5, 6, 8, 12, len(names)])
        idx = sorted(r.sample(range(len(names)), min(k, len(names))))
        out.append([(names[i], rand_value(r, maxval)) for i in idx])
    return out


def mutate_encoding(r, enc, nfields):
    """structured mutation targeting count / offset / tag words"""
    b = bytearray(enc)
    if len(b) < 4:
        return bytes(b) + bytes(4)
    nwords = len(b) // 4
    hdr_words = max(1, min(nwords, 2 * nfields))
    kind = r.randrange(9)
    pos = 4 * r.randrange(hdr_words)
    w = struct.unpack_from("<I", b, pos)[0] if pos + 4 <= len(b) else 0
    if kind == 0:
        nw = w + r.choice([4, -4, 1, -1, 2, 8])
    elif kind == 1:
        nw = r.choice([0, 1, 2, 0xffffffff, 0xfffffffc, 0x80000000, len(b), len(b) + 4, len(b) - 4, 1024, 1025])
    elif kind == 2 and hdr_words > 2:
        pos2 = 4 * r.randrange(hdr_words)
        w2 = struct.unpack_from("<I", b, pos2)[0]
        struct.pack_into("<I", b, pos2, w)
        nw = w2
    elif kind == 3:
        nw = w ^ (1 << r.randrange(32))
    elif kind == 4:
        return bytes(b[: r.randrange(0, len(b) + 1)])
    elif kind == 5:
        return bytes(b) + bytes(r.getrandbits(8) for _ in range(r.choice([1, 2, 3, 4, 8])))
    elif kind == 6 and hdr_words > 1:
        pos2 = 4 * r.randrange(hdr_words)
        struct.pack_into("<I", b, pos2, w)      # duplicate a header word
        return bytes(b)
    elif kind == 7:
        i = r.randrange(len(b)); b[i] = r.getrandbits(8); return bytes(b)
    else:
        nw = (w + 0x100000000 - r.choice([4, 8, len(b)])) & 0xffffffff
    if pos + 4 <= len(b):
        struct.pack_into("<I", b, pos, nw & 0xffffffff)
    return bytes(b)


def nest(tagw, inner):
    return le32(1) + tagw + inner


def gen_nested(ctx, n):
    """valid outer messages whose nested values are random / truncated / deeply self-nested"""
    r = ctx.rng
    wire = dict(rt.tag_table())
    nested_tags = [t["name"] for t in rt.tables()["tags"] if t["nested"]]
    cases = []
    for depth in list(range(1, 14)) + [20, 40, 100, 400, 1000, 4000, 8000]:
        for t in nested_tags:
            inner = b"\xff\xff\xff\xff"
            for _ in range(depth):
                inner = nest(wire[t], inner)
            cases.append(inner)
            inner = le32(0)
            for _ in range(depth):
                inner = nest(wire[t], inner)
            cases.append(inner)
    for _ in range(n):
        inner = r.choice([b"", b"\xff\xff\xff\xff", le32(0), le32(1), le32(2) + le32(4),
                          bytes(r.getrandbits(8) for _ in range(4 * r.randint(0, 6)))])
        for _ in range(r.randint(1, 10)):
            t = r.choice(nested_tags)
            if r.random() < 0.3:
                # two-field message: nested + another
                other = r.choice([x for x in wire if x not in nested_tags])
                f = sorted([(t, inner), (other, bytes(4))], key=lambda tv: struct.unpack("<I", wire[tv[0]])[0])
                inner = rt.encode(f, wire)
            else:
                inner = nest(wire[t], inner)
        cases.append(inner)
    ctx.count("nested_display", len(cases))
    return cases


def gen_cases(ctx):
    r = ctx.rng
    if ctx.thorough:
        exh, nrand, nvalid, nmut, nrnd, nbig = 4, 200000, 20000, 200000, 50000, 300
    else:
        exh, nrand, nvalid, nmut, nrnd, nbig = 3, 20000, 3000, 30000, 5000, 40
    raw = gen_word_sequences(ctx, exh, nrand)
    fields = gen_valid_fields(ctx, nvalid)
    wire = dict(rt.tag_table())
    encs = [(rt.encode(f, wire), len(f)) for f in fields]
    raw += [e for e, _ in encs]
    ctx.count("valid_encodings", len(encs))
    for _ in range(nmut):
        e, k = r.choice(encs)
        m = e
        for _ in range(r.choice([1, 1, 1, 2, 3])):
            m = mutate_encoding(r, m, k)
        raw.append(m)
    ctx.count("structured_mutations", nmut)
    for _ in range(nrnd):
        raw.append(bytes(r.getrandbits(8) for _ in range(r.choice([0, 1, 3, 4, 5, 8, 12, 16, 20, 24, 40, 64]))))
    ctx.count("random_bytes", nrnd)
    # large messages up to 64 KiB and their header mutations
    for _ in range(nbig):
        f = gen_valid_fields(ctx, 1, maxval=r.choice([1024, 4096, 16000, 65000 // 4]))[0]
        e = rt.encode(f, wire)[:65536]
        raw.append(e)
        raw.append(mutate_encoding(r, e, len(f)))
    ctx.count("large_up_to_64KiB", 2 * nbig)
    raw += gen_nested(ctx, 2000 if ctx.thorough else 300)
    # all ordered two-tag and three-tag headers over the table (directed at tag order / table changes)
    names = [t for t, _ in rt.tag_table()]
    for a in names:
        for b in names:
            raw.append(le32(2) + le32(4) + wire[a] + wire[b] + bytes(8))
    ctx.count("all_tag_pairs", len(names) ** 2)
    # de-duplicate preserving order
    seen, cases = set(), []
    for c in raw:
        if c not in seen:
            seen.add(c); cases.append(c)
    return cases, fields


def parse_fb(line):
    """'D=... E=... S=... P=...' -> dict"""
    out = {}
    for key in ("D", "E", "S", "P"):
        i = line.find(key + "=")
        out[key] = None if i < 0 else line[i + 2:]
    # trim each at the next ' X=' marker
    for key in ("D", "E", "S", "P"):
        if out[key] is None:
            continue
        v = out[key]
        for nk in (" E=", " S=", " P="):
            j = v.find(nk)
            if j >= 0:
                v = v[:j]
        out[key] = v
    return out


def klass(d):
    if d is None:
        return "CRASH"
    if d.startswith("OK"):
        return "OK"
    if d.startswith("ERR"):
        return "ERR"
    return d.split()[0]


def nontrivial_key(case):
    """reached the offset table: n >= 2 and header (8n bytes) complete"""
    if len(case) < 8 or len(case) % 4:
        return None
    n = struct.unpack_from("<I", case, 0)[0]
    if 2 <= n <= 1024 and len(case) >= 8 * n:
        return rt.fnv64(case)
    return None


def compare_decode(ctx, cases, pid):
    lines = ["fb " + rt.hx(c) for c in cases]
    speclines = ["fbspec " + rt.hx(c) for c in cases]
    impl = vlib.run_impl(lines)
    model = vlib.run_model(lines)
    spec = vlib.run_model(speclines)
    ctx.evaluations += len(cases)
    kinds = {}
    for c, li, lm, ls in zip(cases, impl, model, spec):
        pi, pm, ps = parse_fb(li), parse_fb(lm), parse_fb(ls)
        ki = klass(pi["D"])
        kinds[ki] = kinds.get(ki, 0) + 1
        if ki == "ERR":
            ctx.count("err:" + pi["D"].split()[1].split("(")[0])
        nk = nontrivial_key(c)
        if nk:
            ctx.nontriv(nk)
        if len(ctx.samples) < 6 and nk and ki == "OK":
            ctx.sample({"input": rt.hx(c)[:200], "impl": li[:200], "model": lm[:200], "spec": ls[:120]})
        rep = {"input_hex": rt.hx(c), "impl": li, "model": lm, "spec": ls, "cmd": "fb"}
        # ---- property oracle on the real code
        if li.startswith(("CRASH", "HARNESS-PANIC")):
            ctx.violation("property", "implementation crashed (abort / stack overflow) on a %d-byte input" % len(c), rep)
            continue
        if pid == "C06":
            if ki == "PANIC":
                ctx.violation("property", "from_bytes panicked on a %d-byte input" % len(c), rep)
                continue
            if ki == "OK" and pi["S"] is not None and not pi["S"].startswith("OK"):
                ctx.violation("property", "display of a decoded message did not return normally: S=%s" % pi["S"], rep)
                continue
            if ki == "OK" and pi["P"] not in (None, "1", "-"):
                ctx.violation("property", "values of the accepted message are not the bytes after the header", rep)
                continue
        if pid == "C05":
            sk = klass(ps["D"])
            if (ki == "OK") != (sk == "OK"):
                ctx.violation("property", "decoder accepts=%s but reference decoder accepts=%s" % (ki == "OK", sk == "OK"), rep)
                continue
            if ki == "OK" and pi["D"] != ps["D"]:
                ctx.violation("property", "decoder and reference decoder disagree on content", rep)
                continue
            if ki == "OK" and pi["D"] != "OK []":
                want = "OK %d:%s" % (len(c), rt.fnv64(c))
                if pi["E"] != want:
                    ctx.violation("property", "accepted non-empty message does not re-encode to the identical bytes (E=%s, want %s)" % (pi["E"], want), rep)
                    continue
        # ---- correspondence impl vs model (C05's model speaks about decoding and encoding; Display is C06's)
        same = (pi["D"], pi["E"]) == (pm["D"], pm["E"]) if pid == "C05" else li == lm
        if not same:
            if ki == "ERR" and klass(pm["D"]) == "ERR":
                ctx.note("error variant differs (not an observable of the property): impl %s / model %s on %s" % (pi["D"], pm["D"], rt.hx(c)[:80]))
            else:
                ctx.violation("tie", "model and implementation disagree on fb: impl %s / model %s" % (li[:300], lm[:300]), rep)
        else:
            ctx.traces_validated += 1
    for k, v in kinds.items():
        ctx.count("decode:" + k, v)


def compare_build(ctx, fieldlists, pid):
    r = ctx.rng
    names = [t for t, _ in rt.tag_table()]
    wire = dict(rt.tag_table())
    # valid ordered builds + misordered / duplicate builds + unaligned values
    builds = list(fieldlists)
    for _ in range(len(fieldlists) // 3):
        k = r.randint(1, 5)
        builds.append([(r.choice(names), rand_value(r, 16)) for _ in range(k)])
    for _ in range(len(fieldlists) // 10):
        f = gen_valid_fields(ctx, 1, 32)[0]
        builds.append([(t, v + bytes(r.randint(1, 3))) for t, v in f])
    # every subset of tags is too many for quick (2^18); thorough samples more elsewhere
    lines = ["build " + rt.fields_arg(f) for f in builds]
    speclines = ["buildspec " + rt.fields_arg(f) for f in builds]
    impl = vlib.run_impl(lines)
    model = vlib.run_model(lines)
    spec = vlib.run_model(speclines)
    ctx.evaluations += len(builds)
    ctx.count("api_builds", len(builds))
    for f, li, lm, ls in zip(builds, impl, model, spec):
        rep = {"fields": rt.fields_arg(f), "impl": li, "model": lm, "spec": ls, "cmd": "build"}
        ascending = all(struct.unpack("<I", wire[a[0]])[0] < struct.unpack("<I", wire[b[0]])[0] for a, b in zip(f, f[1:]))
        aligned = all(len(v) % 4 == 0 for _, v in f)
        if li.startswith(("CRASH", "HARNESS-PANIC")) or "PANIC" in li:
            ctx.violation("property", "building/encoding a message panicked", rep)
            continue
        if pid == "C05":
            if ascending != li.startswith("A=OK"):
                ctx.violation("property", "add_field accepted=%s but tags strictly ascending numerically=%s" % (li.startswith("A=OK"), ascending), rep)
                continue
            if ascending:
                enc = rt.encode(f, wire)
                want_e = "E=OK %d:%s" % (len(enc), rt.fnv64(enc))
                fr = rt.frame(enc)
                want_f = "F=OK %d:%s" % (len(fr), rt.fnv64(fr))
                if want_e not in li:
                    ctx.violation("property", "encoding differs from the canonical encoding (want %s)" % want_e, rep)
                    continue
                if want_f not in li:
                    ctx.violation("property", "RFC framing is not magic + LE length + payload (want %s)" % want_f, rep)
                    continue
                if aligned:
                    want_r = "R=OK " + rt.render_msg(f)
                    if not li.endswith(want_r):
                        ctx.violation("property", "decode(encode(m)) differs from m (want %s)" % want_r[:200], rep)
                        continue
                    ctx.nontriv("build:" + rt.fnv64(enc))
                # spec canon agrees with the independent Python encoder
                if ("C=%d:%s" % (len(enc), rt.fnv64(enc))) not in ls:
                    ctx.violation("tie", "Coq canon differs from the Python reference encoder", rep)
        if li != lm:
            ctx.violation("tie", "model and implementation disagree on build: impl %s / model %s" % (li[:300], lm[:300]), rep)
        else:
            ctx.traces_validated += 1
    if builds:
        ctx.sample({"build": rt.fields_arg(builds[0])[:200], "impl": impl[0][:200]})
    # ---- a caller that goes on after a REFUSED add_field: the message must be exactly what it was before
    # the refused call (a builder that half-applies a refused field breaks every later encoding)
    conts = []
    base = gen_valid_fields(ctx, 60 if not ctx.thorough else 600, 24)
    for f in base:
        if not f:
            continue
        g = list(f)
        for _ in range(r.randint(1, 3)):
            pos = r.randint(1, len(g))
            lower = [t for t in names if struct.unpack("<I", wire[t])[0] <= struct.unpack("<I", wire[g[pos - 1][0]])[0]]
            g.insert(pos, (r.choice(lower), rand_value(r, 12)))      # out of order or duplicate: refused
        conts.append(g)
    clines = ["buildcont " + rt.fields_arg(f) for f in conts]
    cimpl = vlib.run_impl(clines)
    cmodel = vlib.run_model(clines)
    ctx.evaluations += len(conts)
    ctx.count("api_builds_continued_after_refusal", len(conts))
    for f, li, lm in zip(conts, cimpl, cmodel):
        rep = {"fields": rt.fields_arg(f), "impl": li, "model": lm, "cmd": "buildcont"}
        # the accepted fields, by the rule of the property (strictly ascending numeric tag order)
        acc = []
        for t, v in f:
            if not acc or struct.unpack("<I", wire[acc[-1][0]])[0] < struct.unpack("<I", wire[t])[0]:
                acc.append((t, v))
        if li.startswith(("CRASH", "HARNESS-PANIC")) or "PANIC" in li:
            ctx.violation("property", "after a refused add_field, building / encoding the message panicked", rep); continue
        d = dict(tok.split("=", 1) for tok in li.split() if "=" in tok)
        if pid == "C05":
            if not (d.get("N") == d.get("T") == d.get("V") == str(len(acc))):
                ctx.violation("property", "after refused add_field calls the message holds %s fields / %s tags / %s values; %d were accepted" % (d.get("N"), d.get("T"), d.get("V"), len(acc)), rep); continue
            enc = rt.encode(acc, wire)
            if ("E=OK %d:%s" % (len(enc), rt.fnv64(enc))) not in li:
                ctx.violation("property", "after refused add_field calls the encoding is not the canonical encoding of the accepted fields", rep); continue
            if all(len(v) % 4 == 0 for _, v in acc) and not li.endswith("R=OK " + rt.render_msg(acc)):
                ctx.violation("property", "after refused add_field calls decode(encode(m)) differs from the accepted fields", rep); continue
        if li != lm:
            ctx.violation("tie", "model and implementation disagree on a build continued after a refusal: impl %s / model %s" % (li[:300], lm[:300]), rep)
        else:
            ctx.traces_validated += 1
            ctx.nontriv("buildcont:" + rt.fnv64(li.encode()))


def tagsweep(ctx):
    """Tag::from_wire is the inverse of wire_value on the table, InvalidTag elsewhere."""
    import subprocess
    if ctx.thorough:
        ranges = [(i * (1 << 28), (i + 1) * (1 << 28)) for i in range(16)]
    else:
        # quick: neighbourhoods of every tag word (all 1- and 2-bit flips are within these? no:
        # flips are enumerated explicitly below) plus a 2^24 slice per run chosen by the seed
        base = (ctx.seed % 256) << 24
        ranges = [(base, base + (1 << 24))]
    procs = [subprocess.Popen([vlib.HARNESS, "tagsweep", str(lo), str(hi)], stdout=subprocess.PIPE, text=True)
             for lo, hi in ranges]
    # every run: all words within two byte positions of a known tag (where a mistyped, legacy or
    # case-variant spelling lives)
    near = subprocess.run([vlib.HARNESS, "tagsweep", "near"], stdout=subprocess.PIPE, text=True).stdout.strip()
    if not near.startswith("TAGSWEEP-OK"):
        # a concrete input: the one-field message carrying that word as its tag
        import re as _re
        m = _re.search(r"word=([0-9a-f]{8})", near)
        inp = ("01000000" + m.group(1)) if m else ""
        ctx.violation("property", "the decoder's tag table differs from the known tags (Tag::from_wire vs wire_value): " + near,
                      {"cmd": "fb", "input_hex": inp, "output": near})
    else:
        ctx.count("tagsweep_near_words", int(near.split()[1]))
    total = 0
    for p, (lo, hi) in zip(procs, ranges):
        out = p.communicate()[0].strip()
        if not out.startswith("TAGSWEEP-OK"):
            ctx.violation("tie", "Tag::from_wire is not the inverse of wire_value: " + out,
                          {"cmd": "tagsweep", "range": [lo, hi], "output": out})
        else:
            total += hi - lo
    ctx.evaluations += total
    ctx.count("tagsweep_words", total)
    ctx.extra["tagsweep_exhaustive_2^32"] = ctx.thorough


def proof_verdict(ctx):
    if ctx.proof and ctx.proof["failed"]:
        if not any(v[0] == "property" for v in ctx.violations):
            ctx.violation("tie", "proof obligations of %s no longer check: %s" % (ctx.pid, ctx.proof["failed"][:1200]),
                          {"broken": "proof", "file": "coq/Properties/%s.v" % ctx.pid, "detail": ctx.proof["failed"]})


def run_c05(ctx):
    ctx.rule = ("cases: bounded-exhaustive word sequences over an alphabet of interesting words, API-built "
                "messages, structured mutations of valid encodings (count/offset/tag words), random bytes, "
                "messages up to 64 KiB, all tag pairs; non-trivial = distinct input that reaches the offset "
                "table (2 <= n <= 1024 and the 8n-byte header is complete) or a distinct aligned API build "
                "that round-trips")
    vlib.prepare(ctx)
    cases, fields = gen_cases(ctx)
    compare_decode(ctx, cases, "C05")
    compare_build(ctx, fields, "C05")
    tagsweep(ctx)
    proof_verdict(ctx)


def run_c06(ctx):
    ctx.rule = ("same streams as C05 plus nested-field fuzz (CERT/DELE/SREP values random, truncated, "
                "ff ff ff ff, self-nested to depth 8000) displayed in a 2 MiB-stack thread under catch_unwind; "
                "non-trivial = distinct input that reaches the offset table or a nested display case")
    vlib.prepare(ctx)
    cases, fields = gen_cases(ctx)
    compare_decode(ctx, cases, "C06")
    proof_verdict(ctx)


def replay(ctx, rep):
    vlib.build_harness(); vlib.gen_tables(); vlib.build_driver()
    if rep.get("cmd") == "fb":
        line = "fb " + rep["input_hex"]
        print("impl :", vlib.run_impl([line])[0][:2000])
        print("model:", vlib.run_model([line])[0][:2000])
        print("spec :", vlib.run_model(["fbspec " + rep["input_hex"]])[0][:2000])
    elif rep.get("cmd") == "build":
        line = "build " + rep["fields"]
        print("impl :", vlib.run_impl([line])[0][:2000])
        print("model:", vlib.run_model([line])[0][:2000])
        print("spec :", vlib.run_model(["buildspec " + rep["fields"]])[0][:2000])
    else:
        print(rep)
    print("recorded:", {k: str(v)[:300] for k, v in rep.items()})
    return 0
