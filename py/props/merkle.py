"""C04 — Merkle inclusion proofs: impl vs extracted model vs functional spec."""
import hashlib
import vlib, rt
from props.codec import proof_verdict


def leaf_bytes(r, kind):
    if kind == "empty":
        return b""
    if kind == "one":
        return bytes([r.getrandbits(8)])
    if kind == "n32":
        return bytes(r.getrandbits(8) for _ in range(32))
    if kind == "n64":
        return bytes(r.getrandbits(8) for _ in range(64))
    if kind == "req":
        return bytes(r.getrandbits(8) for _ in range(r.choice([1024, 1036, 1500])))
    return bytes(r.getrandbits(8) for _ in range(r.randint(0, 40)))


def gen_batch(r, n, kinds=("one", "n32", "n64", "any", "empty")):
    k = r.choice(kinds)
    if k == "equal":
        x = leaf_bytes(r, "n32")
        return [x] * n
    return [leaf_bytes(r, k) for _ in range(n)]


def py_root_path(ver, leaves):
    """independent Python reference (third opinion): root and paths"""
    w = 64 if ver == "Google" else 32
    h = lambda x: hashlib.sha512(x).digest()[:w]
    lvl = [h(b"\x00" + l) for l in leaves]
    paths = [[] for _ in leaves]
    idx = list(range(len(leaves)))
    while len(lvl) > 1:
        if len(lvl) % 2:
            lvl.append(bytes(w))
        for k, i in enumerate(idx):
            paths[k].append(lvl[i ^ 1])
        idx = [i // 2 for i in idx]
        lvl = [h(b"\x01" + lvl[2 * i] + lvl[2 * i + 1]) for i in range(len(lvl) // 2)]
    return lvl[0], [b"".join(p) for p in paths]


def fmt_batches(batches):
    return "|".join(",".join(rt.hx(l) for l in b) for b in batches)


def run_c04(ctx):
    ctx.rule = ("batch sequences on one reused MerkleTree: every size 1..=64 (thorough: 1..=255) for both "
                "profiles with mixed leaf kinds, ordered pairs of sizes and random sequences (reuse), and "
                "negative recomputation cases (other leaf / other index / changed, added, removed path "
                "element); non-trivial = distinct batch with an odd level somewhere (size not a power of "
                "two) or processed after a larger batch on the same tree")
    vlib.prepare(ctx)
    r = ctx.rng
    cases = []   # (ver, batches)
    maxn = 255 if ctx.thorough else 64
    for ver in ("Google", "RfcDraft13"):
        for n in range(1, maxn + 1):
            cases.append((ver, [gen_batch(r, n, ("one", "n32", "any"))]))
        extra = [r.randint(65, 255) for _ in range(5)] if not ctx.thorough else []
        for n in extra:
            cases.append((ver, [gen_batch(r, n, ("one",))]))
        sizes = [1, 2, 3, 4, 5, 7, 8, 9, 16, 17, 33] if not ctx.thorough else list(range(1, 41))
        for a in sizes:
            for b in sizes:
                cases.append((ver, [gen_batch(r, a, ("one",)), gen_batch(r, b, ("one",))]))
        for _ in range(30 if not ctx.thorough else 400):
            k = r.randint(3, 8)
            cases.append((ver, [gen_batch(r, r.choice([1, 2, 3, 5, 6, 8, 13, 20, 33, 64]), ("one", "empty", "equal", "n32")) for _ in range(k)]))
        for _ in range(6 if not ctx.thorough else 40):
            cases.append((ver, [gen_batch(r, r.randint(1, 8), ("req",))]))
    lines = ["merkle %s %s" % (v, fmt_batches(b)) for v, b in cases]
    impl = vlib.run_impl(lines)
    # interleave heavy and light cases across shards
    order = sorted(range(len(lines)), key=lambda i: (i * 7919) % len(lines))
    mres = vlib.run_model([lines[i] for i in order], per_shard=8)
    sres = vlib.run_model(["merklespec" + lines[i][6:] for i in order], per_shard=8)
    model, spec = [None] * len(lines), [None] * len(lines)
    for k, i in enumerate(order):
        model[i], spec[i] = mres[k], sres[k]
    ctx.evaluations += len(cases)
    ctx.count("batch_sequences", len(cases))
    for (ver, batches), li, lm, ls in zip(cases, impl, model, spec):
        rep = {"cmd": "merkle", "ver": ver, "batches": fmt_batches(batches), "impl": li[:2000], "model": lm[:2000], "spec": ls[:2000]}
        ctx.count("batches_per_seq:%d" % len(batches))
        # property oracle: implementation against the functional spec and the Python reference
        want = []
        for b in batches:
            root, paths = py_root_path(ver, b)
            want.append("R=%s P=%s" % (rt.hx(root), ",".join("%d:%s" % (len(p), rt.fnv64(p)) for p in paths)))
        want = " | ".join(want)
        spec_core = " | ".join(x.rsplit(" C=", 1)[0] for x in ls.split(" | "))
        if "C=0" in ls:
            ctx.violation("tie", "functional spec: issued path does not recompute its own root", rep)
        if spec_core != want:
            ctx.violation("tie", "Coq functional spec and Python reference tree disagree", rep)
        if li.startswith(("CRASH", "HARNESS-PANIC", "PANIC")):
            ctx.violation("property", "MerkleTree panicked on a non-empty batch sequence", rep)
            continue
        if li != want:
            ctx.violation("property", "root/paths issued by MerkleTree differ from the functional Merkle tree (reuse across batches or batch shape)", rep)
            continue
        if li != lm:
            ctx.violation("tie", "model and implementation disagree on merkle", rep)
        else:
            ctx.traces_validated += 1
        for k, b in enumerate(batches):
            n = len(b)
            if n & (n - 1) or (k > 0 and len(batches[k - 1]) > n):
                ctx.nontriv("%s:%d:%s" % (ver, k, rt.fnv64(b"".join(b) + bytes([n % 256]))))
    ctx.sample({"cmd": lines[2][:160], "impl": impl[2][:300]})
    ctx.sample({"cmd": lines[-1][:160], "impl": impl[-1][:200]})

    # ---- root_from_paths: positive and negative (binding) cases
    neg = []
    for ver in ("Google", "RfcDraft13"):
        w = 64 if ver == "Google" else 32
        for _ in range(150 if not ctx.thorough else 1500):
            n = r.choice([1, 2, 3, 4, 5, 6, 7, 8, 9, 15, 16, 17, 33, 64])
            leaves = [bytes([i, r.getrandbits(8), r.getrandbits(8)]) for i in range(n)]  # pairwise distinct
            root, paths = py_root_path(ver, leaves)
            i = r.randrange(n)
            neg.append((ver, i, leaves[i], paths[i], root, True, "genuine"))
            j = r.randrange(n)
            if j != i:
                neg.append((ver, j, leaves[i], paths[i], root, False, "other in-range index"))
                neg.append((ver, i, leaves[j], paths[i], root, False, "other leaf"))
            p = bytearray(paths[i])
            if p:
                p[r.randrange(len(p))] ^= 1 << r.randrange(8)
                neg.append((ver, i, leaves[i], bytes(p), root, False, "changed path element"))
                neg.append((ver, i, leaves[i], paths[i][:-w], root, False, "removed path element"))
            neg.append((ver, i, leaves[i], paths[i] + bytes(w), root, False, "added path element"))
            if paths[i]:
                neg.append((ver, i, leaves[i], paths[i] + paths[i][:w], root, False, "added path element"))
            neg.append((ver, i, leaves[i], paths[i] + b"\x01", root, None, "ragged path"))
            neg.append((ver, i, leaves[i], paths[i] + bytes(r.choice([4, w // 2, w - 4, w - 1])), root, None, "ragged path"))
    lines = ["mroot %s %d %s %s" % (v, i, rt.hx(l), rt.hx(p)) for v, i, l, p, _, _, _ in neg]
    impl = vlib.run_impl(lines)
    model = vlib.run_model(lines)
    spec = vlib.run_model(["mrootspec" + l[5:] for l in lines])
    ctx.evaluations += len(neg)
    for (ver, i, leaf, path, root, expect, what), li, lm, ls, line in zip(neg, impl, model, spec, lines):
        rep = {"cmd": "mroot", "line": line[:3000], "root": rt.hx(root), "impl": li, "model": lm, "spec": ls, "what": what}
        ctx.count("recompute:" + what)
        got = li == "OK " + rt.hx(root)
        if expect is True and not got:
            ctx.violation("property", "genuine (leaf, index, path) does not recompute the signed root", rep)
        elif expect is False and got:
            ctx.violation("property", "%s recomputes the signed root" % what, rep)
        elif expect is None and got:
            ctx.violation("property", "a path with a trailing partial element (length not a multiple of the node length) recomputes the signed root: a changed / added path element is accepted", rep)
        elif expect is None and li != "PANIC":
            ctx.note("ragged path no longer rejected by assertion: " + li[:80])
        if li != lm:
            ctx.violation("tie", "model and implementation disagree on root_from_paths", rep)
        elif (li == "PANIC") != (ls == "REJECT") or (li != "PANIC" and li != ls):
            ctx.violation("tie", "root_from_paths differs from the functional recomputation", rep)
        else:
            ctx.traces_validated += 1
            if expect is False:
                ctx.nontriv("neg:" + rt.fnv64(line.encode()))
    proof_verdict(ctx)


def replay(ctx, rep):
    vlib.build_harness(); vlib.gen_tables(); vlib.build_driver()
    if rep.get("cmd") == "merkle":
        line = "merkle %s %s" % (rep["ver"], rep["batches"])
        print("impl :", vlib.run_impl([line])[0][:3000])
        print("model:", vlib.run_model([line])[0][:3000])
        print("spec :", vlib.run_model(["merklespec %s %s" % (rep["ver"], rep["batches"])])[0][:3000])
    elif rep.get("cmd") == "mroot":
        print("impl :", vlib.run_impl([rep["line"]])[0])
        print("model:", vlib.run_model([rep["line"]])[0])
        print("want root:", rep["root"], "(%s)" % rep["what"])
    else:
        print(rep)
    return 0
