"""C01 / C03 — the real client binary against a scripted UDP responder; verdicts predicted by the
extracted client model (Ed25519 answers from one-shot dalek) and judged by the property."""
import base64, os, socket, struct, subprocess, threading
from concurrent.futures import ThreadPoolExecutor
import vlib, rt, ed25519, refserver
from props.codec import proof_verdict

LT = bytes.fromhex("a32049da0ffde0ded92ce10a0230d35fe615ec8461c14986baa63fe3b3bac3db")
LT_PK = ed25519.secret_to_public(LT)
LT2 = bytes.fromhex("9d61b19deffd5a60ba844af492ec2cc44449c5697b326919703bac031cae7f60")
OK1 = bytes([7] * 32)
OK2 = bytes([9] * 32)


def rnd(r, n):
    return bytes(r.getrandbits(8) for _ in range(n))


def key_to_arg(kind, pk):
    """the -k argument for a pinned key in one of the spellings the client documents / accepts:
    lower-case hex, UPPER-case hex, mixed-case hex, base64"""
    if kind in (None, "none"):
        return None
    if kind == "hex":
        return pk.hex()
    if kind == "hexU":
        return pk.hex().upper()
    if kind == "hexM":
        h = pk.hex()
        return "".join(ch.upper() if i % 3 == 0 else ch for i, ch in enumerate(h))
    return base64.b64encode(pk).decode()


def run_client(ver, key_arg, make_reply, timeout=10):
    """one client process against a one-shot responder. make_reply(request_bytes) -> datagram | None.
    returns dict(rc, stdout, stderr, request)"""
    sock = socket.socket(socket.AF_INET, socket.SOCK_DGRAM)
    sock.bind(("127.0.0.1", 0))
    sock.settimeout(timeout)
    port = sock.getsockname()[1]
    args = [vlib.CLIENT_BIN, "127.0.0.1", str(port), "-p", "0" if ver == "Google" else "13", "-z", "-v",
            "-f", "%s %f", "-t", "5"]
    if key_arg:
        args += ["-k", key_arg]
    p = subprocess.Popen(args, stdout=subprocess.PIPE, stderr=subprocess.PIPE, text=True)
    req = None
    try:
        req, peer = sock.recvfrom(65536)
        reply = make_reply(req)
        if reply is not None:
            sock.sendto(reply, peer)
    except socket.timeout:
        pass
    try:
        out, err = p.communicate(timeout=timeout + 6)
    except subprocess.TimeoutExpired:
        p.kill(); out, err = p.communicate()
    sock.close()
    # the client's own receive timeout fired (exit 0, nothing printed): on a loaded machine the
    # request or the reply was late. That observation says nothing about the response; the case
    # is re-run serially by run_cases before it is judged.
    timed_out = "Timeout waiting for response" in err or req is None
    return {"rc": p.returncode, "stdout": out, "stderr": err, "request": req, "timed_out": timed_out}


def run_client_multi(ver, key_arg, n, make_replies, timeout=12):
    """one client process with -n <n> against a responder that collects the n requests (each from
    its own source port) and answers them in the order the client sent them.
    make_replies(list of requests) -> list of datagrams. returns dict(rc, stdout, stderr, requests, dgrams)"""
    sock = socket.socket(socket.AF_INET, socket.SOCK_DGRAM)
    sock.bind(("127.0.0.1", 0))
    sock.settimeout(timeout)
    port = sock.getsockname()[1]
    args = [vlib.CLIENT_BIN, "127.0.0.1", str(port), "-p", "0" if ver == "Google" else "13", "-z", "-v",
            "-f", "%s %f", "-t", "6", "-n", str(n)]
    if key_arg:
        args += ["-k", key_arg]
    p = subprocess.Popen(args, stdout=subprocess.PIPE, stderr=subprocess.PIPE, text=True)
    reqs, peers, dgrams = [], [], []
    try:
        for _ in range(n):
            rq, peer = sock.recvfrom(65536)
            reqs.append(rq); peers.append(peer)
        dgrams = make_replies(reqs)
        for d, peer in zip(dgrams, peers):
            sock.sendto(d, peer)
    except socket.timeout:
        pass
    try:
        out, err = p.communicate(timeout=timeout + 8)
    except subprocess.TimeoutExpired:
        p.kill(); out, err = p.communicate()
    sock.close()
    timed_out = "Timeout waiting for response" in err or len(reqs) < n
    return {"rc": p.returncode, "stdout": out, "stderr": err, "requests": reqs, "dgrams": dgrams, "timed_out": timed_out}


SEEN_NONCES = []


def check_nonces_fresh(ctx):
    """across all client runs of this check no nonce may repeat (64 / 32 random bytes each)"""
    seen = {}
    for n in SEEN_NONCES:
        seen[n] = seen.get(n, 0) + 1
    dup = [n for n, c in seen.items() if c > 1 and n]
    ctx.count("distinct_nonces_observed", len(seen))
    if dup:
        ctx.violation("property", "%d nonce value(s) were used by more than one request across client runs: a response recorded in one run is valid in another" % len(dup),
                      {"cmd": "nonce-reuse", "nonce": rt.hx(dup[0])})


def multi_runs(ctx, pid):
    """-n N runs: genuine responses first, then (for C01) one that is unauthentic in a way that only
    a client carrying state from the earlier responses of the run could miss; the per-response model
    predicts every step (the client handles each response independently of the earlier ones)."""
    r = ctx.rng
    plans = []
    for ver in ("Google", "RfcDraft13"):
        unit = 10**6 if ver == "Google" else 1
        midp = 1700000000 * unit + 77
        kinds = ["all honest", "forged CERT.SIG after genuine", "forged MAXT after genuine", "forged MINT after genuine",
                 "replay of response 1 for request 2", "response for request 1 sent to request 2's socket",
                 "re-signed by another key after genuine", "window moved (validly signed) after genuine",
                 "other online key, bad CERT.SIG after genuine"]
        for ki, kind in enumerate(kinds if pid == "C01" else kinds[:1]):
            for n in ((2, 3) if not ctx.thorough else (2, 3, 5, 9)):
                def mk(reqs, ver=ver, kind=kind, midp=midp):
                    batch = [(rq, nonce_of(ver, rq)) for rq in reqs]
                    ds = [refserver.respond(ver, LT, OK1, batch, i, midp) for i in range(len(reqs))]
                    j = len(reqs) - 1          # the last response is the bad one
                    if kind == "forged CERT.SIG after genuine":
                        g = refserver.parts(ver, ds[j]); b = bytearray(g["_cert"]["SIG"]); b[5] ^= 4
                        g["_cert"]["SIG"] = bytes(b); ds[j] = refserver.rebuild(ver, g)
                    elif kind == "forged MAXT after genuine":
                        g = refserver.parts(ver, ds[j]); g["_dele"]["MAXT"] = struct.pack("<Q", midp - 1)
                        ds[j] = refserver.rebuild(ver, g)
                    elif kind == "forged MINT after genuine":
                        g = refserver.parts(ver, ds[j]); g["_dele"]["MINT"] = struct.pack("<Q", 5)
                        ds[j] = refserver.rebuild(ver, g)
                    elif kind == "replay of response 1 for request 2":
                        ds[j] = ds[0]
                    elif kind == "response for request 1 sent to request 2's socket":
                        ds[j] = refserver.respond(ver, LT, OK1, batch, 0, midp + 1)
                    elif kind == "re-signed by another key after genuine":
                        ds[j] = refserver.respond(ver, LT2, OK1, batch, j, midp)
                    elif kind == "window moved (validly signed) after genuine":
                        ds[j] = refserver.respond(ver, LT, OK1, batch, j, midp, mint=midp + 1)
                    elif kind == "other online key, bad CERT.SIG after genuine":
                        g = refserver.parts(ver, refserver.respond(ver, LT2, OK2, batch, j, midp))
                        ds[j] = refserver.rebuild(ver, g)
                    return ds
                plans.append({"ver": ver, "kind": kind, "n": n, "mk": mk, "key": ("hex", "b64")[(ki + n) % 2] if pid == "C01" else ("none", "hex", "b64")[n % 3]})
    results = [None] * len(plans)

    def work(i):
        c = plans[i]
        ka = key_to_arg(c["key"], LT_PK)
        results[i] = run_client_multi(c["ver"], ka, c["n"], c["mk"])
    with ThreadPoolExecutor(max_workers=8) as ex:
        list(ex.map(work, range(len(plans))))
    for attempt in range(3):
        late = [i for i, res in enumerate(results) if res["timed_out"]]
        for i in late:
            work(i)
    cases, owner = [], []
    for ci, (c, res) in enumerate(zip(plans, results)):
        for rq, d in zip(res["requests"], res["dgrams"]):
            cases.append((c["ver"], LT_PK if c["key"] != "none" else None, nonce_of(c["ver"], rq), rq, d)); owner.append(ci)
    preds, raw = model_predict(cases) if cases else ([], [])
    runs = [(c["ver"], LT_PK if c["key"] != "none" else None,
             [(nonce_of(c["ver"], rq), rq, d) for rq, d in zip(res["requests"], res["dgrams"])])
            for c, res in zip(plans, results)]
    run_preds = model_predict_runs(runs)
    for ci, (c, res) in enumerate(zip(plans, results)):
        ctx.evaluations += 1
        ctx.count("multi:%s:%s:n=%d" % (c["ver"], c["kind"], c["n"]))
        mine = [k for k, o in enumerate(owner) if o == ci]
        times = [l for l in res["stdout"].splitlines() if l and l[0].isdigit()]
        rep = {"cmd": "client-multi", "ver": c["ver"], "kind": c["kind"], "n": c["n"], "key": c["key"], "rc": res["rc"],
               "requests": [rt.hx(x) for x in res["requests"]], "dgrams": [rt.hx(x) for x in res["dgrams"]],
               "stdout": res["stdout"][-400:], "stderr": res["stderr"][-600:]}
        if res["timed_out"]:
            ctx.violation("tie", "client -n %d timed out waiting although every response was sent, 4 attempts (%s)" % (c["n"], c["kind"]), rep); continue
        # every request carries a FRESH nonce: within a run all nonces differ (and across runs, below)
        run_nonces = [cases[k][2] for k in mine]
        SEEN_NONCES.extend(run_nonces)
        if len(set(run_nonces)) != len(run_nonces):
            ctx.violation("property", "the %d requests of one client run do not carry distinct nonces: a genuine response to one of them is valid for another (replay within the run)" % c["n"], rep); continue
        auth = [py_authentic(c["ver"], LT_PK, cases[k][3], cases[k][2], cases[k][4]) for k in mine]
        # the client stops (non-zero exit) at the first response it rejects
        lead_model = 0
        for k in mine:
            if preds[k][0] == "OK":
                lead_model += 1
            else:
                break
        want_rc0 = lead_model == len(mine)
        if c["key"] != "none":
            lead_auth = 0
            for a in auth:
                if a:
                    lead_auth += 1
                else:
                    break
            if len(times) > lead_auth:
                ctx.violation("property", "client -n %d printed %d times but response %d of the run is not authentic (%s)" % (c["n"], len(times), lead_auth + 1, c["kind"]), rep); continue
            if lead_auth < len(mine) and res["rc"] == 0:
                ctx.violation("property", "client -n %d exited 0 although response %d of the run is not authentic (%s)" % (c["n"], lead_auth + 1, c["kind"]), rep); continue
            if pid == "C03" and (len(times) != len(mine) or res["rc"] != 0):
                ctx.violation("property", "client -n %d rejected an honest response (%s)" % (c["n"], c["kind"]), rep); continue
            if lead_auth < len(mine):
                ctx.nontriv("multi:%s:%s:%d" % (c["ver"], c["kind"], c["n"]))
        rp = run_preds[ci]
        if rp[0] != lead_model or rp[1] != want_rc0:
            ctx.violation("tie", "the model's client_run (%s) is not the fold of its per-response client_handle (accepts first %d, exit0=%s)" % (rp[2], lead_model, want_rc0), rep); continue
        if len(times) != rp[0] or (res["rc"] == 0) != rp[1]:
            ctx.violation("tie", "model and client binary disagree on a -n %d run (%s): client printed %d times, rc=%d; model accepts the first %d of %d" % (c["n"], c["kind"], len(times), res["rc"], lead_model, len(mine)), rep)
        else:
            ctx.traces_validated += 1


def observed(res):
    """canonical observation of a client run: ('OK', verified, secs, nsecs, radius, index) | ('FAIL', rc)"""
    if res["rc"] != 0:
        return ("FAIL",)
    lines = [l for l in res["stdout"].strip().splitlines() if l and not l.startswith(("Valid signature", "INVALID"))]
    if not lines:
        return ("NOTIME",)
    try:
        secs, frac = lines[-1].split()
        ver = "verified=Yes" in res["stderr"]
        radius = int(res["stderr"].split("radius=")[1].split(",")[0])
        index = int(res["stderr"].split("merkle_index=")[1].split(")")[0])
        return ("OK", ver, int(secs), int(frac), radius, index)
    except Exception:
        return ("UNPARSED", res["stdout"][-200:], res["stderr"][-200:])


def model_predict(cases):
    """cases: list of (ver, pk bytes|None, nonce, request, dgram) -> list of canonical observations"""
    def line(c, pts="-", vfs="-"):
        ver, pk, nonce, request, dgram = c
        return "client %s %s %s %s %s %s %s" % (ver, rt.hx(pk) if pk else "-", rt.hx(nonce), rt.hx(request), rt.hx(dgram), pts, vfs)
    first = vlib.run_model([line(c) for c in cases], per_shard=30)
    qset = {}
    for o in first:
        i = o.find("Q=")
        for q in (o[i + 2:].split(",") if i >= 0 else []):
            if q:
                qset[q] = None
    qs = list(qset)
    ver_out = vlib.run_impl(["edverify " + q.replace(".", " ") for q in qs])
    pks = sorted({q.split(".")[0] for q in qs})
    pt_out = vlib.run_impl(["edpoint " + k for k in pks])
    pts = dict(zip(pks, pt_out))
    vfs = dict(zip(qs, ver_out))
    second_lines = []
    for c, o in zip(cases, first):
        i = o.find("Q=")
        myq = [q for q in (o[i + 2:].split(",") if i >= 0 else []) if q]
        p = ",".join("%s:%s" % (k, pts[k]) for k in sorted({q.split(".")[0] for q in myq})) or "-"
        v = ",".join("%s:%s" % (q, "1" if vfs[q] == "1" else "0") for q in myq) or "-"
        if p == "-" and v == "-":
            p = "00:0"      # force non-recording mode
        second_lines.append(line(c, p, v))
    second = vlib.run_model(second_lines, per_shard=30)
    out = []
    for o in second:
        if o.startswith("OK "):
            d = dict(t.split("=", 1) for t in o.split()[1:] if "=" in t)
            out.append(("OK", d["verified"] == "1", int(d["secs"]), int(d["nsecs"]), int(d["radius"]), int(d["index"])))
        else:
            out.append(("FAIL",))
    return out, second


def model_predict_runs(runs):
    """runs: list of (ver, pk|None, [(nonce, request, dgram|None)]) -> list of (n_outputs, exit0, raw line)
    through the extracted client_run (the model of the whole -n loop), two-pass Ed25519 oracle"""
    def line(run, pts="-", vfs="-"):
        ver, pk, xs = run
        ex = ";".join("%s:%s:%s" % (rt.hx(n), rt.hx(rq), "T" if d is None else (rt.hx(d) if d else "-")) for n, rq, d in xs)
        return "clientrun %s %s %s %s %s" % (ver, rt.hx(pk) if pk else "-", pts, vfs, ex)
    first = vlib.run_model([line(x) for x in runs], per_shard=10)
    qsets = []
    allq = {}
    for o in first:
        i = o.find("Q=")
        qs = [q for q in (o[i + 2:].split(",") if i >= 0 else []) if q]
        qsets.append(qs)
        for q in qs:
            allq[q] = None
    qs = list(allq)
    ver_out = vlib.run_impl(["edverify " + q.replace(".", " ") for q in qs])
    pks = sorted({q.split(".")[0] for q in qs})
    pt_out = vlib.run_impl(["edpoint " + k for k in pks])
    pts = dict(zip(pks, pt_out)); vfs = dict(zip(qs, ver_out))
    second_lines = []
    for run, myq in zip(runs, qsets):
        p = ",".join("%s:%s" % (k, pts[k]) for k in sorted({q.split(".")[0] for q in myq})) or "00:0"
        v = ",".join("%s:%s" % (q, "1" if vfs[q] == "1" else "0") for q in myq) or "-"
        second_lines.append(line(run, p, v))
    second = vlib.run_model(second_lines, per_shard=10)
    out = []
    for o in second:
        if o.startswith("RUN "):
            d = dict(t.split("=", 1) for t in o.split()[1:] if "=" in t)
            outs = [x for x in d.get("outs", "").split("|") if x]
            out.append((len(outs), d["exit0"] == "1", o[:300]))
        else:
            out.append((-1, False, o[:300]))
    return out


def py_authentic(ver, pk, request, nonce, reply):
    """the conditions of C01 evaluated independently in Python (RFC 8032 transcription)"""
    try:
        payload = reply if ver == "Google" else reply[12:]
        f = dict(rt.decode(payload))
        srep, cert = dict(rt.decode(f["SREP"])), dict(rt.decode(f["CERT"]))
        dele = dict(rt.decode(cert["DELE"]))
        if not ed25519.verify(pk, refserver.CTX_DELE[ver] + cert["DELE"], cert["SIG"]):
            return False
        if not ed25519.verify(dele["PUBK"], refserver.CTX_SREP + f["SREP"], f["SIG"]):
            return False
        midp = struct.unpack("<Q", srep["MIDP"][:8])[0]
        if not (struct.unpack("<Q", dele["MINT"][:8])[0] <= midp <= struct.unpack("<Q", dele["MAXT"][:8])[0]):
            return False
        w = refserver.width(ver)
        path = f["PATH"]
        if len(path) % w:
            return False
        import hashlib
        h = hashlib.sha512(b"\x00" + (nonce if ver == "Google" else request)).digest()[:w]
        idx = struct.unpack("<I", f["INDX"][:4])[0]
        for k in range(0, len(path), w):
            p = path[k:k + w]
            h = hashlib.sha512(b"\x01" + (h + p if idx % 2 == 0 else p + h)).digest()[:w]
            idx //= 2
        return h == srep["ROOT"]
    except Exception:
        return False


def nonce_of(ver, request):
    payload = request if ver == "Google" else request[12:]
    return dict(rt.decode(payload))["NONC"]


# ------------------------------------------------------------------ forgery catalogue

def forgeries(r, ver, honest, request, nonce, earlier):
    """yield (name, datagram) single-component forgeries of an honest reply"""
    f = refserver.parts(ver, honest)

    def flip(b, i=None):
        b = bytearray(b); i = r.randrange(len(b)) if i is None else i
        b[i] ^= 1 << r.randrange(8); return bytes(b)

    out = []
    def mod(name, path, fn):
        def th():
            g = refserver.parts(ver, honest)
            d = g
            for k in path[:-1]:
                d = d[k]
            d[path[-1]] = fn(d[path[-1]])
            return refserver.rebuild(ver, g)
        out.append((name, th))
    mod("SIG bit", ["SIG"], flip)
    mod("SREP.MIDP bit", ["_srep", "MIDP"], flip)
    mod("SREP.RADI bit", ["_srep", "RADI"], flip)
    mod("SREP.ROOT bit", ["_srep", "ROOT"], flip)
    if ver == "RfcDraft13":
        mod("SREP.VER bit", ["_srep", "VER"], flip)
    mod("CERT.SIG bit", ["_cert", "SIG"], flip)
    mod("DELE.PUBK bit", ["_dele", "PUBK"], flip)
    mod("DELE.MINT bit", ["_dele", "MINT"], flip)
    mod("DELE.MAXT bit", ["_dele", "MAXT"], flip)
    mod("INDX bit", ["INDX"], lambda b: flip(b, 0))
    mod("INDX high bit", ["INDX"], lambda b: b[:3] + bytes([b[3] ^ 0x80]))
    if f["PATH"]:
        mod("PATH bit", ["PATH"], flip)
        mod("PATH shorter", ["PATH"], lambda b: b[:-refserver.width(ver)])
    mod("PATH longer", ["PATH"], lambda b: b + bytes(refserver.width(ver)))
    mod("PATH ragged", ["PATH"], lambda b: b + b"\x00\x00\x00\x00")
    mod("SIG short", ["SIG"], lambda b: b[:60])
    mod("MIDP short", ["_srep", "MIDP"], lambda b: b[:4])
    mod("MINT above MIDP", ["_dele", "MINT"], lambda b: struct.pack("<Q", 2**63))
    mod("MAXT below MIDP", ["_dele", "MAXT"], lambda b: struct.pack("<Q", 1))
    out.append(("truncated", lambda: honest[: r.randrange(4, len(honest))]))
    out.append(("truncated 4", lambda: honest[: len(honest) - 4]))
    out.append(("random mutation", lambda: flip(honest)))
    out.append(("random mutation", lambda: flip(flip(honest))))
    out.append(("garbage", lambda: rnd(r, r.choice([0, 3, 8, 12, 100, 432]))))
    g = refserver.parts(ver, honest); del g["CERT"], g["_cert"]["DELE"]
    # drop a required field
    g2 = refserver.parts(ver, honest)
    top = {k: v for k, v in g2.items() if not k.startswith("_") and k != "INDX"}
    order = ["SIG", "NONC", "PATH", "SREP", "CERT"]
    msg = rt.encode([(t, top[t]) for t in order])
    out.append(("missing INDX", lambda: msg if ver == "Google" else rt.frame(msg)))
    # fully re-signed by a different long-term key (attacker's own keys)
    out.append(("re-signed by another long-term key", lambda: refserver.respond(ver, LT2, OK2, [(request, nonce)], 0, 1700000000 * (10**6 if ver == "Google" else 1))))
    # cross-protocol splice: a reply built for the other protocol
    other = "RfcDraft13" if ver == "Google" else "Google"
    out.append(("cross-protocol reply", lambda: refserver.respond(other, LT, OK1, [(request, nonce)], 0, 1700000000)))
    # SREP signed under the delegation context / CERT under the other protocol's context
    def other_ctx():
        gg = refserver.parts(ver, honest)
        gg["_cert"]["SIG"] = ed25519.sign(LT, refserver.CTX_DELE[other] + gg["_cert"]["DELE"])
        return refserver.rebuild(ver, gg)
    out.append(("CERT signed under the other protocol's context", other_ctx))
    # validly signed by the pinned key's holder but semantically wrong: the midpoint just outside /
    # exactly on the edge of the delegation window (with the usual and with a huge radius), the
    # response signature made under the delegation context, the reply for the co-request
    hp = refserver.parts(ver, honest)
    midp = struct.unpack("<Q", hp["_srep"]["MIDP"])[0]
    co = rt.mk_classic(rnd(r, 64)) if ver == "Google" else rt.mk_ietf(rnd(r, 32), 1024)
    batch2 = [(co, nonce_of(ver, co)), (request, nonce)]
    for nm, kw in (("signed: MINT = MIDP+1", dict(mint=midp + 1)),
                   ("signed: MAXT = MIDP-1", dict(mint=0, maxt=midp - 1)),
                   ("signed: MAXT = MIDP-1, RADI max", dict(mint=0, maxt=midp - 1, radi=2**32 - 1)),
                   ("signed: MINT = MIDP+3, RADI 5", dict(mint=midp + 3, radi=5)),
                   ("signed: window = [MIDP, MIDP] (authentic)", dict(mint=midp, maxt=midp)),
                   ("signed: window = [MIDP, MIDP], RADI max (authentic)", dict(mint=midp, maxt=midp, radi=2**32 - 1)),
                   # an EMPTY window (MINT > MAXT) contains no midpoint, whichever side of it the midpoint lies on
                   ("signed: empty window, MIDP >= MINT > MAXT", dict(mint=midp - 5, maxt=midp - 10)),
                   ("signed: empty window, MINT > MAXT >= MIDP", dict(mint=midp + 10, maxt=midp + 5)),
                   ("signed: empty window, MINT = MAXT + 1 = MIDP", dict(mint=midp, maxt=midp - 1))):
        out.append((nm, lambda kw=kw: refserver.respond(ver, LT, OK1, batch2, 1, midp, **kw)))
    out.append(("signed reply for the co-request", lambda: refserver.respond(ver, LT, OK1, batch2, 0, midp)))
    def srep_dele_ctx():
        gs = refserver.parts(ver, honest)
        gs["SIG"] = ed25519.sign(OK1, refserver.CTX_DELE[ver] + gs["SREP"])
        return refserver.rebuild(ver, gs)
    out.append(("SREP signed under the delegation context", srep_dele_ctx))
    # validly signed by the delegated key, but the signed ROOT is only a PREFIX of the root the
    # request's path recomputes (half of it / empty): the proof no longer binds the request
    def root_prefix(keep):
        gs = refserver.parts(ver, honest)
        gs["_srep"]["ROOT"] = gs["_srep"]["ROOT"][:keep]
        order = ["SIG", "VER", "SRV", "NONC", "DELE", "PATH", "RADI", "PUBK", "MIDP", "SREP", "VERS", "MINT", "ROOT", "CERT", "MAXT", "INDX"]
        srep_bytes = rt.encode([(t, gs["_srep"][t]) for t in order if t in gs["_srep"]])
        gs["SIG"] = ed25519.sign(OK1, refserver.CTX_SREP + srep_bytes)
        return refserver.rebuild(ver, gs)
    out.append(("signed: ROOT truncated to half its length", lambda: root_prefix(refserver.width(ver) // 2)))
    out.append(("signed: ROOT empty", lambda: root_prefix(0)))
    # replay of an earlier genuine response (for another request)
    for e in earlier[-2:]:
        out.append(("replay of an earlier genuine response", lambda e=e: e))
    if ver == "RfcDraft13":
        b = bytearray(honest); b[0] ^= 1
        out.append(("frame magic bit", lambda b=bytes(b): b))
        b = bytearray(honest); struct.pack_into("<I", b, 8, 5000)
        out.append(("frame length 5000", lambda b=bytes(b): b))
        b = bytearray(honest); struct.pack_into("<I", b, 8, 8)
        out.append(("frame length 8", lambda b=bytes(b): b))
    return out


def run_cases(ctx, pid, plan):
    """plan: list of dict(ver, key ('none'|'hex'|'b64'), maker(request)->(label, dgram))"""
    results = [None] * len(plan)

    def work(i):
        c = plan[i]
        key_arg = key_to_arg(c["key"], c["pk"])
        holder = {}

        def mk(req):
            holder["label"], holder["dgram"] = c["maker"](req)
            return holder["dgram"]
        res = run_client(c["ver"], key_arg, mk)
        res.update(holder)
        results[i] = res

    with ThreadPoolExecutor(max_workers=vlib.NCPU) as ex:
        list(ex.map(work, range(len(plan))))
    # inconclusive runs (client receive timeout under load) are repeated one at a time
    for attempt in range(3):
        late = [i for i, res in enumerate(results) if res.get("timed_out")]
        if not late:
            break
        ctx.count("rerun-after-client-timeout", len(late))
        for i in late:
            work(i)
    return results


def judge(ctx, pid, plan, results):
    cases = []
    for c, res in zip(plan, results):
        req = res["request"] or b""
        try:
            nonce = nonce_of(c["ver"], req)
        except Exception:
            nonce = b""
        cases.append((c["ver"], c["pk"] if c["key"] != "none" else None, nonce, req, res.get("dgram") or b""))
    preds, raw = model_predict(cases)
    # requests: the model's make_request must equal what the client actually sent
    mk = vlib.run_model(["mkreq %s %s %s" % (v, rt.hx(n), rt.hx(pk) if pk else "-") for v, pk, n, rq, _ in cases])
    for c, res, case, pred, mline, mkl in zip(plan, results, cases, preds, raw, mk):
        ver, pk, nonce, req, dgram = case
        SEEN_NONCES.append(nonce)
        ob = observed(res)
        ctx.evaluations += 1
        label = res.get("label", "?")
        ctx.count("%s:%s" % (ver, label))
        rep = {"cmd": "client", "ver": ver, "key": c["key"], "pk": rt.hx(c["pk"]), "label": label, "request": rt.hx(req),
               "dgram": rt.hx(dgram), "observed": list(ob), "predicted": list(pred), "model": mline[:600],
               "stdout": res["stdout"][-300:], "stderr": res["stderr"][-400:]}
        if res["request"] is None:
            ctx.violation("tie", "client sent no request", rep); continue
        if res.get("timed_out"):
            # four attempts (one parallel, three serial) all ended in the client's receive timeout
            # although the responder sent the datagram: the client is not processing it
            ctx.violation("tie", "client binary timed out waiting although the response was sent, 4 attempts (%s); model predicts %s" % (label, pred), rep); continue
        if mkl != "OK " + rt.hx(req):
            ctx.violation("tie", "model's make_request differs from the request the client sent", dict(rep, mkreq=mkl[:300])); continue
        if not (len(req) == (1024 if ver == "Google" else 1036)):
            ctx.violation("property", "client request is %d bytes" % len(req), rep); continue
        # ---- property
        if pid == "C01" and pk is not None:
            auth = py_authentic(ver, pk, req, nonce, dgram)
            if ob[0] == "OK" and not auth:
                ctx.violation("property", "client reported a time (verified=%s) for a response that is not authentic: %s" % (ob[1], label), rep); continue
            if ob[0] == "OK" and not ob[1]:
                ctx.violation("property", "a key was supplied but the client reported verified=No", rep); continue
            if auth is False and ob[0] != "FAIL":
                ctx.violation("property", "unauthentic response did not make the client fail (%s): %s" % (ob[0], label), rep); continue
            ctx.nontriv("%s:%s:%s" % (ver, label, rt.fnv64(dgram)[:8]))
        if pid == "C01" and pk is None and ob[0] == "OK" and ob[1]:
            ctx.violation("property", "no key supplied but verified=Yes", rep); continue
        if pid == "C03":
            want = c.get("want")
            if want is not None and tuple(ob) != tuple(want):
                ctx.violation("property", "honest response not accepted as expected: observed %s, expected %s (%s)" % (ob, want, label), rep); continue
            ctx.nontriv("%s:%s:%s" % (ver, c["key"], label))
        # ---- correspondence
        if tuple(ob) != tuple(pred):
            ctx.violation("tie", "model and client binary disagree: observed %s, model %s (%s)" % (ob, pred, label), rep)
        else:
            ctx.traces_validated += 1
    if plan:
        ctx.sample({"ver": plan[0]["ver"], "label": results[0].get("label"), "observed": list(observed(results[0]))})


def undecodable_keys(ctx):
    """a -k value that is not a key (unpadded base64, an odd number of hex digits, stray characters) must not
    be read as "no key was given": the client is pinned, so it may print a time only for a response signed
    under that key — and for a key it cannot even decode, for none. The responder answers honestly under
    ANOTHER key; a client that drops the pin accepts it."""
    other_pk = ed25519.secret_to_public(LT2)
    bad = [("unpadded base64", base64.b64encode(other_pk).decode().rstrip("=")),
           ("hex with an odd number of digits", other_pk.hex()[:-1]),
           ("hex with a stray character", other_pk.hex()[:-1] + "g"),
           ("base64 with a trailing newline", base64.b64encode(other_pk).decode() + "\n"),
           ("empty", "")]
    jobs = [(ver, what, arg) for ver in ("Google", "RfcDraft13") for what, arg in bad]
    def one(j):
        ver, what, arg = j
        unit = 10**6 if ver == "Google" else 1
        def reply(req):
            return refserver.respond(ver, LT, OK1, [(req, nonce_of(ver, req))], 0, 1700000000 * unit)
        return run_client(ver, arg, reply, timeout=3) if arg else None
    with ThreadPoolExecutor(max_workers=8) as ex:
        outs = list(ex.map(one, jobs))
    for (ver, what, arg), res in zip(jobs, outs):
        if res is None:
            continue
        ctx.evaluations += 1
        times = [l for l in res["stdout"].splitlines() if l and l[0].isdigit()]
        rep = {"cmd": "client", "ver": ver, "key_arg": arg, "what": what, "rc": res["rc"], "stdout": res["stdout"][-300:], "stderr": res["stderr"][-400:]}
        if times or res["rc"] == 0 and res["request"] is not None and not res["timed_out"]:
            ctx.violation("property", "the client was given -k <%s> (not a decodable key) and printed a time / exited 0 for a response signed under a different key: the pin was dropped" % what, rep)
        else:
            ctx.traces_validated += 1
            ctx.nontriv("badkey:%s:%s" % (ver, what))


def run_c01(ctx):
    ctx.rule = ("the real client binary (hex / HEX / base64 key, both protocols; validly signed forgeries incl. a truncated ROOT) against a scripted responder returning, for the "
                "request actually received, every single-component forgery of an honest response (SIG, PATH, INDX, "
                "SREP.{MIDP,RADI,ROOT,VER}, CERT.SIG, DELE.{PUBK,MINT,MAXT}), re-signing by another key, cross-protocol and "
                "wrong-context splices, replays of earlier genuine responses, truncations, random mutations; non-trivial = "
                "distinct forged datagram judged with a pinned key")
    vlib.prepare(ctx, need_bins=True)
    r = ctx.rng
    plan = []
    reps = 3 if not ctx.thorough else 20
    for ver in ("Google", "RfcDraft13"):
        unit = 10**6 if ver == "Google" else 1
        earlier = []
        # genuine responses for OTHER requests (to replay)
        for _ in range(2):
            rq = rt.mk_classic(rnd(r, 64)) if ver == "Google" else rt.mk_ietf(rnd(r, 32), 1024, srv=None)
            earlier.append(refserver.respond(ver, LT, OK1, [(rq, nonce_of(ver, rq))], 0, 1700000000 * unit))
        # how many forgeries exist: probe with a dummy
        dummy_rq = rt.mk_classic(bytes(64)) if ver == "Google" else rt.mk_ietf(bytes(32), 1024)
        honest0 = refserver.respond(ver, LT, OK1, [(dummy_rq, nonce_of(ver, dummy_rq)), (dummy_rq, b"\x01" * len(nonce_of(ver, dummy_rq)))], 0, 1700000000 * unit)
        nforg = len(forgeries(r, ver, honest0, dummy_rq, nonce_of(ver, dummy_rq), earlier))
        for rep_i in range(reps):
            for k in range(nforg + 1):
                key = ("b64", "hex", "hexU")[(k + rep_i) % 3]
                def maker(req, ver=ver, k=k, unit=unit, earlier=earlier):
                    nonce = nonce_of(ver, req)
                    co = rt.mk_classic(rnd(r, 64)) if ver == "Google" else rt.mk_ietf(rnd(r, 32), 1024)
                    batch = [(req, nonce), (co, nonce_of(ver, co))]
                    honest = refserver.respond(ver, LT, OK1, batch, 0, 1700000000 * unit + 123)
                    if k == 0:
                        return ("honest", honest)
                    fs = forgeries(r, ver, honest, req, nonce, earlier)
                    name, th = fs[(k - 1) % len(fs)]
                    return (name, th())
                plan.append({"ver": ver, "key": key, "pk": LT_PK, "maker": maker})
        # without a key: never verified
        for k in range(4):
            def maker2(req, ver=ver, unit=unit):
                nonce = nonce_of(ver, req)
                return ("honest no key", refserver.respond(ver, LT, OK1, [(req, nonce)], 0, 1700000000 * unit))
            plan.append({"ver": ver, "key": "none", "pk": LT_PK, "maker": maker2})
        # client pinned to a DIFFERENT valid key, honest response from LT
        def maker3(req, ver=ver, unit=unit):
            nonce = nonce_of(ver, req)
            return ("honest but client pins another key", refserver.respond(ver, LT, OK1, [(req, nonce)], 0, 1700000000 * unit))
        plan.append({"ver": ver, "key": "hex", "pk": ed25519.secret_to_public(LT2), "maker": maker3})
    results = run_cases(ctx, "C01", plan)
    judge(ctx, "C01", plan, results)
    undecodable_keys(ctx)
    multi_runs(ctx, "C01")
    check_nonces_fresh(ctx)
    proof_verdict(ctx)


def run_c03(ctx):
    ctx.rule = ("the real client binary x key option (none / hex / HEX / mixed-case hex / base64) x protocol against an honest reference responder "
                "with its own keys placing the client's request at index 0..63 of batches of depth 0..6, midpoints from the "
                "epoch to year 9999 incl. x.000000 / x.999999, and against the real server binary; non-trivial = distinct "
                "(protocol, key option, batch position/size, midpoint) with path depth >= 1")
    vlib.prepare(ctx, need_bins=True)
    r = ctx.rng
    plan = []
    mids = [0, 1, 999999, 1000000, 86399, 1700000000, 2**31 - 1, 2**31, 4102444800, 253402300799]
    shapes = [(1, 0), (2, 0), (2, 1), (3, 2), (5, 4), (8, 3), (17, 16), (33, 5), (64, 0), (64, 63), (64, 31)]
    if ctx.thorough:
        shapes += [(n, i) for n in (4, 7, 16, 32, 50) for i in (0, n // 2, n - 1)]
    for ver in ("Google", "RfcDraft13"):
        for si, (n, i) in enumerate(shapes):
            for mi, secs in enumerate(mids if (ctx.thorough or si % 3 == 0) else [mids[(si + 1) % len(mids)], mids[(si * 3) % len(mids)]]):
                key = ("none", "hex", "b64", "hexU", "hexM")[(si + mi) % 5]
                frac = [0, 999999, 123456][(si + mi) % 3] if ver == "Google" else 0
                midp = secs * 10**6 + frac if ver == "Google" else secs
                want = ("OK", key != "none", secs, frac * 1000, 5000000 if ver == "Google" else 5, i)
                def maker(req, ver=ver, n=n, i=i, midp=midp):
                    nonce = nonce_of(ver, req)
                    batch = []
                    for k in range(n):
                        if k == i:
                            batch.append((req, nonce))
                        else:
                            co = rt.mk_classic(rnd(r, 64)) if ver == "Google" else rt.mk_ietf(rnd(r, 32), 1024)
                            batch.append((co, nonce_of(ver, co)))
                    return ("honest n=%d i=%d midp=%d" % (n, i, midp), refserver.respond(ver, LT, OK1, batch, i, midp))
                plan.append({"ver": ver, "key": key, "pk": LT_PK, "maker": maker, "want": want})
    results = run_cases(ctx, "C03", plan)
    judge(ctx, "C03", plan, results)
    multi_runs(ctx, "C03")
    default_format_runs(ctx)
    # ---- against the real server binary (its own clock): client -n N puts N requests in flight
    real_server_runs(ctx)
    proof_verdict(ctx)


def default_format_runs(ctx):
    """the output formats a user actually sees: the default strftime format and -j JSON (with -z, UTC),
    parsed back and compared with the signed midpoint (the other runs use -f '%s %f')"""
    import calendar, json as js, time as tm
    r = ctx.rng
    plan = []
    for ver in ("Google", "RfcDraft13"):
        for secs in (0, 86399, 951782400, 1700000000, 2**31, 4102444800, 253402300799):
            for mode in ("default", "json"):
                plan.append((ver, secs, mode))

    def one(c):
        ver, secs, mode = c
        sock = socket.socket(socket.AF_INET, socket.SOCK_DGRAM); sock.bind(("127.0.0.1", 0)); sock.settimeout(10)
        args = [vlib.CLIENT_BIN, "127.0.0.1", str(sock.getsockname()[1]), "-p", "0" if ver == "Google" else "13", "-z", "-t", "6",
                "-k", LT_PK.hex()] + (["-j"] if mode == "json" else [])
        for attempt in range(3):
            pr = subprocess.Popen(args, stdout=subprocess.PIPE, stderr=subprocess.PIPE, text=True)
            try:
                req, peer = sock.recvfrom(65536)
                midp = secs * 10**6 + 654321 if ver == "Google" else secs
                sock.sendto(refserver.respond(ver, LT, OK1, [(req, nonce_of(ver, req))], 0, midp), peer)
            except socket.timeout:
                pass
            try:
                out, err = pr.communicate(timeout=15)
            except subprocess.TimeoutExpired:
                pr.kill(); out, err = pr.communicate()
            if "Timeout waiting" not in err:
                break
        sock.close()
        return pr.returncode, out, err

    with ThreadPoolExecutor(max_workers=8) as ex:
        outs = list(ex.map(one, plan))
    for (ver, secs, mode), (rc, out, err) in zip(plan, outs):
        ctx.evaluations += 1
        ctx.count("format:" + mode)
        rep = {"cmd": "client-format", "ver": ver, "midpoint_secs": secs, "mode": mode, "rc": rc, "stdout": out[-300:], "stderr": err[-300:]}
        lines = [l for l in out.splitlines() if l and not l.startswith(("Valid signature", "INVALID"))]
        try:
            if rc != 0 or not lines:
                raise ValueError("no time printed")
            if mode == "json":
                d = js.loads(lines[-1]); text = d["midpoint"]
                if d["verified"] is not True or d["merkle_index"] != 0 or d["radius"] != (5000000 if ver == "Google" else 5):
                    raise ValueError("JSON fields")
            else:
                text = lines[-1]
            got = calendar.timegm(tm.strptime(text, "%b %d %Y %H:%M:%S UTC"))
        except Exception as e:
            ctx.violation("property", "honest response (midpoint %d s) not printed as its time in the %s format: %s" % (secs, mode, e), rep); continue
        if got != secs:
            ctx.violation("property", "the %s format prints %r = %d s but the signed midpoint is %d s" % (mode, text, got, secs), rep); continue
        ctx.nontriv("format:%s:%s:%d" % (ver, mode, secs))
        ctx.traces_validated += 1


def real_server_runs(ctx):
    # default batch size, and a small one so that -n 9 / -n 40 requests span several passes of the
    # server's drain loop within one wake-up
    for bs in (64, 4):
        real_server_runs_bs(ctx, bs)


def real_server_runs_bs(ctx, batch_size):
    import tempfile, time, signal
    port = 20000 + (os.getpid() * 7 + ctx.seed + batch_size) % 20000
    cfg = os.path.join(vlib.BUILD, "c03-%d.cfg" % os.getpid())
    open(cfg, "w").write("interface: 127.0.0.1\nport: %d\nseed: %s\nbatch_size: %d\nnum_workers: 1\n" % (port, LT.hex(), batch_size))
    srv = subprocess.Popen([vlib.SERVER_BIN, cfg], stdout=subprocess.DEVNULL, stderr=subprocess.DEVNULL)
    try:
        time.sleep(0.6)
        for ver in ("0", "13"):
            for key in (None, LT_PK.hex(), LT_PK.hex().upper(), base64.b64encode(LT_PK).decode()):
                for n in (1, 9, 40):
                    args = [vlib.CLIENT_BIN, "127.0.0.1", str(port), "-p", ver, "-z", "-v", "-f", "%s %f", "-n", str(n)]
                    if key:
                        args += ["-k", key]
                    t0 = int(time.time())
                    p = subprocess.run(args, capture_output=True, text=True, timeout=30)
                    t1 = int(time.time()) + 1
                    ctx.evaluations += 1
                    times = [l for l in p.stdout.splitlines() if l and l[0].isdigit()]
                    rep = {"cmd": "client-vs-server", "args": args[1:], "rc": p.returncode, "stdout": p.stdout[-400:], "stderr": p.stderr[-600:]}
                    if p.returncode != 0 or len(times) != n:
                        ctx.violation("property", "client rejected an honest response of the real server (batch_size %d, -p %s, key %s, %d requests): rc=%d, %d times printed" % (batch_size, ver, "yes" if key else "no", n, p.returncode, len(times)), rep)
                        continue
                    if ("verified=Yes" in p.stderr) != bool(key) or ("verified=No" in p.stderr) != (not key):
                        ctx.violation("property", "verified flag does not match whether a key was supplied", rep); continue
                    if not all(t0 - 6 <= int(t.split()[0]) <= t1 + 6 for t in times):
                        ctx.violation("property", "printed time is not the server's midpoint", rep); continue
                    idxs = sorted(int(x.split(")")[0]) for x in p.stderr.split("merkle_index=")[1:])
                    if n > 1 and max(idxs) >= 1:
                        ctx.nontriv("real:%s:%s:%d:b%d" % (ver, bool(key), n, batch_size))
                    ctx.traces_validated += 1
    finally:
        srv.send_signal(signal.SIGTERM)
        try:
            srv.wait(5)
        except subprocess.TimeoutExpired:
            srv.kill()
        os.unlink(cfg)


def replay(ctx, rep):
    vlib.build_harness(); vlib.gen_tables(); vlib.build_driver(); vlib.build_repo_bins()
    if rep.get("cmd") == "client":
        ver = rep["ver"]
        dgram = bytes.fromhex(rep["dgram"]) if rep["dgram"] != "-" else b""
        print("recorded label:", rep.get("label"), "observed:", rep.get("observed"), "predicted:", rep.get("predicted"))
        print("note: the client draws a fresh nonce, so the recorded datagram is replayed against the recorded request through the model only")
        cases = [(ver, bytes.fromhex(rep["pk"]) if rep["key"] != "none" else None, nonce_of(ver, bytes.fromhex(rep["request"])), bytes.fromhex(rep["request"]), dgram)]
        print("model:", model_predict(cases)[0])
    else:
        print({k: str(v)[:400] for k, v in rep.items()})
    return 0
