"""C20 — the long-term seed never appears in anything the server emits."""
import base64, hashlib, os, random, signal, time
import vlib, rt, ed25519
from props.codec import proof_verdict
from props import server as srvmod
from props import process as procmod


def patterns(seed):
    """(label, bytes) patterns: seed, clamped scalar, unclamped half, in raw / hex / base64 forms"""
    scalar, half = ed25519.secret_scalar_bytes(seed)
    out = []
    for name, b in (("seed", seed), ("clamped scalar", scalar), ("SHA-512(seed)[0..32]", half)):
        out.append((name + " raw", b))
        out.append((name + " hex", b.hex().encode()))
        out.append((name + " HEX", b.hex().upper().encode()))
        for enc, f in (("base64", base64.b64encode), ("base64url", base64.urlsafe_b64encode)):
            e = f(b)
            out.append((name + " " + enc, e.rstrip(b"=")))
        # Rust {:?} of a byte vector: "[163, 32, ...]"
        out.append((name + " debug-list", str(list(b)).encode()))
    return out


def run_c20(ctx):
    ctx.rule = ("seeds x log levels Off..Trace x request mixes (valid, invalid, fault-injected) on the in-process server with a "
                "capturing logger, and the real binary's stdout/stderr under file and ENV configuration: every emitted byte "
                "stream (datagrams, log records concatenated across record boundaries) is scanned for the seed, the clamped "
                "scalar and the unclamped half in raw / hex / HEX / base64 / base64url / Debug-list form; a positive control "
                "(an echoed nonce, the public key) shows the scan sees the streams; non-trivial = distinct (seed, level, "
                "traffic) run at level >= Debug with traffic")
    vlib.prepare(ctx, need_bins=True)
    r = ctx.rng
    seeds = [bytes.fromhex(srvmod.SEED)] + [bytes(r.getrandbits(8) for _ in range(32)) for _ in range(5 if not ctx.thorough else 99)]
    sessions, meta = [], []
    for si, seed in enumerate(seeds):
        for level in ((0, 3, 4, 5) if not ctx.thorough else (0, 1, 2, 3, 4, 5)):
            fault = [0, 50][(si + level) % 2]
            nonce = bytes(r.getrandbits(8) for _ in range(64))
            marker = rt.mk_classic(nonce, 1024)
            rounds = [srvmod.gen_round(r, 4, 20, None), [(0, marker)]]
            pats = patterns(seed) + [("control: echoed nonce", nonce[:16])]
            lines = ["serve new 8 %d %d 0 %s" % (fault, level, seed.hex())]
            for rd in rounds:
                lines.append("serve run 4 %s" % ";".join("%d:%s" % (s, rt.hx(d)) for s, d in rd))
            lines.append("serve health 0") if False else None
            lines.append("serve scan " + ",".join(p.hex() for _, p in pats))
            lines.append("serve drop")
            sessions.append(lines); meta.append((seed, level, fault, pats))
    # a seed of the wrong length handed to the library without validation (embedding, or a KMS build whose
    # decrypted seed is longer): construction panics, and what the panic prints is scanned like a log record
    for si, seed in enumerate(seeds[:3]):
        for bad in (seed[:31], seed + b"\x07", seed + seed, seed[:16]):
            pats = [("the given seed bytes, hex", bad.hex().encode()), ("the given seed bytes, HEX", bad.hex().upper().encode()),
                    ("the given seed bytes, raw", bad), ("the given seed bytes, base64", base64.b64encode(bad).rstrip(b"=")),
                    ("the given seed bytes, debug-list", str(list(bad)).encode())]
            pats.append(("control: the panic record marker", b"PANIC "))
            lines = ["serve new 8 0 5 0 %s" % bad.hex(), "serve scan " + ",".join(p.hex() for _, p in pats), "serve drop"]
            sessions.append(lines); meta.append((seed, -1, 0, pats))
    outs = vlib.run_sessions(vlib.HARNESS, sessions, "sec")
    for (seed, level, fault, pats), lines, out in zip(meta, sessions, outs):
        ctx.evaluations += 1
        scan = out[-2]
        rep = {"cmd": "scan", "seed": seed.hex(), "level": level, "fault": fault, "lines": [l[:100000] for l in lines], "scan": scan[:400]}
        if not scan.startswith("SCAN"):
            ctx.violation("tie", "scan did not run: " + scan[:100], rep); continue
        hits = scan.split("hits=")[1]
        hit_ids = [] if hits == "-" else hits.split(",")
        control = len(pats) - 1
        leaked = [h for h in hit_ids if int(h.split(":")[1]) != control]
        if leaked:
            names = sorted({"%s in %s" % (pats[int(h.split(":")[1])][0], h.split(":")[0]) for h in leaked})
            where = "secret material emitted at log level %d" % level if level >= 0 else "the panic message of a construction refused for a wrong-length seed prints it"
            ctx.violation("property", "%s: %s" % (where, ", ".join(names)), rep); continue
        if level == -1:
            # wrong-length seed: the control is the panic record itself
            if ("log:%d" % control) not in hit_ids:
                ctx.violation("tie", "positive control failed: construction with a %d-byte seed left no panic record (%s)" % (len(bytes.fromhex(lines[0].split()[-1])), out[0][:80]), rep)
            else:
                ctx.traces_validated += 1
                ctx.nontriv("badlen:%s:%d" % (seed.hex()[:8], len(lines[0].split()[-1]) // 2))
            continue
        if ("dgram:%d" % control) not in hit_ids and fault == 0:
            ctx.violation("tie", "positive control failed: the echoed nonce was not found in the captured datagrams", rep); continue
        nlogs = int(scan.split("logs=")[1].split()[0])
        ctx.count("level:%d" % level); ctx.count("log_records_scanned", nlogs)
        ctx.traces_validated += 1
        if level >= 4:
            ctx.nontriv("%s:%d:%d" % (seed.hex()[:8], level, fault))
    ctx.sample({"session": [l[:120] for l in sessions[1][:2]], "scan": outs[1][-2][:200]})
    # ---- the real binary: stdout/stderr under file and ENV configuration, with traffic
    for si, seed in enumerate(seeds[: (3 if not ctx.thorough else 20)]):
        for source in ("file", "env"):
            srv = procmod.Server({"num_workers": 2, "seed": seed.hex(), "fault_percentage": [0, 10][si % 2], "health_check_port": "auto"}, source=source)
            try:
                ready = srv.wait_ready()
                procmod.closed_loop(srv.port, si, 3, 3)
                # some invalid traffic too
                import socket
                s = socket.socket(socket.AF_INET, socket.SOCK_DGRAM)
                for _ in range(5):
                    s.sendto(os.urandom(random.Random(si).choice([10, 1024, 1500])), ("127.0.0.1", srv.port))
                s.close()
                procmod.health_probe(srv.health, 2, burst=False)
            finally:
                rc, dt, log = srv.stop()
            ctx.evaluations += 1
            data = log.encode("utf-8", "replace")
            rep = {"cmd": "binary-log-scan", "seed": seed.hex(), "source": source, "log": log[-1500:]}
            pk = ed25519.secret_to_public(seed).hex().encode()
            if not ready or pk not in data:
                ctx.violation("tie", "positive control failed: the public key line is not in the server's output (ready=%s)" % ready, rep); continue
            leaked = [name for name, p in patterns(seed) if p in data]
            if leaked:
                ctx.violation("property", "the server binary's output contains %s (%s configuration)" % (", ".join(leaked), source), rep); continue
            ctx.traces_validated += 1
            ctx.nontriv("bin:%s:%s" % (seed.hex()[:8], source))
            ctx.count("binary_runs")
    # a seed whose hex spelling consists of decimal digits only: YAML types the unquoted value as a number,
    # the file loader refuses it — and the refusal is an emission like any other
    digit_seed = bytes.fromhex("3141592653589793238462643383279502884197169399375105820974944592")
    rejected_configurations(ctx, (seeds[:2] if not ctx.thorough else seeds[:10]) + [digit_seed])
    proof_verdict(ctx)


def rejected_configurations(ctx, seeds):
    """start-up paths that END IN A REFUSAL also emit (error records, panic messages): every way a
    configuration holding the real seed can be rejected, file and ENV, output scanned like the rest"""
    import subprocess, tempfile
    workdir = tempfile.mkdtemp(prefix="c20", dir=vlib.BUILD)
    afile = os.path.join(workdir, "afile"); open(afile, "w").write("x")
    variants = [
        ("kms enabled, seed still plaintext (aws)", {"kms_protection": "arn:aws:kms:us-east-2:111122223333:key/1234abcd"}, None),
        ("kms enabled, seed still plaintext (gcp)", {"kms_protection": "projects/p/locations/l/keyRings/r/cryptoKeys/k"}, None),
        ("unknown kms_protection", {"kms_protection": "rot13"}, None),
        ("port 0", {"port": 0}, None), ("batch_size 65", {"batch_size": 65}, None), ("batch_size 0", {"batch_size": 0}, None),
        ("fault_percentage 51", {"fault_percentage": 51}, None), ("num_workers 0", {"num_workers": 0}, None),
        ("port 70000", {"port": 70000}, None), ("batch_size 300", {"batch_size": 300}, None),
        ("client_stats without directory", {"client_stats": "on"}, None),
        ("persistence directory is a file", {"client_stats": "on", "persistence_directory": afile}, None),
        ("persistence directory missing", {"client_stats": "on", "persistence_directory": os.path.join(workdir, "nope")}, None),
        ("bad interface", {"interface": "not-an-address"}, None),
        ("no interface", {"interface": None}, None),
        ("seed with 0x prefix", {"seed": "0x{SEED}"}, None),
        ("seed with trailing space", {"seed": "'{SEED} '"}, None),
        ("seed in quotes kept by the loader", {"seed": "'\"{SEED}\"'"}, None),
        ("seed with a stray character", {"seed": "{SEED}g"}, None),
        ("seed of odd length", {"seed": "{SEED}a"}, None),
        ("yaml: trailing document marker", {}, "%s---\n"),
        ("yaml: second document", {}, "%s---\nbatch_size: 4\n"),
        ("yaml: unknown key", {"bogus_key": 1}, None),
        ("yaml: non-integer batch_size", {"batch_size": "sixty"}, None),
        ("yaml: list instead of map", {}, "- a\n- b\n%s"),
        ("yaml: seed key twice", {}, "%sseed: 00\n"),
        ("yaml: garbage after the settings", {}, "%s}{ not yaml\n"),
        # syntax errors whose reported position is the seed line itself
        ("yaml: seed line over-indented", {}, "RAW:interface: 127.0.0.1\nport: {PORT}\n    seed: {SEED}\n"),
        ("yaml: unclosed [ before the seed line", {}, "RAW:interface: 127.0.0.1\nport: [{PORT}\nseed: {SEED}\n"),
        ("yaml: unterminated quote on the seed line", {}, "RAW:interface: 127.0.0.1\nport: {PORT}\nseed: \"{SEED}\n"),
        ("yaml: no colon on the seed line", {}, "RAW:interface: 127.0.0.1\nport: {PORT}\nseed {SEED}\n"),
        ("yaml: tab before the seed key", {}, "RAW:interface: 127.0.0.1\nport: {PORT}\n\tseed: {SEED}\n"),
        ("yaml: seed line inside a flow map left open", {}, "RAW:interface: 127.0.0.1\nport: {PORT}\nx: {a: 1\nseed: {SEED}\n"),
        # the seed written with upper-case / mixed-case hex digits (accepted spellings) in a configuration
        # that is refused for another reason
        ("UPPER-case seed, batch_size 100", {"seed": "{SEEDU}", "batch_size": 100}, None),
        ("Mixed-case seed, port 0", {"seed": "{SEEDM}", "port": 0}, None),
        ("UPPER-case seed, client_stats without directory", {"seed": "{SEEDU}", "client_stats": "on"}, None),
    ]
    for si, seed in enumerate(seeds):
        for label, extra, tmpl in variants:
            for source in ("file", "env"):
                if source == "env" and (tmpl is not None or label.startswith("yaml")):
                    continue
                st = {"interface": "127.0.0.1", "port": procmod.free_port(), "seed": seed.hex()}
                mixed = "".join(ch.upper() if i % 2 else ch for i, ch in enumerate(seed.hex()))
                st.update({k: (v.replace("{SEEDU}", seed.hex().upper()).replace("{SEEDM}", mixed).replace("{SEED}", seed.hex()) if isinstance(v, str) else v) for k, v in extra.items()})
                if source == "env" and isinstance(st.get("seed"), str) and st["seed"].startswith("'"):
                    st["seed"] = st["seed"][1:-1]        # the quotes are YAML syntax, not part of the value
                st = {k: v for k, v in st.items() if v is not None}
                env = {k: v for k, v in os.environ.items() if not k.startswith("ROUGHENOUGH_")}
                if source == "file":
                    body = "".join("%s: %s\n" % (k, v) for k, v in st.items())
                    path = os.path.join(workdir, "r%d.yaml" % (len(os.listdir(workdir))))
                    if tmpl and tmpl.startswith("RAW:"):
                        open(path, "w").write(tmpl[4:].replace("{PORT}", str(st["port"])).replace("{SEED}", seed.hex()))
                    else:
                        open(path, "w").write((tmpl % body) if tmpl else body)
                    arg = path
                else:
                    for k, v in st.items():
                        env[procmod.ENVNAMES.get(k, "ROUGHENOUGH_" + k.upper())] = str(v)
                    arg = "ENV"
                try:
                    pr = subprocess.run([vlib.SERVER_BIN, arg], env=env, stdout=subprocess.PIPE, stderr=subprocess.STDOUT, timeout=4)
                    data, rc = pr.stdout, pr.returncode
                except subprocess.TimeoutExpired as e:
                    data, rc = (e.stdout or b""), "RUNNING"      # accepted after all: it served until killed
                ctx.evaluations += 1
                ctx.count("rejected-config:" + label)
                rep = {"cmd": "rejected-config", "seed": seed.hex(), "source": source, "what": label,
                       "settings": {k: str(v) for k, v in st.items()}, "rc": str(rc), "output": data.decode("utf-8", "replace")[-1500:]}
                low = data.lower()       # hex digits in any mixture of cases
                leaked = [name for name, pat in patterns(seed) if pat in data or (name.endswith(" hex") and pat in low)]
                if leaked:
                    ctx.violation("property", "the server's output for a refused configuration (%s, %s) contains %s" % (label, source, ", ".join(leaked)), rep); continue
                ctx.traces_validated += 1
                ctx.nontriv("rejected:%s:%s:%d" % (label, source, si))
    import shutil
    shutil.rmtree(workdir, ignore_errors=True)


def replay(ctx, rep):
    vlib.build_harness()
    if rep.get("cmd") == "scan":
        out = vlib.run_sessions(vlib.HARNESS, [rep["lines"]], "replay")[0]
        print(out[-2][:1000])
    else:
        print({k: str(v)[:600] for k, v in rep.items()})
    return 0
