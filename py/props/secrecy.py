"""C20 — the long-term seed never appears in anything the server emits."""
import base64, hashlib, os, random, signal, time
import vlib, rt, ed25519
from props.codec import proof_verdict
from props import server as srvmod
from props import process as procmod


def patterns(seed):
    """(label, bytes) patterns: seed, clamped scalar, unclamped half, in raw / hex / base64 forms"""
    scalar, half = ed25519.secret_scalar_bytes(seed)
    out = []
    for name, b in (("seed", seed), ("clamped scalar", scalar), ("SHA-512(seed)[0..32]", half)):
        out.append((name + " raw", b))
        out.append((name + " hex", b.hex().encode()))
        out.append((name + " HEX", b.hex().upper().encode()))
        for enc, f in (("base64", base64.b64encode), ("base64url", base64.urlsafe_b64encode)):
            e = f(b)
            out.append((name + " " + enc, e.rstrip(b"=")))
        # Rust {:?} of a byte vector: "[163, 32, ...]"
        out.append((name + " debug-list", str(list(b)).encode()))
    return out


def run_c20(ctx):
    ctx.rule = ("seeds x log levels Off..Trace x request mixes (valid, invalid, fault-injected) on the in-process server with a "
                "capturing logger, and the real binary's stdout/stderr under file and ENV configuration: every emitted byte "
                "stream (datagrams, log records concatenated across record boundaries) is scanned for the seed, the clamped "
                "scalar and the unclamped half in raw / hex / HEX / base64 / base64url / Debug-list form; a positive control "
                "(an echoed nonce, the public key) shows the scan sees the streams; non-trivial = distinct (seed, level, "
                "traffic) run at level >= Debug with traffic")
    vlib.prepare(ctx, need_bins=True)
    r = ctx.rng
    seeds = [bytes.fromhex(srvmod.SEED)] + [bytes(r.getrandbits(8) for _ in range(32)) for _ in range(5 if not ctx.thorough else 99)]
    sessions, meta = [], []
    for si, seed in enumerate(seeds):
        for level in ((0, 3, 4, 5) if not ctx.thorough else (0, 1, 2, 3, 4, 5)):
            fault = [0, 50][(si + level) % 2]
            nonce = bytes(r.getrandbits(8) for _ in range(64))
            marker = rt.mk_classic(nonce, 1024)
            rounds = [srvmod.gen_round(r, 4, 20, None), [(0, marker)]]
            pats = patterns(seed) + [("control: echoed nonce", nonce[:16])]
            lines = ["serve new 8 %d %d 0 %s" % (fault, level, seed.hex())]
            for rd in rounds:
                lines.append("serve run 4 %s" % ";".join("%d:%s" % (s, rt.hx(d)) for s, d in rd))
            lines.append("serve health 0") if False else None
            lines.append("serve scan " + ",".join(p.hex() for _, p in pats))
            lines.append("serve drop")
            sessions.append(lines); meta.append((seed, level, fault, pats))
    outs = vlib.run_sessions(vlib.HARNESS, sessions, "sec")
    for (seed, level, fault, pats), lines, out in zip(meta, sessions, outs):
        ctx.evaluations += 1
        scan = out[-2]
        rep = {"cmd": "scan", "seed": seed.hex(), "level": level, "fault": fault, "lines": [l[:100000] for l in lines], "scan": scan[:400]}
        if not scan.startswith("SCAN"):
            ctx.violation("tie", "scan did not run: " + scan[:100], rep); continue
        hits = scan.split("hits=")[1]
        hit_ids = [] if hits == "-" else hits.split(",")
        control = len(pats) - 1
        leaked = [h for h in hit_ids if int(h.split(":")[1]) != control]
        if leaked:
            names = sorted({"%s in %s" % (pats[int(h.split(":")[1])][0], h.split(":")[0]) for h in leaked})
            ctx.violation("property", "secret material emitted at log level %d: %s" % (level, ", ".join(names)), rep); continue
        if ("dgram:%d" % control) not in hit_ids and fault == 0:
            ctx.violation("tie", "positive control failed: the echoed nonce was not found in the captured datagrams", rep); continue
        nlogs = int(scan.split("logs=")[1].split()[0])
        ctx.count("level:%d" % level); ctx.count("log_records_scanned", nlogs)
        ctx.traces_validated += 1
        if level >= 4:
            ctx.nontriv("%s:%d:%d" % (seed.hex()[:8], level, fault))
    ctx.sample({"session": [l[:120] for l in sessions[1][:2]], "scan": outs[1][-2][:200]})
    # ---- the real binary: stdout/stderr under file and ENV configuration, with traffic
    for si, seed in enumerate(seeds[: (3 if not ctx.thorough else 20)]):
        for source in ("file", "env"):
            srv = procmod.Server({"num_workers": 2, "seed": seed.hex(), "fault_percentage": [0, 10][si % 2], "health_check_port": "auto"}, source=source)
            try:
                ready = srv.wait_ready()
                procmod.closed_loop(srv.port, si, 3, 3)
                # some invalid traffic too
                import socket
                s = socket.socket(socket.AF_INET, socket.SOCK_DGRAM)
                for _ in range(5):
                    s.sendto(os.urandom(random.Random(si).choice([10, 1024, 1500])), ("127.0.0.1", srv.port))
                s.close()
                procmod.health_probe(srv.health, 2, burst=False)
            finally:
                rc, dt, log = srv.stop()
            ctx.evaluations += 1
            data = log.encode("utf-8", "replace")
            rep = {"cmd": "binary-log-scan", "seed": seed.hex(), "source": source, "log": log[-1500:]}
            pk = ed25519.secret_to_public(seed).hex().encode()
            if not ready or pk not in data:
                ctx.violation("tie", "positive control failed: the public key line is not in the server's output (ready=%s)" % ready, rep); continue
            leaked = [name for name, p in patterns(seed) if p in data]
            if leaked:
                ctx.violation("property", "the server binary's output contains %s (%s configuration)" % (", ".join(leaked), source), rep); continue
            ctx.traces_validated += 1
            ctx.nontriv("bin:%s:%s" % (seed.hex()[:8], source))
            ctx.count("binary_runs")
    proof_verdict(ctx)


def replay(ctx, rep):
    vlib.build_harness()
    if rep.get("cmd") == "scan":
        out = vlib.run_sessions(vlib.HARNESS, [rep["lines"]], "replay")[0]
        print(out[-2][:1000])
    else:
        print({k: str(v)[:600] for k, v in rep.items()})
    return 0
