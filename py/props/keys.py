"""C10 / C11 — server identity, certificates, signed midpoint."""
import hashlib, struct
import vlib, rt, ed25519
from props.codec import proof_verdict
from props import server as srvmod


def rnd(r, n):
    return bytes(r.getrandbits(8) for _ in range(n))


def run_c11(ctx):
    ctx.rule = ("make_srep at clock values from the epoch to beyond year 2200 incl. sub-second boundaries "
                "(x.000000000, x.000000999, x.000001000, x.999999999), both versions, impl vs model vs independent "
                "arithmetic; replies of a running in-process server bracketed by the harness clock; non-trivial = "
                "distinct clock value with a non-zero sub-second part; the real binary under a wall-clock shim stepped by "
                "0 / +3600 / -7200 / +30 s")
    vlib.prepare(ctx, need_bins=True)
    r = ctx.rng
    secs_grid = [0, 1, 59, 86399, 86400, 2**31 - 1, 2**31, 2**32 - 1, 2**32, 1700000000, 4102444800, 7258118400,
                 253402300799, 253402300800, 2**40, 2**44 - 1]
    nanos_grid = [0, 1, 999, 1000, 1001, 499999999, 999999000, 999999999]
    clocks = [(s, n) for s in secs_grid for n in nanos_grid]
    for _ in range(300 if not ctx.thorough else 5000):
        clocks.append((r.randrange(0, 2**r.choice([20, 31, 33, 38, 44])), r.randrange(0, 10**9)))
    lines, meta = [], []
    for s, n in clocks:
        for ver, w in (("Google", 64), ("RfcDraft13", 32)):
            root = rnd(r, w)
            lines.append("srep %s %d %d %s" % (ver, s, n, rt.hx(root))); meta.append((ver, s, n, root))
    impl = vlib.run_impl(lines)
    model = vlib.run_model(lines)
    ctx.evaluations += len(lines)
    for (ver, s, n, root), li, lm, line in zip(meta, impl, model, lines):
        rep = {"cmd": "srep", "line": line, "impl": li[:600], "model": lm[:600]}
        if not li.startswith("OK"):
            ctx.violation("property", "make_srep did not return normally at clock (%d, %d)" % (s, n), rep); continue
        srep = bytes.fromhex(li.split("SREP=")[1].split()[0])
        f = dict(rt.decode(srep) or [])
        want_midp = (s * 10**9 + n) // 1000 if ver == "Google" else s
        want_radi = 5000000 if ver == "Google" else 5
        unit = 1000 if ver == "Google" else 10**9
        midp = struct.unpack("<Q", f["MIDP"])[0] if len(f.get("MIDP", b"")) == 8 else None
        radi = struct.unpack("<I", f["RADI"])[0] if len(f.get("RADI", b"")) == 4 else None
        now_ns = s * 10**9 + n
        if midp != want_midp or radi != want_radi:
            ctx.violation("property", "signed MIDP=%s RADI=%s but the clock reading (%d s, %d ns) in the protocol's unit is MIDP=%d RADI=%d" % (midp, radi, s, n, want_midp, want_radi), rep); continue
        if not (unit * (midp - radi) <= now_ns <= unit * (midp + radi)):
            ctx.violation("property", "true time not within midpoint +/- radius", rep); continue
        if f.get("ROOT") != root or "SIGOK=1" not in li:
            ctx.violation("property", "SREP does not carry the given root / is not signed by the delegated key", rep); continue
        if ver == "RfcDraft13" and (f.get("VER") != rt.DRAFT13 or f.get("VERS") != bytes(4) + rt.DRAFT13):
            ctx.violation("property", "IETF SREP lacks VER=draft-13 / VERS", rep); continue
        if li != lm:
            ctx.violation("tie", "model and implementation disagree on make_srep", rep)
        else:
            ctx.traces_validated += 1
            if n:
                ctx.nontriv("%s:%d:%d" % (ver, s, n))
    ctx.sample({"line": lines[5], "impl": impl[5][:200]})
    # ---- a clock that reads BEFORE the epoch (no RTC, a broken VM clock): the protocol has no midpoint for it;
    # the server must refuse to sign rather than sign some other instant as if it were the reading
    pre = []
    for ver, w in (("Google", 64), ("RfcDraft13", 32)):
        for s_, n_ in ((1, 0), (3, 0), (1, 500000000), (3600, 0), (86400, 1), (2**31, 999999999)):
            pre.append("srep %s -%d %d %s" % (ver, s_, n_, rt.hx(rnd(r, w))))
    pre_out = vlib.run_impl(pre)
    ctx.evaluations += len(pre)
    for line, li in zip(pre, pre_out):
        rep = {"cmd": "srep", "line": line, "impl": li[:600]}
        if li.startswith("OK"):
            srep = bytes.fromhex(li.split("SREP=")[1].split()[0])
            f = dict(rt.decode(srep) or [])
            midp = struct.unpack("<Q", f["MIDP"])[0] if len(f.get("MIDP", b"")) == 8 else None
            ctx.violation("property", "a clock reading before the epoch (%s s) was signed as MIDP=%s" % (line.split()[2], midp), rep)
        else:
            ctx.traces_validated += 1
            ctx.nontriv("pre-epoch:" + " ".join(line.split()[1:4]))
    # ---- running server, bracketed by harness clock readings
    eng = srvmod.Engine(ctx, "C11")
    for b in (1, 8, 64):
        rounds = [srvmod.gen_round(r, 4, r.choice([1, 5, 30]), None, p_invalid=0.1) for _ in range(4)]
        eng.add((b, 0, 3, 0), rounds, 4)
    eng.run()
    eng.judge()
    for s, slines, il, ml in eng.results:
        for k, rd in enumerate(s["rounds"]):
            pi = srvmod.parse_run(il[1 + k])
            for sock, b in pi["replies"]:
                ver = srvmod.guess_ver(b)
                f = srvmod.fields_of(b, ver) or {}
                sm = dict(rt.decode(f.get("SREP", b"")) or [])
                if len(sm.get("MIDP", b"")) != 8:
                    continue
                midp = struct.unpack("<Q", sm["MIDP"])[0]
                radi = struct.unpack("<I", sm["RADI"])[0]
                unit = 1 if ver == "Google" else 10**6      # harness clock is in microseconds
                lo, hi = pi["t0"] // unit, pi["t1"] // unit
                ctx.evaluations += 1
                if not (lo - radi <= midp <= hi + radi) or not (lo <= midp <= hi + (0 if ver == "Google" else 0)):
                    ctx.violation("property", "reply MIDP %d (%s) is not the clock reading taken while the batch was processed [%d, %d]" % (midp, ver, lo, hi),
                                  {"cmd": "serve", "cfg": list(s["cfg"]), "seed": s["seed"], "lines": slines, "round": k})
    # ---- the clock is read when EACH batch is signed: requests stamped with the sender's clock just
    # before send_to, some queued before the drain starts and the rest sent by a second thread while the
    # server is draining; a midpoint can never precede the moment its request was sent, nor follow the
    # moment the harness had every reply
    sessions = [["serve new %d 0 0 0 %s" % (b, srvmod.SEED), "serve race %d %d %d" % (pre, dur, gap), "serve drop"]
                for b, pre, dur, gap in ((1, 60, 150, 200), (1, 80, 300, 100), (4, 60, 200, 150), (64, 30, 100, 300))]
    for sess, out in zip(sessions, vlib.run_sessions(vlib.HARNESS, sessions, "c11race", shards=2)):
        ctx.evaluations += 1
        rep = {"cmd": "race", "lines": sess, "out": [o[:2000] for o in out]}
        o = out[1]
        if not o.startswith("OK") or "RACE=" not in o:
            ctx.violation("property", "server did not return normally while requests arrived during the drain: " + o[:80], rep); continue
        t_end = int(o.split("END=")[1].split()[0])
        pairs = [tuple(int(x) for x in pr.split(":")) for pr in o.split("RACE=")[1].split(",") if pr]
        ctx.count("race_replies", len(pairs))
        early = [(ts, mp) for ts, mp in pairs if mp < ts]
        late = [(ts, mp) for ts, mp in pairs if mp > t_end]
        if early:
            ts, mp = early[0]
            ctx.violation("property", "%d of %d replies carry a midpoint EARLIER than the moment their request was sent (first: sent %d us, MIDP %d us, %d us stale): the clock was not read when the batch was signed" % (len(early), len(pairs), ts, mp, ts - mp), rep); continue
        if late:
            ctx.violation("property", "a reply carries a midpoint later than the harness clock after it was received", rep); continue
        if len(pairs) >= 50:
            ctx.nontriv("race:" + sess[1])
        ctx.traces_validated += 1
    # ---- retransmissions: the SAME request sent repeatedly (same bytes, same socket, alone in its batch);
    # every reply is signed when IT is answered, so its midpoint can never precede the moment that copy was sent
    sessions = [["serve new %d 0 0 0 %s" % (b, srvmod.SEED), "serve resend %d %d %d" % (k, gap, classic), "serve drop"]
                for b, k, gap, classic in ((8, 6, 120, 1), (8, 6, 120, 0), (1, 4, 300, 1), (64, 3, 1100, 0))]
    for sess, out in zip(sessions, vlib.run_sessions(vlib.HARNESS, sessions, "c11resend", shards=4)):
        ctx.evaluations += 1
        classic = sess[1].endswith(" 1")
        rep = {"cmd": "resend", "lines": sess, "out": [o[:1500] for o in out]}
        o = out[1]
        if not o.startswith("OK") or "RESEND=" not in o:
            ctx.violation("property", "server did not answer retransmissions of one request normally: " + o[:80], rep); continue
        t_end = int(o.split("END=")[1].split()[0])
        items = [x.split(":") for x in o.split("RESEND=")[1].split(",") if x]
        if any(b in ("none", "unparsed") for _, b in items):
            ctx.violation("property", "a retransmitted request got no (parsable) reply: %s" % items, rep); continue
        unit = 1 if classic else 10**6
        stale = [(int(a), int(b)) for a, b in items if int(b) < int(a) // unit]
        late = [(int(a), int(b)) for a, b in items if int(b) > t_end // unit]
        if stale:
            a, b = stale[0]
            ctx.violation("property", "%d of %d replies to retransmissions of one request carry a midpoint earlier than the moment that copy was sent (sent %d us, MIDP %d %s): the reply was not signed when it was answered" % (len(stale), len(items), a, b, "us" if classic else "s"), rep); continue
        if late:
            ctx.violation("property", "a reply carries a midpoint later than the harness clock after it was received", rep); continue
        ctx.nontriv("resend:" + sess[1])
        ctx.traces_validated += 1
    wall_clock_steps(ctx)
    proof_verdict(ctx)


def run_c10(ctx):
    ctx.rule = ("random seeds + RFC 8032 vectors: LongTermKey::new vs one-shot dalek vs the Python RFC 8032 transcription "
                "(public key) and hashlib (SRV); certificates for sequences of versions from ONE LongTermKey object verify "
                "under the right context only; repeated in-process server starts with one seed; non-trivial = distinct "
                "seed, or a certificate sequence of length >= 2; the real binary with 4 workers sharing one configuration: "
                "replies obtained from 24 source ports all verify under the seed's key")
    vlib.prepare(ctx, need_bins=True)
    r = ctx.rng
    seeds = [bytes.fromhex("9d61b19deffd5a60ba844af492ec2cc44449c5697b326919703bac031cae7f60"),
             bytes.fromhex("4ccd089b28ff96da9db6c346ec114e0f5b8a319f35aba624da8cf6ed4fb8a6fb"),
             bytes.fromhex(srvmod.SEED), bytes(32), bytes([255] * 32)]
    seeds += [rnd(r, 32) for _ in range(60 if not ctx.thorough else 300)]
    impl = vlib.run_impl(["ltk " + rt.hx(s) for s in seeds])
    dal = vlib.run_impl(["edpk " + rt.hx(s) for s in seeds])
    model = vlib.run_model(["ltk %s %s" % (rt.hx(s), d) for s, d in zip(seeds, dal)])
    ctx.evaluations += len(seeds)
    for i, (s, li, d, lm) in enumerate(zip(seeds, impl, dal, model)):
        rep = {"cmd": "ltk", "line": "ltk " + rt.hx(s), "impl": li, "dalek": d, "model": lm}
        pk = ed25519.secret_to_public(s) if (i < 12 or ctx.thorough) else bytes.fromhex(d)
        srv = hashlib.sha512(b"\xff" + pk).digest()[:32]
        want = "OK PK=%s SRV=%s" % (pk.hex(), srv.hex())
        if li != want or d != pk.hex():
            ctx.violation("property", "announced public key / SRV differ from RFC 8032 public key of the seed / SHA-512(0xff||pk)[0:32]", dict(rep, want=want)); continue
        if li != lm:
            ctx.violation("tie", "model and implementation disagree on identity", rep)
        else:
            ctx.traces_validated += 1
            ctx.nontriv("seed:" + rt.hx(s))
    # identical on every start
    again = vlib.run_impl(["ltk " + rt.hx(s) for s in seeds[:10]])
    if again != impl[:10]:
        ctx.violation("property", "identity differs between two starts with the same seed", {"cmd": "ltk", "line": "ltk " + rt.hx(seeds[0])})
    # ---- certificates from one signer object, any sequence of versions
    cseqs = []
    for _ in range(40 if not ctx.thorough else 400):
        n = r.choice([1, 2, 2, 3, 6])
        cseqs.append((r.choice(seeds), [r.choice(["Google", "RfcDraft13"]) for _ in range(n)]))
    cseqs.append((seeds[2], ["RfcDraft13", "Google"]))      # what Server::new does
    clines = ["cert %s %s" % (rt.hx(s), ",".join(v)) for s, v in cseqs]
    impl = vlib.run_impl(clines)
    model = vlib.run_model(clines)
    ctx.evaluations += len(clines)
    for (s, vs), li, lm, line in zip(cseqs, impl, model, clines):
        rep = {"cmd": "cert", "line": line, "impl": li[:800], "model": lm[:800]}
        if not li.startswith("OK"):
            ctx.violation("property", "make_cert did not return normally", rep); continue
        for item in li[3:].split(" | "):
            if "OWN=1" not in item or "OTHER=0" not in item:
                ctx.violation("property", "certificate does not verify under its protocol's delegation context only (%s)" % item[-20:], rep); break
            if "MINT:0000000000000000" not in item or "MAXT:ffffffffffffffff" not in item or "PUBKLEN:32" not in item:
                ctx.violation("property", "delegation window does not contain every midpoint / malformed DELE", rep); break
        else:
            if li != lm:
                ctx.violation("tie", "model and implementation disagree on make_cert", rep)
            else:
                ctx.traces_validated += 1
                if len(vs) >= 2:
                    ctx.nontriv("cert:" + rt.fnv64(line.encode()))
    ctx.sample({"line": clines[-1], "impl": impl[-1][:300]})
    # ---- repeated server starts, seeds A, B, C, A, B, C ... in ONE process (whatever outlives a
    # Server object — a static, a cache — is shared): same seed => same identity, another seed =>
    # that seed's identity; every CERT verifies under the announced key (spec verifier)
    eng = srvmod.Engine(ctx, "C02")
    for k in range(7 if not ctx.thorough else 50):
        sd = seeds[3 + (k % 3)]
        # requests that name THIS server: SRV = SHA-512(0xff || RFC 8032 public key of the seed)[0..32],
        # computed here, not by the code under test; the running server must answer them
        own_srv = hashlib.sha512(b"\xff" + ed25519.secret_to_public(sd)).digest()[:32]
        rounds = [srvmod.gen_round(r, 3, 6, own_srv, p_invalid=0.0),
                  [(0, srvmod.valid_ietf(r, srv=own_srv)), (1, srvmod.valid_ietf(r, srv=own_srv)), (2, srvmod.valid_classic(r))]]
        eng.add((8, 0, 3, 0), rounds, 3, seed=rt.hx(sd))
    eng.run(shards=1)
    eng.judge()
    pks = {}
    for s, _, il, _ in eng.results:
        pks.setdefault(s["seed"], set()).add(s["pk"])
    for seed, ps in pks.items():
        want = ed25519.secret_to_public(bytes.fromhex(seed)).hex()
        if ps != {want}:
            ctx.violation("property", "server started with seed %s announces %s, RFC 8032 says %s" % (seed[:16], ps, want), {"cmd": "ltk", "line": "ltk " + seed})
    every_worker_has_the_identity(ctx)
    proof_verdict(ctx)


def wall_clock_steps(ctx):
    """midpoint = the wall clock WHEN THE BATCH IS SIGNED, also after the wall clock was stepped while
    the server runs (operator / NTP step, VM resume): the real binary runs under an LD_PRELOAD shim
    (harness/clockshim.c) that shifts CLOCK_REALTIME by the number of seconds in a file; the check steps
    it by 0, +3600, -7200, +30 s and requires every reply's MIDP within the radius of (now + step)"""
    import os, shutil, socket, subprocess, tempfile, time
    from props import process as procmod
    so = os.path.join(vlib.BUILD, "clockshim.so")
    src = os.path.join(vlib.VERIF, "harness", "clockshim.c")
    if not os.path.exists(so) or os.path.getmtime(so) < os.path.getmtime(src):
        rc = subprocess.run(["cc", "-shared", "-fPIC", "-O1", "-o", so, src, "-ldl"], capture_output=True, text=True)
        if rc.returncode != 0:
            ctx.note("clock shim could not be built (%s): wall-clock steps not exercised" % rc.stderr[:200])
            return
    workdir = tempfile.mkdtemp(prefix="c11", dir=vlib.BUILD)
    offf = os.path.join(workdir, "offset")
    open(offf, "w").write("0")
    srv = procmod.Server({"num_workers": 1}, workdir=workdir, extra_env={"LD_PRELOAD": so, "VERIF_CLOCK_OFFSET_FILE": offf})
    try:
        if not srv.wait_ready():
            ctx.violation("property", "server under the clock shim did not start serving", {"cmd": "clockstep", "log": srv.log()[-800:]})
            return
        for step in (0, 3600, -7200, 30):
            with open(offf, "w") as f:
                f.write(str(step))
            for proto in ("Google", "RfcDraft13"):
                nonce = os.urandom(64 if proto == "Google" else 32)
                req = rt.mk_classic(nonce) if proto == "Google" else rt.mk_ietf(nonce, 1024)
                s = socket.socket(socket.AF_INET, socket.SOCK_DGRAM); s.settimeout(4.0)
                t0 = time.time()
                try:
                    s.sendto(req, ("127.0.0.1", srv.port)); reply = s.recv(4096)
                except (socket.timeout, OSError):
                    reply = None
                t1 = time.time()
                s.close()
                ctx.evaluations += 1
                rep = {"cmd": "clockstep", "step": step, "proto": proto}
                if reply is None:
                    ctx.violation("property", "no reply after the wall clock was stepped by %d s" % step, rep); continue
                payload = reply if proto == "Google" else reply[12:]
                f_ = dict(rt.decode(payload)); sr = dict(rt.decode(f_["SREP"]))
                midp = struct.unpack("<Q", sr["MIDP"])[0]; radi = struct.unpack("<I", sr["RADI"])[0]
                unit = 10**6 if proto == "Google" else 1
                lo, hi = (t0 + step) * unit - radi - unit, (t1 + step) * unit + radi + unit
                if not (lo <= midp <= hi):
                    ctx.violation("property", "wall clock stepped by %d s: signed MIDP %d (%s) is %.1f s away from the clock reading at signing time (radius %d)"
                                  % (step, midp, proto, abs(midp / unit - (t0 + step)), radi // unit), dict(rep, midp=midp, t0=t0, t1=t1))
                else:
                    ctx.nontriv("clockstep:%d:%s" % (step, proto))
                    ctx.traces_validated += 1
    finally:
        srv.stop()
        shutil.rmtree(workdir, ignore_errors=True)


def every_worker_has_the_identity(ctx):
    """the real server binary with several workers (they share one configuration object): every worker
    announces the RFC 8032 public key of the seed, and replies obtained from many source ports (which
    SO_REUSEPORT spreads over the workers) all carry a certificate that verifies under that key"""
    import re, tempfile, shutil
    from props import process as procmod
    workdir = tempfile.mkdtemp(prefix="c10", dir=vlib.BUILD)
    nw = 4
    srv = procmod.Server({"num_workers": nw}, workdir=workdir)
    rep = {"cmd": "workers", "num_workers": nw}
    try:
        if not srv.wait_ready():
            ctx.violation("property", "server with %d workers did not start serving" % nw, dict(rep, log=srv.log()[-800:]))
            return
        res = procmod.closed_loop(srv.port, ctx.seed * 7 + 3, 24, 2)
        pairs = [(p, rq, reps[0]) for p, rq, reps, _ in res if p != "EXTRA" and len(reps) == 1]
        ctx.evaluations += len(pairs)
        procmod.verify_pairs(ctx, pairs, rep, "replies of a %d-worker server" % nw)
        keys = set(re.findall(r"[Ll]ong-term public key[^0-9a-f]*([0-9a-f]{64})", srv.log()))
        if keys and keys != {procmod.PK}:
            ctx.violation("property", "workers announce public keys %s, the RFC 8032 key of the seed is %s" % (sorted(keys), procmod.PK), dict(rep, log=srv.log()[-1500:]))
        elif pairs:
            ctx.nontriv("workers:%d:%d" % (nw, len(pairs)))
    finally:
        srv.stop()
        shutil.rmtree(workdir, ignore_errors=True)


def replay(ctx, rep):
    vlib.build_harness(); vlib.gen_tables(); vlib.build_driver()
    if rep.get("cmd") == "serve":
        return srvmod.replay(ctx, rep)
    print("impl :", vlib.run_impl([rep["line"]])[0][:1500])
    if rep.get("cmd") in ("srep", "cert"):
        print("model:", vlib.run_model([rep["line"]])[0][:1500])
    print({k: str(v)[:300] for k, v in rep.items()})
    return 0
