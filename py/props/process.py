"""C15 / C18 / C19 — the real server binary as a process: configurations, concurrent load,
signals. The logic of start-up / worker independence / the shutdown flag is proved on the models
of Model/Process.v; thread liveness, kernel socket distribution and wall-clock bounds are
observed here (the properties are labelled partial)."""
import base64, hashlib, json, os, signal, socket, struct, subprocess, tempfile, threading, time
from concurrent.futures import ThreadPoolExecutor
import vlib, rt, ed25519
from props.codec import proof_verdict

SEED = "a32049da0ffde0ded92ce10a0230d35fe615ec8461c14986baa63fe3b3bac3db"
PK = "d0756ee69ff5fe96cbcf9273208fec53124b1dd3a24d3910e07c7c54e2473012"
ENVNAMES = {"port": "ROUGHENOUGH_PORT", "interface": "ROUGHENOUGH_INTERFACE", "seed": "ROUGHENOUGH_SEED",
            "batch_size": "ROUGHENOUGH_BATCH_SIZE", "status_interval": "ROUGHENOUGH_STATUS_INTERVAL",
            "health_check_port": "ROUGHENOUGH_HEALTH_CHECK_PORT", "client_stats": "ROUGHENOUGH_CLIENT_STATS",
            "fault_percentage": "ROUGHENOUGH_FAULT_PERCENTAGE", "num_workers": "ROUGHENOUGH_NUM_WORKERS",
            "persistence_directory": "ROUGHENOUGH_PERSISTENCE_DIRECTORY"}
_port_lock = threading.Lock()
_next_port = [0]


def free_port():
    with _port_lock:
        if _next_port[0] == 0:
            _next_port[0] = 21000 + (os.getpid() * 13) % 20000
        while True:
            _next_port[0] += 1
            p = _next_port[0]
            try:
                s = socket.socket(socket.AF_INET, socket.SOCK_DGRAM); s.bind(("127.0.0.1", p)); s.close()
                t = socket.socket(socket.AF_INET, socket.SOCK_STREAM); t.bind(("127.0.0.1", p)); t.close()
                return p
            except OSError:
                continue


class Server:
    def __init__(self, settings, source="file", workdir=None, extra_env=None):
        self.settings = dict(settings)
        self.settings.setdefault("interface", "127.0.0.1")
        self.settings.setdefault("seed", SEED)
        if "port" not in self.settings:
            self.settings["port"] = free_port()
        if self.settings.get("health_check_port") == "auto":
            self.settings["health_check_port"] = free_port()
        self.port = self.settings["port"]
        self.health = self.settings.get("health_check_port")
        env = {k: v for k, v in os.environ.items() if not k.startswith("ROUGHENOUGH_")}
        self.cfgpath = None
        if source == "file":
            fd, self.cfgpath = tempfile.mkstemp(suffix=".cfg", dir=workdir or vlib.BUILD)
            with os.fdopen(fd, "w") as f:
                for k, v in self.settings.items():
                    f.write("%s: %s\n" % (k, v))
            arg = self.cfgpath
        else:
            for k, v in self.settings.items():
                env[ENVNAMES[k]] = str(v)
            arg = "ENV"
        if extra_env:
            env.update(extra_env)
        self.errpath = tempfile.mkstemp(suffix=".log", dir=workdir or vlib.BUILD)[1]
        self.errf = open(self.errpath, "w")
        self.p = subprocess.Popen([vlib.SERVER_BIN, arg], stdout=self.errf, stderr=subprocess.STDOUT, env=env)

    def wait_ready(self, timeout=5.0):
        """ready = the UDP port answers (or the process died)"""
        t0 = time.time()
        s = socket.socket(socket.AF_INET, socket.SOCK_DGRAM); s.settimeout(0.2)
        req = rt.mk_classic(os.urandom(64))
        ok = False
        while time.time() - t0 < timeout and self.p.poll() is None:
            try:
                s.sendto(req, ("127.0.0.1", self.port)); s.recvfrom(4096); ok = True; break
            except (socket.timeout, ConnectionRefusedError, OSError):
                time.sleep(0.05)
        s.close()
        return ok

    def threads(self):
        d = "/proc/%d/task" % self.p.pid
        out = []
        try:
            for t in os.listdir(d):
                try:
                    out.append(open(os.path.join(d, t, "comm")).read().strip())
                except OSError:
                    pass
        except OSError:
            pass
        return sorted(out)

    def log(self):
        self.errf.flush()
        return open(self.errpath, errors="replace").read()

    def stop(self, sig=signal.SIGTERM, timeout=6.0):
        t0 = time.time()
        rc = None
        if self.p.poll() is None:
            self.p.send_signal(sig)
            try:
                rc = self.p.wait(timeout)
            except subprocess.TimeoutExpired:
                self.p.kill(); self.p.wait(); rc = "KILLED"
        else:
            rc = self.p.returncode
        dt = time.time() - t0
        self.errf.close()
        log = open(self.errpath, errors="replace").read()
        for f in (self.cfgpath, self.errpath):
            if f:
                try:
                    os.unlink(f)
                except OSError:
                    pass
        return rc, dt, log


def mkreq(r, proto):
    if proto == "Google":
        return rt.mk_classic(bytes(r.getrandbits(8) for _ in range(64)))
    return rt.mk_ietf(bytes(r.getrandbits(8) for _ in range(32)), 1024)


def closed_loop(port, r_seed, nclients, rounds, stop_evt=None, per_timeout=4.0, barrier=False, freeze_pid=None, only_proto=None):
    """nclients concurrent closed-loop reference clients; returns list of (proto, request, [replies]).
    barrier=True: the clients of a round send together (a burst of nclients datagrams, far more than
    batch_size when that is small), then all wait for their replies. With freeze_pid the server
    process is stopped (SIGSTOP) while the burst is sent and continued afterwards, so that the whole
    burst is queued on the sockets before any worker runs: each worker sees ONE readiness event."""
    import random
    results = []
    lock = threading.Lock()
    nparties = nclients + (1 if (barrier and freeze_pid) else 0)
    bar = threading.Barrier(nparties) if barrier else None
    bar2 = threading.Barrier(nparties) if (barrier and freeze_pid) else None
    bar3 = threading.Barrier(nparties) if (barrier and freeze_pid) else None
    coord = None
    if barrier and freeze_pid:
        def coordinator():
            for _ in range(rounds):
                try:
                    os.kill(freeze_pid, signal.SIGSTOP)
                except OSError:
                    pass
                try:
                    bar.wait(timeout=15)        # clients start sending
                    bar2.wait(timeout=15)       # every client has sent
                except threading.BrokenBarrierError:
                    pass
                finally:
                    try:
                        os.kill(freeze_pid, signal.SIGCONT)
                    except OSError:
                        pass
                try:
                    bar3.wait(timeout=30)       # every client has its reply (or gave up): only then freeze again
                except threading.BrokenBarrierError:
                    pass
        coord = threading.Thread(target=coordinator)

    def one(ci):
        r = random.Random(r_seed * 1000 + ci)
        s = socket.socket(socket.AF_INET, socket.SOCK_DGRAM); s.settimeout(per_timeout)
        s.connect(("127.0.0.1", port))
        mine = []
        nonces = []
        for k in range(rounds):
            if stop_evt is not None and stop_evt.is_set():
                break
            proto = only_proto or ("Google" if (ci + k) % 2 else "RfcDraft13")
            # (same RNG consumption as mkreq)
            nonce = bytes(r.getrandbits(8) for _ in range(64 if proto == "Google" else 32))
            req = rt.mk_classic(nonce) if proto == "Google" else rt.mk_ietf(nonce, 1024)
            reps = []
            if bar is not None:
                try:
                    bar.wait(timeout=10)
                except threading.BrokenBarrierError:
                    pass
            try:
                s.send(req)
                if bar2 is not None:
                    try:
                        bar2.wait(timeout=15)
                    except threading.BrokenBarrierError:
                        pass
                # a reply carries the nonce of the request it answers: a datagram that answers an EARLIER
                # request of this client (it arrived after that round's timeout) is credited to that round,
                # not mistaken for the answer to the current request
                deadline = time.time() + per_timeout
                while True:
                    remaining = deadline - time.time()
                    if remaining <= 0:
                        break
                    s.settimeout(remaining)
                    data = s.recv(4096)
                    if nonce in data:
                        reps.append(data)
                        break
                    late = [j for j in range(len(nonces) - 1, -1, -1) if nonces[j] in data]
                    if late:
                        mine[late[0]][2].append(data)
                        continue
                    reps.append(data)       # answers nothing this client sent: left to the verifier
                    break
            except (socket.timeout, OSError):
                pass
            if bar3 is not None:
                try:
                    bar3.wait(timeout=30)
                except threading.BrokenBarrierError:
                    pass
            mine.append((proto, req, reps, time.time()))
            nonces.append(nonce)
        # anything extra still in flight?
        s.settimeout(0.15)
        try:
            while True:
                extra = s.recv(4096)
                late = [j for j in range(len(nonces) - 1, -1, -1) if nonces[j] in extra]
                if late:
                    mine[late[0]][2].append(extra)
                else:
                    mine.append(("EXTRA", b"", [extra], time.time()))
        except (socket.timeout, OSError):
            pass
        s.close()
        with lock:
            results.extend(mine)

    ths = [threading.Thread(target=one, args=(i,)) for i in range(nclients)]
    if coord:
        coord.start()
    for t in ths:
        t.start()
    for t in ths:
        t.join()
    if coord:
        coord.join()
        try:
            os.kill(freeze_pid, signal.SIGCONT)
        except OSError:
            pass
    return results


def pipelined_clients(port, r_seed, nclients, depth, rounds, per_timeout=4.0):
    """clients that keep several requests in flight: each sends `depth` requests (mixed protocols, own
    nonces) back to back from ONE socket, then collects the replies and credits each to the request
    whose nonce it carries. Returns (proto, request, [replies], time) like closed_loop."""
    import random
    results = []
    lock = threading.Lock()

    def one(ci):
        r = random.Random(r_seed * 7919 + ci)
        s = socket.socket(socket.AF_INET, socket.SOCK_DGRAM)
        s.connect(("127.0.0.1", port))
        mine = []
        for k in range(rounds):
            batch = []
            for j in range(depth):
                proto = "Google" if (ci + k + j) % 2 else "RfcDraft13"
                nonce = bytes(r.getrandbits(8) for _ in range(64 if proto == "Google" else 32))
                req = rt.mk_classic(nonce) if proto == "Google" else rt.mk_ietf(nonce, 1024)
                batch.append((proto, req, [], nonce))
            for _, req, _, _ in batch:
                try:
                    s.send(req)
                except OSError:
                    pass
            deadline = time.time() + per_timeout
            while any(not b[2] for b in batch):
                remaining = deadline - time.time()
                if remaining <= 0:
                    break
                s.settimeout(remaining)
                try:
                    data = s.recv(4096)
                except (socket.timeout, OSError):
                    break
                hit = [b for b in batch if b[3] in data]
                if hit:
                    hit[0][2].append(data)
                else:
                    mine.append(("EXTRA", b"", [data], time.time()))
            # anything extra (duplicates) shortly after
            s.settimeout(0.1)
            try:
                while True:
                    data = s.recv(4096)
                    hit = [b for b in batch if b[3] in data]
                    if hit:
                        hit[0][2].append(data)          # a duplicate reply: seen as 2 responses for one request
                    else:
                        mine.append(("EXTRA", b"", [data], time.time()))
            except (socket.timeout, OSError):
                pass
            mine.extend((p, rq, reps, time.time()) for p, rq, reps, _ in batch)
        s.close()
        with lock:
            results.extend(mine)

    ths = [threading.Thread(target=one, args=(i,)) for i in range(nclients)]
    for t in ths:
        t.start()
    for t in ths:
        t.join()
    return results


def verify_pairs(ctx, pairs, rep_base, what):
    """(proto, request, reply) triples through the Coq spec verifier + dalek oracle"""
    lines = ["vresp %s %s %s %s" % (p, PK, rt.hx(rq), rt.hx(rp)) for p, rq, rp in pairs]
    vout = vlib.run_model(lines, per_shard=60)
    qlines, qmap = [], {}
    for o in vout:
        i = o.find("Q=")
        for q in (o[i + 2:].split(";") if i >= 0 else []):
            if q and q not in qmap:
                qmap[q] = len(qlines); qlines.append("edverify " + q.replace(",", " "))
    qout = vlib.run_impl(qlines)
    bad = 0
    for (p, rq, rp), o, l in zip(pairs, vout, lines):
        i = o.find("Q=")
        qs = [q for q in (o[i + 2:].split(";") if i >= 0 else []) if q]
        ok = o.startswith("V=1") and len(qs) == 2 and all(qout[qmap[q]] == "1" for q in qs)
        ctx.evaluations += 1
        if not ok:
            bad += 1
            if bad <= 2:
                ctx.violation("property", "%s: a response does not verify for its request under the server's long-term key" % what,
                              dict(rep_base, vresp=l[:9000], verdict=o[:60]))
    return bad


# ------------------------------------------------------------------ C18

def run_c18(ctx):
    ctx.rule = ("real server binary with num_workers in {1,2,4,8,16}, 1..64 concurrent closed-loop reference clients, mixed "
                "protocols, seeded rounds; every reply verified by the Coq spec verifier, exactly one reply per request, "
                "all worker threads alive, no panic output; clients with 3-4 requests in flight from one socket; non-trivial = distinct round with >= 2 workers and >= 2 clients")
    vlib.prepare(ctx, need_bins=True)
    r = ctx.rng
    grid = [(1, 4), (2, 16), (4, 32), (8, 64), (16, 64)] if not ctx.thorough else [(w, c) for w in (1, 2, 4, 8, 16) for c in (1, 8, 32, 64)]
    rounds = 6 if not ctx.thorough else 25
    workdir = tempfile.mkdtemp(prefix="c18", dir=vlib.BUILD)
    # (workers, clients, extra settings, rounds): besides the plain grid, batch sizes far below the number
    # of concurrent clients (several drain passes per wake-up on every worker) and per-client statistics
    # with a short status interval (all workers hand snapshots to the shared queue several times a second)
    plan = [(nw, nc, {"batch_size": r.choice([1, 8, 64])}, rounds) for nw, nc in grid]
    plan += [(1, 32, {"batch_size": 2}, rounds), (4, 48, {"batch_size": 2}, rounds),
             (1, 32, {"batch_size": 4, "_burst": 1}, 5), (4, 48, {"batch_size": 2, "_burst": 1}, 5),
             (2, 64, {"batch_size": 64, "_burst": 1}, 5),
             # FULL batches of one protocol on one worker (64 leaves: the deepest tree the server ever builds)
             # (70 datagrams of 1 KB fit one socket's receive buffer while the server is frozen; 100 do not)
             (1, 70, {"batch_size": 64, "_burst": 1, "_proto": "Google"}, 3), (1, 70, {"batch_size": 64, "_burst": 1, "_proto": "RfcDraft13"}, 3),
             # clients with several requests in flight from one socket (same source address in one batch)
             (1, 6, {"batch_size": 64, "_pipe": 4}, 4), (4, 12, {"batch_size": 8, "_pipe": 3}, 4),
             (4, 24, {"batch_size": 64, "client_stats": "on", "persistence_directory": workdir, "status_interval": 1}, 60),
             (2, 16, {"batch_size": 8, "client_stats": "on", "persistence_directory": workdir, "status_interval": 2}, 60)]
    for nw, nc, extra, rounds in plan:
        extra = dict(extra)
        burst = bool(extra.pop("_burst", 0))
        pipe = int(extra.pop("_pipe", 0))
        only_proto = extra.pop("_proto", None)
        srv = Server(dict({"num_workers": nw}, **extra), workdir=workdir)
        rep = {"cmd": "load", "settings": {k: str(v) for k, v in srv.settings.items()}, "clients": nc, "rounds": rounds}
        try:
            if not srv.wait_ready():
                ctx.violation("property", "server with %d workers did not start serving" % nw, dict(rep, log=srv.log()[-1500:])); continue
            if pipe:
                res = pipelined_clients(srv.port, ctx.seed * 100 + nw, nc, pipe, rounds)
            else:
                res = closed_loop(srv.port, ctx.seed * 100 + nw, nc, rounds, barrier=burst, freeze_pid=srv.p.pid if burst else None, only_proto=only_proto)
            rep["burst"] = burst; rep["in_flight_per_client"] = pipe
            th = srv.threads()
            workers = sorted({t for t in th if t.startswith("worker-")})   # the timer thread of each worker shares its name
            if len(workers) != nw:
                ctx.violation("property", "%d workers configured but live worker threads are %s" % (nw, workers), rep)
            pairs = []
            for proto, req, reps, _ in res:
                if proto == "EXTRA":
                    ctx.violation("property", "a client received a datagram it did not ask for (duplicate or cross-talk)", rep); continue
                if len(reps) != 1:
                    ctx.violation("property", "a valid request received %d responses under load (%d workers, %d clients)" % (len(reps), nw, nc), rep); continue
                pairs.append((proto, req, reps[0]))
            verify_pairs(ctx, pairs, rep, "concurrent load")
            ctx.count("load:%dw" % nw, len(pairs))
            if nw >= 2 and nc >= 2:
                ctx.nontriv("%d:%d:%d:%s:%s" % (nw, nc, len(pairs), sorted(extra.items()), burst))
            ctx.traces_validated += len(pairs)
        finally:
            rc, dt, log = srv.stop()
            if "panicked" in log or rc != 0:
                ctx.violation("property", "server under load: exit status %s, panic output: %s" % (rc, "panicked" in log), dict(rep, log=log[-1500:]))
    ctx.sample({"grid": grid, "rounds_per_client": rounds})
    import shutil
    shutil.rmtree(workdir, ignore_errors=True)
    proof_verdict(ctx)


# ------------------------------------------------------------------ C15

def health_probe(port, n, burst):
    ok = 0
    conns = []
    if burst:
        for _ in range(n):
            try:
                c = socket.create_connection(("127.0.0.1", port), timeout=1.5); conns.append(c)
            except OSError:
                pass
        for c in conns:
            try:
                c.settimeout(1.5)
                if c.recv(200).startswith(b"HTTP/1.1 200 OK"):
                    ok += 1
            except OSError:
                pass
            c.close()
    else:
        for _ in range(n):
            try:
                c = socket.create_connection(("127.0.0.1", port), timeout=1.5); c.settimeout(1.5)
                if c.recv(200).startswith(b"HTTP/1.1 200 OK"):
                    ok += 1
                c.close()
            except OSError:
                pass
    return ok


def run_c15(ctx):
    ctx.rule = ("real server binary over the documented option space (num_workers 1..16, health port absent/present, batch_size "
                "{1,2,63,64}, fault {0,1,50}, status_interval {1,10,600}, client_stats off/on with a directory; file and ENV; "
                "example.cfg with ports remapped): live worker threads, UDP replies, health replies under sequential and burst "
                "connects, no panic output, service and worker count after two SIGSTOP/SIGCONT cycles; a health connection while accept() fails with EMFILE (descriptor limit lowered): time "
                "service continues on every worker; non-trivial = distinct configuration with >= 2 workers or a health port")
    vlib.prepare(ctx, need_bins=True)
    r = ctx.rng
    workdir = tempfile.mkdtemp(prefix="c15", dir=vlib.BUILD)
    configs = []
    # example.cfg verbatim (ports remapped): health port set, num_workers defaults to the CPU count
    ex = {}
    for line in open(os.path.join(vlib.REPO, "example.cfg")):
        if ":" in line:
            k, v = line.split(":", 1); ex[k.strip()] = v.strip()
    ex.pop("port", None); ex["health_check_port"] = "auto"
    configs.append(("file", ex, "example.cfg"))
    nws = [1, 2, 3, 4, 8, 16]
    n_rand = 22 if not ctx.thorough else 200
    for i in range(n_rand):
        s = {"num_workers": nws[i % len(nws)], "batch_size": r.choice([1, 2, 63, 64]), "fault_percentage": r.choice([0, 0, 1, 50]),
             "status_interval": r.choice([1, 10, 600])}
        if i % 2 == 0:
            s["health_check_port"] = "auto"
        if i % 5 == 3:
            s["client_stats"] = "on"; s["persistence_directory"] = workdir
        configs.append(("file" if i % 3 else "env", s, "grid"))

    def one(item):
        source, settings, label = item
        srv = Server(settings, source=source, workdir=workdir)
        out = {"label": label, "source": source, "settings": {k: str(v) for k, v in srv.settings.items()}}
        try:
            out["ready"] = srv.wait_ready()
            time.sleep(0.3)
            out["threads"] = srv.threads()
            # time service: requests from several sockets, both protocols
            import random
            rr = random.Random(hash(str(settings)) & 0xffff)
            res = closed_loop(srv.port, rr.randrange(1 << 20), 6, 3)
            faulty = int(settings.get("fault_percentage", 0)) > 0
            out["answered"] = sum(1 for _, _, reps, _ in res if len(reps) == 1)
            out["asked"] = len(res)
            out["pairs"] = [] if faulty else [(p, rq, reps[0]) for p, rq, reps, _ in res if len(reps) == 1]
            if srv.health:
                out["health_seq"] = health_probe(srv.health, 5, burst=False)
                out["health_burst"] = health_probe(srv.health, 20, burst=True)
                res2 = closed_loop(srv.port, 7, 2, 2)
                out["answered_after_health"] = sum(1 for _, _, reps, _ in res2 if len(reps) == 1)
                out["health_after"] = health_probe(srv.health, 3, burst=False)
            # job control: the process is stopped and continued (SIGSTOP / SIGCONT interrupt every blocking
            # system call of every worker with EINTR); all workers must still be there and answer afterwards
            if srv.p.poll() is None:
                for _ in range(2):
                    try:
                        os.kill(srv.p.pid, signal.SIGSTOP); time.sleep(0.12)
                        os.kill(srv.p.pid, signal.SIGCONT); time.sleep(0.12)
                    except ProcessLookupError:
                        break       # the server is gone: reported below as "did not stay alive"
                res3 = closed_loop(srv.port, 11, 4, 2)
                out["answered_after_stop_cont"] = sum(1 for _, _, reps, _ in res3 if len(reps) == 1)
                out["asked_after_stop_cont"] = len(res3)
            out["alive"] = srv.p.poll() is None
            out["threads_end"] = srv.threads()
        finally:
            out["rc"], out["dt"], out["log"] = srv.stop()
        return out

    with ThreadPoolExecutor(max_workers=6) as ex_:
        outs = list(ex_.map(one, configs))
    allpairs = []
    for o in outs:
        ctx.evaluations += 1
        s = o["settings"]
        nw = int(s.get("num_workers", os.cpu_count()))
        rep = {"cmd": "config-run", "label": o["label"], "source": o["source"], "settings": s,
               "observed": {k: v for k, v in o.items() if k not in ("log", "pairs", "settings")}, "log": o["log"][-1500:]}
        workers = sorted({t for t in o.get("threads_end", []) if t.startswith("worker-")})
        ctx.count("source:" + o["source"]); ctx.count("workers:%d" % nw)
        if not o.get("ready") or not o.get("alive"):
            ctx.violation("property", "server did not start / stay alive with a documented in-range configuration (%s)" % o["label"], rep); continue
        if len(workers) != nw:
            ctx.violation("property", "%d workers configured, %d live after start-up: the server keeps running with fewer workers than configured" % (nw, len(workers)), rep); continue
        if "panicked" in o["log"]:
            ctx.violation("property", "panic output during start-up / service", rep); continue
        if o["answered"] != o["asked"]:
            ctx.violation("property", "time service answered %d of %d requests" % (o["answered"], o["asked"]), rep); continue
        if o.get("answered_after_stop_cont") != o.get("asked_after_stop_cont"):
            ctx.violation("property", "after the process was stopped and continued (SIGSTOP/SIGCONT) the time service answered %s of %s requests" % (o.get("answered_after_stop_cont"), o.get("asked_after_stop_cont")), rep); continue
        if "health_check_port" in s:
            if o["health_seq"] != 5 or o["health_burst"] != 20 or o["health_after"] != 3:
                ctx.violation("property", "health check port answered %d/5 sequential, %d/20 burst, %d/3 later connections" % (o["health_seq"], o["health_burst"], o["health_after"]), rep); continue
            if o["answered_after_health"] != 4:
                ctx.violation("property", "time service did not continue while health checks were served", rep); continue
        if o["rc"] != 0:
            ctx.violation("property", "exit status %s on SIGTERM" % o["rc"], rep); continue
        allpairs += o["pairs"]
        ctx.traces_validated += 1
        if nw >= 2 or "health_check_port" in s:
            ctx.nontriv(json.dumps(s, sort_keys=True))
    verify_pairs(ctx, allpairs, {"cmd": "config-run"}, "configuration grid")
    # ---- health listener, deterministically: an in-process Server, n TCP connections established
    # BEFORE one process_events() call (so they are folded into ONE edge-triggered readiness event);
    # every one of them must be answered by that call (Model/Process.v health_run: accept until WouldBlock)
    sessions = []
    for n in ((3, 17, 40, 100) if not ctx.thorough else (1, 2, 16, 17, 33, 64, 100, 120)):
        sessions.append(["serve new 8 0 3 0 %s 1" % SEED, "serve health %d" % n, "serve health 5",
                         "serve run 1 0:%s" % rt.hx(rt.mk_classic(os.urandom(64))), "serve drop"])
    for sess, out in zip(sessions, vlib.run_sessions(vlib.HARNESS, sessions, "c15h", shards=4)):
        ctx.evaluations += 1
        rep = {"cmd": "health-burst", "lines": sess, "out": [o[:300] for o in out]}
        hs = [o for o in out if " HEALTH " in o]
        okh = len(hs) == 2
        for o in hs:
            d = dict(t.split("=") for t in o.split(" HEALTH ")[1].split())
            if d["connected"] != d["answered"]:
                okh = False
        if not okh:
            ctx.violation("property", "health check listener did not answer every connection of a burst handled in one readiness event: %s" % [o.split(" HEALTH ")[-1] for o in hs], rep); continue
        if not out[3].startswith("OK") or " R=0:" not in out[3]:
            ctx.violation("property", "time service did not continue after a health-check burst", rep); continue
        ctx.nontriv("health-burst:" + sess[1])
        ctx.traces_validated += 1
    ctx.sample({"example.cfg": outs[0]["settings"], "threads": outs[0].get("threads_end"), "health_burst": outs[0].get("health_burst")})
    health_accept_fault(ctx, workdir)
    import shutil
    shutil.rmtree(workdir, ignore_errors=True)
    proof_verdict(ctx)


def health_accept_fault(ctx, workdir):
    """a fault at one point: a health-check connection arrives while accept() fails WITHOUT consuming it
    (EMFILE — the process is at its descriptor limit). Time service must continue on every worker; once the
    limit is lifted the health port answers again."""
    import resource
    srv = Server({"num_workers": 2, "health_check_port": "auto"}, workdir=workdir)
    rep = {"cmd": "health-accept-fault", "settings": {k: str(v) for k, v in srv.settings.items()}}
    try:
        if not srv.wait_ready():
            ctx.violation("property", "server with a health port did not start serving", dict(rep, log=srv.log()[-800:])); return
        pid = srv.p.pid
        nfds = len(os.listdir("/proc/%d/fd" % pid))
        old = resource.prlimit(pid, resource.RLIMIT_NOFILE)
        resource.prlimit(pid, resource.RLIMIT_NOFILE, (nfds, old[1]))        # the next accept() fails with EMFILE
        conns = []
        try:
            for _ in range(2):
                try:
                    conns.append(socket.create_connection(("127.0.0.1", srv.health), timeout=1.0))
                except OSError:
                    pass
            time.sleep(0.4)
            res = closed_loop(srv.port, ctx.seed * 31 + 5, 12, 3, per_timeout=1.5)
        finally:
            resource.prlimit(pid, resource.RLIMIT_NOFILE, old)
            for c in conns:
                try:
                    c.close()
                except OSError:
                    pass
        answered = sum(1 for p, rq, reps, _ in res if p != "EXTRA" and len(reps) == 1)
        total = sum(1 for p, rq, reps, _ in res if p != "EXTRA")
        ctx.evaluations += total
        if answered != total:
            ctx.violation("property", "while accept() on the health-check port failed (EMFILE) the time service answered %d of %d requests" % (answered, total),
                          dict(rep, log=srv.log()[-600:]))
            return
        time.sleep(0.2)
        later = health_probe(srv.health, 3, burst=False)
        if later != 3:
            ctx.violation("property", "health-check port answered %d/3 connections after the descriptor limit was lifted" % later, rep); return
        ctx.nontriv("health-accept-fault")
        ctx.traces_validated += 1
    finally:
        rc, dt, log = srv.stop()


def shutdown_during_accept_fault(ctx, workdir):
    """the signal arrives while a health-check connection is pending that accept() cannot take (EMFILE: the
    process is at its descriptor limit): the worker must still come round to testing the flag"""
    import resource
    for sig in (signal.SIGTERM, signal.SIGINT):
        srv = Server({"num_workers": 1, "health_check_port": "auto"}, workdir=workdir)
        rep = {"cmd": "shutdown-accept-fault", "signal": int(sig), "settings": {k: str(v) for k, v in srv.settings.items()}}
        stopped = False
        try:
            if not srv.wait_ready():
                ctx.violation("property", "server with a health port did not start serving", dict(rep, log=srv.log()[-800:])); continue
            pid = srv.p.pid
            nfds = len(os.listdir("/proc/%d/fd" % pid))
            old = resource.prlimit(pid, resource.RLIMIT_NOFILE)
            resource.prlimit(pid, resource.RLIMIT_NOFILE, (nfds, old[1]))
            conn = None
            try:
                conn = socket.create_connection(("127.0.0.1", srv.health), timeout=1.0)
            except OSError:
                pass
            time.sleep(0.3)
            t0 = time.time()
            os.kill(pid, sig)
            try:
                rc = srv.p.wait(timeout=6.0)
            except subprocess.TimeoutExpired:
                rc = None
            dt = time.time() - t0
            if conn is not None:
                try:
                    conn.close()
                except OSError:
                    pass
            ctx.evaluations += 1
            if rc is None:
                ctx.violation("property", "signal %d while a health-check connection is pending that accept() cannot take (EMFILE): the process is still alive %.1f s later" % (int(sig), dt),
                              dict(rep, log=srv.log()[-600:]))
            elif rc != 0:
                ctx.violation("property", "signal %d during an accept() fault: exit status %s" % (int(sig), rc), dict(rep, log=srv.log()[-600:]))
            else:
                ctx.traces_validated += 1
                ctx.nontriv("shutdown-accept-fault:%d" % int(sig))
        finally:
            srv.stop(sig=signal.SIGKILL) if srv.p.poll() is None else srv.stop()


# ------------------------------------------------------------------ C19

def run_c19(ctx):
    ctx.rule = ("real server binary: SIGINT / SIGTERM x num_workers {1,4,16} x client_stats off/on x delays swept over 0..300 ms "
                "relative to the start of load x {idle, closed-loop load, open-loop flood, junk-only traffic, silent / half-open TCP peer on the health port, the signal sent twice, statistics published under load, accept() failing with EMFILE}; exit status, time to exit, panic "
                "output, validity of the last replies; non-trivial = distinct (signal, workers, stats, mode, delay) case under load")
    vlib.prepare(ctx, need_bins=True)
    r = ctx.rng
    workdir = tempfile.mkdtemp(prefix="c19", dir=vlib.BUILD)
    cases = []
    delays = [0.0, 0.03, 0.1, 0.3] if not ctx.thorough else [i * 0.02 for i in range(16)]
    for sig in (signal.SIGINT, signal.SIGTERM):
        for nw in (1, 4, 16):
            for cs in (False, True):
                for mode in ("idle", "load"):
                    for d in (delays if mode == "load" else delays[:2]):
                        if not ctx.thorough and (hash((sig, nw, cs, mode, d)) % 3):
                            continue
                        cases.append((sig, nw, cs, mode, d))
    # a server that has been IDLE for a while (nothing but poll timeouts) must still react at once
    cases.append((signal.SIGTERM, 2, False, "idle", 7.0))
    cases.append((signal.SIGINT, 1, True, "idle", 7.0))
    cases.append((signal.SIGTERM, 4, False, "flood", 0.2))
    # per-client statistics published every 100 ms (status_interval 1) under continuous load for longer than the
    # shared queue can absorb without the reporter (2 slots per worker, drained once a second): the signal
    # arrives while the workers are publishing
    cases.append((signal.SIGINT, 2, False, "double", 0.2))
    cases.append((signal.SIGTERM, 1, True, "double", 0.1))
    cases.append((signal.SIGINT, 1, True, "statload", 0.65))
    cases.append((signal.SIGTERM, 1, True, "statload", 0.85))
    cases.append((signal.SIGTERM, 2, True, "statload", 1.3))
    # a worker that has only seen datagrams it rejects (requests counted, nothing sent) when the signal comes
    cases.append((signal.SIGTERM, 1, False, "junk", 0.2))
    cases.append((signal.SIGINT, 2, True, "junk", 0.2))
    # a TCP peer connected to the health-check port that has sent nothing / half a request when the signal comes
    cases.append((signal.SIGTERM, 1, False, "halfopen", 0.2))
    cases.append((signal.SIGINT, 2, False, "halfopen", 0.3))
    if ctx.thorough:
        cases += [(signal.SIGINT, 1, False, "flood", 0.2), (signal.SIGTERM, 16, True, "flood", 0.3)]
    known = vlib.load_known("C19")

    def one(case):
        sig, nw, cs, mode, delay = case
        settings = {"num_workers": nw, "batch_size": 64}
        if cs:
            settings["client_stats"] = "on"; settings["persistence_directory"] = workdir
            si = (None, 10, 1)[(int(sig) + nw + int(delay * 100)) % 3]      # None: the documented default, 600 s
            if delay >= 5:
                si = None
            if mode == "statload":
                si = 1
            if si is not None:
                settings["status_interval"] = si
        if mode == "halfopen":
            settings["health_check_port"] = "auto"
        srv = Server(settings, workdir=workdir)
        out = {"case": [int(sig), nw, cs, mode, delay]}
        flood = None
        peers = []
        stop_evt = threading.Event()
        res = []
        try:
            out["ready"] = srv.wait_ready()
            th = None
            if mode in ("load", "statload"):
                th = threading.Thread(target=lambda: res.extend(closed_loop(srv.port, int(delay * 1000) + nw, 8, 400, stop_evt, per_timeout=0.4)))
                th.start()
            elif mode == "flood":
                flood = subprocess.Popen([vlib.CLIENT_BIN, "127.0.0.1", str(srv.port), "-s"], stdout=subprocess.DEVNULL, stderr=subprocess.DEVNULL)
            elif mode == "junk":
                js = [socket.socket(socket.AF_INET, socket.SOCK_DGRAM) for _ in range(6)]
                for k in range(30):
                    js[k % 6].sendto(bytes([k]) * (1024 if k % 3 else 700), ("127.0.0.1", srv.port))
                for x in js:
                    x.close()
            elif mode == "halfopen" and srv.health:
                for half in (b"", b"GET /health HTTP/1.1\r\nHost: x"):
                    try:
                        c = socket.create_connection(("127.0.0.1", srv.health), timeout=1.5)
                        if half:
                            c.send(half)
                        peers.append(c)
                    except OSError:
                        pass
            time.sleep(delay)
            if mode == "double":
                # the same signal twice in quick succession (an impatient operator, a supervisor that repeats it):
                # the second one arrives before the workers have come round to the flag
                srv.p.send_signal(sig)
                time.sleep(0.03)
            rc, dt, log = srv.stop(sig=sig, timeout=5.0 if mode != "flood" else 3.0)
            stop_evt.set()
            if th:
                th.join()
            out.update(rc=rc, dt=dt, log=log)
        finally:
            for c in peers:
                try:
                    c.close()
                except OSError:
                    pass
            if flood:
                flood.kill(); flood.wait()
            if srv.p.poll() is None:
                srv.p.kill()
        out["pairs"] = [(p, rq, reps[0]) for p, rq, reps, _ in res if p != "EXTRA" and len(reps) == 1]
        return out

    with ThreadPoolExecutor(max_workers=5) as ex_:
        outs = list(ex_.map(one, cases))
    allpairs = []
    for case, o in zip(cases, outs):
        sig, nw, cs, mode, delay = case
        ctx.evaluations += 1
        ctx.count("mode:" + mode)
        rep = {"cmd": "signal", "case": o["case"], "rc": str(o.get("rc")), "dt": round(o.get("dt", -1), 3), "log": (o.get("log") or "")[-1200:]}
        if not o.get("ready"):
            ctx.violation("property", "server did not become ready", rep); continue
        bad = None
        if o["rc"] != 0:
            bad = "exit status %s (not 0) after %s" % (o["rc"], signal.Signals(sig).name)
        elif o["dt"] > 4.0:
            bad = "took %.1f s to exit" % o["dt"]
        elif "panicked" in o["log"]:
            bad = "panic output on shutdown"
        if bad:
            if mode == "flood" and any(k.get("class") == "flood-shutdown" for k in known):
                ctx.count("known_finding_flood_shutdown")
                continue
            ctx.violation("property", "%s (workers=%d, client_stats=%s, %s, delay %.2f s)" % (bad, nw, cs, mode, delay), rep); continue
        allpairs += o["pairs"]
        ctx.traces_validated += 1
        if mode != "idle":
            ctx.nontriv(str(o["case"]))
    verify_pairs(ctx, allpairs, {"cmd": "signal"}, "replies emitted before exit")
    ctx.count("replies_before_exit_verified", len(allpairs))
    ctx.sample({"case": outs[0]["case"], "rc": str(outs[0].get("rc")), "dt": round(outs[0].get("dt", -1), 3)})
    shutdown_during_accept_fault(ctx, workdir)
    import shutil
    shutil.rmtree(workdir, ignore_errors=True)
    proof_verdict(ctx)


def replay(ctx, rep):
    print({k: (str(v)[:600]) for k, v in rep.items()})
    print("replay: re-run `./check %s` (process-level cases are re-generated from VERIF_SEED)" % ctx.pid)
    return 0
