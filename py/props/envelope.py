"""C14 — envelope-encrypted seed: round trip, tamper detection, no leak; impl vs model."""
import struct
import vlib, rt
from props.codec import proof_verdict


def rnd(r, n):
    return bytes(r.getrandbits(8) for _ in range(n))


def with_prelude(prelude, lines, per_shard=400):
    """run impl lines sharded, each shard preceded by the provider-table prelude"""
    chunks = [lines[i:i + per_shard] for i in range(0, len(lines), per_shard)]
    sessions = [prelude + c for c in chunks]
    outs = vlib.run_sessions(vlib.HARNESS, sessions, "env")
    res = []
    for o in outs:
        res += o[len(prelude):]
    return res


def field(line, key):
    for tok in line.split():
        if tok.startswith(key + "="):
            return tok[len(key) + 1:]
    return None


def run_c14(ctx):
    ctx.rule = ("harness KMS providers (opaque handle of length 16..1024, identity, failing, wrong key, too short a key, the key with extra bytes) x "
                "plaintexts 32..64 bytes; every single-bit and single-byte modification at every blob position, every "
                "truncation, extensions, the header length fields at their extremes, a genuine decrypt straight after every provider fault; substring scan of the blob for seed and DEK; non-trivial = distinct modified "
                "blob that passes the length pre-checks (the parse succeeds, so the provider / AEAD decide)")
    vlib.prepare(ctx)
    r = ctx.rng
    enc_cases = []
    lens = [16, 17, 24, 31, 32, 33, 48, 64, 184, 1024] if not ctx.thorough else list(range(16, 1025, 7)) + [1024]
    for L in lens:
        for plen in (32, 33, 48, 64):
            enc_cases.append(("handle:%d" % L, rnd(r, plen)))
    for kind in ("id", "errenc", "errdec:48", "wrongkey:48", "wronglen:48", "wrongkey:16", "wronglen:1024"):
        for plen in (32, 64):
            enc_cases.append((kind, rnd(r, plen)))
    lines = ["envelope %s %s" % (k, rt.hx(p)) for k, p in enc_cases]
    out = vlib.run_sessions(vlib.HARNESS, [lines], "env")[0]
    ctx.evaluations += len(lines)
    blobs = []
    for (kind, pt), li, line in zip(enc_cases, out, lines):
        rep = {"cmd": "envelope", "line": line, "impl": li[:900]}
        base = kind.split(":")[0]
        ctx.count("provider:" + base)
        if li.startswith(("PANIC", "CRASH", "HARNESS")):
            ctx.violation("property", "envelope encryption/decryption panicked with provider %s" % kind, rep); continue
        if base in ("handle", "id"):
            if not li.startswith("ENC=OK") or not li.endswith("DEC=OK " + rt.hx(pt)):
                ctx.violation("property", "decrypting an encrypted seed with the same provider does not return the seed (provider %s, %d-byte plaintext): %s" % (kind, len(pt), li[-60:]), rep); continue
            blob = bytes.fromhex(li.split()[1])
            w, k = bytes.fromhex(field(li, "W")), bytes.fromhex(field(li, "K"))
            blobs.append((kind, pt, blob, w, k))
            if pt in blob:
                ctx.violation("property", "the blob contains the plaintext seed", rep)
            if base == "handle" and k in blob:
                ctx.violation("property", "the blob contains the unwrapped data key", rep)
        elif base == "errenc":
            if not li.startswith("ENC=ERR"):
                ctx.violation("property", "provider error on encrypt_dek did not yield an error", rep)
        else:
            if "DEC=ERR" not in li:
                ctx.violation("property", "provider fault %s on decrypt_dek did not yield an error: %s" % (kind, li[-80:]), rep)
    ctx.sample({"envelope": lines[0][:120], "impl": out[0][:200]})
    # ---- modifications of honest blobs at every position
    sel = blobs if ctx.thorough else [b for i, b in enumerate(blobs) if i % 5 == 0][:9]
    prelude = ["kmsput %s %s" % (rt.hx(w), rt.hx(k)) for _, _, _, w, k in blobs]
    mods = []
    for kind, pt, blob, w, k in sel:
        for i in range(len(blob)):
            m = bytearray(blob); m[i] ^= 1 << r.randrange(8)
            mods.append((kind, pt, blob, bytes(m), "bit"))
            m = bytearray(blob); m[i] = (m[i] + 1 + r.randrange(254)) & 0xff
            mods.append((kind, pt, blob, bytes(m), "byte"))
        for n in range(len(blob)):
            mods.append((kind, pt, blob, blob[:n], "truncation"))
        for ext in (b"\x00", rnd(r, 1), rnd(r, 16)):
            mods.append((kind, pt, blob, blob + ext, "extension"))
        mods.append((kind, pt, blob, blob, "unmodified"))
        L = kind.split(":")[1] if ":" in kind else "48"
        for k2 in ("errdec", "wrongkey", "wronglen", "longkey"):
            mods.append((k2 + ":" + L, pt, blob, blob, "provider-" + k2))
            # ... and straight afterwards, in the same process and thread, the genuine blob with the genuine
            # provider: what an earlier failed call left behind must not matter
            mods.append((kind, pt, blob, blob, "unmodified"))
        # the two 16-bit length fields of the header at their extremes (sums that do not fit 16 bits included)
        for dl in [0, 1, 255, 256, 0x7fff, 0x8000, 0xff00] + list(range(0xfff0, 0x10000)):
            for nl in (12, 0, 11, 13, 0xffff):
                m = bytearray(blob); struct.pack_into("<HH", m, 0, dl, nl)
                if bytes(m) != blob:
                    mods.append((kind, pt, blob, bytes(m), "header"))
    dlines = ["envdec %s %s" % (kind, rt.hx(m)) for kind, _, _, m, _ in mods]
    impl = with_prelude(prelude, dlines)
    # model: parse, then the oracle answers for the one unwrap and the one open it would perform
    parsed = vlib.run_model(["envparse " + rt.hx(m) for _, _, _, m, _ in mods])
    ulines, olines, idx = [], [], []
    for i, ((kind, _, _, m, _), ps) in enumerate(zip(mods, parsed)):
        if ps.startswith("OK "):
            _, w, n, c = ps.split(" ")
            ulines.append("kmsunwrap %s %s" % (kind, w)); idx.append(i)
    uans = with_prelude(prelude, ulines)
    umap = dict(zip(idx, uans))
    oidx = []
    for i in idx:
        if umap[i].startswith("OK "):
            _, w, n, c = parsed[i].split(" ")
            olines.append("aeadopen %s %s %s" % (umap[i][3:], n, c)); oidx.append(i)
    oans = vlib.run_impl(olines)
    omap = dict(zip(oidx, oans))
    mlines = []
    for i, (kind, _, _, m, _) in enumerate(mods):
        ua = ("OK:" + umap[i][3:]) if umap.get(i, "ERR").startswith("OK ") else "ERR"
        oa = ("OK:" + omap[i][3:]) if omap.get(i, "ERR").startswith("OK ") else "ERR"
        mlines.append("envdec %s %s %s" % (rt.hx(m), ua, oa))
    model = vlib.run_model(mlines)
    ctx.evaluations += len(mods)
    for (kind, pt, blob, m, what), li, lm, ps, line in zip(mods, impl, model, parsed, dlines):
        rep = {"cmd": "envdec", "line": line[:6000], "impl": li, "model": lm, "what": what, "parse": ps[:120],
               "prelude": prelude}
        ctx.count("mod:" + what)
        if li.startswith(("PANIC", "CRASH", "HARNESS")):
            ctx.violation("property", "decrypt_seed panicked on a %s blob" % what, rep); continue
        if what == "unmodified":
            if li != "OK " + rt.hx(pt):
                ctx.violation("property", "unmodified blob does not decrypt to the seed", rep); continue
        elif li.startswith("OK"):
            ctx.violation("property", "a %s of the blob (or provider fault) was accepted and yielded a plaintext instead of an error" % what, rep); continue
        if ps.startswith("OK ") and what != "unmodified":
            ctx.nontriv(rt.fnv64(m))
        if li != lm:
            ctx.violation("tie", "model and implementation disagree on decrypt_seed (%s): impl %s / model %s" % (what, li[:60], lm[:60]), rep)
        else:
            ctx.traces_validated += 1
    proof_verdict(ctx)


def replay(ctx, rep):
    vlib.build_harness(); vlib.gen_tables(); vlib.build_driver()
    pre = rep.get("prelude", [])
    out = vlib.run_sessions(vlib.HARNESS, [pre + [rep["line"]]], "replay")[0]
    print("impl :", out[-1][:1000])
    print({k: str(v)[:300] for k, v in rep.items() if k != "prelude"})
    return 0
