"""rt — independent Python helpers for the Roughtime wire format (used by generators and as a
third opinion): canonical encoder, FNV hash, tag table from the regenerated reflection."""
import json, os, struct

VERIF = os.path.dirname(os.path.dirname(os.path.abspath(__file__)))

def tables():
    return json.load(open(os.path.join(VERIF, "coq", "Gen", "tables.json")))

def tag_table():
    """list of (name, wire bytes) in enum order"""
    return [(t["name"], bytes.fromhex(t["wire"])) for t in tables()["tags"]]

def fnv64(b):
    h = 0xcbf29ce484222325
    for x in b:
        h ^= x
        h = (h * 0x100000001b3) & 0xffffffffffffffff
    return "%016x" % h

def hx(b):
    return b.hex() if b else "-"

def render_val(v):
    return "%d:%s" % (len(v), fnv64(v)) if len(v) > 64 else hx(v)

def render_msg(fields):
    return "[" + ",".join("%s:%s" % (t, render_val(v)) for t, v in fields) + "]"

def encode(fields, wire=None):
    """canonical encoding of [(tagname, value)] (no validation)"""
    wire = wire or dict(tag_table())
    n = len(fields)
    out = struct.pack("<I", n)
    off = 0
    for i, (_, v) in enumerate(fields):
        if i > 0:
            out += struct.pack("<I", off & 0xffffffff)
        off += len(v)
    for t, _ in fields:
        out += wire[t]
    for _, v in fields:
        out += v
    return out

MAGIC = b"ROUGHTIM"

def frame(payload):
    return MAGIC + struct.pack("<I", len(payload)) + payload

def fields_arg(fields):
    return ";".join("%s=%s" % (t, hx(v)) for t, v in fields)


def decode(b, wire=None):
    """independent tolerant decoder: list of (tagname or hex word, value) or None"""
    rev = {w: t for t, w in (wire.items() if wire else tag_table())}
    if len(b) < 4 or len(b) % 4:
        return None
    n = struct.unpack_from("<I", b, 0)[0]
    if n == 0:
        return []
    if 8 * n > len(b):
        return None
    offs = [struct.unpack_from("<I", b, 4 + 4 * i)[0] for i in range(n - 1)]
    tags = [b[4 * n + 4 * i: 4 * n + 4 * i + 4] for i in range(n)]
    payload = b[8 * n:]
    bounds = [0] + offs + [len(payload)]
    if any(x % 4 for x in offs) or any(a > c for a, c in zip(bounds, bounds[1:])):
        return None
    nums = [struct.unpack("<I", t)[0] for t in tags]
    if any(a >= c for a, c in zip(nums, nums[1:])):
        return None
    if any(t not in rev for t in tags):
        return None
    return [(rev[t], payload[bounds[i]:bounds[i + 1]]) for i, t in enumerate(tags)]


def unframe(b):
    if b[:8] != MAGIC or len(b) < 12 or struct.unpack_from("<I", b, 8)[0] != len(b) - 12:
        return None
    return b[12:]


DRAFT13 = bytes.fromhex("0c000080")


def mk_classic(nonce, size=1024, extra=None):
    """classic request: NONC + PAD, padded to `size` bytes"""
    fields = [("NONC", nonce), ("PAD", b"")]
    if extra:
        fields = sorted(fields + extra, key=lambda tv: struct.unpack("<I", dict(tag_table())[tv[0]])[0])
    base = len(encode(fields))
    pad = max(0, size - base)
    fields = [(t, (v + bytes(pad)) if t == "PAD" else v) for t, v in fields]
    return encode(fields)


def mk_ietf(nonce, size=1024, vers=(DRAFT13,), srv=None, drop_ver=False):
    """IETF request: VER, [SRV], NONC, ZZZZ padding; message padded to `size`, then framed"""
    fields = []
    if not drop_ver:
        fields.append(("VER", b"".join(vers)))
    if srv is not None:
        fields.append(("SRV", srv))
    fields += [("NONC", nonce), ("ZZZZ", b"")]
    base = len(encode(fields))
    pad = max(0, size - base)
    pad -= pad % 4
    fields = [(t, (v + bytes(pad)) if t == "ZZZZ" else v) for t, v in fields]
    return frame(encode(fields))
