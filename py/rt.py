"""rt — independent Python helpers for the Roughtime wire format (used by generators and as a
third opinion): canonical encoder, FNV hash, tag table from the regenerated reflection."""
import json, os, struct

VERIF = os.path.dirname(os.path.dirname(os.path.abspath(__file__)))

def tables():
    return json.load(open(os.path.join(VERIF, "coq", "Gen", "tables.json")))

def tag_table():
    """list of (name, wire bytes) in enum order"""
    return [(t["name"], bytes.fromhex(t["wire"])) for t in tables()["tags"]]

def fnv64(b):
    h = 0xcbf29ce484222325
    for x in b:
        h ^= x
        h = (h * 0x100000001b3) & 0xffffffffffffffff
    return "%016x" % h

def hx(b):
    return b.hex() if b else "-"

def render_val(v):
    return "%d:%s" % (len(v), fnv64(v)) if len(v) > 64 else hx(v)

def render_msg(fields):
    return "[" + ",".join("%s:%s" % (t, render_val(v)) for t, v in fields) + "]"

def encode(fields, wire=None):
    """canonical encoding of [(tagname, value)] (no validation)"""
    wire = wire or dict(tag_table())
    n = len(fields)
    out = struct.pack("<I", n)
    off = 0
    for i, (_, v) in enumerate(fields):
        if i > 0:
            out += struct.pack("<I", off & 0xffffffff)
        off += len(v)
    for t, _ in fields:
        out += wire[t]
    for _, v in fields:
        out += v
    return out

MAGIC = b"ROUGHTIM"

def frame(payload):
    return MAGIC + struct.pack("<I", len(payload)) + payload

def fields_arg(fields):
    return ";".join("%s=%s" % (t, hx(v)) for t, v in fields)
