"""Honest reference responder written from the protocol texts, holding its own keys.
Independent of the code under test: Python RFC 8032 signing, hashlib SHA-512, own encoder."""
import hashlib, struct
import ed25519, rt

CTX_DELE = {"Google": b"RoughTime v1 delegation signature--\x00", "RfcDraft13": b"RoughTime v1 delegation signature\x00"}
CTX_SREP = b"RoughTime v1 response signature\x00"
_cert_cache = {}


def width(ver):
    return 64 if ver == "Google" else 32


def tree(ver, leaves):
    w = width(ver)
    h = lambda x: hashlib.sha512(x).digest()[:w]
    lvl = [h(b"\x00" + l) for l in leaves]
    paths = [[] for _ in leaves]
    idx = list(range(len(leaves)))
    while len(lvl) > 1:
        if len(lvl) % 2:
            lvl.append(bytes(w))
        for k, i in enumerate(idx):
            paths[k].append(lvl[i ^ 1])
        idx = [i // 2 for i in idx]
        lvl = [h(b"\x01" + lvl[2 * i] + lvl[2 * i + 1]) for i in range(len(lvl) // 2)]
    return lvl[0], [b"".join(p) for p in paths]


def cert(ver, lt_seed, ok_seed, mint=0, maxt=2**64 - 1):
    key = (ver, lt_seed, ok_seed, mint, maxt)
    if key not in _cert_cache:
        dele = rt.encode([("PUBK", ed25519.secret_to_public(ok_seed)), ("MINT", struct.pack("<Q", mint)), ("MAXT", struct.pack("<Q", maxt))])
        sig = ed25519.sign(lt_seed, CTX_DELE[ver] + dele)
        _cert_cache[key] = rt.encode([("SIG", sig), ("DELE", dele)])
    return _cert_cache[key]


def srep_value(ver, midp, radi, root):
    if ver == "Google":
        return rt.encode([("RADI", struct.pack("<I", radi)), ("MIDP", struct.pack("<Q", midp)), ("ROOT", root)])
    return rt.encode([("VER", rt.DRAFT13), ("RADI", struct.pack("<I", radi)), ("MIDP", struct.pack("<Q", midp)),
                      ("VERS", bytes(4) + rt.DRAFT13), ("ROOT", root)])


def respond(ver, lt_seed, ok_seed, requests, i, midp, radi=None, mint=0, maxt=2**64 - 1):
    """reply for requests[i] of a batch; requests = list of (request_bytes, nonce)"""
    leaves = [(n if ver == "Google" else rq) for rq, n in requests]
    root, paths = tree(ver, leaves)
    if radi is None:
        radi = 5000000 if ver == "Google" else 5
    srep = srep_value(ver, midp, radi, root)
    sig = ed25519.sign(ok_seed, CTX_SREP + srep)
    fields = [("SIG", sig), ("NONC", requests[i][1]), ("PATH", paths[i]), ("SREP", srep),
              ("CERT", cert(ver, lt_seed, ok_seed, mint, maxt)), ("INDX", struct.pack("<I", i))]
    msg = rt.encode(fields)
    return msg if ver == "Google" else rt.frame(msg)


def parts(ver, reply):
    """decoded structure of a reply (for targeted forgeries): dict with nested dicts"""
    payload = reply if ver == "Google" else reply[12:]
    f = dict(rt.decode(payload))
    f["_srep"] = dict(rt.decode(f["SREP"]))
    f["_cert"] = dict(rt.decode(f["CERT"]))
    f["_dele"] = dict(rt.decode(f["_cert"]["DELE"]))
    return f


def rebuild(ver, f):
    """re-encode a (possibly modified) structure WITHOUT re-signing"""
    order = ["SIG", "VER", "SRV", "NONC", "DELE", "PATH", "RADI", "PUBK", "MIDP", "SREP", "VERS", "MINT", "ROOT", "CERT", "MAXT", "INDX"]
    enc = lambda d: rt.encode([(t, d[t]) for t in order if t in d and not t.startswith("_")])
    cert = dict(f["_cert"]); cert["DELE"] = enc(f["_dele"])
    top = {k: v for k, v in f.items() if not k.startswith("_")}
    top["CERT"] = enc(cert); top["SREP"] = enc(f["_srep"])
    msg = enc(top)
    return msg if ver == "Google" else rt.frame(msg)
