#!/usr/bin/env python3
"""Regenerate coq/Gen/Sites.v from a lexical scan of /repo's sources: (a) every logging / printing /
formatting call site with its normalised argument text, (b) every panic-capable expression
(unwrap, expect, assert, panic!, slice/index by range) in the modelled files. Test modules are
skipped. Model/SiteMap.v maps each site to the model construct that stands for it; the lemma
sites_covered re-checks that map against today's scan on every run."""
import os, re, sys

LOG_FILES = ["src/server.rs", "src/responder.rs", "src/request.rs", "src/grease.rs", "src/key/longterm.rs",
             "src/key/online.rs", "src/key/mod.rs", "src/sign.rs", "src/merkle.rs", "src/message.rs", "src/lib.rs",
             "src/version.rs", "src/tag.rs", "src/error.rs", "src/config/mod.rs", "src/config/file.rs",
             "src/config/environment.rs", "src/config/memory.rs", "src/kms/mod.rs", "src/kms/envelope.rs",
             "src/stats/mod.rs", "src/stats/per_client.rs", "src/stats/aggregated.rs", "src/stats/reporter.rs",
             "src/bin/roughenough-server.rs"]
PANIC_FILES = ["src/server.rs", "src/responder.rs", "src/request.rs", "src/grease.rs", "src/message.rs",
               "src/merkle.rs", "src/key/longterm.rs", "src/key/online.rs", "src/sign.rs", "src/kms/envelope.rs"]
LOG_RE = re.compile(r"\b(trace|debug|info|warn|error|println|eprintln|print|eprint|write|writeln|format)!\s*\(")
PANIC_RE = re.compile(r"\.unwrap\(\)|\.expect\(|\bassert(_eq|_ne)?!\s*\(|\bpanic!\s*\(|\bunreachable!\s*\(|\[[^\]\n]*\.\.[^\]\n]*\]")


def strip_tests_and_comments(src):
    i = src.find("#[cfg(test)]")
    if i >= 0:
        src = src[:i]
    src = re.sub(r"//[^\n]*", "", src)
    src = re.sub(r"/\*.*?\*/", "", src, flags=re.S)
    return src


def balanced(src, start):
    depth, i, in_str = 0, start, False
    while i < len(src):
        c = src[i]
        if in_str:
            if c == "\\":
                i += 1
            elif c == '"':
                in_str = False
        else:
            if c == '"':
                in_str = True
            elif c == "(":
                depth += 1
            elif c == ")":
                depth -= 1
                if depth == 0:
                    return src[start + 1:i]
        i += 1
    return src[start + 1:]


def enclosing_fn(src, pos):
    m = None
    for m in re.finditer(r"\bfn\s+([A-Za-z0-9_]+)", src[:pos]):
        pass
    return m.group(1) if m else "-"


def norm(s):
    return re.sub(r"\s+", " ", s).strip()


def scan(repo):
    logs, panics = [], []
    for rel in LOG_FILES:
        p = os.path.join(repo, rel)
        if not os.path.exists(p):
            continue
        src = strip_tests_and_comments(open(p).read())
        for m in LOG_RE.finditer(src):
            body = balanced(src, m.end() - 1)
            logs.append((rel, enclosing_fn(src, m.start()), m.group(1), norm(body)))
    for rel in PANIC_FILES:
        p = os.path.join(repo, rel)
        if not os.path.exists(p):
            continue
        src = strip_tests_and_comments(open(p).read())
        for line in src.splitlines():
            if PANIC_RE.search(line):
                # position of the line for the enclosing fn
                pos = src.find(line)
                panics.append((rel, enclosing_fn(src, pos), "panic-capable", norm(line)))
    return logs, panics


# ---- numeric literals of the modelled functions -------------------------------------------------
# Private constants and bare numbers (ITERATION_LIMIT = 4, the 5_000_000 / 5 radius, `> 50`, `1..=64`,
# nonce lengths, MIN_PAYLOAD_SIZE's summands, the 100 ms poll timeout, ...) are behaviour that API
# reflection cannot see. Every integer literal of the modelled files is listed per enclosing fn
# (module level: fn "-"), in source order; Model/SiteMap.v holds the reviewed copy the model was
# written against and `literals_reviewed` compares the two on every run.
LIT_FILES = ["src/request.rs", "src/message.rs", "src/merkle.rs", "src/key/online.rs", "src/key/longterm.rs",
             "src/responder.rs", "src/server.rs", "src/grease.rs", "src/sign.rs", "src/kms/envelope.rs", "src/kms/mod.rs",
             "src/config/mod.rs", "src/config/file.rs", "src/config/environment.rs", "src/stats/per_client.rs",
             "src/stats/mod.rs", "src/stats/reporter.rs", "src/version.rs", "src/lib.rs",
             "src/bin/roughenough-client.rs", "src/bin/roughenough-server.rs"]
LIT_RE = re.compile(r"(?<![A-Za-z0-9_.])(0x[0-9a-fA-F_]+|\d[\d_]*)(?:_?(?:u8|u16|u32|u64|u128|usize|i8|i16|i32|i64|isize))?(?![A-Za-z0-9_]|\.\d)")


def blank_strings(src):
    """replace string / char literal contents by spaces (keeps offsets)"""
    out, i, n = list(src), 0, len(src)
    while i < n:
        c = src[i]
        if c == '"':
            j = i + 1
            while j < n and src[j] != '"':
                j += 2 if src[j] == "\\" else 1
            for k in range(i + 1, min(j, n)):
                if out[k] != "\n":
                    out[k] = " "
            i = j + 1
        elif c == "'" and i + 2 < n and (src[i + 2] == "'" or (src[i + 1] == "\\" and i + 3 < n and src[i + 3] == "'")):
            j = i + (3 if src[i + 1] == "\\" else 2)
            for k in range(i + 1, j):
                out[k] = " "
            i = j + 1
        else:
            i += 1
    return "".join(out)


def scan_literals(repo):
    rows = []
    for rel in LIT_FILES:
        p = os.path.join(repo, rel)
        if not os.path.exists(p):
            continue
        src = blank_strings(strip_tests_and_comments(open(p).read()))
        # blank out logging / formatting macro calls and capacity hints: their numbers are not behaviour
        for m in list(LOG_RE.finditer(src)):
            body = balanced(src, m.end() - 1)
            a = m.end(); b = a + len(body)
            src = src[:a] + re.sub(r"[^\n]", " ", src[a:b]) + src[b:]
        src = re.sub(r"with_capacity\(\s*\d[\d_]*\s*\)", lambda m: " " * len(m.group(0)), src)
        per_fn = {}
        order = []
        for m in LIT_RE.finditer(src):
            fn = enclosing_fn(src, m.start())
            txt = m.group(1).replace("_", "")
            val = int(txt, 16) if txt.lower().startswith("0x") else int(txt)
            if fn not in per_fn:
                per_fn[fn] = []; order.append(fn)
            per_fn[fn].append(val)
        for fn in order:
            rows.append((rel, fn, per_fn[fn]))
    return rows


def render_literals(rows):
    out = ["(* (file, enclosing fn, integer literals in source order) *)",
           "Definition num_literals : list (string * string * list N) := ["]
    out.append(";\n".join("  (%s, %s, [%s]%%N)" % (coq_str(f), coq_str(fn), "; ".join(str(v) for v in vals)) for f, fn, vals in rows))
    out.append("].\n")
    return "\n".join(out) + "\n"


def coq_str(s):
    s = s.encode("ascii", "replace").decode()
    return '"' + s.replace('"', '""') + '"'


def render(logs, panics):
    out = ["(* GENERATED by py/gen_sites.py from a lexical scan of /repo. DO NOT EDIT. *)",
           "From Coq Require Import List String.", "Import ListNotations.", "Local Open Scope string_scope.", "",
           "(* (file, enclosing fn, kind, normalised text) *)",
           "Definition site := (string * string * string * string)%type.", ""]
    for name, items in (("log_sites", logs), ("panic_sites", panics)):
        out.append("Definition %s : list site := [" % name)
        out.append(";\n".join("  (%s, %s, %s, %s)" % tuple(coq_str(x) for x in it) for it in items))
        out.append("].\n")
    return "\n".join(out) + "\n"


def main():
    repo, dest = sys.argv[1], sys.argv[2]
    logs, panics = scan(repo)
    lits = scan_literals(repo)
    text = render(logs, panics).replace("From Coq Require Import List String.", "From Coq Require Import List String NArith.") + render_literals(lits)
    old = open(dest).read() if os.path.exists(dest) else None
    if old != text:
        os.makedirs(os.path.dirname(os.path.abspath(dest)), exist_ok=True)
        open(dest + ".tmp", "w").write(text)
        os.replace(dest + ".tmp", dest)
        print("Sites.v regenerated (%d log sites, %d panic-capable lines)" % (len(logs), len(panics)))
    if len(sys.argv) > 3 and sys.argv[3] == "--literals":
        print(render_literals(lits).replace("num_literals", "reviewed_literals"))
    if len(sys.argv) > 3 and sys.argv[3] == "--sitemap":
        # print a SiteMap skeleton for the current scan (used once, then maintained by hand)
        print(render_sitemap(logs, panics))


def render_sitemap(logs, panics):
    out = []
    out.append("Definition log_site_map : list (site * string) := [")
    out.append(";\n".join("  ((%s, %s, %s, %s), %s)" % (tuple(coq_str(x) for x in it) + (coq_str("TODO"),)) for it in logs))
    out.append("].")
    return "\n".join(out)


if __name__ == "__main__":
    main()
