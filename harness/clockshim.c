/* LD_PRELOAD shim for the C11 check: CLOCK_REALTIME is shifted by the number of seconds written in
 * the file named by $VERIF_CLOCK_OFFSET_FILE (re-read on every call, so the check can STEP the wall
 * clock of a running server); every other clock, CLOCK_MONOTONIC in particular, is untouched. */
#define _GNU_SOURCE
#include <dlfcn.h>
#include <stdio.h>
#include <stdlib.h>
#include <time.h>

static int (*real_clock_gettime)(clockid_t, struct timespec *);

int clock_gettime(clockid_t id, struct timespec *ts) {
    if (!real_clock_gettime)
        real_clock_gettime = (int (*)(clockid_t, struct timespec *))dlsym(RTLD_NEXT, "clock_gettime");
    int r = real_clock_gettime(id, ts);
    if (r == 0 && id == CLOCK_REALTIME) {
        const char *p = getenv("VERIF_CLOCK_OFFSET_FILE");
        if (p) {
            FILE *f = fopen(p, "r");
            if (f) {
                long off = 0;
                if (fscanf(f, "%ld", &off) == 1) ts->tv_sec += off;
                fclose(f);
            }
        }
    }
    return r;
}
