use std::panic::{catch_unwind, AssertUnwindSafe};

pub fn hex(b: &[u8]) -> String {
    const H: &[u8; 16] = b"0123456789abcdef";
    let mut s = String::with_capacity(b.len() * 2 + 1);
    if b.is_empty() {
        return "-".to_string();
    }
    for x in b {
        s.push(H[(x >> 4) as usize] as char);
        s.push(H[(x & 15) as usize] as char);
    }
    s
}

pub fn unhex(s: &str) -> Vec<u8> {
    if s == "-" || s.is_empty() {
        return Vec::new();
    }
    let b = s.as_bytes();
    assert!(b.len() % 2 == 0, "odd hex");
    let v = |c: u8| -> u8 {
        match c {
            b'0'..=b'9' => c - b'0',
            b'a'..=b'f' => c - b'a' + 10,
            b'A'..=b'F' => c - b'A' + 10,
            _ => panic!("bad hex"),
        }
    };
    (0..b.len() / 2).map(|i| (v(b[2 * i]) << 4) | v(b[2 * i + 1])).collect()
}

/// FNV-1a 64 over bytes, printed as 16 hex digits (same function in the OCaml driver)
pub fn fnv64(b: &[u8]) -> String {
    let mut h: u64 = 0xcbf29ce484222325;
    for x in b {
        h ^= *x as u64;
        h = h.wrapping_mul(0x100000001b3);
    }
    format!("{:016x}", h)
}

/// Run `f`, mapping a panic to None. `stack` bytes of stack if Some (runs in a fresh thread).
pub fn guarded<T: Send + 'static, F: FnOnce() -> T + Send + 'static>(f: F) -> Option<T> {
    catch_unwind(AssertUnwindSafe(f)).ok()
}

pub fn guarded_thread<T: Send + 'static, F: FnOnce() -> T + Send + 'static>(
    stack: usize,
    f: F,
) -> Option<T> {
    let h = std::thread::Builder::new()
        .name("verif-guard".to_string())
        .stack_size(stack)
        .spawn(move || catch_unwind(AssertUnwindSafe(f)).ok())
        .unwrap();
    match h.join() {
        Ok(v) => v,
        Err(_) => None,
    }
}
