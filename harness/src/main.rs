// rh-harness: exposes the real roughenough library through a line protocol that is
// symmetric to the OCaml driver around the extracted Coq model.
//
//   rh-harness tables            -> JSON reflection of tags / versions / constants
//   rh-harness run <file>        -> one output line per input line
//   rh-harness tagsweep <lo> <hi> -> checks Tag::from_wire against wire_value on a word range
//
// Built against /repo's current working tree with RUSTFLAGS="--cfg roughenough_verif".

use std::io::{BufRead, BufReader, BufWriter, Write};
use std::panic::{catch_unwind, AssertUnwindSafe};

mod codec;
mod loadcfg;
mod crypto;
mod merkle;
mod misc;
mod server;
mod tables;
mod util;

fn main() {
    // panics are outcomes here: the default hook is replaced; the message is kept with the captured
    // log records (what a panic prints is an emission of the server like any other)
    std::panic::set_hook(Box::new(|info| server::record_panic(info.to_string())));

    let args: Vec<String> = std::env::args().collect();
    if args.len() < 2 {
        eprintln!("usage: rh-harness tables | run <file> | tagsweep <lo> <hi>");
        std::process::exit(2);
    }
    match args[1].as_str() {
        "tables" => tables::print_tables(),
        "tagsweep" if args.get(2).map(|a| a == "near").unwrap_or(false) => tables::tagnear(),
        "tagsweep" => {
            let lo: u64 = args[2].parse().unwrap();
            let hi: u64 = args[3].parse().unwrap();
            tables::tagsweep(lo, hi);
        }
        "loadcfg" => loadcfg::run(&args),
        "config" => {
            // make_config + is_valid_config + getters; a panic is an observable outcome (exit 101)
            std::panic::set_hook(Box::new(|_| {}));
            match roughenough::config::make_config(&args[2]) {
                Err(e) => println!("ERR {}", codec::render_err(&e)),
                Ok(cfg) => {
                    let valid = roughenough::config::is_valid_config(cfg.as_ref());
                    println!(
                        "OK port={} batch={} status={} health={} fault={} workers={} cs={} seedlen={} iface={} valid={}",
                        cfg.port(),
                        cfg.batch_size(),
                        cfg.status_interval().as_secs(),
                        cfg.health_check_port().map(|p| p as i64).unwrap_or(-1),
                        cfg.fault_percentage(),
                        cfg.num_workers(),
                        cfg.client_stats_enabled() as u8,
                        cfg.seed().len(),
                        cfg.interface(),
                        valid as u8
                    );
                }
            }
        }
        "run" => {
            let f = std::fs::File::open(&args[2]).expect("open case file");
            let out = std::io::stdout();
            let mut out = BufWriter::with_capacity(1 << 20, out.lock());
            let mut st = State::default();
            for line in BufReader::with_capacity(1 << 20, f).lines() {
                let line = line.unwrap();
                let line = line.trim_end();
                if line.is_empty() || line.starts_with('#') {
                    writeln!(out, "{}", line).unwrap();
                    continue;
                }
                let res = catch_unwind(AssertUnwindSafe(|| dispatch(&mut st, line)));
                match res {
                    Ok(s) => writeln!(out, "{}", s).unwrap(),
                    Err(_) => writeln!(out, "HARNESS-PANIC").unwrap(),
                }
            }
            out.flush().unwrap();
        }
        other => {
            eprintln!("unknown mode {}", other);
            std::process::exit(2);
        }
    }
}

#[derive(Default)]
pub struct State {
    pub srv: Option<server::Srv>,
}

fn dispatch(st: &mut State, line: &str) -> String {
    let mut it = line.splitn(2, ' ');
    let cmd = it.next().unwrap();
    let rest = it.next().unwrap_or("");
    match cmd {
        "fb" => codec::cmd_fb(rest),
        "build" => codec::cmd_build(rest),
        "buildcont" => codec::cmd_buildcont(rest),
        "padlen" => codec::cmd_padlen(rest),
        "merkle" => merkle::cmd_merkle(rest),
        "mroot" => merkle::cmd_mroot(rest),
        "classify" => misc::cmd_classify(rest),
        "srep" => misc::cmd_srep(rest),
        "ltk" => misc::cmd_ltk(rest),
        "cert" => misc::cmd_cert(rest),
        "signer" => crypto::cmd_signer(rest),
        "verify" => crypto::cmd_verify(rest),
        "verifyseq" => crypto::cmd_verifyseq(rest),
        "edsign" => crypto::cmd_edsign(rest),
        "edpk" => crypto::cmd_edpk(rest),
        "edverify" => crypto::cmd_edverify(rest),
        "edpoint" => crypto::cmd_edpoint(rest),
        "sha512" => crypto::cmd_sha512(rest),
        "envelope" => misc::cmd_envelope(rest),
        "envdec" => misc::cmd_envdec(rest),
        "kmsunwrap" => misc::cmd_kmsunwrap(rest),
        "kmsput" => misc::cmd_kmsput(rest),
        "aeadopen" => misc::cmd_aeadopen(rest),
        "stats" => misc::cmd_stats(rest),
        "merge" => misc::cmd_merge(rest),
        "mergebig" => misc::cmd_mergebig(rest),
        "report" => misc::cmd_report(rest),
        "squeue" => misc::cmd_squeue(rest),
        "grease" => misc::cmd_grease(rest),
        "serve" => server::cmd_serve(st, rest),
        "respond" => server::cmd_respond(rest),
        _ => format!("UNKNOWN-CMD {}", cmd),
    }
}
