pub struct Srv;
pub fn cmd_serve(_: &mut crate::State, _: &str) -> String { "TODO".into() }
