// In-process roughenough::server::Server on a loopback socket, owned by a named thread
// (Server::new and the responders read thread::current().name()), driven by process_events().
//
//   serve new <batch_size> <fault_pct> <loglevel 0..5> <client_stats 0|1> <seedhex> [health 0|1]
//   serve run <nsockets> <sock:hex;sock:hex;...>     send datagrams in order, process, collect
//   serve scan <hex>,<hex>,...                       do captured logs / sent datagrams contain a pattern
//   serve logs                                       dump captured log records (hex) and clear
//   serve stats                                      totals of the stats recorder
//   serve health <n>                                 n TCP connects in a burst, answers counted
//   serve drop
use std::net::UdpSocket as StdUdp;
use std::panic::{catch_unwind, AssertUnwindSafe};
use std::sync::mpsc::{channel, Receiver, Sender};
use std::sync::{Arc, Mutex};
use std::time::{Duration, SystemTime, UNIX_EPOCH};

use log::{Level, LevelFilter, Log, Metadata, Record};
use mio::Events;
use roughenough::config::MemoryConfig;
use roughenough::server::Server;
use roughenough::stats::StatsQueue;

use crate::util::{hex, unhex};

// ---------------------------------------------------------------- capturing logger
struct CapLogger;
static LOGS: Mutex<Vec<(usize, String)>> = Mutex::new(Vec::new());
static LOGGER: CapLogger = CapLogger;

/// a panic message is an emission too: it is kept with the captured log records (level 0)
pub fn record_panic(msg: String) {
    if let Ok(mut g) = LOGS.try_lock() {
        g.push((0, format!("PANIC {}", msg)));
    }
}

impl Log for CapLogger {
    fn enabled(&self, m: &Metadata) -> bool {
        m.level() <= log::max_level()
    }
    fn log(&self, r: &Record) {
        // only the code under test (mio and friends log at trace level too)
        if self.enabled(r.metadata()) && r.target().starts_with("roughenough") {
            // formatting evaluates the arguments, exactly as a real logger would
            let s = format!("{}", r.args());
            let lvl = match r.level() {
                Level::Error => 1,
                Level::Warn => 2,
                Level::Info => 3,
                Level::Debug => 4,
                Level::Trace => 5,
            };
            if let Ok(mut g) = LOGS.lock() {
                g.push((lvl, s));
            }
        }
    }
    fn flush(&self) {}
}

fn set_level(l: u32) {
    let _ = log::set_logger(&LOGGER);
    log::set_max_level(match l {
        0 => LevelFilter::Off,
        1 => LevelFilter::Error,
        2 => LevelFilter::Warn,
        3 => LevelFilter::Info,
        4 => LevelFilter::Debug,
        _ => LevelFilter::Trace,
    });
}

// ---------------------------------------------------------------- server thread
enum Cmd {
    Process,
    Stats,
    Quit,
}

pub struct Srv {
    tx: Sender<Cmd>,
    rx: Receiver<String>,
    port: u16,
    health_port: Option<u16>,
    clients: Vec<StdUdp>,
    sent_log: Vec<Vec<u8>>, // every datagram received back from the server
    dead: bool,
}

fn now_us() -> u128 {
    SystemTime::now().duration_since(UNIX_EPOCH).unwrap().as_micros()
}

fn free_tcp_port() -> u16 {
    let l = std::net::TcpListener::bind("127.0.0.1:0").unwrap();
    l.local_addr().unwrap().port()
}

fn stats_line(s: &dyn roughenough::stats::ServerStats) -> String {
    format!(
        "valid={} rfc={} classic={} invalid={} health={} failed={} retried={} resp={} rfcresp={} classicresp={} bytes={} clients={}",
        s.total_valid_requests(),
        s.num_rfc_requests(),
        s.num_classic_requests(),
        s.total_invalid_requests(),
        s.total_health_checks(),
        s.total_failed_send_attempts(),
        s.total_retried_send_attempts(),
        s.total_responses_sent(),
        s.num_rfc_responses_sent(),
        s.num_classic_responses_sent(),
        s.total_bytes_sent(),
        s.total_unique_clients()
    )
}

fn start(batch: u8, fault: u8, level: u32, client_stats: bool, seed: Vec<u8>, health: bool, status_ms: u64) -> Result<(Srv, String), String> {
    set_level(level);
    LOGS.lock().unwrap().clear();
    let std_sock = StdUdp::bind("127.0.0.1:0").map_err(|e| e.to_string())?;
    std_sock.set_nonblocking(true).unwrap();
    let port = std_sock.local_addr().unwrap().port();
    let health_port = if health { Some(free_tcp_port()) } else { None };
    let (tx, crx) = channel::<Cmd>();
    let (rtx, rx) = channel::<String>();
    let hp = health_port;
    std::thread::Builder::new()
        .name("worker-0".to_string())
        .stack_size(8 * 1024 * 1024)
        .spawn(move || {
            let made = catch_unwind(AssertUnwindSafe(|| {
                let mut cfg = MemoryConfig::new(port);
                cfg.batch_size = batch;
                cfg.fault_percentage = fault;
                cfg.client_stats = client_stats;
                cfg.seed = seed;
                cfg.health_check_port = hp;
                if status_ms > 0 {
                    cfg.status_interval = Duration::from_millis(status_ms);
                }
                let sock = mio::net::UdpSocket::from_socket(std_sock).unwrap();
                let q = Arc::new(StatsQueue::new(4));
                Server::new(&cfg, sock, q)
            }));
            let mut server = match made {
                Ok(s) => {
                    rtx.send(format!("OK pk={}", s.get_public_key())).unwrap();
                    s
                }
                Err(_) => {
                    rtx.send("PANIC".to_string()).unwrap();
                    return;
                }
            };
            let mut events = Events::with_capacity(1024);
            for c in crx {
                match c {
                    Cmd::Process => {
                        let r = catch_unwind(AssertUnwindSafe(|| server.process_events(&mut events)));
                        let line = match r {
                            Ok(()) => format!("OK {}", stats_line(server.stats_recorder())),
                            Err(_) => "PANIC".to_string(),
                        };
                        rtx.send(line).unwrap();
                    }
                    Cmd::Stats => rtx.send(format!("OK {}", stats_line(server.stats_recorder()))).unwrap(),
                    Cmd::Quit => break,
                }
            }
        })
        .unwrap();
    let first = rx.recv().map_err(|e| e.to_string())?;
    if first == "PANIC" {
        return Err("PANIC".into());
    }
    Ok((
        Srv { tx, rx, port, health_port, clients: Vec::new(), sent_log: Vec::new(), dead: false },
        first,
    ))
}

impl Srv {
    fn ensure_clients(&mut self, n: usize) {
        while self.clients.len() < n {
            let s = StdUdp::bind("127.0.0.1:0").unwrap();
            s.set_nonblocking(true).unwrap();
            self.clients.push(s);
        }
    }

    fn process(&mut self) -> String {
        if self.dead {
            return "DEAD".into();
        }
        self.tx.send(Cmd::Process).unwrap();
        match self.rx.recv() {
            Ok(s) => {
                if s == "PANIC" {
                    self.dead = true;
                }
                s
            }
            Err(_) => {
                self.dead = true;
                "DEAD".into()
            }
        }
    }
}

pub fn cmd_serve(st: &mut crate::State, arg: &str) -> String {
    let mut it = arg.trim().splitn(2, ' ');
    let sub = it.next().unwrap_or("");
    let rest = it.next().unwrap_or("");
    match sub {
        "new" => {
            if let Some(s) = st.srv.take() {
                let _ = s.tx.send(Cmd::Quit);
            }
            let p: Vec<&str> = rest.split(' ').collect();
            let batch: u8 = p[0].parse().unwrap();
            let fault: u8 = p[1].parse().unwrap();
            let level: u32 = p[2].parse().unwrap();
            let cs = p[3] == "1";
            let seed = unhex(p[4]);
            let health = p.len() > 5 && p[5] == "1";
            // optional: status interval in milliseconds (the statistics hand-off ticks every tenth of it)
            let status_ms: u64 = if p.len() > 6 { p[6].parse().unwrap_or(0) } else { 0 };
            match start(batch, fault, level, cs, seed, health, status_ms) {
                Ok((s, line)) => {
                    let out = format!("{} port={} health={}", line, s.port, s.health_port.unwrap_or(0));
                    st.srv = Some(s);
                    out
                }
                Err(e) => e,
            }
        }
        "run" => {
            let srv = match st.srv.as_mut() {
                Some(s) => s,
                None => return "NO-SERVER".into(),
            };
            let mut p = rest.splitn(2, ' ');
            let nsock: usize = p.next().unwrap().parse().unwrap();
            srv.ensure_clients(nsock);
            let dgrams: Vec<(usize, Vec<u8>)> = p
                .next()
                .unwrap_or("")
                .split(';')
                .filter(|s| !s.is_empty())
                .map(|s| {
                    let mut kv = s.splitn(2, ':');
                    (kv.next().unwrap().parse().unwrap(), unhex(kv.next().unwrap()))
                })
                .collect();
            let dest = format!("127.0.0.1:{}", srv.port);
            let t0 = now_us();
            for (i, d) in &dgrams {
                // send_to on loopback enqueues synchronously: arrival order = send order
                let _ = srv.clients[*i].send_to(d, &dest);
            }
            let before = {
                srv.tx.send(Cmd::Stats).unwrap();
                srv.rx.recv().unwrap_or_default()
            };
            let mut status = srv.process();
            // a poll may have been consumed by the status timer: retry while nothing happened
            let mut tries = 0;
            while !dgrams.is_empty() && status == before && tries < 3 {
                status = srv.process();
                tries += 1;
            }
            let t1 = now_us();
            let mut out = Vec::new();
            let mut buf = [0u8; 65536];
            for i in 0..nsock {
                // replies are already queued on loopback when process_events returns
                loop {
                    match srv.clients[i].recv_from(&mut buf) {
                        Ok((n, _)) => {
                            srv.sent_log.push(buf[..n].to_vec());
                            out.push(format!("{}:{}", i, hex(&buf[..n])));
                        }
                        Err(_) => break,
                    }
                }
            }
            let nlogs = LOGS.lock().map(|g| g.len()).unwrap_or(0);
            format!("{} T={},{} LOG={} R={}", status, t0, t1, nlogs, out.join(";"))
        }
        "idle" => {
            // no traffic for <ms> milliseconds, then a few event-loop passes (so that a due statistics
            // tick is served); answers with the recorder's totals afterwards
            let srv = match st.srv.as_mut() {
                Some(s) => s,
                None => return "NO-SERVER".into(),
            };
            let ms: u64 = rest.trim().parse().unwrap_or(0);
            std::thread::sleep(Duration::from_millis(ms));
            let mut status = String::new();
            for _ in 0..3 {
                status = srv.process();
            }
            status
        }
        "stats" => {
            let srv = match st.srv.as_mut() {
                Some(s) => s,
                None => return "NO-SERVER".into(),
            };
            srv.tx.send(Cmd::Stats).unwrap();
            srv.rx.recv().unwrap_or_else(|_| "DEAD".into())
        }
        "scan" => {
            // without a server (construction panicked) only the captured records are scanned
            let empty: Vec<Vec<u8>> = Vec::new();
            let sent_log: &Vec<Vec<u8>> = match st.srv.as_ref() {
                Some(s) => &s.sent_log,
                None => &empty,
            };
            let pats: Vec<Vec<u8>> = rest.split(',').filter(|s| !s.is_empty()).map(unhex).collect();
            let logs = LOGS.lock().unwrap();
            let mut all_logs: Vec<u8> = Vec::new();
            for (_, s) in logs.iter() {
                all_logs.extend_from_slice(s.as_bytes());
                // no separator: a secret split across two records is still found
            }
            let mut hits = Vec::new();
            for (k, p) in pats.iter().enumerate() {
                if p.is_empty() {
                    continue;
                }
                if all_logs.windows(p.len()).any(|w| w == &p[..]) {
                    hits.push(format!("log:{}", k));
                }
                if sent_log.iter().any(|d| d.windows(p.len()).any(|w| w == &p[..])) {
                    hits.push(format!("dgram:{}", k));
                }
            }
            format!("SCAN logs={} logbytes={} dgrams={} hits={}", logs.len(), all_logs.len(), sent_log.len(),
                if hits.is_empty() { "-".to_string() } else { hits.join(",") })
        }
        "logs" => {
            let mut logs = LOGS.lock().unwrap();
            let s: Vec<String> = logs.iter().map(|(l, s)| format!("{}:{}", l, hex(s.as_bytes()))).collect();
            logs.clear();
            format!("LOGS {}", s.join(","))
        }
        "health" => {
            let srv = match st.srv.as_mut() {
                Some(s) => s,
                None => return "NO-SERVER".into(),
            };
            let n: usize = rest.trim().parse().unwrap();
            let hp = match srv.health_port {
                Some(p) => p,
                None => return "NO-HEALTH".into(),
            };
            use std::io::Read;
            let mut conns = Vec::new();
            for _ in 0..n {
                if let Ok(c) = std::net::TcpStream::connect(("127.0.0.1", hp)) {
                    c.set_read_timeout(Some(Duration::from_millis(300))).unwrap();
                    conns.push(c);
                }
            }
            let status = srv.process();
            let mut ok = 0;
            for c in conns.iter_mut() {
                let mut b = [0u8; 128];
                if let Ok(k) = c.read(&mut b) {
                    if b[..k].starts_with(b"HTTP/1.1 200 OK") {
                        ok += 1;
                    }
                }
            }
            format!("{} HEALTH connected={} answered={}", status, conns.len(), ok)
        }
        "race" => {
            // serve race <nprefill> <nduring> <gap_us>
            // Classic requests whose nonce starts with the sender's clock reading (microseconds, LE)
            // taken just before send_to. <nprefill> are queued before process_events is called, the
            // other <nduring> are sent by a second thread WHILE the server drains. Output: for every
            // reply "t_send:MIDP" — a midpoint read when the batch is signed can never precede t_send.
            let srv = match st.srv.as_mut() {
                Some(s) => s,
                None => return "NO-SERVER".into(),
            };
            let p: Vec<u64> = rest.split(' ').filter(|x| !x.is_empty()).map(|x| x.parse().unwrap()).collect();
            let (npre, ndur, gap) = (p[0] as usize, p[1] as usize, p[2]);
            let dest = format!("127.0.0.1:{}", srv.port);
            let sock = StdUdp::bind("127.0.0.1:0").unwrap();
            sock.set_nonblocking(true).unwrap();
            fn stamped(k: u64) -> Vec<u8> {
                let t = now_us() as u64;
                let mut nonce = vec![0u8; 64];
                nonce[..8].copy_from_slice(&t.to_le_bytes());
                nonce[8..16].copy_from_slice(&k.to_le_bytes());
                let mut m = roughenough::RtMessage::with_capacity(2);
                m.add_field(roughenough::Tag::NONC, &nonce).unwrap();
                m.add_field(roughenough::Tag::PAD, &vec![0u8; 944]).unwrap();
                m.encode().unwrap()
            }
            for k in 0..npre {
                let _ = sock.send_to(&stamped(k as u64), &dest);
            }
            let s2 = sock.try_clone().unwrap();
            let d2 = dest.clone();
            let sender = std::thread::spawn(move || {
                for k in 0..ndur {
                    let _ = s2.send_to(&stamped(1000 + k as u64), &d2);
                    std::thread::sleep(Duration::from_micros(gap));
                }
            });
            let mut status = String::new();
            let mut done_rounds = 0;
            while done_rounds < 3 {
                status = srv.process();
                if status == "PANIC" || status == "DEAD" {
                    break;
                }
                if sender.is_finished() {
                    done_rounds += 1;
                }
            }
            let _ = sender.join();
            let t_end = now_us();
            let mut out = Vec::new();
            let mut buf = [0u8; 65536];
            while let Ok((n, _)) = sock.recv_from(&mut buf) {
                if let Ok(m) = roughenough::RtMessage::from_bytes(&buf[..n]) {
                    let nonce = m.get_field(roughenough::Tag::NONC).map(|x| x.to_vec()).unwrap_or_default();
                    let midp = m
                        .get_field(roughenough::Tag::SREP)
                        .and_then(|b| roughenough::RtMessage::from_bytes(b).ok())
                        .and_then(|sm| sm.get_field(roughenough::Tag::MIDP).map(|x| x.to_vec()));
                    if let (true, Some(mp)) = (nonce.len() >= 8, midp) {
                        let ts = u64::from_le_bytes(nonce[..8].try_into().unwrap());
                        let mp = u64::from_le_bytes(mp[..8].try_into().unwrap());
                        out.push(format!("{}:{}", ts, mp));
                    }
                }
            }
            format!("{} END={} RACE={}", status.split(' ').next().unwrap_or(""), t_end, out.join(","))
        }
        "resend" => {
            // serve resend <k> <gap_ms> <classic 0|1>
            // The SAME request (same bytes, same socket) is sent k times, gap_ms apart, the server
            // processing after each send. Output per send: "t_send:MIDP" (MIDP in the protocol's unit,
            // t_send in microseconds) — a reply to a retransmission is signed when IT is answered.
            let srv = match st.srv.as_mut() {
                Some(s) => s,
                None => return "NO-SERVER".into(),
            };
            let p: Vec<u64> = rest.split(' ').filter(|x| !x.is_empty()).map(|x| x.parse().unwrap()).collect();
            let (k, gap, classic) = (p[0] as usize, p[1], p[2] == 1);
            let dest = format!("127.0.0.1:{}", srv.port);
            let sock = StdUdp::bind("127.0.0.1:0").unwrap();
            sock.set_nonblocking(true).unwrap();
            let req = {
                let nonce: Vec<u8> = (0..if classic { 64 } else { 32 }).map(|i| (i * 7 + 3) as u8).collect();
                if classic {
                    let mut m = roughenough::RtMessage::with_capacity(2);
                    m.add_field(roughenough::Tag::NONC, &nonce).unwrap();
                    m.add_field(roughenough::Tag::PAD, &vec![0u8; 944]).unwrap();
                    m.encode().unwrap()
                } else {
                    let mut m = roughenough::RtMessage::with_capacity(3);
                    m.add_field(roughenough::Tag::VER, &[0x0c, 0x00, 0x00, 0x80]).unwrap();
                    m.add_field(roughenough::Tag::NONC, &nonce).unwrap();
                    m.add_field(roughenough::Tag::ZZZZ, &vec![0u8; 1024 - 24 - 4 - 32]).unwrap();
                    m.encode_framed().unwrap()
                }
            };
            let mut out = Vec::new();
            let mut buf = [0u8; 65536];
            for _ in 0..k {
                let t_send = now_us() as u64;
                let _ = sock.send_to(&req, &dest);
                let mut got = None;
                for _ in 0..4 {
                    let status = srv.process();
                    if status == "PANIC" || status == "DEAD" {
                        return format!("{} RESEND={}", status, out.join(","));
                    }
                    if let Ok((n, _)) = sock.recv_from(&mut buf) {
                        got = Some(n);
                        break;
                    }
                }
                match got {
                    None => out.push(format!("{}:none", t_send)),
                    Some(n) => {
                        let payload = if classic { &buf[..n] } else { &buf[12..n] };
                        let midp = roughenough::RtMessage::from_bytes(payload)
                            .ok()
                            .and_then(|m| m.get_field(roughenough::Tag::SREP).map(|x| x.to_vec()))
                            .and_then(|b| roughenough::RtMessage::from_bytes(&b).ok())
                            .and_then(|sm| sm.get_field(roughenough::Tag::MIDP).map(|x| x.to_vec()));
                        match midp {
                            Some(mp) if mp.len() == 8 => out.push(format!("{}:{}", t_send, u64::from_le_bytes(mp[..8].try_into().unwrap()))),
                            _ => out.push(format!("{}:unparsed", t_send)),
                        }
                    }
                }
                std::thread::sleep(Duration::from_millis(gap));
            }
            format!("OK END={} RESEND={}", now_us(), out.join(","))
        }
        "drop" => {
            if let Some(s) = st.srv.take() {
                let _ = s.tx.send(Cmd::Quit);
            }
            "OK".into()
        }
        _ => "BAD-SERVE-CMD".into(),
    }
}

// ---------------------------------------------------------------- Responder driven directly
//   respond <Google|RfcDraft13> <seedhex> <nsock> <batch>|<batch>|...
//   batch = item;item;...   item = <dest>:<noncehex>:<requesthex|->
//   dest  = index of a harness client socket, or F (127.0.0.1:0, send_to fails with EINVAL), or
//           B (255.255.255.255:9, send_to fails with EACCES: SO_BROADCAST is not set)
// One Responder object (reset between batches, as Server does), an AggregatedStats recorder.
// Output per batch: the recorder's totals after the batch and the datagram lengths each socket received.
#[cfg(not(feature = "responder_api"))]
pub fn cmd_respond(_arg: &str) -> String {
    "UNAVAILABLE".into()
}

#[cfg(feature = "responder_api")]
pub fn cmd_respond(arg: &str) -> String {
    use roughenough::key::LongTermKey;
    use roughenough::responder::Responder;
    use roughenough::stats::{AggregatedStats, ServerStats};
    use roughenough::version::Version;
    use std::net::SocketAddr;
    let p: Vec<String> = arg.trim().splitn(4, ' ').map(|s| s.to_string()).collect();
    if p.len() < 4 {
        return "BAD-RESPOND".into();
    }
    let (tx, rx) = channel::<String>();
    let h = std::thread::Builder::new()
        .name("worker-0".to_string())
        .spawn(move || {
            let r = catch_unwind(AssertUnwindSafe(|| {
                let ver = if p[0] == "Google" { Version::Google } else { Version::RfcDraft13 };
                let nsock: usize = p[2].parse().unwrap();
                let mut cfg = MemoryConfig::new(0);
                cfg.seed = unhex(&p[1]);
                let mut ltk = LongTermKey::new(&cfg.seed);
                let mut resp = Responder::new(ver, &cfg, &mut ltk);
                let std_sock = StdUdp::bind("127.0.0.1:0").unwrap();
                std_sock.set_nonblocking(true).unwrap();
                let mut sock = mio::net::UdpSocket::from_socket(std_sock).unwrap();
                let clients: Vec<StdUdp> = (0..nsock)
                    .map(|_| {
                        let s = StdUdp::bind("127.0.0.1:0").unwrap();
                        s.set_nonblocking(true).unwrap();
                        s
                    })
                    .collect();
                let mut stats: Box<dyn ServerStats> = Box::new(AggregatedStats::new());
                let mut out = Vec::new();
                for batch in p[3].split('|') {
                    resp.reset();
                    for item in batch.split(';').filter(|s| !s.is_empty()) {
                        let f: Vec<&str> = item.split(':').collect();
                        let addr: SocketAddr = match f[0] {
                            "F" => "127.0.0.1:0".parse().unwrap(),
                            "B" => "255.255.255.255:9".parse().unwrap(),
                            k => clients[k.parse::<usize>().unwrap()].local_addr().unwrap(),
                        };
                        let nonce = unhex(f[1]);
                        if f[2] == "-" {
                            resp.add_classic_request(nonce, addr);
                        } else {
                            resp.add_ietf_request(&unhex(f[2]), nonce, addr);
                        }
                    }
                    resp.send_responses(&mut sock, &mut stats);
                    let mut got = Vec::new();
                    let mut buf = [0u8; 65536];
                    for (i, c) in clients.iter().enumerate() {
                        while let Ok((n, _)) = c.recv_from(&mut buf) {
                            got.push(format!("{}:{}", i, n));
                        }
                    }
                    out.push(format!("[{} R={}]", stats_line(stats.as_ref()), got.join(",")));
                }
                out.join(" ")
            }));
            let _ = tx.send(match r {
                Ok(s) => format!("OK {}", s),
                Err(_) => "PANIC".to_string(),
            });
        })
        .unwrap();
    let _ = h.join();
    rx.recv().unwrap_or_else(|_| "DEAD".into())
}
