// loadcfg: the two configuration loaders at the level of the text that is written.
//   loadcfg file <path>   prints  CORES n / DOCS <the values yaml-rust produced> / the loader's result
//   loadcfg env           prints  CORES n / the loader's result (the variables are the caller's)
// Result line: OK port=.. iface=<hex> seed=<hex> batch=.. status=.. kms=<P|A:hex|G:hex> health=<-1|n>
//              cs=<0|1> fault=.. workers=.. pdir=<none|hex>  (an empty byte string is written '-')   |   ERR <kind>   |   PANIC
use data_encoding::HEXLOWER;
use roughenough::config::{EnvironmentConfig, FileConfig, ServerConfig};
use roughenough::key::KmsProtection;
use std::panic::{catch_unwind, AssertUnwindSafe};
use yaml_rust::{Yaml, YamlLoader};

fn hx(b: &[u8]) -> String {
    if b.is_empty() { "-".to_string() } else { HEXLOWER.encode(b) }
}

fn yv(y: &Yaml) -> String {
    match y {
        Yaml::Integer(i) => format!("i{}", i),
        Yaml::String(s) => format!("s{}", HEXLOWER.encode(s.as_bytes())),
        _ => "o".to_string(),
    }
}

fn render(cfg: &dyn ServerConfig) -> String {
    let kms = match cfg.kms_protection() {
        KmsProtection::Plaintext => "P".to_string(),
        KmsProtection::AwsKmsEnvelope(s) => format!("A:{}", hx(s.as_bytes())),
        KmsProtection::GoogleKmsEnvelope(s) => format!("G:{}", hx(s.as_bytes())),
    };
    format!(
        "OK port={} iface={} seed={} batch={} status={} kms={} health={} cs={} fault={} workers={} pdir={}",
        cfg.port(),
        hx(cfg.interface().as_bytes()),
        hx(&cfg.seed()),
        cfg.batch_size(),
        cfg.status_interval().as_secs(),
        kms,
        cfg.health_check_port().map(|p| p as i64).unwrap_or(-1),
        cfg.client_stats_enabled() as u8,
        cfg.fault_percentage(),
        cfg.num_workers(),
        cfg.persistence_directory()
            .map(|p| hx(p.to_string_lossy().as_bytes()))
            .unwrap_or_else(|| "none".to_string()),
    )
}

pub fn run(args: &[String]) {
    std::panic::set_hook(Box::new(|_| {}));
    println!("CORES {}", std::thread::available_parallelism().map(|n| n.get()).unwrap_or(1));
    match args.get(2).map(|s| s.as_str()) {
        Some("file") => {
            let path = &args[3];
            let text = std::fs::read_to_string(path).unwrap_or_default();
            match catch_unwind(AssertUnwindSafe(|| YamlLoader::load_from_str(&text))) {
                Ok(Ok(docs)) => {
                    let mut parts = Vec::new();
                    for d in &docs {
                        match d.as_hash() {
                            Some(h) => {
                                let es: Vec<String> = h.iter().map(|(k, v)| format!("{}={}", yv(k), yv(v))).collect();
                                parts.push(format!("H:{}", es.join(",")));
                            }
                            None => parts.push("X".to_string()),
                        }
                    }
                    println!("DOCS {} {}", docs.len(), parts.join(" "));
                }
                _ => println!("DOCS P"),
            }
            match catch_unwind(AssertUnwindSafe(|| FileConfig::new(path))) {
                Ok(Ok(cfg)) => println!("{}", render(&cfg)),
                Ok(Err(e)) => println!("ERR {}", crate::codec::render_err(&e)),
                Err(_) => println!("PANIC"),
            }
        }
        Some("env") => match catch_unwind(AssertUnwindSafe(EnvironmentConfig::new)) {
            Ok(Ok(cfg)) => println!("{}", render(&cfg)),
            Ok(Err(e)) => println!("ERR {}", crate::codec::render_err(&e)),
            Err(_) => println!("PANIC"),
        },
        _ => println!("usage: loadcfg file <path> | loadcfg env"),
    }
}
