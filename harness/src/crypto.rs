// Crypto commands. `signer` / `verify` drive roughenough's incremental MsgSigner / MsgVerifier;
// `edsign` / `edpk` / `edverify` are the one-shot ed25519-dalek API used as the oracle;
// `sha512` is ring's digest (compared against the Coq SHA-512).
use ed25519_dalek::{Signature, Signer, SigningKey, Verifier, VerifyingKey};
use roughenough::sign::{MsgSigner, MsgVerifier};

use crate::util::{guarded, hex, unhex};

pub fn oneshot_sign(seed: &[u8], msg: &[u8]) -> Option<Vec<u8>> {
    let s: [u8; 32] = seed.try_into().ok()?;
    Some(SigningKey::from_bytes(&s).sign(msg).to_bytes().to_vec())
}

pub fn oneshot_pk(seed: &[u8]) -> Option<Vec<u8>> {
    let s: [u8; 32] = seed.try_into().ok()?;
    Some(SigningKey::from_bytes(&s).verifying_key().to_bytes().to_vec())
}

/// None = key bytes are not a valid point / wrong lengths
pub fn oneshot_verify(pk: &[u8], msg: &[u8], sig: &[u8]) -> Option<bool> {
    let p: [u8; 32] = pk.try_into().ok()?;
    let vk = VerifyingKey::from_bytes(&p).ok()?;
    let sg = Signature::from_slice(sig).ok()?;
    Some(vk.verify(msg, &sg).is_ok())
}

/// signer <seedhex> <op,op,...>   op = u:<hex> | s
pub fn cmd_signer(arg: &str) -> String {
    let mut it = arg.trim().splitn(2, ' ');
    let seed = unhex(it.next().unwrap());
    let ops: Vec<String> = it.next().unwrap_or("").split(',').map(|s| s.to_string()).collect();
    let r = guarded(move || {
        let mut s = MsgSigner::from_seed(&seed);
        let mut out = vec![format!("PK={}", hex(&s.public_key_bytes()))];
        for op in &ops {
            if op == "s" {
                out.push(hex(&s.sign()));
            } else if let Some(h) = op.strip_prefix("u:") {
                s.update(&unhex(h));
            }
        }
        out.join(" ")
    });
    r.unwrap_or_else(|| "PANIC".into())
}

/// verify <pkhex> <chunk,chunk,...> <sighex>
pub fn cmd_verify(arg: &str) -> String {
    let p: Vec<&str> = arg.trim().split(' ').collect();
    let pk = unhex(p[0]);
    let chunks: Vec<Vec<u8>> = p[1].split(',').map(unhex).collect();
    let sig = unhex(p[2]);
    let r = guarded(move || {
        let mut v = MsgVerifier::new(&pk);
        for c in &chunks {
            v.update(c);
        }
        v.verify(&sig)
    });
    match r {
        None => "PANIC".into(),
        Some(b) => format!("OK {}", b as u8),
    }
}

/// verifyseq <pk> <op,op,...> with op = u:<hex> | v:<sighex> : ONE MsgVerifier object through the whole
/// sequence; prints the answer of every verify call
pub fn cmd_verifyseq(arg: &str) -> String {
    let p: Vec<&str> = arg.trim().split(' ').collect();
    let pk = unhex(p[0]);
    let ops: Vec<String> = p[1].split(',').map(|s| s.to_string()).collect();
    let r = guarded(move || {
        let mut v = MsgVerifier::new(&pk);
        let mut out = Vec::new();
        for o in &ops {
            if let Some(d) = o.strip_prefix("u:") {
                v.update(&unhex(d));
            } else if let Some(sg) = o.strip_prefix("v:") {
                out.push(if v.verify(&unhex(sg)) { "1" } else { "0" });
            }
        }
        out.join(",")
    });
    match r {
        None => "PANIC".into(),
        Some(s) => format!("OK {}", s),
    }
}

pub fn cmd_edsign(arg: &str) -> String {
    let p: Vec<&str> = arg.trim().split(' ').collect();
    match oneshot_sign(&unhex(p[0]), &unhex(p.get(1).copied().unwrap_or("-"))) {
        Some(s) => hex(&s),
        None => "BAD".into(),
    }
}

pub fn cmd_edpk(arg: &str) -> String {
    match oneshot_pk(&unhex(arg.trim())) {
        Some(s) => hex(&s),
        None => "BAD".into(),
    }
}

/// edverify <pk> <msg> <sig> -> 1 | 0 | BAD (key not a point / bad lengths)
pub fn cmd_edverify(arg: &str) -> String {
    let p: Vec<&str> = arg.trim().split(' ').collect();
    match oneshot_verify(&unhex(p[0]), &unhex(p[1]), &unhex(p[2])) {
        Some(true) => "1".into(),
        Some(false) => "0".into(),
        None => "BAD".into(),
    }
}

/// edpoint <pk> -> 1 if the 32 bytes decode to a curve point, 0 otherwise (lengths != 32: 0)
pub fn cmd_edpoint(arg: &str) -> String {
    let b = unhex(arg.trim());
    let p: Result<[u8; 32], _> = b.as_slice().try_into();
    match p {
        Ok(p) => (VerifyingKey::from_bytes(&p).is_ok() as u8).to_string(),
        Err(_) => "0".into(),
    }
}

pub fn cmd_sha512(arg: &str) -> String {
    let d = ring::digest::digest(&ring::digest::SHA512, &unhex(arg.trim()));
    hex(d.as_ref())
}
