pub fn cmd_signer(_: &str) -> String { "TODO".into() }
pub fn cmd_verify(_: &str) -> String { "TODO".into() }
pub fn cmd_edsign(_: &str) -> String { "TODO".into() }
pub fn cmd_edpk(_: &str) -> String { "TODO".into() }
pub fn cmd_sha512(_: &str) -> String { "TODO".into() }
