use roughenough::{Error, RtMessage, Tag};

use crate::util::{fnv64, guarded, guarded_thread, hex, unhex};

pub fn tag_by_name(n: &str) -> Tag {
    for t in enum_iterator::all::<Tag>() {
        if format!("{:?}", t) == n {
            return t;
        }
    }
    panic!("unknown tag {}", n)
}

/// values longer than 64 bytes are abbreviated as len:fnv on both sides
pub fn render_val(v: &[u8]) -> String {
    if v.len() > 64 {
        format!("{}:{}", v.len(), fnv64(v))
    } else {
        hex(v)
    }
}

pub fn render_msg(m: &RtMessage) -> String {
    let mut s = String::from("[");
    for (i, (t, v)) in m.tags().iter().zip(m.values().iter()).enumerate() {
        if i > 0 {
            s.push(',');
        }
        s.push_str(&format!("{:?}:{}", t, render_val(v)));
    }
    s.push(']');
    s
}

pub fn render_err(e: &Error) -> String {
    match e {
        Error::TagNotStrictlyIncreasing(t) => format!("TagNotStrictlyIncreasing({:?})", t),
        Error::InvalidTag => "InvalidTag".into(),
        Error::InvalidNumTags(n) => format!("InvalidNumTags({})", n),
        Error::InvalidValueLength(t, n) => format!("InvalidValueLength({:?},{})", t, n),
        Error::EncodingFailure(_) => "EncodingFailure".into(),
        Error::RequestTooShort => "RequestTooShort".into(),
        Error::RequestTooLarge => "RequestTooLarge".into(),
        Error::InvalidAlignment(n) => format!("InvalidAlignment({})", n),
        Error::InvalidOffsetValue(n) => format!("InvalidOffsetValue({})", n),
        Error::MessageTooShort => "MessageTooShort".into(),
        Error::InvalidRequest => "InvalidRequest".into(),
        Error::InvalidResponse => "InvalidResponse".into(),
        Error::InvalidConfiguration(_) => "InvalidConfiguration".into(),
        Error::LengthMismatch(a, b) => format!("LengthMismatch({},{})", a, b),
        Error::NoCompatibleVersion => "NoCompatibleVersion".into(),
        Error::SendingResponseFailed => "SendingResponseFailed".into(),
        Error::SrvMismatch => "SrvMismatch".into(),
    }
}

pub fn render_decode(bytes: &[u8]) -> (String, Option<RtMessage>) {
    let b = bytes.to_vec();
    match guarded(move || RtMessage::from_bytes(&b)) {
        None => ("PANIC".into(), None),
        Some(Err(e)) => (format!("ERR {}", render_err(&e)), None),
        Some(Ok(m)) => (format!("OK {}", render_msg(&m)), Some(m)),
    }
}

fn render_encode(m: &RtMessage) -> String {
    let m2 = m.clone();
    match guarded(move || m2.encode()) {
        None => "PANIC".into(),
        Some(Err(e)) => format!("ERR {}", render_err(&e)),
        Some(Ok(v)) => format!("OK {}:{}", v.len(), fnv64(&v)),
    }
}

fn render_display(m: &RtMessage) -> String {
    let m2 = m.clone();
    // platform default stack for spawned threads: 2 MiB
    match guarded_thread(2 * 1024 * 1024, move || m2.to_string(1)) {
        None => "PANIC".into(),
        Some(s) => format!("OK {}:{}", s.len(), fnv64(s.as_bytes())),
    }
}

/// fb <hex> : decode, re-encode, display
pub fn cmd_fb(arg: &str) -> String {
    let bytes = unhex(arg.trim());
    let (d, m) = render_decode(&bytes);
    match m {
        None => format!("D={} E=- S=- P=-", d),
        Some(m) => {
            // the payload equation of C06 evaluated on the real message
            let n = m.num_fields() as usize;
            let p = if n == 0 {
                "-"
            } else if 8 * n <= bytes.len() && m.values().concat() == bytes[8 * n..] {
                "1"
            } else {
                "0"
            };
            format!("D={} E={} S={} P={}", d, render_encode(&m), render_display(&m), p)
        }
    }
}

/// build TAG=hex;TAG=hex;...  : with_capacity + add_field sequence, encode, encode_framed,
/// decode(encode)
pub fn cmd_build(arg: &str) -> String {
    let mut m = RtMessage::with_capacity(0);
    let mut n = 0usize;
    for (i, f) in arg.trim().split(';').filter(|s| !s.is_empty()).enumerate() {
        let mut kv = f.splitn(2, '=');
        let t = tag_by_name(kv.next().unwrap());
        let v = unhex(kv.next().unwrap());
        match m.add_field(t, &v) {
            Ok(()) => n += 1,
            Err(e) => return format!("A=ERR@{} {}", i, render_err(&e)),
        }
    }
    let _ = n;
    let size = m.encoded_size();
    let m2 = m.clone();
    let enc = match guarded(move || m2.encode()) {
        None => return format!("A=OK Z={} E=PANIC", size),
        Some(Err(e)) => return format!("A=OK Z={} E=ERR {}", size, render_err(&e)),
        Some(Ok(v)) => v,
    };
    let m3 = m.clone();
    let framed = match guarded(move || m3.encode_framed()) {
        None => "PANIC".to_string(),
        Some(Err(e)) => format!("ERR {}", render_err(&e)),
        Some(Ok(v)) => format!("OK {}:{}", v.len(), fnv64(&v)),
    };
    let (d, _) = render_decode(&enc);
    format!(
        "A=OK Z={} E=OK {}:{} F={} R={}",
        size,
        enc.len(),
        fnv64(&enc),
        framed,
        d
    )
}

/// buildcont TAG=hex;TAG=hex;... : like build, but the caller goes on after a refused add_field (the
/// message must then be exactly what it was before the refused call)
pub fn cmd_buildcont(arg: &str) -> String {
    let mut m = RtMessage::with_capacity(0);
    let mut errs: Vec<String> = Vec::new();
    for (i, f) in arg.trim().split(';').filter(|s| !s.is_empty()).enumerate() {
        let mut kv = f.splitn(2, '=');
        let t = tag_by_name(kv.next().unwrap());
        let v = unhex(kv.next().unwrap());
        if let Err(e) = m.add_field(t, &v) {
            errs.push(format!("{}:{}", i, render_err(&e)));
        }
    }
    let head = format!(
        "A={} N={} T={} V={}",
        if errs.is_empty() { "-".to_string() } else { errs.join(",") },
        m.num_fields(),
        m.tags().len(),
        m.values().len()
    );
    let size = m.encoded_size();
    let m2 = m.clone();
    let enc = match guarded(move || m2.encode()) {
        None => return format!("{} Z={} E=PANIC", head, size),
        Some(Err(e)) => return format!("{} Z={} E=ERR {}", head, size, render_err(&e)),
        Some(Ok(v)) => v,
    };
    let (d, _) = render_decode(&enc);
    format!("{} Z={} E=OK {}:{} R={}", head, size, enc.len(), fnv64(&enc), d)
}

/// padlen TAG=hex;... : calculate_padding_length on the built message
pub fn cmd_padlen(arg: &str) -> String {
    let mut m = RtMessage::with_capacity(0);
    for f in arg.trim().split(';').filter(|s| !s.is_empty()) {
        let mut kv = f.splitn(2, '=');
        let t = tag_by_name(kv.next().unwrap());
        let v = unhex(kv.next().unwrap());
        if let Err(e) = m.add_field(t, &v) {
            return format!("ERR {}", render_err(&e));
        }
    }
    format!("OK {}", m.calculate_padding_length())
}
