use roughenough::version::Version;
use roughenough::Tag;

use crate::util::hex;

fn jstr(s: &str) -> String {
    format!("\"{}\"", s.replace('\\', "\\\\").replace('"', "\\\""))
}

pub fn print_tables() {
    let tags: Vec<Tag> = enum_iterator::all::<Tag>().collect();
    let mut out = String::from("{\n \"tags\": [\n");
    for (i, t) in tags.iter().enumerate() {
        // row i of the PartialOrd matrix: '<', '=', '>' or '?' against every tag
        let row: String = tags
            .iter()
            .map(|u| match t.partial_cmp(u) {
                Some(std::cmp::Ordering::Less) => '<',
                Some(std::cmp::Ordering::Equal) => '=',
                Some(std::cmp::Ordering::Greater) => '>',
                None => '?',
            })
            .collect();
        let rt = match Tag::from_wire(t.wire_value()) {
            Ok(u) => format!("{:?}", u),
            Err(_) => "ERR".to_string(),
        };
        out.push_str(&format!(
            "  {{\"name\": {}, \"wire\": {}, \"display\": {}, \"nested\": {}, \"cmp\": {}, \"from_wire\": {}}}{}\n",
            jstr(&format!("{:?}", t)),
            jstr(&hex(t.wire_value())),
            jstr(t.as_string()),
            t.is_nested(),
            jstr(&row),
            jstr(&rt),
            if i + 1 < tags.len() { "," } else { "" }
        ));
    }
    out.push_str(" ],\n \"versions\": [\n");
    let vers = [Version::Google, Version::RfcDraft13];
    for (i, v) in vers.iter().enumerate() {
        out.push_str(&format!(
            "  {{\"name\": {}, \"wire\": {}, \"display\": {}, \"dele_prefix\": {}, \"sign_prefix\": {}}}{}\n",
            jstr(&format!("{:?}", v)),
            jstr(&hex(v.wire_bytes())),
            jstr(v.as_string()),
            jstr(&hex(v.dele_prefix())),
            jstr(&hex(v.sign_prefix())),
            if i + 1 < vers.len() { "," } else { "" }
        ));
    }
    out.push_str(" ],\n");
    out.push_str(&format!(
        " \"supported_versions_wire\": {},\n",
        jstr(&hex(&Version::supported_versions_wire()))
    ));
    out.push_str(&format!(
        " \"consts\": {{\"MIN_REQUEST_LENGTH\": {}, \"MAX_REQUEST_LENGTH\": {}, \"SEED_LENGTH\": {}, \"SIGNATURE_LENGTH\": {}, \"DEFAULT_BATCH_SIZE\": {}, \"DEFAULT_STATUS_INTERVAL\": {}, \"MAX_CLIENTS\": {}}},\n",
        roughenough::MIN_REQUEST_LENGTH,
        roughenough::MAX_REQUEST_LENGTH,
        roughenough::SEED_LENGTH,
        roughenough::SIGNATURE_LENGTH,
        roughenough::config::DEFAULT_BATCH_SIZE,
        roughenough::config::DEFAULT_STATUS_INTERVAL.as_secs(),
        roughenough::stats::MAX_CLIENTS
    ));
    // rand's Bernoulli::from_ratio(n, 100) as the generator sees it: the threshold t(n) such that a sample
    // answers true exactly when the generator's next 64-bit output is below t(n) (2^64: always true)
    let ths: Vec<String> = (0u32..=100).map(|n| jstr(&bernoulli_threshold(n))).collect();
    out.push_str(&format!(" \"bernoulli\": [{}],\n", ths.join(", ")));
    out.push_str(&format!(
        " \"bytes\": {{\"TREE_LEAF_TWEAK\": {}, \"TREE_NODE_TWEAK\": {}, \"REQUEST_FRAMING_BYTES\": {}, \"SRV_PREFIX\": {}}}\n}}\n",
        jstr(&hex(roughenough::TREE_LEAF_TWEAK)),
        jstr(&hex(roughenough::TREE_NODE_TWEAK)),
        jstr(&hex(roughenough::REQUEST_FRAMING_BYTES)),
        jstr(&srv_prefix_probe())
    ));
    print!("{}", out);
}

/// HASH_PREFIX_SRV is pub(crate); recover it by probing calc_srv_value against SHA-512(p || pk)
fn srv_prefix_probe() -> String {
    use ring::digest;
    let pk = [7u8; 32];
    let got = roughenough::key::LongTermKey::calc_srv_value(&pk);
    for p in 0u16..=255 {
        let mut ctx = digest::Context::new(&digest::SHA512);
        ctx.update(&[p as u8]);
        ctx.update(&pk);
        if ctx.finish().as_ref()[0..32] == got[..] {
            return hex(&[p as u8]);
        }
    }
    "??".to_string()
}

/// For every 32-bit word w in [lo, hi): Tag::from_wire(le(w)) must be Ok(t) exactly when
/// le(w) == t.wire_value(). Prints "TAGSWEEP-OK n" or the first counterexample.
/// every 4-byte word that differs from a known tag's wire value in at most two byte positions
/// (18 * (1 + 4*255 + 6*255*255) words): the neighbourhood where a mistyped or "legacy" spelling lives
pub fn tagnear() {
    let tags: Vec<Tag> = enum_iterator::all::<Tag>().collect();
    let mut n = 0u64;
    for t in &tags {
        let w = t.wire_value();
        for i in 0..4 {
            for j in i..4 {
                for a in 0..=255u8 {
                    for b in 0..=255u8 {
                        if i == j && b != 0 {
                            continue;
                        }
                        let mut x = [w[0], w[1], w[2], w[3]];
                        x[i] = a;
                        if i != j {
                            x[j] = b;
                        }
                        let expect = tags.iter().find(|u| u.wire_value() == x);
                        let got = Tag::from_wire(&x).ok();
                        n += 1;
                        match (expect, got) {
                            (None, None) => {}
                            (Some(u), Some(v)) if *u == v => {}
                            _ => {
                                println!("TAGSWEEP-DIFF word={:02x}{:02x}{:02x}{:02x} (bytes in wire order) expect={:?} got={:?}", x[0], x[1], x[2], x[3], expect, got);
                                return;
                            }
                        }
                    }
                }
            }
        }
    }
    println!("TAGSWEEP-OK {} near", n);
}

pub fn tagsweep(lo: u64, hi: u64) {
    let tags: Vec<Tag> = enum_iterator::all::<Tag>().collect();
    let mut hits = 0u64;
    for w in lo..hi {
        let b = (w as u32).to_le_bytes();
        let expect = tags.iter().find(|t| t.wire_value() == b);
        let got = Tag::from_wire(&b).ok();
        match (expect, got) {
            (None, None) => {}
            (Some(t), Some(u)) if *t == u => hits += 1,
            _ => {
                println!("TAGSWEEP-DIFF word={:08x} expect={:?} got={:?}", w, expect, got);
                return;
            }
        }
    }
    println!("TAGSWEEP-OK {} {}", hi - lo, hits);
}


/// a generator that returns one chosen value
struct FixedRng(u64);
impl rand::RngCore for FixedRng {
    fn next_u32(&mut self) -> u32 {
        self.0 as u32
    }
    fn next_u64(&mut self) -> u64 {
        self.0
    }
    fn fill_bytes(&mut self, dest: &mut [u8]) {
        for (i, b) in dest.iter_mut().enumerate() {
            *b = (self.0 >> (8 * (i % 8))) as u8;
        }
    }
    fn try_fill_bytes(&mut self, dest: &mut [u8]) -> Result<(), rand::Error> {
        self.fill_bytes(dest);
        Ok(())
    }
}

/// smallest generator output for which Bernoulli::from_ratio(n, 100) answers false, by bisection
/// ("18446744073709551616" when it never does); "NONMONOTONE" if the answers are not a threshold
fn bernoulli_threshold(n: u32) -> String {
    use rand::distributions::{Bernoulli, Distribution};
    let d = Bernoulli::from_ratio(n, 100);
    let at = |v: u64| d.sample(&mut FixedRng(v));
    if at(u64::MAX) {
        return "18446744073709551616".to_string();
    }
    if !at(0) {
        return "0".to_string();
    }
    let (mut lo, mut hi) = (0u64, u64::MAX); // at(lo) is true, at(hi) is false
    while hi - lo > 1 {
        let mid = lo + (hi - lo) / 2;
        if at(mid) {
            lo = mid
        } else {
            hi = mid
        }
    }
    // spot checks of the threshold shape around the boundary and far from it
    for k in [1u64, 2, 1000, 1 << 20, 1 << 40, 1 << 60] {
        if hi > k && !at(hi - k) {
            return "NONMONOTONE".to_string();
        }
        if hi < u64::MAX - k && at(hi + k) {
            return "NONMONOTONE".to_string();
        }
    }
    hi.to_string()
}
