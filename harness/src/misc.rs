use std::time::{Duration, UNIX_EPOCH};

use roughenough::key::{LongTermKey, OnlineKey};
use roughenough::request;
use roughenough::{RtMessage, Tag};

use crate::codec::render_err;
use crate::crypto::oneshot_verify;
use crate::merkle::version_of;
use crate::util::{guarded, hex, unhex};

/// classify <srvhex> <dgramhex> : request::nonce_from_request on a 64 KiB buffer, as the server does
pub fn cmd_classify(arg: &str) -> String {
    let p: Vec<&str> = arg.trim().split(' ').collect();
    let srv = unhex(p[0]);
    let d = unhex(p.get(1).copied().unwrap_or("-"));
    let r = guarded(move || {
        let mut buf = vec![0u8; 65536];
        buf[..d.len()].copy_from_slice(&d);
        request::nonce_from_request(&buf, d.len(), &srv)
    });
    match r {
        None => "PANIC".into(),
        Some(Ok((n, v))) => format!("OK {} {:?}", hex(&n), v),
        Some(Err(e)) => format!("ERR {}", render_err(&e)),
    }
}

/// srep <ver> <secs> <nanos> <roothex> : OnlineKey::make_srep at a chosen clock value
pub fn cmd_srep(arg: &str) -> String {
    let p: Vec<&str> = arg.trim().split(' ').collect();
    let ver = version_of(p[0]);
    let secs: u64 = p[1].parse().unwrap();
    let nanos: u32 = p[2].parse().unwrap();
    let root = unhex(p[3]);
    let r = guarded(move || {
        let mut ok = OnlineKey::new();
        let dele = ok.make_dele();
        let pubk = dele.get_field(Tag::PUBK).unwrap().to_vec();
        let m = ok.make_srep(ver, UNIX_EPOCH + Duration::new(secs, nanos), &root);
        let sig = m.get_field(Tag::SIG).unwrap().to_vec();
        let srep = m.get_field(Tag::SREP).unwrap().to_vec();
        let mut signed = ver.sign_prefix().to_vec();
        signed.extend_from_slice(&srep);
        let okv = oneshot_verify(&pubk, &signed, &sig) == Some(true);
        format!("OK SREP={} NF={} SIGOK={}", hex(&srep), m.num_fields(), okv as u8)
    });
    r.unwrap_or_else(|| "PANIC".into())
}

/// ltk <seedhex> : LongTermKey::new(seed) -> public key and SRV value
pub fn cmd_ltk(arg: &str) -> String {
    let seed = unhex(arg.trim());
    let r = guarded(move || {
        let k = LongTermKey::new(&seed);
        format!("OK PK={} SRV={}", hex(&k.public_key()), hex(k.srv_value()))
    });
    r.unwrap_or_else(|| "PANIC".into())
}

/// cert <seedhex> <ver,ver,...> : one LongTermKey certifying a fresh OnlineKey per listed version,
/// in order, with the SAME signer object (as Server::new does for its two responders)
pub fn cmd_cert(arg: &str) -> String {
    let p: Vec<&str> = arg.trim().split(' ').collect();
    let seed = unhex(p[0]);
    let vers: Vec<String> = p[1].split(',').map(|s| s.to_string()).collect();
    let r = guarded(move || {
        let mut k = LongTermKey::new(&seed);
        let pk = k.public_key();
        let mut out = Vec::new();
        for v in &vers {
            let ver = version_of(v);
            let other = match ver {
                roughenough::version::Version::Google => roughenough::version::Version::RfcDraft13,
                _ => roughenough::version::Version::Google,
            };
            let ok = OnlineKey::new();
            let cert = k.make_cert(&ver, &ok);
            let sig = cert.get_field(Tag::SIG).unwrap().to_vec();
            let dele = cert.get_field(Tag::DELE).unwrap().to_vec();
            let mut own = ver.dele_prefix().to_vec();
            own.extend_from_slice(&dele);
            let mut oth = other.dele_prefix().to_vec();
            oth.extend_from_slice(&dele);
            let dm = RtMessage::from_bytes(&dele).unwrap();
            out.push(format!(
                "NF={} DELE=[MINT:{},MAXT:{},PUBKLEN:{}] OWN={} OTHER={}",
                cert.num_fields(),
                hex(dm.get_field(Tag::MINT).unwrap()),
                hex(dm.get_field(Tag::MAXT).unwrap()),
                dm.get_field(Tag::PUBK).unwrap().len(),
                (oneshot_verify(&pk, &own, &sig) == Some(true)) as u8,
                (oneshot_verify(&pk, &oth, &sig) == Some(true)) as u8
            ));
        }
        format!("OK {}", out.join(" | "))
    });
    r.unwrap_or_else(|| "PANIC".into())
}

pub fn cmd_envelope(_: &str) -> String { "TODO".into() }
pub fn cmd_envdec(_: &str) -> String { "TODO".into() }
// ---------------------------------------------------------------- statistics
use roughenough::stats::{AggregatedStats, ClientStats, PerClientStats, Reporter, ServerStats, StatsQueue};
use std::net::{IpAddr, Ipv4Addr};
use std::sync::Arc;

fn ip(a: u32) -> IpAddr {
    IpAddr::from(Ipv4Addr::from(a))
}

fn apply_op(s: &mut dyn ServerStats, op: &str) {
    let (k, rest) = op.split_at(1);
    let mut it = rest.splitn(2, ':');
    let a: u32 = it.next().unwrap().parse().unwrap();
    let n: usize = it.next().map(|x| x.parse().unwrap()).unwrap_or(0);
    let addr = ip(a);
    match k {
        "i" => s.add_ietf_request(&addr),
        "c" => s.add_classic_request(&addr),
        "x" => s.add_invalid_request(&addr, &roughenough::Error::InvalidRequest),
        "h" => s.add_health_check(&addr),
        "r" => s.add_rfc_response(&addr, n),
        "k" => s.add_classic_response(&addr, n),
        "f" => s.add_failed_send_attempt(&addr),
        "t" => s.add_retried_send_attempt(&addr),
        _ => panic!("bad op"),
    }
}

fn totals(s: &dyn ServerStats) -> String {
    format!(
        "T={},{},{},{},{},{},{},{},{} V={} R={} U={}",
        s.num_rfc_requests(),
        s.num_classic_requests(),
        s.total_invalid_requests(),
        s.total_health_checks(),
        s.num_rfc_responses_sent(),
        s.num_classic_responses_sent(),
        s.total_bytes_sent(),
        s.total_failed_send_attempts(),
        s.total_retried_send_attempts(),
        s.total_valid_requests(),
        s.total_responses_sent(),
        s.total_unique_clients()
    )
}

fn render_clients(mut v: Vec<ClientStats>) -> String {
    v.sort_by_key(|c| match c.ip_addr {
        IpAddr::V4(a) => u32::from(a),
        _ => 0,
    });
    let items: Vec<String> = v
        .iter()
        .map(|c| {
            let a = match c.ip_addr {
                IpAddr::V4(a) => u32::from(a),
                _ => 0,
            };
            format!(
                "{}:{}/{}/{}/{}/{}/{}/{}/{}/{}",
                a, c.rfc_requests, c.classic_requests, c.invalid_requests, c.health_checks,
                c.rfc_responses_sent, c.classic_responses_sent, c.bytes_sent,
                c.failed_send_attempts, c.retried_send_attempts
            )
        })
        .collect();
    if items.is_empty() { "-".into() } else { items.join(";") }
}

/// stats <pc|agg> <limit> <op,op,...>
pub fn cmd_stats(arg: &str) -> String {
    let p: Vec<&str> = arg.trim().splitn(3, ' ').collect();
    let kind = p[0].to_string();
    let limit: usize = p[1].parse().unwrap();
    let ops: Vec<String> = p.get(2).unwrap_or(&"").split(',').filter(|s| !s.is_empty()).map(|s| s.to_string()).collect();
    let r = guarded(move || {
        if kind == "pc" {
            let mut s = PerClientStats::with_limit(limit);
            for op in &ops {
                apply_op(&mut s, op);
            }
            let clients: Vec<ClientStats> = s.iter().map(|(_, c)| *c).collect();
            // stats_for_client must agree with the iterator
            for c in &clients {
                assert!(s.stats_for_client(&c.ip_addr) == Some(c));
            }
            format!("{} O={} C={}", totals(&s), s.num_overflows(), render_clients(clients))
        } else {
            let mut s = AggregatedStats::new();
            for op in &ops {
                apply_op(&mut s, op);
            }
            format!("{} O=0 C=-", totals(&s))
        }
    });
    r.unwrap_or_else(|| "PANIC".into())
}

/// merge <limit> <seg>|<seg>|...  : one PerClientStats per segment, snapshot (iter) pushed on the
/// queue, Reporter::receive_client_stats merges them
pub fn cmd_merge(arg: &str) -> String {
    let p: Vec<&str> = arg.trim().splitn(2, ' ').collect();
    let limit: usize = p[0].parse().unwrap();
    let segs: Vec<Vec<String>> = p
        .get(1)
        .unwrap_or(&"")
        .split('|')
        .map(|s| s.split(',').filter(|x| !x.is_empty()).map(|x| x.to_string()).collect())
        .collect();
    let r = guarded(move || {
        let q = Arc::new(StatsQueue::new(segs.len().max(1)));
        for seg in &segs {
            let mut s = PerClientStats::with_limit(limit);
            for op in seg {
                apply_op(&mut s, op);
            }
            let snap: Vec<ClientStats> = s.iter().map(|(_, c)| *c).collect();
            if !snap.is_empty() {
                q.force_push(snap);
            }
        }
        let mut rep = Reporter::new(q, &Duration::from_secs(600), None);
        rep.receive_client_stats();
        format!("C={}", render_clients(rep.merged_client_stats()))
    });
    r.unwrap_or_else(|| "PANIC".into())
}

pub fn cmd_grease(_: &str) -> String { "TODO".into() }
