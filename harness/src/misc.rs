use std::time::{Duration, UNIX_EPOCH};

use roughenough::key::{LongTermKey, OnlineKey};
use roughenough::request;
use roughenough::{RtMessage, Tag};

use crate::codec::render_err;
use crate::crypto::oneshot_verify;
use crate::merkle::version_of;
use crate::util::{guarded, hex, unhex};

/// classify <srvhex> <dgramhex> : request::nonce_from_request on a 64 KiB buffer, as the server does
pub fn cmd_classify(arg: &str) -> String {
    let p: Vec<&str> = arg.trim().split(' ').collect();
    let srv = unhex(p[0]);
    let d = unhex(p.get(1).copied().unwrap_or("-"));
    let r = guarded(move || {
        let mut buf = vec![0u8; 65536];
        buf[..d.len()].copy_from_slice(&d);
        request::nonce_from_request(&buf, d.len(), &srv)
    });
    match r {
        None => "PANIC".into(),
        Some(Ok((n, v))) => format!("OK {} {:?}", hex(&n), v),
        Some(Err(e)) => format!("ERR {}", render_err(&e)),
    }
}

/// srep <ver> <secs> <nanos> <roothex> : OnlineKey::make_srep at a chosen clock value
pub fn cmd_srep(arg: &str) -> String {
    let p: Vec<&str> = arg.trim().split(' ').collect();
    let ver = version_of(p[0]);
    // a negative number of seconds is a clock reading BEFORE the epoch (epoch - |secs| - nanos)
    let secs_signed: i64 = p[1].parse().unwrap();
    let secs: u64 = secs_signed.unsigned_abs();
    let before_epoch = secs_signed < 0;
    let nanos: u32 = p[2].parse().unwrap();
    let root = unhex(p[3]);
    // ONE OnlineKey object per harness process signs every `srep` line it is given — both
    // protocol versions and all clock values interleaved (a key that remembered anything from an
    // earlier call would show); the model's make_srep is a pure function of its arguments
    static ONLINE: std::sync::Mutex<Option<OnlineKey>> = std::sync::Mutex::new(None);
    let r = guarded(move || {
        let mut g = ONLINE.lock().unwrap_or_else(|e| e.into_inner());
        if g.is_none() {
            *g = Some(OnlineKey::new());
        }
        let ok = g.as_mut().unwrap();
        let dele = ok.make_dele();
        let pubk = dele.get_field(Tag::PUBK).unwrap().to_vec();
        let now = if before_epoch { UNIX_EPOCH - Duration::new(secs, nanos) } else { UNIX_EPOCH + Duration::new(secs, nanos) };
        let m = ok.make_srep(ver, now, &root);
        let sig = m.get_field(Tag::SIG).unwrap().to_vec();
        let srep = m.get_field(Tag::SREP).unwrap().to_vec();
        let mut signed = ver.sign_prefix().to_vec();
        signed.extend_from_slice(&srep);
        let okv = oneshot_verify(&pubk, &signed, &sig) == Some(true);
        format!("OK SREP={} NF={} SIGOK={}", hex(&srep), m.num_fields(), okv as u8)
    });
    r.unwrap_or_else(|| "PANIC".into())
}

/// ltk <seedhex> : LongTermKey::new(seed) -> public key and SRV value
pub fn cmd_ltk(arg: &str) -> String {
    let seed = unhex(arg.trim());
    let r = guarded(move || {
        let k = LongTermKey::new(&seed);
        format!("OK PK={} SRV={}", hex(&k.public_key()), hex(k.srv_value()))
    });
    r.unwrap_or_else(|| "PANIC".into())
}

/// cert <seedhex> <ver,ver,...> : one LongTermKey certifying a fresh OnlineKey per listed version,
/// in order, with the SAME signer object (as Server::new does for its two responders)
pub fn cmd_cert(arg: &str) -> String {
    let p: Vec<&str> = arg.trim().split(' ').collect();
    let seed = unhex(p[0]);
    let vers: Vec<String> = p[1].split(',').map(|s| s.to_string()).collect();
    let r = guarded(move || {
        let mut k = LongTermKey::new(&seed);
        let pk = k.public_key();
        let mut out = Vec::new();
        for v in &vers {
            let ver = version_of(v);
            let other = match ver {
                roughenough::version::Version::Google => roughenough::version::Version::RfcDraft13,
                _ => roughenough::version::Version::Google,
            };
            let ok = OnlineKey::new();
            let cert = k.make_cert(&ver, &ok);
            let sig = cert.get_field(Tag::SIG).unwrap().to_vec();
            let dele = cert.get_field(Tag::DELE).unwrap().to_vec();
            let mut own = ver.dele_prefix().to_vec();
            own.extend_from_slice(&dele);
            let mut oth = other.dele_prefix().to_vec();
            oth.extend_from_slice(&dele);
            let dm = RtMessage::from_bytes(&dele).unwrap();
            out.push(format!(
                "NF={} DELE=[MINT:{},MAXT:{},PUBKLEN:{}] OWN={} OTHER={}",
                cert.num_fields(),
                hex(dm.get_field(Tag::MINT).unwrap()),
                hex(dm.get_field(Tag::MAXT).unwrap()),
                dm.get_field(Tag::PUBK).unwrap().len(),
                (oneshot_verify(&pk, &own, &sig) == Some(true)) as u8,
                (oneshot_verify(&pk, &oth, &sig) == Some(true)) as u8
            ));
        }
        format!("OK {}", out.join(" | "))
    });
    r.unwrap_or_else(|| "PANIC".into())
}

// ---------------------------------------------------------------- envelope encryption
use roughenough::kms::{EnvelopeEncryption, KmsError, KmsProvider};
use std::collections::HashMap;
use std::sync::Mutex;

static KMS_TABLE: Mutex<Option<HashMap<Vec<u8>, Vec<u8>>>> = Mutex::new(None);
static KMS_COUNTER: Mutex<u64> = Mutex::new(0);

/// Harness key-management providers:
///   handle:<L>  wraps to an opaque L-byte handle kept in a table (any length 1..=65535)
///   id          identity
///   errenc / errdec        the provider call fails
///   wrongkey / wronglen / longkey   decrypt_dek returns another 32-byte key / a 16-byte key / the key plus 16 bytes
struct HarnessKms {
    kind: String,
    wrapped_len: usize,
}

impl KmsProvider for HarnessKms {
    fn encrypt_dek(&self, dek: &Vec<u8>) -> Result<Vec<u8>, KmsError> {
        match self.kind.as_str() {
            "errenc" => Err(KmsError::OperationFailed("harness: encrypt fails".into())),
            "id" => Ok(dek.clone()),
            _ => {
                let mut c = KMS_COUNTER.lock().unwrap();
                *c += 1;
                let mut w = Vec::with_capacity(self.wrapped_len);
                let mut x = *c ^ 0x9e3779b97f4a7c15;
                while w.len() < self.wrapped_len {
                    x ^= x << 13;
                    x ^= x >> 7;
                    x ^= x << 17;
                    w.push((x & 0xff) as u8);
                }
                let mut t = KMS_TABLE.lock().unwrap();
                t.get_or_insert_with(HashMap::new).insert(w.clone(), dek.clone());
                Ok(w)
            }
        }
    }

    fn decrypt_dek(&self, w: &Vec<u8>) -> Result<Vec<u8>, KmsError> {
        let looked = || -> Result<Vec<u8>, KmsError> {
            let t = KMS_TABLE.lock().unwrap();
            match t.as_ref().and_then(|m| m.get(w)) {
                Some(d) => Ok(d.clone()),
                None => Err(KmsError::OperationFailed("harness: unknown handle".into())),
            }
        };
        match self.kind.as_str() {
            "errdec" => Err(KmsError::OperationFailed("harness: decrypt fails".into())),
            "id" => Ok(w.clone()),
            "wrongkey" => looked().map(|d| d.iter().map(|b| b ^ 0x55).collect()),
            "wronglen" => looked().map(|d| d[..16].to_vec()),
            // the right key followed by 16 more bytes: still not a 32-byte key
            "longkey" => looked().map(|d| { let mut k = d.clone(); k.extend_from_slice(&[0xA5u8; 16]); k }),
            _ => looked(),
        }
    }
}

fn render_kerr(e: &KmsError) -> &'static str {
    match e {
        KmsError::OperationFailed(_) => "OperationFailed",
        KmsError::InvalidConfiguration(_) => "InvalidConfiguration",
        KmsError::InvalidData(_) => "InvalidData",
        KmsError::InvalidKey(_) => "InvalidKey",
    }
}

fn provider(spec: &str) -> HarnessKms {
    let mut it = spec.splitn(2, ':');
    let kind = it.next().unwrap().to_string();
    let wrapped_len = it.next().map(|x| x.parse().unwrap()).unwrap_or(48);
    HarnessKms { kind, wrapped_len }
}

/// envelope <provider> <plaintexthex> : encrypt_seed then decrypt_seed with the same provider
pub fn cmd_envelope(arg: &str) -> String {
    let p: Vec<&str> = arg.trim().split(' ').collect();
    let kms = provider(p[0]);
    let pt = unhex(p[1]);
    let r = guarded(move || match EnvelopeEncryption::encrypt_seed(&kms, &pt) {
        Err(e) => format!("ENC=ERR {}", render_kerr(&e)),
        Ok(blob) => {
            let dec = match EnvelopeEncryption::decrypt_seed(&kms, &blob) {
                Ok(v) => format!("OK {}", hex(&v)),
                Err(e) => format!("ERR {}", render_kerr(&e)),
            };
            // the wrapped handle and the DEK the provider saw (so that a later process can re-install it)
            let wlen = u16::from_le_bytes([blob[0], blob[1]]) as usize;
            let w = blob[4..4 + wlen].to_vec();
            let k = KMS_TABLE.lock().unwrap().as_ref().and_then(|m| m.get(&w).cloned()).unwrap_or_else(|| w.clone());
            format!("ENC=OK {} W={} K={} DEC={}", hex(&blob), hex(&w), hex(&k), dec)
        }
    });
    r.unwrap_or_else(|| "PANIC".into())
}

/// envdec <provider> <blobhex> : decrypt_seed
pub fn cmd_envdec(arg: &str) -> String {
    let p: Vec<&str> = arg.trim().split(' ').collect();
    let kms = provider(p[0]);
    let blob = unhex(p.get(1).copied().unwrap_or("-"));
    let r = guarded(move || match EnvelopeEncryption::decrypt_seed(&kms, &blob) {
        Ok(v) => format!("OK {}", hex(&v)),
        Err(e) => format!("ERR {}", render_kerr(&e)),
    });
    r.unwrap_or_else(|| "PANIC".into())
}

/// kmsput <whex> <dekhex> : install a handle in the provider table
pub fn cmd_kmsput(arg: &str) -> String {
    let p: Vec<&str> = arg.trim().split(' ').collect();
    let mut t = KMS_TABLE.lock().unwrap();
    t.get_or_insert_with(HashMap::new).insert(unhex(p[0]), unhex(p[1]));
    "OK".into()
}

/// kmsunwrap <provider> <whex> : what the harness provider answers (oracle for the model)
pub fn cmd_kmsunwrap(arg: &str) -> String {
    let p: Vec<&str> = arg.trim().split(' ').collect();
    let kms = provider(p[0]);
    match kms.decrypt_dek(&unhex(p.get(1).copied().unwrap_or("-"))) {
        Ok(v) => format!("OK {}", hex(&v)),
        Err(e) => format!("ERR {}", render_kerr(&e)),
    }
}

/// aeadopen <key> <nonce> <ct> : AES-256-GCM open with AD "roughenough", straight from ring
pub fn cmd_aeadopen(arg: &str) -> String {
    use ring::aead::{Aad, LessSafeKey, Nonce, UnboundKey, AES_256_GCM};
    let p: Vec<&str> = arg.trim().split(' ').collect();
    let key = unhex(p[0]);
    let nonce = unhex(p[1]);
    let mut ct = unhex(p.get(2).copied().unwrap_or("-"));
    let k = match UnboundKey::new(&AES_256_GCM, &key) {
        Ok(k) => LessSafeKey::new(k),
        Err(_) => return "BADKEY".into(),
    };
    let n: [u8; 12] = match nonce.as_slice().try_into() {
        Ok(n) => n,
        Err(_) => return "BADNONCE".into(),
    };
    match k.open_in_place(Nonce::assume_unique_for_key(n), Aad::from("roughenough"), &mut ct) {
        Ok(pt) => format!("OK {}", hex(pt)),
        Err(_) => "ERR".into(),
    }
}
// ---------------------------------------------------------------- statistics
use roughenough::stats::{AggregatedStats, ClientStats, PerClientStats, Reporter, ServerStats, StatsQueue};
use std::net::{IpAddr, Ipv4Addr};
use std::sync::Arc;

// address numbers: < 1000 plain IPv4 (0.0.0.a); 1000..1999 the IPv4-mapped IPv6 form of
// 0.0.0.(a-1000) (a different IpAddr, hence a different client); >= 2000 2001:db8::(a-2000)
fn ip(a: u32) -> IpAddr {
    if a < 1000 {
        IpAddr::from(Ipv4Addr::from(a))
    } else if a < 2000 {
        IpAddr::from(Ipv4Addr::from(a - 1000).to_ipv6_mapped())
    } else {
        IpAddr::from(std::net::Ipv6Addr::new(0x2001, 0xdb8, 0, 0, 0, 0, 0, (a - 2000) as u16))
    }
}

fn ip_num(ip: &IpAddr) -> u32 {
    match ip {
        IpAddr::V4(a) => u32::from(*a),
        IpAddr::V6(a) => match a.to_ipv4_mapped() {
            Some(v4) => 1000 + u32::from(v4),
            None => 2000 + a.segments()[7] as u32,
        },
    }
}

fn apply_op(s: &mut dyn ServerStats, op: &str) {
    let (k, rest) = op.split_at(1);
    let mut it = rest.splitn(2, ':');
    let a: u32 = it.next().unwrap().parse().unwrap();
    let n: usize = it.next().map(|x| x.parse().unwrap()).unwrap_or(0);
    let addr = ip(a);
    match k {
        "i" => s.add_ietf_request(&addr),
        "c" => s.add_classic_request(&addr),
        "x" => s.add_invalid_request(&addr, &roughenough::Error::InvalidRequest),
        "h" => s.add_health_check(&addr),
        "r" => s.add_rfc_response(&addr, n),
        "k" => s.add_classic_response(&addr, n),
        "f" => s.add_failed_send_attempt(&addr),
        "t" => s.add_retried_send_attempt(&addr),
        _ => panic!("bad op"),
    }
}

fn totals(s: &dyn ServerStats) -> String {
    format!(
        "T={},{},{},{},{},{},{},{},{} V={} R={} U={}",
        s.num_rfc_requests(),
        s.num_classic_requests(),
        s.total_invalid_requests(),
        s.total_health_checks(),
        s.num_rfc_responses_sent(),
        s.num_classic_responses_sent(),
        s.total_bytes_sent(),
        s.total_failed_send_attempts(),
        s.total_retried_send_attempts(),
        s.total_valid_requests(),
        s.total_responses_sent(),
        s.total_unique_clients()
    )
}

fn render_clients(mut v: Vec<ClientStats>) -> String {
    v.sort_by_key(|c| ip_num(&c.ip_addr));
    let items: Vec<String> = v
        .iter()
        .map(|c| {
            let a = ip_num(&c.ip_addr);
            format!(
                "{}:{}/{}/{}/{}/{}/{}/{}/{}/{}",
                a, c.rfc_requests, c.classic_requests, c.invalid_requests, c.health_checks,
                c.rfc_responses_sent, c.classic_responses_sent, c.bytes_sent,
                c.failed_send_attempts, c.retried_send_attempts
            )
        })
        .collect();
    if items.is_empty() { "-".into() } else { items.join(";") }
}

/// stats <pc|agg> <limit> <op,op,...>
pub fn cmd_stats(arg: &str) -> String {
    let p: Vec<&str> = arg.trim().splitn(3, ' ').collect();
    let kind = p[0].to_string();
    let limit: usize = p[1].parse().unwrap();
    let ops: Vec<String> = p.get(2).unwrap_or(&"").split(',').filter(|s| !s.is_empty()).map(|s| s.to_string()).collect();
    let r = guarded(move || {
        if kind == "pc" {
            let mut s = PerClientStats::with_limit(limit);
            for op in &ops {
                apply_op(&mut s, op);
            }
            let clients: Vec<ClientStats> = s.iter().map(|(_, c)| *c).collect();
            // stats_for_client must agree with the iterator
            for c in &clients {
                assert!(s.stats_for_client(&c.ip_addr) == Some(c));
            }
            format!("{} O={} C={}", totals(&s), s.num_overflows(), render_clients(clients))
        } else {
            let mut s = AggregatedStats::new();
            for op in &ops {
                apply_op(&mut s, op);
            }
            format!("{} O=0 C=-", totals(&s))
        }
    });
    r.unwrap_or_else(|| "PANIC".into())
}

/// merge <limit> <seg>|<seg>|...  : one PerClientStats per segment, snapshot (iter) pushed on the
/// queue, Reporter::receive_client_stats merges them
pub fn cmd_merge(arg: &str) -> String {
    let p: Vec<&str> = arg.trim().splitn(2, ' ').collect();
    let limit: usize = p[0].parse().unwrap();
    let segs: Vec<Vec<String>> = p
        .get(1)
        .unwrap_or(&"")
        .split('|')
        .map(|s| s.split(',').filter(|x| !x.is_empty()).map(|x| x.to_string()).collect())
        .collect();
    let r = guarded(move || {
        let q = Arc::new(StatsQueue::new(segs.len().max(1)));
        for seg in &segs {
            let mut s = PerClientStats::with_limit(limit);
            for op in seg {
                apply_op(&mut s, op);
            }
            let snap: Vec<ClientStats> = s.iter().map(|(_, c)| *c).collect();
            if !snap.is_empty() {
                q.force_push(snap);
            }
        }
        let mut rep = Reporter::new(q, &Duration::from_secs(600), None);
        rep.receive_client_stats();
        format!("C={}", render_clients(rep.merged_client_stats()))
    });
    r.unwrap_or_else(|| "PANIC".into())
}

/// report <dir|-> <limit> <op,op|op,...> : the snapshots of `merge`, one receive_client_stats pass, then
/// Reporter::report() with <dir> as the output location (- = none configured). Prints what was merged (M=), how
/// many files the directory holds afterwards, the CSV header and the decoded rows rendered like M (R=).
pub fn cmd_report(arg: &str) -> String {
    let p: Vec<&str> = arg.trim().splitn(3, ' ').collect();
    let dir: Option<std::path::PathBuf> = if p[0] == "-" { None } else { Some(std::path::PathBuf::from(p[0])) };
    let limit: usize = p[1].parse().unwrap();
    let segs: Vec<Vec<String>> = p
        .get(2)
        .unwrap_or(&"")
        .split('|')
        .map(|s| s.split(',').filter(|x| !x.is_empty()).map(|x| x.to_string()).collect())
        .collect();
    let r = guarded(move || {
        let q = Arc::new(StatsQueue::new(segs.len().max(1)));
        for seg in &segs {
            let mut s = PerClientStats::with_limit(limit);
            for op in seg {
                apply_op(&mut s, op);
            }
            let snap: Vec<ClientStats> = s.iter().map(|(_, c)| *c).collect();
            if !snap.is_empty() {
                q.force_push(snap);
            }
        }
        if let Some(d) = &dir {
            let _ = std::fs::remove_dir_all(d);
            std::fs::create_dir_all(d).unwrap();
        }
        let mut rep = Reporter::new(q, &Duration::from_secs(600), dir.clone());
        rep.receive_client_stats();
        let merged = render_clients(rep.merged_client_stats());
        rep.report();
        let after = render_clients(rep.merged_client_stats());
        let mut files = Vec::new();
        if let Some(d) = &dir {
            for e in std::fs::read_dir(d).unwrap() {
                files.push(e.unwrap().path());
            }
        }
        let mut header = String::from("-");
        let mut rows: Vec<(u32, String)> = Vec::new();
        let mut bad = 0;
        for f in &files {
            let raw = std::fs::read(f).unwrap();
            let text = match zstd::stream::decode_all(&raw[..]) {
                Ok(t) => String::from_utf8_lossy(&t).to_string(),
                Err(_) => { bad += 1; continue; }
            };
            let mut lines = text.lines();
            if let Some(h) = lines.next() {
                header = h.to_string();
            }
            for l in lines {
                let c: Vec<&str> = l.split(',').collect();
                if c.len() != 11 {
                    bad += 1;
                    continue;
                }
                match c[10].parse::<IpAddr>() {
                    Ok(a) => {
                        let n = ip_num(&a);
                        rows.push((n, format!("{}:{}", n, c[0..9].join("/"))));
                    }
                    Err(_) => bad += 1,
                }
            }
        }
        rows.sort();
        let r: Vec<String> = rows.into_iter().map(|x| x.1).collect();
        let names_ok = files.iter().all(|f| {
            let n = f.file_name().unwrap().to_string_lossy().to_string();
            n.starts_with("roughenough-stats-") && n.ends_with(".csv.zst")
        });
        if let Some(d) = &dir {
            let _ = std::fs::remove_dir_all(d);
        }
        format!(
            "M={} AFTER={} FILES={} NAMES={} BAD={} HEADER={} R={}",
            merged, after, files.len(), names_ok, bad, header,
            if r.is_empty() { "-".to_string() } else { r.join(";") }
        )
    });
    r.unwrap_or_else(|| "PANIC".into())
}

/// mergebig <snapshots> <records-per-snapshot> : that many snapshots of that many records each (one IETF request
/// per distinct address; the address space is shared across snapshots in halves so that merging matters), one
/// receive_client_stats pass; prints how many addresses and how many requests the reporter holds and what is
/// still queued
pub fn cmd_mergebig(arg: &str) -> String {
    let p: Vec<usize> = arg.trim().split(' ').map(|x| x.parse().unwrap()).collect();
    let (nsnap, per) = (p[0], p[1]);
    let r = guarded(move || {
        let q = Arc::new(StatsQueue::new(nsnap.max(1)));
        for k in 0..nsnap {
            let mut s = PerClientStats::with_limit(per + 1);
            // snapshot k covers addresses [k*per/2, k*per/2 + per): neighbouring snapshots overlap by half
            let base = (k * per / 2) as u32;
            for a in 0..per as u32 {
                s.add_ietf_request(&IpAddr::from(Ipv4Addr::from(0x0a00_0000u32 + base + a)));   // distinct: ip() wraps at 2^16
            }
            let snap: Vec<ClientStats> = s.iter().map(|(_, c)| *c).collect();
            q.force_push(snap);
        }
        let mut rep = Reporter::new(q.clone(), &Duration::from_secs(600), None);
        rep.receive_client_stats();
        let merged = rep.merged_client_stats();
        let total: u64 = merged.iter().map(|c| c.rfc_requests as u64).sum();
        format!("CLIENTS={} REQUESTS={} QUEUED={}", merged.len(), total, q.len())
    });
    r.unwrap_or_else(|| "PANIC".into())
}

/// squeue <cap> <limit> <op>|<op>|...   op = D | P:<ev,ev,...>
/// One StatsQueue of the given capacity shared by "workers" (each P: a fresh PerClientStats, its
/// snapshot published with force_push when non-empty, as Server::send_client_stats does) and one
/// Reporter (D: receive_client_stats). Output: the reporter's merged map.
pub fn cmd_squeue(arg: &str) -> String {
    let p: Vec<String> = arg.trim().splitn(3, ' ').map(|s| s.to_string()).collect();
    let r = guarded(move || {
        let cap: usize = p[0].parse().unwrap();
        let limit: usize = p[1].parse().unwrap();
        let q = Arc::new(StatsQueue::new(cap));
        let mut rep = Reporter::new(q.clone(), &Duration::from_secs(600), None);
        for op in p.get(2).map(|s| s.as_str()).unwrap_or("").split('|').filter(|s| !s.is_empty()) {
            if op == "D" {
                rep.receive_client_stats();
            } else {
                let mut s = PerClientStats::with_limit(limit);
                for ev in op[2..].split(',').filter(|x| !x.is_empty()) {
                    apply_op(&mut s, ev);
                }
                let snap: Vec<ClientStats> = s.iter().map(|(_, c)| *c).collect();
                if !snap.is_empty() {
                    q.force_push(snap);
                }
            }
        }
        format!("C={}", render_clients(rep.merged_client_stats()))
    });
    r.unwrap_or_else(|| "PANIC".into())
}

pub fn cmd_grease(_: &str) -> String { "TODO".into() }
