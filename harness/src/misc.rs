use std::time::{Duration, UNIX_EPOCH};

use roughenough::key::{LongTermKey, OnlineKey};
use roughenough::request;
use roughenough::{RtMessage, Tag};

use crate::codec::render_err;
use crate::crypto::oneshot_verify;
use crate::merkle::version_of;
use crate::util::{guarded, hex, unhex};

/// classify <srvhex> <dgramhex> : request::nonce_from_request on a 64 KiB buffer, as the server does
pub fn cmd_classify(arg: &str) -> String {
    let p: Vec<&str> = arg.trim().split(' ').collect();
    let srv = unhex(p[0]);
    let d = unhex(p.get(1).copied().unwrap_or("-"));
    let r = guarded(move || {
        let mut buf = vec![0u8; 65536];
        buf[..d.len()].copy_from_slice(&d);
        request::nonce_from_request(&buf, d.len(), &srv)
    });
    match r {
        None => "PANIC".into(),
        Some(Ok((n, v))) => format!("OK {} {:?}", hex(&n), v),
        Some(Err(e)) => format!("ERR {}", render_err(&e)),
    }
}

/// srep <ver> <secs> <nanos> <roothex> : OnlineKey::make_srep at a chosen clock value
pub fn cmd_srep(arg: &str) -> String {
    let p: Vec<&str> = arg.trim().split(' ').collect();
    let ver = version_of(p[0]);
    let secs: u64 = p[1].parse().unwrap();
    let nanos: u32 = p[2].parse().unwrap();
    let root = unhex(p[3]);
    let r = guarded(move || {
        let mut ok = OnlineKey::new();
        let dele = ok.make_dele();
        let pubk = dele.get_field(Tag::PUBK).unwrap().to_vec();
        let m = ok.make_srep(ver, UNIX_EPOCH + Duration::new(secs, nanos), &root);
        let sig = m.get_field(Tag::SIG).unwrap().to_vec();
        let srep = m.get_field(Tag::SREP).unwrap().to_vec();
        let mut signed = ver.sign_prefix().to_vec();
        signed.extend_from_slice(&srep);
        let okv = oneshot_verify(&pubk, &signed, &sig) == Some(true);
        format!("OK SREP={} NF={} SIGOK={}", hex(&srep), m.num_fields(), okv as u8)
    });
    r.unwrap_or_else(|| "PANIC".into())
}

/// ltk <seedhex> : LongTermKey::new(seed) -> public key and SRV value
pub fn cmd_ltk(arg: &str) -> String {
    let seed = unhex(arg.trim());
    let r = guarded(move || {
        let k = LongTermKey::new(&seed);
        format!("OK PK={} SRV={}", hex(&k.public_key()), hex(k.srv_value()))
    });
    r.unwrap_or_else(|| "PANIC".into())
}

/// cert <seedhex> <ver,ver,...> : one LongTermKey certifying a fresh OnlineKey per listed version,
/// in order, with the SAME signer object (as Server::new does for its two responders)
pub fn cmd_cert(arg: &str) -> String {
    let p: Vec<&str> = arg.trim().split(' ').collect();
    let seed = unhex(p[0]);
    let vers: Vec<String> = p[1].split(',').map(|s| s.to_string()).collect();
    let r = guarded(move || {
        let mut k = LongTermKey::new(&seed);
        let pk = k.public_key();
        let mut out = Vec::new();
        for v in &vers {
            let ver = version_of(v);
            let other = match ver {
                roughenough::version::Version::Google => roughenough::version::Version::RfcDraft13,
                _ => roughenough::version::Version::Google,
            };
            let ok = OnlineKey::new();
            let cert = k.make_cert(&ver, &ok);
            let sig = cert.get_field(Tag::SIG).unwrap().to_vec();
            let dele = cert.get_field(Tag::DELE).unwrap().to_vec();
            let mut own = ver.dele_prefix().to_vec();
            own.extend_from_slice(&dele);
            let mut oth = other.dele_prefix().to_vec();
            oth.extend_from_slice(&dele);
            let dm = RtMessage::from_bytes(&dele).unwrap();
            out.push(format!(
                "NF={} DELE=[MINT:{},MAXT:{},PUBKLEN:{}] OWN={} OTHER={}",
                cert.num_fields(),
                hex(dm.get_field(Tag::MINT).unwrap()),
                hex(dm.get_field(Tag::MAXT).unwrap()),
                dm.get_field(Tag::PUBK).unwrap().len(),
                (oneshot_verify(&pk, &own, &sig) == Some(true)) as u8,
                (oneshot_verify(&pk, &oth, &sig) == Some(true)) as u8
            ));
        }
        format!("OK {}", out.join(" | "))
    });
    r.unwrap_or_else(|| "PANIC".into())
}

pub fn cmd_envelope(_: &str) -> String { "TODO".into() }
pub fn cmd_envdec(_: &str) -> String { "TODO".into() }
pub fn cmd_stats(_: &str) -> String { "TODO".into() }
pub fn cmd_merge(_: &str) -> String { "TODO".into() }
pub fn cmd_grease(_: &str) -> String { "TODO".into() }
