pub fn cmd_merkle(_: &str) -> String { "TODO".into() }
pub fn cmd_mroot(_: &str) -> String { "TODO".into() }
