use roughenough::merkle::MerkleTree;
use roughenough::version::Version;

use crate::util::{fnv64, guarded, hex, unhex};

pub fn version_of(s: &str) -> Version {
    match s {
        "Google" | "0" => Version::Google,
        "RfcDraft13" | "13" => Version::RfcDraft13,
        _ => panic!("bad version {}", s),
    }
}

/// merkle <ver> <batch>|<batch>|...   (batch = leafhex,leafhex,...; '-' = empty leaf)
/// One reused MerkleTree: reset; push*; compute_root; get_paths(i) for every i.
/// Output per batch: R=<root> P=<len:fnv of each path> ; batches separated by ' | '
pub fn cmd_merkle(arg: &str) -> String {
    let mut it = arg.trim().splitn(2, ' ');
    let ver = version_of(it.next().unwrap());
    let batches: Vec<Vec<Vec<u8>>> = it
        .next()
        .unwrap_or("")
        .split('|')
        .map(|b| b.split(',').filter(|s| !s.is_empty()).map(unhex).collect())
        .collect();
    let r = guarded(move || {
        let mut tree = MerkleTree::new(ver);
        let mut outs = Vec::new();
        for leaves in &batches {
            tree.reset();
            for l in leaves {
                tree.push_leaf(l);
            }
            let root = tree.compute_root();
            let mut ps = Vec::new();
            for i in 0..leaves.len() {
                let p = tree.get_paths(i);
                ps.push(format!("{}:{}", p.len(), fnv64(&p)));
            }
            outs.push(format!("R={} P={}", hex(&root), ps.join(",")));
        }
        outs.join(" | ")
    });
    r.unwrap_or_else(|| "PANIC".to_string())
}

/// mroot <ver> <index> <leafhex> <pathhex> : root_from_paths on a fresh tree
pub fn cmd_mroot(arg: &str) -> String {
    let p: Vec<&str> = arg.trim().split(' ').collect();
    let ver = version_of(p[0]);
    let index: usize = p[1].parse().unwrap();
    let leaf = unhex(p[2]);
    let path = unhex(p[3]);
    match guarded(move || MerkleTree::new(ver).root_from_paths(index, &leaf, &path)) {
        None => "PANIC".to_string(),
        Some(r) => format!("OK {}", hex(&r)),
    }
}
