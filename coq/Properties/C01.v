(* C01 — the client never reports an unauthentic response as verified.
   Statements only. `authentic` (Spec/ClientGoals.v) spells out the property's conditions against
   the reference decoder and the protocol texts' constants. Freshness of the nonce is
   ring::rand::SystemRandom: a named assumption, not a theorem. *)
Require Import RV.Model.Bytes RV.Gen.Tables RV.Model.Client RV.Spec.RefMerkle RV.Spec.MerkleGoals
        RV.Spec.RefVerify RV.Spec.ClientGoals.
Require Import RV.Proofs.ClientSound.
Local Open Scope N_scope.

(* exit 0 with a time printed, given a key, ONLY IF the response is authentic: signature chain
   from that key over the delegation and from the delegated key over the signed response under the
   version's context strings, midpoint inside the delegation window, Merkle proof binding the
   client's own request to the signed root; then verified=Yes and the printed time is the signed
   midpoint converted from the protocol's unit *)
Theorem C01_sound :
  forall H ed_verify ed_point, HashLen H ->
  forall v pk nonce request dgram out,
    (length dgram <= 4096)%nat ->
    client_handle H ed_verify ed_point v (Some pk) nonce request dgram = Ok out ->
    authentic H ed_verify ed_point v pk request nonce dgram = true
    /\ o_verified out = true
    /\ exists midp, signed_midpoint v dgram = Some midp /\ (o_secs out, o_nsecs out) = time_of v midp.
Proof. exact client_sound. Qed.
Print Assumptions C01_sound.

(* any response failing one of the conditions makes the client fail: it never returns an error
   value, so "not Ok" is a panic — non-zero exit, no time printed *)
Theorem C01_fail_is_panic :
  forall H ed_verify ed_point v pko nonce request dgram e,
    client_handle H ed_verify ed_point v pko nonce request dgram <> Err e.
Proof. exact client_ok_or_panic. Qed.
Print Assumptions C01_fail_is_panic.

(* without a key nothing is reported as verified *)
Theorem C01_unverified_without_key :
  forall H ed_verify ed_point v nonce request dgram out,
    client_handle H ed_verify ed_point v None nonce request dgram = Ok out -> o_verified out = false.
Proof. exact client_unverified. Qed.
Print Assumptions C01_unverified_without_key.

(* a response authentic for one request is authentic for a different request (another nonce for
   classic, another request packet for IETF) only by exhibiting a hash collision: a replay of an
   earlier genuine response is never accepted for a later request *)
Theorem C01_no_replay :
  forall H ed_verify ed_point, HashLen H ->
  forall v pk req1 nonce1 req2 nonce2 reply,
    authentic H ed_verify ed_point v pk req1 nonce1 reply = true ->
    authentic H ed_verify ed_point v pk req2 nonce2 reply = true ->
    spec_leaf v req1 nonce1 <> spec_leaf v req2 nonce2 ->
    Collision (vhash H v) (spec_width v).
Proof. exact no_replay. Qed.
Print Assumptions C01_no_replay.

(* ---- a whole `-n N` run (all requests sent first, responses handled in order, each against its
   own nonce and request, no state carried from one response to the next) ---- *)
Require Import RV.Proofs.ClientRun.

(* every time the run prints belongs to an authentic response to THAT request, is reported as
   verified, and is that response's signed midpoint; a run that ends normally printed one time per
   request *)
Theorem C01_run_sound :
  forall H ed_verify ed_point, HashLen H -> forall v pk xs outs e,
    Forall arrived_ok xs -> client_run H ed_verify ed_point v (Some pk) xs = (outs, e) ->
    (length outs <= length xs)%nat
    /\ (forall i o, nth_error outs i = Some o ->
          exists x, nth_error xs i = Some x /\ good_output H ed_verify ed_point v pk x o)
    /\ (e = RunDone -> length outs = length xs).
Proof. exact run_outputs. Qed.
Print Assumptions C01_run_sound.

(* the first unauthentic response the run reaches ends the process with a panic (non-zero exit);
   nothing is printed for it or for anything after it — whatever genuine responses came before *)
Theorem C01_run_rejects :
  forall H ed_verify ed_point, HashLen H -> forall v pk xs i x d outs e,
    Forall arrived_ok xs -> client_run H ed_verify ed_point v (Some pk) xs = (outs, e) ->
    nth_error xs i = Some x -> ex_arrival x = Arrived d ->
    authentic H ed_verify ed_point v pk (ex_request x) (ex_nonce x) d = false ->
    (forall j x', (j < i)%nat -> nth_error xs j = Some x' -> ex_arrival x' <> TimedOut) ->
    exit_zero e = false /\ (length outs <= i)%nat.
Proof. exact run_rejects. Qed.
Print Assumptions C01_run_rejects.

Theorem C01_run_unverified_without_key :
  forall H ed_verify ed_point v xs outs e,
    client_run H ed_verify ed_point v None xs = (outs, e) -> Forall (fun o => o_verified o = false) outs.
Proof. exact run_unverified. Qed.
Print Assumptions C01_run_unverified_without_key.

(* ---- tie to the source: the integer literals of the functions this property's model stands for
   (private constants, bounds, unit factors; the files are SiteMap.files_C01) are today the ones the
   model was written against. Gen/Sites.v num_literals is regenerated from /repo on every run; a
   changed, added or removed number in a modelled function breaks this obligation ---- *)
Require RV.Gen.Sites RV.Model.SiteMap RV.Proofs.SitesLits.
Theorem C01_literals_reviewed : RV.Model.SiteMap.literals_ok RV.Model.SiteMap.files_C01.
Proof. apply RV.Proofs.SitesLits.literals_okb_sound. vm_compute. reflexivity. Qed.
Print Assumptions C01_literals_reviewed.

(* ---- the verification core AS TRANSLATED FROM THE SOURCE on this run ----
   Gen/Code.v (by /verif/rs2coq from src/bin/roughenough-client.rs): ResponseHandler::new,
   extract_time, validate_merkle, validate_midpoint, validate_dele, validate_srep — the nested
   decodes, every map[&Tag::X] (panics on a missing tag), every read_uNN().unwrap(), the asserts on
   the Merkle root and on MINT <= MIDP <= MAXT, the two signature checks with their context strings
   and the order in which all of this happens are taken from the code as written today; decoding,
   root_from_paths and the signature verifier go through the table in rs2coq/targets.txt. *)
Require Import RV.Model.Message RV.Model.GenSupport RV.Gen.Code RV.Proofs.CodeClient.

(* it computes exactly what the hand-written model of the handler computes (a value, or a panic) *)
Theorem C01_translated_handler_is_model :
  forall H ev ep v pk nonce request resp,
    ok_opt (gen_handle H ev ep v pk nonce request resp)
    = option_map drop_index (ok_opt (handle_response H ev ep v pk nonce request resp)).
Proof. exact gen_client_model. Qed.
Print Assumptions C01_translated_handler_is_model.

(* hence soundness holds of the code as written: whenever the translated handler returns for a
   pinned key, the datagram is authentic for THIS request, verified is true and the time is the
   signed midpoint *)
Theorem C01_translated_handler_sound :
  forall H ev ep, HashLen H ->
  forall v pk nonce request dgram resp p3 s ns,
    (length dgram <= 4096)%nat ->
    receive_response v dgram = Ok resp ->
    gen_handle H ev ep v (Some pk) nonce request resp = Ok p3 ->
    to_time v (p3_midpoint p3) = Ok (s, ns) ->
    authentic H ev ep v pk request nonce dgram = true
    /\ p3_verified p3 = true
    /\ exists midp, signed_midpoint v dgram = Some midp /\ (s, ns) = time_of v midp.
Proof. exact gen_client_sound. Qed.
Print Assumptions C01_translated_handler_sound.
