(* C01 — the client never reports an unauthentic response as verified.
   Statements only. `authentic` (Spec/ClientGoals.v) spells out the property's conditions against
   the reference decoder and the protocol texts' constants. Freshness of the nonce is
   ring::rand::SystemRandom: a named assumption, not a theorem. *)
Require Import RV.Model.Bytes RV.Gen.Tables RV.Model.Client RV.Spec.RefMerkle RV.Spec.MerkleGoals
        RV.Spec.RefVerify RV.Spec.ClientGoals.
Require Import RV.Proofs.ClientSound.
Local Open Scope N_scope.

(* exit 0 with a time printed, given a key, ONLY IF the response is authentic: signature chain
   from that key over the delegation and from the delegated key over the signed response under the
   version's context strings, midpoint inside the delegation window, Merkle proof binding the
   client's own request to the signed root; then verified=Yes and the printed time is the signed
   midpoint converted from the protocol's unit *)
Theorem C01_sound :
  forall H ed_verify ed_point, HashLen H ->
  forall v pk nonce request dgram out,
    (length dgram <= 4096)%nat ->
    client_handle H ed_verify ed_point v (Some pk) nonce request dgram = Ok out ->
    authentic H ed_verify ed_point v pk request nonce dgram = true
    /\ o_verified out = true
    /\ exists midp, signed_midpoint v dgram = Some midp /\ (o_secs out, o_nsecs out) = time_of v midp.
Proof. exact client_sound. Qed.
Print Assumptions C01_sound.

(* any response failing one of the conditions makes the client fail: it never returns an error
   value, so "not Ok" is a panic — non-zero exit, no time printed *)
Theorem C01_fail_is_panic :
  forall H ed_verify ed_point v pko nonce request dgram e,
    client_handle H ed_verify ed_point v pko nonce request dgram <> Err e.
Proof. exact client_ok_or_panic. Qed.
Print Assumptions C01_fail_is_panic.

(* without a key nothing is reported as verified *)
Theorem C01_unverified_without_key :
  forall H ed_verify ed_point v nonce request dgram out,
    client_handle H ed_verify ed_point v None nonce request dgram = Ok out -> o_verified out = false.
Proof. exact client_unverified. Qed.
Print Assumptions C01_unverified_without_key.

(* a response authentic for one request is authentic for a different request (another nonce for
   classic, another request packet for IETF) only by exhibiting a hash collision: a replay of an
   earlier genuine response is never accepted for a later request *)
Theorem C01_no_replay :
  forall H ed_verify ed_point, HashLen H ->
  forall v pk req1 nonce1 req2 nonce2 reply,
    authentic H ed_verify ed_point v pk req1 nonce1 reply = true ->
    authentic H ed_verify ed_point v pk req2 nonce2 reply = true ->
    spec_leaf v req1 nonce1 <> spec_leaf v req2 nonce2 ->
    Collision (vhash H v) (spec_width v).
Proof. exact no_replay. Qed.
Print Assumptions C01_no_replay.
