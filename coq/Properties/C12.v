(* C12 — IETF requests answered iff they name a supported version and this server.
   Statements only, on the implementation's classifier model. *)
Require Import RV.Model.Bytes RV.Gen.Tables RV.Model.Request RV.Model.Keys RV.Model.Message
        RV.Spec.RefCodec RV.Spec.RefVerify RV.Spec.MerkleGoals RV.Spec.ServerGoals.
Require Import RV.Proofs.RequestFacts.
Local Open Scope N_scope.

(* answered as IETF only if the version list contains draft-13 (within its first four entries) *)
Theorem C12_version_needed :
  forall srv d n, classify srv d = Ok (n, RfcDraft13) ->
    exists payload m ver, unframe d = Some payload /\ ref_decode payload = Some m
      /\ rget m VER = Some ver /\ In draft13_wire (firstn 4 (words_of ver)).
Proof. exact classify_version_needed. Qed.
Print Assumptions C12_version_needed.

(* always answered if draft-13 is among the first four entries and the other conditions hold *)
Theorem C12_first_four :
  forall srv d payload m ver nonce,
    (1024 <= length d <= 1500)%nat -> unframe d = Some payload -> ref_decode payload = Some m ->
    rget m VER = Some ver -> In draft13_wire (firstn 4 (words_of ver)) ->
    (rget m SRV = None \/ rget m SRV = Some srv) ->
    rget m NONC = Some nonce -> length nonce = 32%nat ->
    classify srv d = Ok (nonce, RfcDraft13).
Proof. exact classify_first_four. Qed.
Print Assumptions C12_first_four.

(* a request carrying SRV is answered only when the value is this server's *)
Theorem C12_srv :
  forall srv d n payload m s, classify srv d = Ok (n, RfcDraft13) ->
    unframe d = Some payload -> ref_decode payload = Some m -> rget m SRV = Some s -> s = srv.
Proof. exact classify_srv. Qed.
Print Assumptions C12_srv.

(* a framed request is never answered as classic *)
Theorem C12_never_classic :
  forall srv d n, classify srv d = Ok (n, Google) -> firstn 8 d <> magic.
Proof. exact classify_classic_never_framed. Qed.
Print Assumptions C12_never_classic.

(* the response states draft-13 as its version, and the list of supported versions, INSIDE the
   signed SREP value *)
Theorem C12_signed_version :
  forall now root,
    srep_bytes_of RfcDraft13 now root
    = canon [(VER, draft13_wire); (RADI, u32le 5); (MIDP, u64le (fst now));
             (VERS, [x00; x00; x00; x00] ++ draft13_wire); (ROOT, root)].
Proof. intros [secs nanos] root. reflexivity. Qed.
Print Assumptions C12_signed_version.

(* ---- tie to the source: the integer literals of the functions this property's model stands for
   (private constants, bounds, unit factors; the files are SiteMap.files_C12) are today the ones the
   model was written against. Gen/Sites.v num_literals is regenerated from /repo on every run; a
   changed, added or removed number in a modelled function breaks this obligation ---- *)
Require RV.Gen.Sites RV.Model.SiteMap RV.Proofs.SitesLits.
Theorem C12_literals_reviewed : RV.Model.SiteMap.literals_ok RV.Model.SiteMap.files_C12.
Proof. apply RV.Proofs.SitesLits.literals_okb_sound. vm_compute. reflexivity. Qed.
Print Assumptions C12_literals_reviewed.

(* ---- the version scan AS TRANSLATED FROM THE SOURCE on this run (see C07.v) ---- *)
Require Import RV.Model.GenSupport RV.Gen.Code RV.Proofs.CodeRequest.

Theorem C12_translated_version_scan_is_model :
  forall m, gen_get_supported_version m = Ok (get_supported_version m).
Proof. exact gen_get_supported_version_model. Qed.
Print Assumptions C12_translated_version_scan_is_model.

Theorem C12_translated_classifier_is_model :
  forall srv d rest, gen_nonce_from_request (d ++ rest) (lenN d) srv = classify srv d.
Proof. exact gen_nonce_from_request_model. Qed.
Print Assumptions C12_translated_classifier_is_model.
