(* C18 — under concurrent multi-worker load every request is answered once, validly.
   PARTIAL: the theorem is about N copies of the worker model under an ARBITRARY distribution of
   datagrams to workers and an arbitrary interleaving of their steps; that the kernel hands each
   datagram to exactly one bound socket and that worker threads share no mutable state besides the
   statistics queue are assumptions (observed by the load runs), thread liveness is observed. *)
Require Import RV.Model.Bytes RV.Gen.Tables RV.Model.Keys RV.Model.Server RV.Model.Process
        RV.Spec.MerkleGoals RV.Spec.ServerGoals RV.Spec.ProcessGoals.
Require Import RV.Proofs.ProcessFacts.
Local Open Scope N_scope.

(* whatever worker each burst is delivered to and in whatever order the workers run, every burst is
   answered by that worker with exactly the specified replies (one per accepted request, to its
   sender — C09), built with that worker's own online keys and certified under the ONE long-term
   key (so each verifies under ed_pk lt — C02), and every worker stays in a serving state *)
Theorem C18_product :
  forall H ed_pk ed_sign, HashLen H -> PkLen ed_pk -> SigLen ed_sign ->
  forall cfg lt oks ws evs,
    workers_inv H ed_pk ed_sign cfg lt oks ws -> Forall (fun e => (d_worker e < length ws)%nat) evs ->
    fault_pct cfg = 0 -> (1 <= batch_size cfg)%nat -> (batch_size cfg <= 255)%nat ->
    exists ws' outs,
      run_sys H ed_sign ws evs = Ok (ws', outs)
      /\ workers_inv H ed_pk ed_sign cfg lt oks ws'
      /\ map (fun wo => (fst wo, so_sent (snd wo))) outs
         = map (fun e =>
                  let ok := nth (d_worker e) oks ([], []) in
                  (d_worker e,
                   spec_drain_sent_f H ed_pk ed_sign (send_fails cfg) (S (length (d_queue e))) (batch_size cfg)
                     (ltk_srv_value H ed_pk lt) lt (fst ok) (snd ok) (d_clk e) 0 (d_queue e))) evs.
Proof. exact product. Qed.
Print Assumptions C18_product.

(* ---- tie to the source: the integer literals of the functions this property's model stands for
   (private constants, bounds, unit factors; the files are SiteMap.files_C18) are today the ones the
   model was written against. Gen/Sites.v num_literals is regenerated from /repo on every run; a
   changed, added or removed number in a modelled function breaks this obligation ---- *)
Require RV.Gen.Sites RV.Model.SiteMap RV.Proofs.SitesLits.
Theorem C18_literals_reviewed : RV.Model.SiteMap.literals_ok RV.Model.SiteMap.files_C18.
Proof. apply RV.Proofs.SitesLits.literals_okb_sound. vm_compute. reflexivity. Qed.
Print Assumptions C18_literals_reviewed.
