(* C09 — exactly one response per accepted request, to its sender, for its own nonce.
   Statements only; proofs are `exact <lemma>`. The functional specification (accepted,
   reply_msg, spec_replies, spec_batch_sent, spec_drain_sent, SInv) is Spec/ServerGoals.v;
   "accepted" is judged by the protocol spec `wellformed`, not by the implementation. *)
Require Import RV.Model.Bytes RV.Gen.Tables RV.Model.Merkle RV.Model.Keys RV.Model.Server
        RV.Spec.MerkleGoals RV.Spec.RefVerify RV.Spec.ServerGoals.
Require Import RV.Proofs.RequestFacts RV.Proofs.ServerFacts RV.Proofs.ServerCorollaries.
Local Open Scope N_scope.

(* Server::new establishes the state invariant *)
Theorem C09_server_new :
  forall H ed_pk ed_sign, PkLen ed_pk -> SigLen ed_sign ->
  forall cfg lt oi oc, exists s,
    server_new H ed_pk ed_sign cfg lt oi oc = Ok s /\ SInv H ed_pk ed_sign cfg lt oi oc s.
Proof. exact server_new_ok. Qed.
Print Assumptions C09_server_new.

(* Within and across batches: for ANY queue of datagrams and any state left behind by earlier
   traffic, the drain emits exactly the specified datagrams — per batch of batch_size, the IETF
   replies in arrival order then the classic replies in arrival order, each built for its own
   request (own nonce echoed, own index, own inclusion path under the root over exactly the
   accepted requests of its protocol in its batch) and addressed to its own source *)
Theorem C09_drain :
  forall H ed_pk ed_sign, HashLen H -> PkLen ed_pk -> SigLen ed_sign ->
  forall cfg lt oi oc s queue clk coins,
    SInv H ed_pk ed_sign cfg lt oi oc s -> fault_pct cfg = 0 -> sends_ok cfg ->
    (1 <= batch_size cfg)%nat -> (batch_size cfg <= 255)%nat ->
    let srv := ltk_srv_value H ed_pk lt in
    let n := batch_size cfg in
    exists s' lg,
      process_events H ed_sign s queue clk coins =
        Ok (s', mkso (spec_drain_sent H ed_pk ed_sign (S (length queue)) n srv lt oi oc clk 0 queue)
                     (spec_drain_stats H ed_pk ed_sign (S (length queue)) n srv lt oi oc clk 0 queue) lg)
      /\ SInv H ed_pk ed_sign cfg lt oi oc s'.
Proof. exact (fun H ed_pk ed_sign => drain_spec H ed_pk ed_sign classify_wellformed). Qed.
Print Assumptions C09_drain.

(* the same when the operating system refuses some sends (send_to returns an error for the
   destinations with send_fails cfg a = true): exactly the specified datagrams whose send succeeded
   are emitted, in the same order — a failed send loses that one reply and nothing else — and each
   failure is recorded as a failed send attempt (spec_drain_stats_f) *)
Theorem C09_drain_send_failures :
  forall H ed_pk ed_sign, HashLen H -> PkLen ed_pk -> SigLen ed_sign ->
  forall cfg lt oi oc s queue clk coins,
    SInv H ed_pk ed_sign cfg lt oi oc s -> fault_pct cfg = 0 ->
    (1 <= batch_size cfg)%nat -> (batch_size cfg <= 255)%nat ->
    let srv := ltk_srv_value H ed_pk lt in
    let n := batch_size cfg in
    let sf := send_fails cfg in
    exists s' lg,
      process_events H ed_sign s queue clk coins =
        Ok (s', mkso (spec_drain_sent_f H ed_pk ed_sign sf (S (length queue)) n srv lt oi oc clk 0 queue)
                     (spec_drain_stats_f H ed_pk ed_sign sf (S (length queue)) n srv lt oi oc clk 0 queue) lg)
      /\ SInv H ed_pk ed_sign cfg lt oi oc s'.
Proof. exact (fun H ed_pk ed_sign => drain_spec_f H ed_pk ed_sign classify_wellformed). Qed.
Print Assumptions C09_drain_send_failures.

(* exactly one datagram per accepted request *)
Theorem C09_one_each :
  forall H ed_pk ed_sign srv lt oi oc now ds,
    length (spec_batch_sent H ed_pk ed_sign srv lt oi oc now ds)
    = (length (accepted srv RfcDraft13 ds) + length (accepted srv Google ds))%nat.
Proof. exact batch_count. Qed.
Print Assumptions C09_one_each.

(* each goes to the source its request came from, protocols batched separately *)
Theorem C09_to_sender :
  forall H ed_pk ed_sign srv lt oi oc now ds,
    map em_dest (spec_batch_sent H ed_pk ed_sign srv lt oi oc now ds)
    = map req_src (accepted srv RfcDraft13 ds) ++ map req_src (accepted srv Google ds).
Proof. exact batch_dests. Qed.
Print Assumptions C09_to_sender.

(* rejected datagrams cause none: removing a datagram the spec rejects changes nothing *)
Theorem C09_rejected_none :
  forall srv v ds1 a d ds2, wellformed srv d = None ->
    accepted srv v (ds1 ++ (a, d) :: ds2) = accepted srv v (ds1 ++ ds2).
Proof. exact accepted_skip_invalid. Qed.
Print Assumptions C09_rejected_none.

(* the i-th reply of a protocol echoes the i-th accepted request's nonce and carries index i *)
Theorem C09_own_nonce_and_index :
  forall H ed_pk ed_sign v lt ok now reqs i,
    exists sig path srep cert,
      reply_msg H ed_pk ed_sign v lt ok now reqs i
      = [(SIG, sig); (NONC, req_nonce (nth i reqs req0)); (PATH, path); (SREP, srep); (CERT, cert);
         (INDX, u32le (N.of_nat i))].
Proof. intros. unfold reply_msg. repeat eexists. Qed.
Print Assumptions C09_own_nonce_and_index.

(* ---- tie to the source: the integer literals of the functions this property's model stands for
   (private constants, bounds, unit factors; the files are SiteMap.files_C09) are today the ones the
   model was written against. Gen/Sites.v num_literals is regenerated from /repo on every run; a
   changed, added or removed number in a modelled function breaks this obligation ---- *)
Require RV.Gen.Sites RV.Model.SiteMap RV.Proofs.SitesLits.
Theorem C09_literals_reviewed : RV.Model.SiteMap.literals_ok RV.Model.SiteMap.files_C09.
Proof. apply RV.Proofs.SitesLits.literals_okb_sound. vm_compute. reflexivity. Qed.
Print Assumptions C09_literals_reviewed.

(* ---- Responder::make_response AS TRANSLATED FROM THE SOURCE on this run: which six fields a reply
   carries, in which order, with the request's own nonce, path and index ---- *)
Require Import RV.Model.GenSupport RV.Gen.Code RV.Proofs.CodeResp.

Theorem C09_translated_make_response_is_model :
  forall srep cert_bytes path idx nonce,
    ok_opt (gen_make_response tt srep cert_bytes path idx nonce)
    = ok_opt (make_response srep cert_bytes path idx nonce).
Proof. exact gen_make_response_model. Qed.
Print Assumptions C09_translated_make_response_is_model.

(* ---- Responder::send_responses, add_classic_request, add_ietf_request and reset, translated from
   src/responder.rs on this run. `socket` is the list of datagrams handed to the network, `stats`
   the list of recorded events, the PRNG decisions of grease and the answer of send_to for a
   destination are inputs. Same tree afterwards, same datagrams in the same order to the same
   destinations, same events, same decisions consumed as the model's send_responses, or both fail.
   (nonces_ok: every queued nonce has at least 4 bytes — the debug record of the model prints 4.) ---- *)
Require RV.Proofs.CodeLib RV.Proofs.CodeRespond.
Theorem C09_translated_send_responses_is_model :
  forall H ed_sign cfg now r g sock st,
  RV.Proofs.CodeRespond.nonces_ok (r_requests r) -> g_fault g = fault_pct cfg ->
  ok_opt (RV.Proofs.CodeLib.omap (fun '(t', g', s', st') => (t', g_coins g', s', st'))
     (gen_send_responses H ed_sign now (send_fails cfg) (r_version r) (r_online_seed r) (r_cert_bytes r)
        (r_requests r) (r_merkle r) g sock st))
  = RV.Proofs.CodeLib.obo (ok_opt (send_responses H ed_sign cfg r now (g_coins g))) (fun '(r', bo) =>
      Some (r_merkle r', bo_coins bo, sock ++ bo_sent bo, st ++ bo_stats bo)).
Proof. exact RV.Proofs.CodeRespond.gen_send_responses_model. Qed.
Print Assumptions C09_translated_send_responses_is_model.

Theorem C09_translated_queueing_is_model :
  forall H r data nonce src,
  RV.Proofs.CodeLib.omap (fun '(t, rq) => mkresp (r_version r) (r_online_seed r) (r_cert_bytes r) rq t)
       (gen_add_ietf_request H (r_merkle r) (r_requests r) data nonce src)
  = lift (responder_add H r data nonce src)
  /\ RV.Proofs.CodeLib.omap (fun '(t, rq) => mkresp (r_version r) (r_online_seed r) (r_cert_bytes r) rq t)
       (gen_add_classic_request H (r_merkle r) (r_requests r) nonce src)
  = lift (responder_add H r nonce nonce src)
  /\ RV.Proofs.CodeLib.omap (fun '(t, rq) => mkresp (r_version r) (r_online_seed r) (r_cert_bytes r) rq t)
       (gen_responder_reset (r_merkle r) (r_requests r))
  = Ok (responder_reset r).
Proof. exact RV.Proofs.CodeRespond.gen_queueing_model. Qed.
Print Assumptions C09_translated_queueing_is_model.

(* ---- Server::process_events, translated from src/server.rs on this run, for a wake-up with the
   UDP socket readable: `loop { reset both responders; collect_requests; send IETF; send classic;
   if socket_now_empty { break } }` (a loop on fuel = queue length + 1) is the model's drain: same
   datagrams in the same order, same statistics events, same responders afterwards, or both fail.
   (self.socket = (waiting, sent); the k-th batch reads the clock clk k; the PRNG decisions are
   shared by the two responders as in the model.) ---- *)
Theorem C09_translated_process_events_is_model :
  forall H ed_sign cfg clk on_health on_status srv ri rc q sent buf st coins k events,
  ok_opt (RV.Proofs.CodeLib.omap (fun '(sock, _, ri', rc', st', _, _) => (ri', rc', snd sock, st'))
     (gen_process_events H ed_sign cfg clk [EvMessage] on_health on_status (N.of_nat (batch_size cfg))
        (q, sent) buf srv ri rc st coins k events))
  = RV.Proofs.CodeLib.obo (ok_opt (drain H ed_sign (S (length q)) (mksrv cfg srv ri rc) q clk k coins))
      (fun '(s2, o) => Some (s_ietf s2, s_classic s2, sent ++ so_sent o, st ++ so_stats o)).
Proof. exact RV.Proofs.CodeRespond.gen_process_events_model. Qed.
Print Assumptions C09_translated_process_events_is_model.

(* a wake-up for the health-check listener or the statistics timer touches neither the responders
   nor the UDP socket *)
Theorem C09_translated_other_events_leave_requests_alone :
  forall H ed_sign cfg clk on_health on_status bs srv ri rc sock buf st coins k events,
  gen_process_events H ed_sign cfg clk [EvHealthCheck] on_health on_status bs sock buf srv ri rc st coins k events
  = Ok (sock, buf, ri, rc, on_health st, coins, k)
  /\ gen_process_events H ed_sign cfg clk [EvStatusUpdate] on_health on_status bs sock buf srv ri rc st coins k events
  = Ok (sock, buf, ri, rc, on_status st, coins, k).
Proof. exact RV.Proofs.CodeRespond.gen_process_events_other. Qed.
Print Assumptions C09_translated_other_events_leave_requests_alone.

(* C09 of the code as written: with fault injection off and sends succeeding, one wake-up of the
   TRANSLATED process_events, on any server state reachable from Server::new, hands the socket exactly
   the specified datagrams — one per accepted request, in arrival order within each protocol and batch,
   each to its sender — and records exactly the specified events (proved by composing the translated-
   equals-model theorem with C09_drain) *)
Theorem C09_translated_process_events_meets_spec :
  forall H ed_pk ed_sign, HashLen H -> PkLen ed_pk -> SigLen ed_sign ->
  forall cfg lt oi oc s queue clk coins on_health on_status sent buf st events,
    SInv H ed_pk ed_sign cfg lt oi oc s -> fault_pct cfg = 0 -> sends_ok cfg ->
    (1 <= batch_size cfg)%nat -> (batch_size cfg <= 255)%nat ->
    let srv := ltk_srv_value H ed_pk lt in
    let n := batch_size cfg in
    exists ri' rc',
      ok_opt (RV.Proofs.CodeLib.omap (fun '(sock, _, ri', rc', st', _, _) => (ri', rc', snd sock, st'))
         (gen_process_events H ed_sign cfg clk [EvMessage] on_health on_status (N.of_nat n)
            (queue, sent) buf srv (s_ietf s) (s_classic s) st coins 0%nat events))
      = Some (ri', rc',
              sent ++ spec_drain_sent H ed_pk ed_sign (S (length queue)) n srv lt oi oc clk 0 queue,
              st ++ spec_drain_stats H ed_pk ed_sign (S (length queue)) n srv lt oi oc clk 0 queue).
Proof. exact RV.Proofs.CodeRespond.gen_process_events_spec. Qed.
Print Assumptions C09_translated_process_events_meets_spec.
