(* C15 — every documented in-range configuration yields a fully serving server.
   PARTIAL: thread creation, kernel bind semantics and timing are observed on the real binary over
   the configuration grid; what is proved is the logic of start-up under the shared config mutex and
   the port table (whose bind rule is written into the model: a second TCP bind succeeds only if all
   binders set SO_REUSEPORT) and of the edge-triggered health-check accept loop. *)
Require Import RV.Model.Process RV.Spec.ProcessGoals RV.Proofs.ProcessFacts.
From Coq Require Import List.
Import ListNotations.

(* for EVERY interleaving of main's spawns and the workers' initialisations: no worker dies during
   start-up and the config mutex is never poisoned (health port absent, or bound with SO_REUSEPORT
   as the code now does) *)
Theorem C15_startup_safe :
  forall health reuseport n sched,
    (health = false \/ reuseport = true) ->
    su_poisoned (su_run health reuseport n sched) = false
    /\ count_phase Dead (su_phases (su_run health reuseport n sched)) = 0%nat.
Proof. exact startup_safe. Qed.
Print Assumptions C15_startup_safe.

(* progress from every reachable state: a spawned worker that runs its initialisation is serving
   afterwards and stays serving whatever happens next; main can always spawn the next worker *)
Theorem C15_startup_progress :
  forall health reuseport n sched w,
    (health = false \/ reuseport = true) -> (w < n)%nat ->
    let st := su_run health reuseport n sched in
    (nth_error (su_phases st) w = Some Waiting ->
       nth_error (su_phases (su_step health reuseport n st (WorkerInit w))) w = Some Serving)
    /\ (nth_error (su_phases st) w = Some Serving ->
        forall more, nth_error (su_phases (fold_left (su_step health reuseport n) more st)) w = Some Serving)
    /\ ((su_spawned st < n)%nat ->
        su_spawned (su_step health reuseport n st MainSpawn) = S (su_spawned st)
        /\ nth_error (su_phases (su_step health reuseport n st MainSpawn)) (su_spawned st) = Some Waiting).
Proof. exact startup_progress. Qed.
Print Assumptions C15_startup_progress.

(* a complete schedule, and anything after it, ends with all n workers serving *)
Theorem C15_all_serving :
  forall health reuseport n more,
    (health = false \/ reuseport = true) ->
    let sched := repeat MainSpawn n ++ map WorkerInit (seq 0 n) ++ more in
    count_phase Serving (su_phases (su_run health reuseport n sched)) = n.
Proof. exact startup_all_serving. Qed.
Print Assumptions C15_all_serving.

(* the behaviour BEFORE the fix (health port bound without SO_REUSEPORT), kept as a theorem about
   the model with reuseport = false: whatever the schedule, at most one worker ever serves *)
Theorem C15_without_reuseport_refuted :
  forall n sched, (count_phase Serving (su_phases (su_run true false n sched)) <= 1)%nat.
Proof. exact startup_refuted. Qed.
Print Assumptions C15_without_reuseport_refuted.

(* health check: accepting until WouldBlock answers every connection of every burst pattern *)
Theorem C15_health_every_connection :
  forall bursts, health_run true 0 bursts = (fold_right Nat.add 0%nat bursts, 0%nat).
Proof. exact health_all. Qed.
Print Assumptions C15_health_every_connection.

(* one accept per edge-triggered event (the behaviour before the fix) leaves connections unanswered *)
Example C15_one_accept_per_event_refuted : health_run false 0 [20; 1; 1] = (3%nat, 19%nat).
Proof. reflexivity. Qed.

(* ---- tie to the source: the integer literals of the functions this property's model stands for
   (private constants, bounds, unit factors; the files are SiteMap.files_C15) are today the ones the
   model was written against. Gen/Sites.v num_literals is regenerated from /repo on every run; a
   changed, added or removed number in a modelled function breaks this obligation ---- *)
Require RV.Gen.Sites RV.Model.SiteMap RV.Proofs.SitesLits.
Theorem C15_literals_reviewed : RV.Model.SiteMap.literals_ok RV.Model.SiteMap.files_C15.
Proof. apply RV.Proofs.SitesLits.literals_okb_sound. vm_compute. reflexivity. Qed.
Print Assumptions C15_literals_reviewed.

(* with the listener registered edge-triggered, ANY fixed bound on the accepts per readiness event
   loses connections: a burst of k+1 connections folded into one event, then silence, leaves one
   connection unanswered for ever (no further event is raised for it); only accepting until
   WouldBlock (cap = None, the code as it is: C15_health_every_connection) answers them all *)
Theorem C15_bounded_accepts_refuted :
  forall k, health_run_cap (Some k) 0 [S k] = (k, 1%nat).
Proof.
  intro k. cbn [health_run_cap health_event_cap Nat.add].
  assert (Hm : Nat.min k (S k) = k) by (apply PeanoNat.Nat.min_l; apply PeanoNat.Nat.le_succ_diag_r).
  rewrite Hm.
  assert (Hs : (S k - k)%nat = 1%nat) by (rewrite PeanoNat.Nat.sub_succ_l by apply PeanoNat.Nat.le_refl; rewrite PeanoNat.Nat.sub_diag; reflexivity).
  rewrite Hs, PeanoNat.Nat.add_0_r. reflexivity.
Qed.
Print Assumptions C15_bounded_accepts_refuted.

Theorem C15_unbounded_accepts_is_health_run :
  forall backlog bursts, health_run_cap None backlog bursts = health_run true backlog bursts.
Proof.
  intros backlog bursts. revert backlog. induction bursts as [|b r IH]; intro backlog; [reflexivity|].
  cbn [health_run_cap health_run health_event_cap health_event]. rewrite IH. reflexivity.
Qed.
Print Assumptions C15_unbounded_accepts_is_health_run.

(* ---- the health-check handler AS TRANSLATED FROM THE SOURCE on this run ----
   Gen/Code.v gen_handle_health_check is produced by /verif/rs2coq from src/server.rs: the `loop`, the
   match on `listener.accept()` with its guarded WouldBlock arm, the recorder call, the two ignored
   write / shutdown results, the two `break`s. The listener is its backlog of established connections
   (Model/GenSupport.v hl_accept). One readiness event answers every pending connection, in order, up to
   an accept error other than WouldBlock, and records one health check for each. *)
Require Import RV.Model.Bytes RV.Model.Server RV.Model.GenSupport RV.Gen.Code RV.Proofs.CodeHealth.

Theorem C15_translated_health_handler_is_model :
  forall l st,
  gen_handle_health_check (Some l) st
  = Ok (snd (health_accepts l), (st ++ map SHealthCheck (fst (health_accepts l)))%list).
Proof. exact gen_handle_health_check_model. Qed.
Print Assumptions C15_translated_health_handler_is_model.

(* the `health_event true` of the model above: the whole backlog is answered by ONE event and nothing is
   left for an event that (the registration being edge-triggered) would never come *)
Theorem C15_translated_health_every_connection :
  forall l st, no_accept_failure l ->
  exists answered, gen_handle_health_check (Some l) st = Ok ([], (st ++ map SHealthCheck answered)%list)
                   /\ length answered = fst (health_event true (length l)).
Proof. exact gen_health_every_connection. Qed.
Print Assumptions C15_translated_health_every_connection.

Example C15_translated_health_example :
  gen_handle_health_check (Some [HConn 7%N true true; HConn 9%N false true; HConn 7%N true false]) []
  = Ok ([], [SHealthCheck 7%N; SHealthCheck 9%N; SHealthCheck 7%N]).
Proof. reflexivity. Qed.

(* main AS TRANSLATED (see C16_translated_main_is_spec): exit status 0 is reached only after a configuration
   was loaded and validated, exactly its threads were spawned — one worker per num_workers, the reporter iff
   client_stats — and every one of them ended without a panic *)
Require Import RV.Model.Config RV.Model.ConfigLoad RV.Model.LoadModel RV.Proofs.CodeLoad RV.Proofs.CodeMain.
From Coq Require Import ZArith.
Theorem C15_translated_main_spawns_the_configured_threads :
  forall argc arg cores env fs valid bind_ok joins_ok ths,
  main_spec argc arg cores env fs valid bind_ok joins_ok = Err (ExitWith 0 ths) ->
  exists c, (if bytes_eqb arg t_ENV then env_load cores env else file_load cores (fs arg)) = Ok c
            /\ valid c = true /\ ths = threads_of c /\ forallb joins_ok ths = true
            /\ length (filter (fun t => match t with TWorker _ => true | TReporter => false end) ths) = N.to_nat (Z.to_N (lc_workers c)).
Proof. exact main_exit_0. Qed.
Print Assumptions C15_translated_main_spawns_the_configured_threads.

(* the two socket set-ups AS TRANSLATED (bind_socket of the server binary, Server::bind_health_listener): both the
   worker's UDP socket and the health check's TCP listener are bound with SO_REUSEADDR and SO_REUSEPORT set —
   the `reuseport = true` under which C15_all_serving holds (and without which C15_without_reuseport_refuted
   shows the second worker failing to bind) *)
Require Import RV.Proofs.CodeSockets.
Theorem C15_translated_sockets_bound_with_reuseport :
  forall addr_ok bind_ok a v6 ra rp bl,
  (gen_bind_socket addr_ok bind_ok tt = Ok (Bound v6 ra rp bl) \/ gen_bind_health_listener bind_ok a = Ok (Bound v6 ra rp bl)) ->
  ra = true /\ rp = true.
Proof. exact sockets_bound_with_reuseport. Qed.
Print Assumptions C15_translated_sockets_bound_with_reuseport.

(* three statements of Server::new AS TRANSLATED: a worker has a health-check listener exactly when a health port
   is configured — bound with both reuse options and registered, or the worker does not come up at all (never a
   worker that serves with a configured health port and no listener); which recorder it runs with and how often it
   publishes are read off the loaded configuration *)
Require Import RV.Proofs.CodeServerNew.
Theorem C15_translated_health_listener_iff_configured :
  forall addr_ok bind_ok registered c,
  gen_server_new_health_listener addr_ok bind_ok registered c
  = match lc_health c with
    | None => Ok None
    | Some _ => if addr_ok && bind_ok true true && registered then Ok (Some (Bound false true true 1024%N)) else Panic site_gen
    end.
Proof. exact gen_server_new_health_listener_model. Qed.
Print Assumptions C15_translated_health_listener_iff_configured.
