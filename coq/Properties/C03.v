(* C03 — the project's own client accepts every honest response and prints its midpoint.
   Statements only. "Honest response" = the reply the server specification prescribes
   (Spec/ServerGoals.v reply_bytes), which is what the server model provably emits (C09_drain) and
   what an independent verifier accepts (C02): the two halves are proved to fit each other. *)
Require Import RV.Model.Bytes RV.Gen.Tables RV.Model.Keys RV.Model.Client RV.Model.Server
        RV.Spec.MerkleGoals RV.Spec.RefVerify RV.Spec.ServerGoals RV.Spec.ClientGoals.
Require Import RV.Proofs.ClientComplete.
Local Open Scope N_scope.

(* the request the client builds is 1024 bytes (classic) / 1036 bytes (IETF: 1024 + 12 framing),
   with or without SRV, and is a well-formed request for the server it names *)
Theorem C03_request_shape :
  forall H v nonce pko,
    length nonce = spec_nonce_len v ->
    (match pko with Some pk => length pk = 32%nat | None => True end) -> HashLen H ->
    exists rq, make_request H v nonce pko = Ok rq
      /\ length rq = (match v with Google => 1024 | RfcDraft13 => 1036 end)%nat
      /\ wellformed (match pko with Some pk => calc_srv_value H pk | None => [] end) rq = Some (nonce, v).
Proof. exact request_shape. Qed.
Print Assumptions C03_request_shape.

(* without a key the request is accepted by any server *)
Theorem C03_request_any_server :
  forall H v nonce srv, length nonce = spec_nonce_len v -> HashLen H ->
    exists rq, make_request H v nonce None = Ok rq /\ wellformed srv rq = Some (nonce, v).
Proof. exact request_any_server. Qed.
Print Assumptions C03_request_any_server.

(* for every honest reply — any batch of up to 64 requests, any position, either protocol, with or
   without the pinned key — the client accepts (no panic), reports verified exactly when a key was
   supplied, and prints exactly the signed midpoint converted from the protocol's unit, for every
   midpoint chrono can represent (beyond year 9999) *)
Theorem C03_complete :
  forall H ed_pk ed_sign ed_verify ed_point,
    HashLen H -> PkLen ed_pk -> SigLen ed_sign -> SigCorrect ed_pk ed_sign ed_verify ->
    PointOk ed_pk ed_point ->
    forall v srv lt ok now ds i pko,
      let reqs := accepted srv v ds in
      let r := nth i reqs req0 in
      (i < length reqs)%nat -> (length reqs <= 64)%nat ->
      fst now < two64 -> fst (time_of v (midp_of v now)) <= TS_MAX ->
      (pko = None \/ pko = Some (ed_pk lt)) ->
      client_handle H ed_verify ed_point v pko (req_nonce r) (req_dgram r)
                    (reply_bytes H ed_pk ed_sign v lt ok now reqs i)
      = Ok (mkout (match pko with Some _ => true | None => false end)
                  (fst (time_of v (midp_of v now))) (snd (time_of v (midp_of v now)))
                  (radi_of v) (N.of_nat i)).
Proof. exact client_complete. Qed.
Print Assumptions C03_complete.

(* non-vacuity of the time bound: year 9999's last second is representable *)
Example C03_year_9999 : 253402300799 <= TS_MAX.
Proof. vm_compute. discriminate. Qed.

(* ---- tie to the source: make_request, verify_framing and receive_response as translated from
   src/bin/roughenough-client.rs on this run compute what the model computes (same bytes / same
   message, or both fail); receive_response is stated on the client's zeroed 4096-byte buffer and
   calls the translated decoder ---- *)
Require RV.Model.GenSupport RV.Gen.Code RV.Proofs.CodeClientReq.
Theorem C03_translated_make_request_is_model :
  forall H v nonce dump pk,
    ok_opt (RV.Gen.Code.gen_make_request H v nonce dump pk) = ok_opt (make_request H v nonce pk).
Proof. exact RV.Proofs.CodeClientReq.gen_make_request_model. Qed.
Print Assumptions C03_translated_make_request_is_model.

Theorem C03_translated_receive_is_model :
  forall v dgram, (length dgram <= RECV_BUF)%nat ->
    ok_opt (RV.Gen.Code.gen_receive_response v (dgram ++ repeat_byte x00 (RECV_BUF - length dgram)) (lenN dgram))
    = ok_opt (receive_response v dgram).
Proof. exact RV.Proofs.CodeClientReq.gen_receive_response_model. Qed.
Print Assumptions C03_translated_receive_is_model.

(* ---- tie to the source: the integer literals of the functions this property's model stands for
   (private constants, bounds, unit factors; the files are SiteMap.files_C03) are today the ones the
   model was written against. Gen/Sites.v num_literals is regenerated from /repo on every run; a
   changed, added or removed number in a modelled function breaks this obligation ---- *)
Require RV.Gen.Sites RV.Model.SiteMap RV.Proofs.SitesLits.
Theorem C03_literals_reviewed : RV.Model.SiteMap.literals_ok RV.Model.SiteMap.files_C03.
Proof. apply RV.Proofs.SitesLits.literals_okb_sound. vm_compute. reflexivity. Qed.
Print Assumptions C03_literals_reviewed.

(* ---- what main prints, AS TRANSLATED: the one statement of the client's response loop that turns the midpoint
   into the (seconds, nanoseconds) handed to chrono. Classic: the instant printed is exactly the signed midpoint
   (microseconds) — s * 10^9 + ns = midpoint * 1000 with ns < 10^9, no truncation by the u32 cast, no underflow
   of the checked subtraction; IETF: the midpoint in seconds, zero nanoseconds. ---- *)
Require Import RV.Proofs.CodeClientOut.
From Coq Require Import NArith.

Theorem C03_translated_printed_time_is_model :
  forall v m,
  RV.Gen.Code.gen_client_midpoint_to_time v m
  = Ok (match v with
        | Google => ((m / 1000000)%N, ((m mod 1000000) * 1000)%N)
        | RfcDraft13 => (m, 0%N)
        end).
Proof. exact gen_client_midpoint_to_time_model. Qed.
Print Assumptions C03_translated_printed_time_is_model.

Theorem C03_translated_printed_time_is_the_midpoint :
  forall v m s ns,
  RV.Gen.Code.gen_client_midpoint_to_time v m = Ok (s, ns) ->
  match v with
  | Google => (s * 1000000000 + ns = m * 1000)%N /\ (ns < 1000000000)%N
  | RfcDraft13 => s = m /\ ns = 0%N
  end.
Proof. exact gen_client_time_is_the_midpoint. Qed.
Print Assumptions C03_translated_printed_time_is_the_midpoint.
