(* C03 — statements to come *)
Require Import RV.Model.Client.
