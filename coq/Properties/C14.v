(* C14 — envelope-encrypted seed: round-trips, detects tampering, leaks nothing.
   Statements only; proofs are `exact <lemma>`. AEAD and KMS provider are abstract.
   PARTIAL: "a modified blob is rejected" and "the blob reveals nothing about seed or DEK" are
   cryptographic properties of AES-GCM / the provider and are not theorems; what is proved is the
   logic around them: the round trip, panic-freedom for every blob and provider answer, that every
   byte of an accepted blob is a validated length, an input to the provider, or authenticated by
   the AEAD (no path to a plaintext bypasses them), and the data flow of the blob. The
   cryptographic clauses are observed by the correspondence run against real AES-256-GCM. *)
Require Import RV.Model.Bytes RV.Model.Envelope RV.Spec.EnvelopeGoals RV.Proofs.EnvelopeFacts.
Local Open Scope N_scope.

Theorem C14_roundtrip :
  forall seal open wrap unwrap dek nonce p w,
    length dek = 32%nat -> length nonce = 12%nat -> (32 <= length p)%nat ->
    length (seal dek nonce AD p) = (length p + 16)%nat ->
    open dek nonce AD (seal dek nonce AD p) = Some p ->
    wrap dek = Ok w -> unwrap w = Ok dek -> (N.of_nat (length w) < 65536) ->
    exists blob, encrypt_seed seal wrap dek nonce p = Ok blob
                 /\ decrypt_seed open unwrap blob = Ok p.
Proof. exact env_roundtrip. Qed.
Print Assumptions C14_roundtrip.

Theorem C14_no_panic_partial :
  forall open unwrap, (forall w, is_panic (unwrap w) = false) ->
  forall blob, is_panic (decrypt_seed open unwrap blob) = false.
Proof. exact env_no_panic. Qed.
Print Assumptions C14_no_panic_partial.

Theorem C14_authenticated :
  forall open unwrap blob p, decrypt_seed open unwrap blob = Ok p ->
    exists w n c k,
      blob = u16le (N.of_nat (length w)) ++ u16le 12 ++ w ++ n ++ c
      /\ (N.of_nat (length w) < 65536) /\ length n = 12%nat
      /\ unwrap w = Ok k /\ length k = 32%nat /\ open k n AD c = Some p.
Proof. exact env_authenticated. Qed.
Print Assumptions C14_authenticated.

Theorem C14_parse_injective :
  forall b1 b2 t, parse_blob b1 = Ok t -> parse_blob b2 = Ok t -> b1 = b2.
Proof. exact env_parse_injective. Qed.
Print Assumptions C14_parse_injective.

Theorem C14_flow :
  forall seal wrap dek nonce p blob, encrypt_seed seal wrap dek nonce p = Ok blob ->
    exists w, wrap dek = Ok w
      /\ blob = u16le (N.of_nat (length w) mod 65536) ++ u16le (N.of_nat (length nonce) mod 65536)
                ++ w ++ nonce ++ seal dek nonce AD p.
Proof. exact env_flow. Qed.
Print Assumptions C14_flow.

(* the unguarded statement is false of the model: a provider that itself panics propagates *)
Theorem C14_no_panic_unguarded_refuted :
  ~ (forall open unwrap blob, is_panic (decrypt_seed open unwrap blob) = false).
Proof. exact env_no_panic_false. Qed.
Print Assumptions C14_no_panic_unguarded_refuted.

(* ---- tie to the source: EnvelopeEncryption::decrypt_seed and encrypt_seed as translated from
   src/kms/envelope.rs on this run ARE the model's functions (AES-256-GCM and the KMS provider are
   parameters; the random DEK and nonce are inputs): every length check, the cursor reads, the
   order of the fields written ---- *)
Require RV.Model.GenSupport RV.Gen.Code RV.Proofs.CodeEnvelope.
Theorem C14_translated_decrypt_is_model :
  forall open unwrap_dek blob,
    RV.Gen.Code.gen_decrypt_seed unwrap_dek open tt blob = decrypt_seed open unwrap_dek blob.
Proof. exact RV.Proofs.CodeEnvelope.gen_decrypt_seed_model. Qed.
Print Assumptions C14_translated_decrypt_is_model.

Theorem C14_translated_encrypt_is_model :
  forall seal wrap_dek dek nonce plaintext, length dek = DEK_LEN_BYTES ->
    RV.Gen.Code.gen_encrypt_seed nonce dek wrap_dek seal tt plaintext
    = encrypt_seed seal wrap_dek dek nonce plaintext.
Proof. exact RV.Proofs.CodeEnvelope.gen_encrypt_seed_model. Qed.
Print Assumptions C14_translated_encrypt_is_model.

(* C14 of the code as written: the round trip and panic-freedom hold of the TRANSLATED functions *)
Theorem C14_translated_roundtrip :
  forall seal open wrap unwrap dek nonce p w,
    length dek = 32%nat -> length nonce = 12%nat -> (32 <= length p)%nat ->
    length (seal dek nonce AD p) = (length p + 16)%nat ->
    open dek nonce AD (seal dek nonce AD p) = Some p ->
    wrap dek = Ok w -> unwrap w = Ok dek -> (N.of_nat (length w) < 65536) ->
    exists blob, RV.Gen.Code.gen_encrypt_seed nonce dek wrap seal tt p = Ok blob
                 /\ RV.Gen.Code.gen_decrypt_seed unwrap open tt blob = Ok p.
Proof. exact RV.Proofs.CodeEnvelope.gen_roundtrip. Qed.
Print Assumptions C14_translated_roundtrip.

Theorem C14_translated_decrypt_never_panics :
  forall open unwrap, (forall w, is_panic (unwrap w) = false) ->
  forall blob, is_panic (RV.Gen.Code.gen_decrypt_seed unwrap open tt blob) = false.
Proof. exact RV.Proofs.CodeEnvelope.gen_decrypt_no_panic. Qed.
Print Assumptions C14_translated_decrypt_never_panics.

(* ---- tie to the source: the integer literals of the functions this property's model stands for
   (private constants, bounds, unit factors; the files are SiteMap.files_C14) are today the ones the
   model was written against. Gen/Sites.v num_literals is regenerated from /repo on every run; a
   changed, added or removed number in a modelled function breaks this obligation ---- *)
Require RV.Gen.Sites RV.Model.SiteMap RV.Proofs.SitesLits.
Theorem C14_literals_reviewed : RV.Model.SiteMap.literals_ok RV.Model.SiteMap.files_C14.
Proof. apply RV.Proofs.SitesLits.literals_okb_sound. vm_compute. reflexivity. Qed.
Print Assumptions C14_literals_reviewed.
