(* C06 — decoding and printing untrusted bytes never panics or reads out of bounds.
   Statements only; every proof is `exact <lemma from Proofs/>`. *)
Require Import RV.Model.Bytes RV.Gen.Tables RV.Model.Tag RV.Model.Message RV.Spec.RefCodec.
Require Import RV.Spec.CodecGoals RV.Proofs.CodecDecode RV.Proofs.CodecEncode.
Local Open Scope N_scope.

(* for every byte string of ANY length, decoding returns a message or an error: every panic
   site of the model (slice bounds, index, assert) is unreachable *)
Theorem C06_decode_total : forall bs, is_panic (from_bytes bs) = false.
Proof. exact decode_total. Qed.
Print Assumptions C06_decode_total.

(* the values of an accepted non-empty message, concatenated in order, are exactly the input
   bytes that follow the 8n-byte header: nothing invented, nothing read past the end *)
Theorem C06_values_are_payload :
  forall bs m, from_bytes bs = Ok m -> m <> [] ->
               concat (map snd m) = skipn (8 * length m) bs.
Proof. exact values_are_payload. Qed.
Print Assumptions C06_values_are_payload.

(* formatting ANY message for display returns normally, whatever its nested fields contain *)
Theorem C06_display_total : forall m, exists s, to_string m = Ok s.
Proof. exact display_total. Qed.
Print Assumptions C06_display_total.

(* the display recursion is bounded by MAX_DISPLAY_DEPTH regardless of how deeply the input
   nests (the resource whose exhaustion would be a stack overflow) *)
Theorem C06_display_depth :
  forall m indent fuel, (1 <= indent)%nat -> (S MAX_DISPLAY_DEPTH - indent < fuel)%nat ->
                        exists s, to_string_f fuel indent m = Ok s.
Proof. exact display_fuel. Qed.
Print Assumptions C06_display_depth.

(* non-vacuity / anchor: the former crash input `01000000 "CERT" ffffffff` decodes and displays *)
Example C06_former_crash_input_displays :
  exists m s, from_bytes [x01; x00; x00; x00; x43; x45; x52; x54; xff; xff; xff; xff] = Ok m
              /\ m <> [] /\ to_string m = Ok s.
Proof. eexists. eexists. split; [vm_compute; reflexivity|]. split; [discriminate|vm_compute; reflexivity]. Qed.

(* ---- tie to the source: RtMessage::from_bytes / single_tag_message / multi_tag_message as
   translated from src/message.rs on this run never panic, for every byte string: none of the
   translated slices, index operations, `usize` subtractions or `?` conversions can fail ---- *)
Require RV.Model.GenSupport RV.Gen.Code RV.Proofs.CodeMsgDec RV.Proofs.CodeMsgDisp.

Theorem C06_translated_decoder_total : forall bs, is_panic (RV.Gen.Code.gen_from_bytes bs) = false.
Proof. exact RV.Proofs.CodeMsgDec.gen_decoder_total. Qed.
Print Assumptions C06_translated_decoder_total.

Theorem C06_translated_values_are_payload :
  forall bs m, RV.Gen.Code.gen_from_bytes bs = Ok m -> m <> [] ->
               concat (map snd m) = skipn (8 * length m) bs.
Proof. exact RV.Proofs.CodeMsgDec.gen_values_are_payload. Qed.
Print Assumptions C06_translated_values_are_payload.

(* RtMessage::to_string as translated (a Fixpoint on the model's fuel; the recursive call is the
   source's own `nested_msg.to_string(indent_level + 1)`) is the model's display function, and
   Display (`to_string(1)`) returns normally for every message *)
Theorem C06_translated_display_is_model :
  forall fuel tags values indent, length tags = length values -> 1 <= indent ->
    RV.Gen.Code.gen_to_string fuel tags values indent
    = to_string_f fuel (N.to_nat indent) (combine tags values).
Proof. exact RV.Proofs.CodeMsgDisp.gen_to_string_model. Qed.
Print Assumptions C06_translated_display_is_model.

Theorem C06_translated_display_total :
  forall tags values, length tags = length values ->
    exists s, RV.Gen.Code.gen_to_string (S MAX_DISPLAY_DEPTH) tags values 1 = Ok s.
Proof. exact RV.Proofs.CodeMsgDisp.gen_display_total. Qed.
Print Assumptions C06_translated_display_total.

(* ---- tie to the source: the integer literals of the functions this property's model stands for
   (private constants, bounds, unit factors; the files are SiteMap.files_C06) are today the ones the
   model was written against. Gen/Sites.v num_literals is regenerated from /repo on every run; a
   changed, added or removed number in a modelled function breaks this obligation ---- *)
Require RV.Gen.Sites RV.Model.SiteMap RV.Proofs.SitesLits.
Theorem C06_literals_reviewed : RV.Model.SiteMap.literals_ok RV.Model.SiteMap.files_C06.
Proof. apply RV.Proofs.SitesLits.literals_okb_sound. vm_compute. reflexivity. Qed.
Print Assumptions C06_literals_reviewed.
