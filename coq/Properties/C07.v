(* C07 — statements to come *)
Require Import RV.Model.Server.
