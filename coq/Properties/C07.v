(* C07 — server answers only well-formed 1024-1500 byte requests, never amplifying.
   Statements only. *)
Require Import RV.Model.Bytes RV.Gen.Tables RV.Model.Message RV.Model.Merkle RV.Model.Request RV.Model.Keys
        RV.Model.Server RV.Spec.MerkleGoals RV.Spec.RefVerify RV.Spec.ServerGoals.
Require Import RV.Proofs.RequestFacts RV.Proofs.ReplyFacts RV.Proofs.ServerCorollaries.
Local Open Scope N_scope.

(* for EVERY datagram: the classifier accepts exactly the protocol's well-formed requests
   (1024..1500 bytes; classic: decodes and has a 64-byte NONC; IETF: magic, exact frame length,
   draft-13 among the first four VER entries, SRV absent or this server's, a 32-byte NONC), with
   the same nonce and protocol — and never panics *)
Theorem C07_only_wellformed :
  forall srv d, ok_opt (classify srv d) = wellformed srv d /\ is_panic (classify srv d) = false.
Proof. exact classify_wellformed. Qed.
Print Assumptions C07_only_wellformed.

Theorem C07_length_gate :
  forall srv d n v, classify srv d = Ok (n, v) ->
    length n = (match v with Google => 64 | RfcDraft13 => 32 end)%nat /\ (1024 <= length d <= 1500)%nat.
Proof. exact classify_nonce_length. Qed.
Print Assumptions C07_length_gate.

(* every other datagram is dropped silently (it contributes no emission) *)
Theorem C07_silent :
  forall srv v ds1 a d ds2, wellformed srv d = None ->
    accepted srv v (ds1 ++ (a, d) :: ds2) = accepted srv v (ds1 ++ ds2).
Proof. exact accepted_skip_invalid. Qed.
Print Assumptions C07_silent.

(* no response is longer than the request that elicited it: with at most 64 requests per batch
   every reply is at most 1024 bytes and every accepted request at least 1024 *)
Theorem C07_size :
  forall H ed_pk ed_sign, HashLen H -> PkLen ed_pk -> SigLen ed_sign ->
    forall v srv lt ok now ds i,
      let reqs := accepted srv v ds in
      (i < length reqs)%nat -> (length reqs <= 64)%nat ->
      (length (reply_bytes H ed_pk ed_sign v lt ok now reqs i) <= 1024)%nat
      /\ (1024 <= length (req_dgram (nth i reqs req0)))%nat.
Proof. exact reply_size. Qed.
Print Assumptions C07_size.

(* ---- tie to the source: the integer literals of the functions this property's model stands for
   (private constants, bounds, unit factors; the files are SiteMap.files_C07) are today the ones the
   model was written against. Gen/Sites.v num_literals is regenerated from /repo on every run; a
   changed, added or removed number in a modelled function breaks this obligation ---- *)
Require RV.Gen.Sites RV.Model.SiteMap RV.Proofs.SitesFacts.
Theorem C07_literals_reviewed : RV.Model.SiteMap.literals_ok RV.Model.SiteMap.files_C07.
Proof. apply RV.Proofs.SitesFacts.literals_okb_sound. vm_compute. reflexivity. Qed.
Print Assumptions C07_literals_reviewed.
