(* C07 — server answers only well-formed 1024-1500 byte requests, never amplifying.
   Statements only. *)
Require Import RV.Model.Bytes RV.Gen.Tables RV.Model.Message RV.Model.Merkle RV.Model.Request RV.Model.Keys
        RV.Model.Server RV.Spec.MerkleGoals RV.Spec.RefVerify RV.Spec.ServerGoals.
Require Import RV.Proofs.RequestFacts RV.Proofs.ReplyFacts RV.Proofs.ServerCorollaries.
Local Open Scope N_scope.

(* for EVERY datagram: the classifier accepts exactly the protocol's well-formed requests
   (1024..1500 bytes; classic: decodes and has a 64-byte NONC; IETF: magic, exact frame length,
   draft-13 among the first four VER entries, SRV absent or this server's, a 32-byte NONC), with
   the same nonce and protocol — and never panics *)
Theorem C07_only_wellformed :
  forall srv d, ok_opt (classify srv d) = wellformed srv d /\ is_panic (classify srv d) = false.
Proof. exact classify_wellformed. Qed.
Print Assumptions C07_only_wellformed.

Theorem C07_length_gate :
  forall srv d n v, classify srv d = Ok (n, v) ->
    length n = (match v with Google => 64 | RfcDraft13 => 32 end)%nat /\ (1024 <= length d <= 1500)%nat.
Proof. exact classify_nonce_length. Qed.
Print Assumptions C07_length_gate.

(* every other datagram is dropped silently (it contributes no emission) *)
Theorem C07_silent :
  forall srv v ds1 a d ds2, wellformed srv d = None ->
    accepted srv v (ds1 ++ (a, d) :: ds2) = accepted srv v (ds1 ++ ds2).
Proof. exact accepted_skip_invalid. Qed.
Print Assumptions C07_silent.

(* no response is longer than the request that elicited it: with at most 64 requests per batch
   every reply is at most 1024 bytes and every accepted request at least 1024 *)
Theorem C07_size :
  forall H ed_pk ed_sign, HashLen H -> PkLen ed_pk -> SigLen ed_sign ->
    forall v srv lt ok now ds i,
      let reqs := accepted srv v ds in
      (i < length reqs)%nat -> (length reqs <= 64)%nat ->
      (length (reply_bytes H ed_pk ed_sign v lt ok now reqs i) <= 1024)%nat
      /\ (1024 <= length (req_dgram (nth i reqs req0)))%nat.
Proof. exact reply_size. Qed.
Print Assumptions C07_size.

(* ---- tie to the source: the integer literals of the functions this property's model stands for
   (private constants, bounds, unit factors; the files are SiteMap.files_C07) are today the ones the
   model was written against. Gen/Sites.v num_literals is regenerated from /repo on every run; a
   changed, added or removed number in a modelled function breaks this obligation ---- *)
Require RV.Gen.Sites RV.Model.SiteMap RV.Proofs.SitesLits.
Theorem C07_literals_reviewed : RV.Model.SiteMap.literals_ok RV.Model.SiteMap.files_C07.
Proof. apply RV.Proofs.SitesLits.literals_okb_sound. vm_compute. reflexivity. Qed.
Print Assumptions C07_literals_reviewed.

(* ---- the classifier AS TRANSLATED FROM THE SOURCE on this run ----
   Gen/Code.v gen_nonce_from_request (with gen_is_rfc_request, gen_nonce_from_classic_request,
   gen_nonce_from_rfc_request, gen_get_supported_version) is produced by /verif/rs2coq from
   src/request.rs: the length gate, the framing test, `?`, early returns, the match guards, the
   nested version loops and the checked `buf.len() - 12` are translated structurally; message
   decoding, field lookup and slicing go through the table in rs2coq/targets.txt. On the receive
   buffer `d ++ rest` (whatever stale bytes follow the datagram) with num_bytes = |d| it is the
   modelled classifier — in particular none of its panic sites (slices, the subtraction, the unwrap)
   is reachable — so C07_only_wellformed holds of the code as written today. *)
Require Import RV.Model.GenSupport RV.Gen.Code RV.Proofs.CodeRequest.

Theorem C07_translated_classifier_is_model :
  forall srv d rest, gen_nonce_from_request (d ++ rest) (lenN d) srv = classify srv d.
Proof. exact gen_nonce_from_request_model. Qed.
Print Assumptions C07_translated_classifier_is_model.

Theorem C07_translated_classifier_only_wellformed :
  forall srv d rest,
    ok_opt (gen_nonce_from_request (d ++ rest) (lenN d) srv) = wellformed srv d
    /\ is_panic (gen_nonce_from_request (d ++ rest) (lenN d) srv) = false.
Proof. intros srv d rest. rewrite gen_nonce_from_request_model. apply C07_only_wellformed. Qed.
Print Assumptions C07_translated_classifier_only_wellformed.

(* ---- Server::collect_requests itself, translated from src/server.rs on this run: the socket is
   the queue of waiting datagrams, the statistics recorder the list of recorded events. It reads at
   most batch_size datagrams, classifies each with the translated nonce_from_request, queues the
   accepted ones on the responder of their protocol, records exactly one event per datagram and
   reports an empty socket exactly when fewer than batch_size were waiting — the model's `collect`
   on the datagrams read (the stale tail of the receive buffer is not compared) ---- *)
Require RV.Proofs.CodeLib RV.Proofs.CodeCollect.
Theorem C07_translated_collect_is_model :
  forall H srv cfg n q buf ri rc st i,
  RV.Proofs.CodeLib.omap (fun '(b, (q', _, ri', rc', st')) => (b, q', ri', rc', st'))
       (gen_collect_requests H (N.of_nat n) q buf srv ri rc st)
  = obind (collect H srv cfg ri rc (firstn n q) i) (fun '(ri', rc', sts, _) =>
      Ok ((length q <? n)%nat, skipn n q, ri', rc', st ++ sts)).
Proof. exact RV.Proofs.CodeCollect.gen_collect_requests_model. Qed.
Print Assumptions C07_translated_collect_is_model.
