(* C19 — SIGINT or SIGTERM at any moment stops the server cleanly and promptly.
   PARTIAL: signal delivery, the ctrlc thread, thread joins and wall-clock bounds are observed by
   the signal sweep on the real binary; what is proved is the logic of the worker loop.
   KNOWN FINDING (known_findings.json, class flood-shutdown): the full-strength clause — prompt
   exit also under an open-loop flood — is false; C19_flood_never_returns is its refutation. *)
Require Import RV.Model.Bytes RV.Gen.Tables RV.Model.Merkle RV.Model.Keys RV.Model.Server RV.Model.Process
        RV.Spec.MerkleGoals RV.Spec.ServerGoals RV.Spec.ProcessGoals.
Require Import RV.Proofs.ProcessFacts.
Local Open Scope N_scope.

(* every response emitted before exit is complete and valid: whatever arrives while a drain runs,
   every datagram sent belongs to a COMPLETED batch whose output is exactly the specified one
   (hence verifies, C02); the flag is only ever tested between process_events calls *)
Theorem C19_whole_replies_only :
  forall H ed_pk ed_sign, HashLen H -> PkLen ed_pk -> SigLen ed_sign ->
  forall cfg lt oi oc fuel s queue arrivals clk k coins s' outs,
    SInv H ed_pk ed_sign cfg lt oi oc s -> fault_pct cfg = 0 ->
    (1 <= batch_size cfg)%nat -> (batch_size cfg <= 255)%nat ->
    drain_live H ed_sign fuel s queue arrivals clk k coins = Ok (s', outs) ->
    SInv H ed_pk ed_sign cfg lt oi oc s'
    /\ Forall (fun o => exists ds now,
                 (length ds <= batch_size cfg)%nat
                 /\ so_sent o = spec_batch_sent_f H ed_pk ed_sign (send_fails cfg) (ltk_srv_value H ed_pk lt) lt oi oc now ds) outs.
Proof. exact whole_batches. Qed.
Print Assumptions C19_whole_replies_only.

(* idle or under traffic that does not arrive during the drains, the loop returns right after the
   iteration in which the flag is seen: flag_at - i + 1 iterations, each at most one poll timeout
   plus one finite drain *)
Theorem C19_exit_prompt :
  forall H ed_pk ed_sign, HashLen H -> PkLen ed_pk -> SigLen ed_sign ->
  forall cfg lt oi oc iters s i flag_at traffic batches clk,
    SInv H ed_pk ed_sign cfg lt oi oc s -> fault_pct cfg = 0 ->
    (1 <= batch_size cfg)%nat -> (batch_size cfg <= 255)%nat ->
    (i <= flag_at)%nat -> (flag_at - i < iters)%nat ->
    (forall j, (i <= j <= flag_at)%nat ->
               (forall k, snd (traffic j) k = []) /\ (length (fst (traffic j)) < batches j)%nat) ->
    exists r, polling_loop H ed_sign iters s i flag_at traffic batches clk = Ok r
              /\ length r = (flag_at - i + 1)%nat.
Proof. exact exit_prompt. Qed.
Print Assumptions C19_exit_prompt.

(* REFUTATION of "promptly, also under a flood that keeps the receive queue non-empty": if at
   least batch_size datagrams arrive during every batch, then for EVERY bound the drain has not
   returned, so the shutdown flag is never tested *)
Theorem C19_flood_never_returns :
  forall H ed_pk ed_sign, HashLen H -> PkLen ed_pk -> SigLen ed_sign ->
  forall cfg lt oi oc fuel s queue arrivals clk k coins,
    SInv H ed_pk ed_sign cfg lt oi oc s -> fault_pct cfg = 0 ->
    (1 <= batch_size cfg)%nat -> (batch_size cfg <= 255)%nat ->
    (batch_size cfg <= length queue)%nat ->
    (forall j, (batch_size cfg <= length (arrivals j))%nat) ->
    drain_live H ed_sign fuel s queue arrivals clk k coins = Panic site_mfuel.
Proof. exact flood_never_returns. Qed.
Print Assumptions C19_flood_never_returns.

(* ---- tie to the source: the integer literals of the functions this property's model stands for
   (private constants, bounds, unit factors; the files are SiteMap.files_C19) are today the ones the
   model was written against. Gen/Sites.v num_literals is regenerated from /repo on every run; a
   changed, added or removed number in a modelled function breaks this obligation ---- *)
Require RV.Gen.Sites RV.Model.SiteMap RV.Proofs.SitesLits.
Theorem C19_literals_reviewed : RV.Model.SiteMap.literals_ok RV.Model.SiteMap.files_C19.
Proof. apply RV.Proofs.SitesLits.literals_okb_sound. vm_compute. reflexivity. Qed.
Print Assumptions C19_literals_reviewed.

(* ---- the worker's loop AS TRANSLATED FROM THE SOURCE on this run (polling_loop of
   src/bin/roughenough-server.rs): `loop { server.process_events(..); if !KEEP_RUNNING.load(..) { return; } }`.
   process_events of call number i is `step s i`, the answer of the load after it is `flag i`. The translated
   loop is the functional `worker`; it tests the flag after EVERY call and only there; when the flag is first
   found cleared after call number i + n, exactly the calls i .. i + n are made (or one of them did not
   return); and the worker-loop model the theorems above are about (polling_loop of Model/Process.v) is this
   loop with process_events = the live drain. ---- *)
Require Import RV.Model.GenSupport RV.Gen.Code RV.Proofs.CodeWorker.
From Coq Require Import List. Import ListNotations.

Theorem C19_translated_worker_loop_is_model :
  forall WS WO step flag fuel init i outs,
  gen_polling_loop WS WO init step flag fuel tt tt tt i outs = worker WS WO step flag fuel init i outs.
Proof. exact gen_polling_loop_model. Qed.
Print Assumptions C19_translated_worker_loop_is_model.

Theorem C19_worker_stops_at_the_first_cleared_flag :
  forall WS WO step flag n fuel s i outs,
  (n < fuel)%nat ->
  (forall j, (i <= j < i + n)%nat -> flag j = true) -> flag (i + n)%nat = false ->
  match worker WS WO step flag fuel s i outs with
  | Ok (calls, outs') => calls = S (i + n) /\ length outs' = (length outs + S n)%nat
  | Err _ => True
  | Panic _ => exists j s0, (i <= j <= i + n)%nat /\ (forall r, step s0 j <> Ok r)
  end.
Proof. exact worker_stops_at_flag. Qed.
Print Assumptions C19_worker_stops_at_the_first_cleared_flag.

Theorem C19_model_loop_is_the_translated_loop :
  forall H ed_sign iters s i flag_at traffic batches clk acc,
  ok_opt (res_map (fun r => acc ++ r) (polling_loop H ed_sign iters s i flag_at traffic batches clk))
  = ok_opt (res_map snd
      (worker server (list serve_out)
         (fun s j => drain_live H ed_sign (batches j) s (fst (traffic j)) (snd (traffic j)) clk 0 [])
         (fun j => negb (flag_at <=? j)%nat) iters s i acc)).
Proof. exact model_polling_loop_is_worker. Qed.
Print Assumptions C19_model_loop_is_the_translated_loop.

(* main AS TRANSLATED (see C16_translated_main_is_spec): the process exits with status 0 only after every
   thread it spawned — the workers and, with client_stats, the reporter — has been joined and none of them
   panicked; a thread that panicked turns the exit into a panic of main (status 101), never into status 0 *)
Require Import RV.Model.Config RV.Model.ConfigLoad RV.Model.LoadModel RV.Proofs.CodeLoad RV.Proofs.CodeMain.
From Coq Require Import ZArith NArith.
Theorem C19_translated_exit_0_only_after_every_thread_ended :
  forall argc arg cores env fs valid bind_ok joins_ok ths,
  main_spec argc arg cores env fs valid bind_ok joins_ok = Err (ExitWith 0 ths) ->
  exists c, (if bytes_eqb arg t_ENV then env_load cores env else file_load cores (fs arg)) = Ok c
            /\ valid c = true /\ ths = threads_of c /\ forallb joins_ok ths = true
            /\ length (filter (fun t => match t with TWorker _ => true | TReporter => false end) ths) = N.to_nat (Z.to_N (lc_workers c)).
Proof. exact main_exit_0. Qed.
Print Assumptions C19_translated_exit_0_only_after_every_thread_ended.
