(* C19 — SIGINT or SIGTERM at any moment stops the server cleanly and promptly.
   PARTIAL: signal delivery, the ctrlc thread, thread joins and wall-clock bounds are observed by
   the signal sweep on the real binary; what is proved is the logic of the worker loop.
   KNOWN FINDING (known_findings.json, class flood-shutdown): the full-strength clause — prompt
   exit also under an open-loop flood — is false; C19_flood_never_returns is its refutation. *)
Require Import RV.Model.Bytes RV.Gen.Tables RV.Model.Merkle RV.Model.Keys RV.Model.Server RV.Model.Process
        RV.Spec.MerkleGoals RV.Spec.ServerGoals RV.Spec.ProcessGoals.
Require Import RV.Proofs.ProcessFacts.
Local Open Scope N_scope.

(* every response emitted before exit is complete and valid: whatever arrives while a drain runs,
   every datagram sent belongs to a COMPLETED batch whose output is exactly the specified one
   (hence verifies, C02); the flag is only ever tested between process_events calls *)
Theorem C19_whole_replies_only :
  forall H ed_pk ed_sign, HashLen H -> PkLen ed_pk -> SigLen ed_sign ->
  forall cfg lt oi oc fuel s queue arrivals clk k coins s' outs,
    SInv H ed_pk ed_sign cfg lt oi oc s -> fault_pct cfg = 0 ->
    (1 <= batch_size cfg)%nat -> (batch_size cfg <= 255)%nat ->
    drain_live H ed_sign fuel s queue arrivals clk k coins = Ok (s', outs) ->
    SInv H ed_pk ed_sign cfg lt oi oc s'
    /\ Forall (fun o => exists ds now,
                 (length ds <= batch_size cfg)%nat
                 /\ so_sent o = spec_batch_sent_f H ed_pk ed_sign (send_fails cfg) (ltk_srv_value H ed_pk lt) lt oi oc now ds) outs.
Proof. exact whole_batches. Qed.
Print Assumptions C19_whole_replies_only.

(* idle or under traffic that does not arrive during the drains, the loop returns right after the
   iteration in which the flag is seen: flag_at - i + 1 iterations, each at most one poll timeout
   plus one finite drain *)
Theorem C19_exit_prompt :
  forall H ed_pk ed_sign, HashLen H -> PkLen ed_pk -> SigLen ed_sign ->
  forall cfg lt oi oc iters s i flag_at traffic batches clk,
    SInv H ed_pk ed_sign cfg lt oi oc s -> fault_pct cfg = 0 ->
    (1 <= batch_size cfg)%nat -> (batch_size cfg <= 255)%nat ->
    (i <= flag_at)%nat -> (flag_at - i < iters)%nat ->
    (forall j, (i <= j <= flag_at)%nat ->
               (forall k, snd (traffic j) k = []) /\ (length (fst (traffic j)) < batches j)%nat) ->
    exists r, polling_loop H ed_sign iters s i flag_at traffic batches clk = Ok r
              /\ length r = (flag_at - i + 1)%nat.
Proof. exact exit_prompt. Qed.
Print Assumptions C19_exit_prompt.

(* REFUTATION of "promptly, also under a flood that keeps the receive queue non-empty": if at
   least batch_size datagrams arrive during every batch, then for EVERY bound the drain has not
   returned, so the shutdown flag is never tested *)
Theorem C19_flood_never_returns :
  forall H ed_pk ed_sign, HashLen H -> PkLen ed_pk -> SigLen ed_sign ->
  forall cfg lt oi oc fuel s queue arrivals clk k coins,
    SInv H ed_pk ed_sign cfg lt oi oc s -> fault_pct cfg = 0 ->
    (1 <= batch_size cfg)%nat -> (batch_size cfg <= 255)%nat ->
    (batch_size cfg <= length queue)%nat ->
    (forall j, (batch_size cfg <= length (arrivals j))%nat) ->
    drain_live H ed_sign fuel s queue arrivals clk k coins = Panic site_mfuel.
Proof. exact flood_never_returns. Qed.
Print Assumptions C19_flood_never_returns.

(* ---- tie to the source: the integer literals of the functions this property's model stands for
   (private constants, bounds, unit factors; the files are SiteMap.files_C19) are today the ones the
   model was written against. Gen/Sites.v num_literals is regenerated from /repo on every run; a
   changed, added or removed number in a modelled function breaks this obligation ---- *)
Require RV.Gen.Sites RV.Model.SiteMap RV.Proofs.SitesLits.
Theorem C19_literals_reviewed : RV.Model.SiteMap.literals_ok RV.Model.SiteMap.files_C19.
Proof. apply RV.Proofs.SitesLits.literals_okb_sound. vm_compute. reflexivity. Qed.
Print Assumptions C19_literals_reviewed.
