(* C08 — no datagram sequence can crash or wedge a serving worker. Statements only. *)
Require Import RV.Model.Bytes RV.Gen.Tables RV.Model.Merkle RV.Model.Keys RV.Model.Server
        RV.Spec.MerkleGoals RV.Spec.ServerGoals.
Require Import RV.Proofs.RequestFacts RV.Proofs.ServerFacts.
Local Open Scope N_scope.

(* For every queue of datagrams, every log level (the debug! argument nonce[0..4] is evaluated
   in the model exactly when the level enables it), every fault percentage and every PRNG
   outcome (Shuffle permutations over the six fields), processing returns normally — no panic
   site is reached and the explicit fuel S (length queue) suffices, i.e. the drain terminates —
   and the state still satisfies the invariant every theorem about serving assumes. *)
Theorem C08_no_panic :
  forall H ed_pk ed_sign, HashLen H -> PkLen ed_pk -> SigLen ed_sign ->
  forall cfg lt oi oc s queue clk coins,
    SInv H ed_pk ed_sign cfg lt oi oc s -> (1 <= batch_size cfg)%nat -> (batch_size cfg <= 255)%nat ->
    Forall coin_ok coins ->
    exists s' out,
      process_events H ed_sign s queue clk coins = Ok (s', out) /\ SInv H ed_pk ed_sign cfg lt oi oc s'.
Proof. exact (fun H ed_pk ed_sign => no_panic H ed_pk ed_sign classify_wellformed). Qed.
Print Assumptions C08_no_panic.

(* a valid request sent afterwards is answered correctly: after ANY earlier traffic the next
   call emits exactly the specified replies (fault injection off), minus those whose send_to the
   environment fails — those are counted as failed send attempts *)
Theorem C08_still_serves :
  forall H ed_pk ed_sign, HashLen H -> PkLen ed_pk -> SigLen ed_sign ->
  forall cfg lt oi oc s q1 clk1 coins1 q2 clk2 coins2,
    SInv H ed_pk ed_sign cfg lt oi oc s -> fault_pct cfg = 0 ->
    (1 <= batch_size cfg)%nat -> (batch_size cfg <= 255)%nat ->
    exists s1 out1 s2 lg,
      process_events H ed_sign s q1 clk1 coins1 = Ok (s1, out1)
      /\ process_events H ed_sign s1 q2 clk2 coins2 =
           Ok (s2, mkso (spec_drain_sent_f H ed_pk ed_sign (send_fails cfg) (S (length q2)) (batch_size cfg)
                           (ltk_srv_value H ed_pk lt) lt oi oc clk2 0 q2)
                        (spec_drain_stats_f H ed_pk ed_sign (send_fails cfg) (S (length q2)) (batch_size cfg)
                           (ltk_srv_value H ed_pk lt) lt oi oc clk2 0 q2) lg).
Proof.
  intros H ed_pk ed_sign HH HP HS cfg lt oi oc s q1 clk1 coins1 q2 clk2 coins2 Hinv Hf Hb1 Hb2.
  destruct (drain_spec_f H ed_pk ed_sign classify_wellformed HH HP HS cfg lt oi oc s q1 clk1 coins1 Hinv Hf Hb1 Hb2)
    as [s1 [lg1 [E1 Hinv1]]].
  destruct (drain_spec_f H ed_pk ed_sign classify_wellformed HH HP HS cfg lt oi oc s1 q2 clk2 coins2 Hinv1 Hf Hb1 Hb2)
    as [s2 [lg2 [E2 _]]].
  exists s1. eexists. exists s2, lg2. split; [exact E1|exact E2].
Qed.
Print Assumptions C08_still_serves.

Require Import RV.Proofs.SitesPanic RV.Gen.Sites RV.Model.SiteMap.

(* the model has the panics the code has: every panic-capable expression (unwrap, expect, assert,
   panic!, range slice) in today's scan of the modelled files is in the reviewed site map *)
Theorem C08_panic_sites_reviewed :
  forall s, In s panic_sites -> exists note, In (s, note) panic_site_map.
Proof. exact panic_sites_covered. Qed.
Print Assumptions C08_panic_sites_reviewed.

(* ---- tie to the source: the integer literals of the functions this property's model stands for
   (private constants, bounds, unit factors; the files are SiteMap.files_C08) are today the ones the
   model was written against. Gen/Sites.v num_literals is regenerated from /repo on every run; a
   changed, added or removed number in a modelled function breaks this obligation ---- *)
Require RV.Gen.Sites RV.Model.SiteMap RV.Proofs.SitesLits.
Theorem C08_literals_reviewed : RV.Model.SiteMap.literals_ok RV.Model.SiteMap.files_C08.
Proof. apply RV.Proofs.SitesLits.literals_okb_sound. vm_compute. reflexivity. Qed.
Print Assumptions C08_literals_reviewed.

(* ---- Server::compute_delay AS TRANSLATED FROM THE SOURCE on this run (the jittered delay with which every
   statistics tick re-arms its timer): `base - Duration::from_millis(jitter)` is a subtraction that panics on
   underflow; it is only reached for a base of at least one second and a jitter of at most 255 ms, so it never
   does, and the timer is re-armed with a positive delay within 255 ms of the base. (The draw loop ends at the
   first generator output whose low byte is not zero.) ---- *)
Require Import RV.Model.Bytes RV.Model.Message RV.Model.GenSupport RV.Gen.Code RV.Proofs.CodeDelay.
From Coq Require Import NArith List.

Theorem C08_translated_timer_delay_is_model :
  forall base zs v rest,
  (second <= base)%N -> (forall z, In z zs -> low_byte z = 0%N) -> low_byte v <> 0%N ->
  gen_compute_delay base (zs ++ v :: rest)
  = Ok (if (N.land (low_byte v) 1 =? 1)%N then (base - low_byte v * ms)%N else (base + low_byte v * ms)%N, rest).
Proof. exact gen_compute_delay_model. Qed.
Print Assumptions C08_translated_timer_delay_is_model.

Theorem C08_translated_timer_delay_bounds :
  forall base zs v rest d r,
  (second <= base)%N -> (forall z, In z zs -> low_byte z = 0%N) -> low_byte v <> 0%N ->
  gen_compute_delay base (zs ++ v :: rest) = Ok (d, r) ->
  (0 < d)%N /\ (base - 255 * ms <= d <= base + 255 * ms)%N /\ d <> base /\ r = rest.
Proof. exact gen_compute_delay_bounds. Qed.
Print Assumptions C08_translated_timer_delay_bounds.

Theorem C08_translated_timer_delay_small :
  forall base rng, (base < second)%N -> gen_compute_delay base rng = Ok (base, rng).
Proof. exact gen_compute_delay_small. Qed.
Print Assumptions C08_translated_timer_delay_small.
