(* C11 — signed midpoint is the server clock in the protocol's unit with a 5 s radius.
   Statements only. The clock reading is (whole seconds, sub-second nanoseconds) since the epoch;
   the guard secs < 2^44 (beyond year 559 000) is where secs * 10^6 stays below 2^64. That every
   reply of a batch carries this one SREP is part of C09 (reply_msg takes a single `now`). *)
Require Import RV.Model.Bytes RV.Gen.Tables RV.Model.Keys RV.Proofs.KeysFacts.
Local Open Scope N_scope.

Theorem C11_classic_midpoint : forall secs nanos,
  secs < 17592186044416 -> nanos < 1000000000 ->
  midp_of Google (secs, nanos) = (secs * 1000000000 + nanos) / 1000.
Proof. exact classic_midp_value. Qed.
Print Assumptions C11_classic_midpoint.

Theorem C11_ietf_midpoint : forall secs nanos, midp_of RfcDraft13 (secs, nanos) = secs.
Proof. reflexivity. Qed.
Print Assumptions C11_ietf_midpoint.

Theorem C11_radius : radi_of Google = 5000000 /\ radi_of RfcDraft13 = 5.
Proof. exact radi_values. Qed.
Print Assumptions C11_radius.

(* the true time of signing lies in [MIDP, MIDP + 1) units, hence within MIDP +/- RADI *)
Theorem C11_brackets_classic : forall secs nanos,
  secs < 17592186044416 -> nanos < 1000000000 ->
  1000 * midp_of Google (secs, nanos) <= secs * 1000000000 + nanos
  /\ secs * 1000000000 + nanos < 1000 * (midp_of Google (secs, nanos) + 1).
Proof. exact classic_midp_brackets. Qed.
Print Assumptions C11_brackets_classic.

Theorem C11_brackets_ietf : forall secs nanos,
  nanos < 1000000000 ->
  1000000000 * midp_of RfcDraft13 (secs, nanos) <= secs * 1000000000 + nanos
  /\ secs * 1000000000 + nanos < 1000000000 * (midp_of RfcDraft13 (secs, nanos) + 1).
Proof. exact rfc_midp_brackets. Qed.
Print Assumptions C11_brackets_ietf.

(* non-vacuity: a sub-second boundary *)
Example C11_example : midp_of Google (1700000000, 999999999) = 1700000000999999
                      /\ midp_of RfcDraft13 (1700000000, 999999999) = 1700000000.
Proof. split; vm_compute; reflexivity. Qed.

(* ---- what a reply actually carries ---- *)
Require Import RV.Model.Tag RV.Model.Message RV.Model.Merkle RV.Model.Server RV.Spec.RefCodec
        RV.Spec.MerkleGoals RV.Spec.RefVerify RV.Spec.ServerGoals RV.Proofs.MidpointFacts.

(* the signed response inside every specified reply decodes (reference decoder) to a message whose
   MIDP is the batch's clock reading converted to the protocol's unit and whose RADI is the
   protocol's five seconds; the reply's SIG is the delegated key's signature over exactly these bytes *)
Theorem C11_signed_reading :
  forall H ed_pk ed_sign, HashLen H ->
  forall v lt ok now reqs i, reqs <> [] ->
    let m := reply_msg H ed_pk ed_sign v lt ok now reqs i in
    exists srep fields,
      rget m SREP = Some srep
      /\ rget m SIG = Some (ed_sign ok (srep_prefix v ++ srep))
      /\ ref_decode srep = Some fields
      /\ rget fields MIDP = Some (u64le (midp_of v now))
      /\ rget fields RADI = Some (u32le (radi_of v)).
Proof. exact signed_reading. Qed.
Print Assumptions C11_signed_reading.

(* one clock reading per batch: all replies of a batch carry the same signed response *)
Theorem C11_once_per_batch :
  forall H ed_pk ed_sign v lt ok now reqs i j,
    rget (reply_msg H ed_pk ed_sign v lt ok now reqs i) SREP = rget (reply_msg H ed_pk ed_sign v lt ok now reqs j) SREP
    /\ rget (reply_msg H ed_pk ed_sign v lt ok now reqs i) SIG = rget (reply_msg H ed_pk ed_sign v lt ok now reqs j) SIG.
Proof. exact one_reading_per_batch. Qed.
Print Assumptions C11_once_per_batch.

(* ... and a fresh one for each batch of a drain: batch k of one wake-up is built from reading
   clk k, taken at that iteration of the loop (C09_drain: the server emits exactly this) *)
Theorem C11_fresh_reading_per_batch :
  forall H ed_pk ed_sign fuel n srv lt oi oc clk k queue,
    spec_drain_sent H ed_pk ed_sign (S fuel) n srv lt oi oc clk k queue
    = spec_batch_sent H ed_pk ed_sign srv lt oi oc (clk k) (firstn n queue)
      ++ (if (length queue <? n)%nat then []
          else spec_drain_sent H ed_pk ed_sign fuel n srv lt oi oc clk (S k) (skipn n queue)).
Proof. exact drain_uses_batch_clock. Qed.
Print Assumptions C11_fresh_reading_per_batch.

(* ---- tie to the source: the integer literals of the functions this property's model stands for
   (private constants, bounds, unit factors; the files are SiteMap.files_C11) are today the ones the
   model was written against. Gen/Sites.v num_literals is regenerated from /repo on every run; a
   changed, added or removed number in a modelled function breaks this obligation ---- *)
Require RV.Gen.Sites RV.Model.SiteMap RV.Proofs.SitesLits.
Theorem C11_literals_reviewed : RV.Model.SiteMap.literals_ok RV.Model.SiteMap.files_C11.
Proof. apply RV.Proofs.SitesLits.literals_okb_sound. vm_compute. reflexivity. Qed.
Print Assumptions C11_literals_reviewed.

(* ---- the signed response AS TRANSLATED FROM THE SOURCE on this run (Gen/Code.v, by /verif/rs2coq
   from src/key/online.rs): classic_midp (seconds * 1_000_000 + nanoseconds / 1_000, u64), rfc_midp,
   and make_srep — the radius match (5_000_000 / 5), the per-version choice of midpoint, the field
   lists and their order, the encode, the signature over prefix ++ SREP — compute what the model
   computes. The midpoint / radius theorems above therefore hold of the code as written today. *)
Require Import RV.Model.GenSupport RV.Gen.Code RV.Proofs.CodeOnline.

Theorem C11_translated_midpoints_are_model :
  forall ok now, gen_classic_midp ok now = Ok (classic_midp now) /\ gen_rfc_midp ok now = Ok (rfc_midp now).
Proof. intros ok now. split; [apply gen_classic_midp_model|apply gen_rfc_midp_model]. Qed.
Print Assumptions C11_translated_midpoints_are_model.

Theorem C11_translated_make_srep_is_model :
  forall ed_sign ok v now root,
    ok_opt (gen_make_srep ed_sign ok v now root) = ok_opt (make_srep ed_sign v ok now root).
Proof. exact gen_make_srep_model. Qed.
Print Assumptions C11_translated_make_srep_is_model.
