(* C11 — signed midpoint is the server clock in the protocol's unit with a 5 s radius.
   Statements only. The clock reading is (whole seconds, sub-second nanoseconds) since the epoch;
   the guard secs < 2^44 (beyond year 559 000) is where secs * 10^6 stays below 2^64. That every
   reply of a batch carries this one SREP is part of C09 (reply_msg takes a single `now`). *)
Require Import RV.Model.Bytes RV.Gen.Tables RV.Model.Keys RV.Proofs.KeysFacts.
Local Open Scope N_scope.

Theorem C11_classic_midpoint : forall secs nanos,
  secs < 17592186044416 -> nanos < 1000000000 ->
  midp_of Google (secs, nanos) = (secs * 1000000000 + nanos) / 1000.
Proof. exact classic_midp_value. Qed.
Print Assumptions C11_classic_midpoint.

Theorem C11_ietf_midpoint : forall secs nanos, midp_of RfcDraft13 (secs, nanos) = secs.
Proof. reflexivity. Qed.
Print Assumptions C11_ietf_midpoint.

Theorem C11_radius : radi_of Google = 5000000 /\ radi_of RfcDraft13 = 5.
Proof. exact radi_values. Qed.
Print Assumptions C11_radius.

(* the true time of signing lies in [MIDP, MIDP + 1) units, hence within MIDP +/- RADI *)
Theorem C11_brackets_classic : forall secs nanos,
  secs < 17592186044416 -> nanos < 1000000000 ->
  1000 * midp_of Google (secs, nanos) <= secs * 1000000000 + nanos
  /\ secs * 1000000000 + nanos < 1000 * (midp_of Google (secs, nanos) + 1).
Proof. exact classic_midp_brackets. Qed.
Print Assumptions C11_brackets_classic.

Theorem C11_brackets_ietf : forall secs nanos,
  nanos < 1000000000 ->
  1000000000 * midp_of RfcDraft13 (secs, nanos) <= secs * 1000000000 + nanos
  /\ secs * 1000000000 + nanos < 1000000000 * (midp_of RfcDraft13 (secs, nanos) + 1).
Proof. exact rfc_midp_brackets. Qed.
Print Assumptions C11_brackets_ietf.

(* non-vacuity: a sub-second boundary *)
Example C11_example : midp_of Google (1700000000, 999999999) = 1700000000999999
                      /\ midp_of RfcDraft13 (1700000000, 999999999) = 1700000000.
Proof. split; vm_compute; reflexivity. Qed.
