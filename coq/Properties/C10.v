(* C10 — server identity is a pure function of the seed and certifies every online key.
   Statements only. Ed25519 and SHA-512 are abstract: "the RFC 8032 public key of the seed" is
   whatever ed_pk is instantiated with (tied to RFC 8032 by the correspondence run against the
   Python transcription and one-shot dalek). That every CERT the server sends verifies under the
   long-term key with the protocol's delegation context, from any responder and for any history
   of the signer object, is part of C02_honest_verifies (the spec verifier checks it) together
   with C13_no_carry_over. *)
Require Import RV.Model.Bytes RV.Gen.Tables RV.Model.Keys RV.Spec.RefVerify RV.Proofs.KeysFacts.
Local Open Scope N_scope.

(* identity: a function of the seed alone *)
Theorem C10_identity :
  forall (H : bytes -> bytes) (ed_pk : bytes -> bytes) seed,
    ltk_srv_value H ed_pk seed = firstn 32 (H (xff :: ed_pk seed))
    /\ ltk_public_key ed_pk seed = ed_pk seed.
Proof. exact srv_value_spec. Qed.
Print Assumptions C10_identity.

(* the delegation window [0, 2^64 - 1] contains every midpoint the server can sign *)
Theorem C10_window : forall v now, fst now < two64 -> midp_of v now < two64.
Proof. exact midp_lt_two64. Qed.
Print Assumptions C10_window.

(* the code's context strings are the protocol texts' (re-checked against today's Tables.v) *)
Theorem C10_contexts :
  (forall v, dele_prefix v = spec_dele_ctx v) /\ (forall v, srep_prefix v = ctx_srep).
Proof. exact contexts_match_spec. Qed.
Print Assumptions C10_contexts.

(* the byte string signed for a delegation differs between the two protocols *)
Theorem C10_context_separation : forall d, dele_prefix Google ++ d <> dele_prefix RfcDraft13 ++ d.
Proof. exact dele_context_separation. Qed.
Print Assumptions C10_context_separation.

(* ---- tie to the source: the integer literals of the functions this property's model stands for
   (private constants, bounds, unit factors; the files are SiteMap.files_C10) are today the ones the
   model was written against. Gen/Sites.v num_literals is regenerated from /repo on every run; a
   changed, added or removed number in a modelled function breaks this obligation ---- *)
Require RV.Gen.Sites RV.Model.SiteMap RV.Proofs.SitesLits.
Theorem C10_literals_reviewed : RV.Model.SiteMap.literals_ok RV.Model.SiteMap.files_C10.
Proof. apply RV.Proofs.SitesLits.literals_okb_sound. vm_compute. reflexivity. Qed.
Print Assumptions C10_literals_reviewed.

(* ---- LongTermKey::calc_srv_value AS TRANSLATED FROM THE SOURCE on this run ---- *)
Require Import RV.Model.Message RV.Model.GenSupport RV.Gen.Code RV.Spec.MerkleGoals RV.Proofs.CodeSrv.

Theorem C10_translated_srv_value_is_model :
  forall H, HashLen H -> forall pk, gen_calc_srv_value H pk = Ok (calc_srv_value H pk).
Proof. exact gen_calc_srv_value_model. Qed.
Print Assumptions C10_translated_srv_value_is_model.

(* ---- OnlineKey::make_dele and LongTermKey::make_cert AS TRANSLATED FROM THE SOURCE on this run:
   the window constants (MINT = 8 zero bytes, MAXT = 8 0xff bytes), the field order, the signature
   over the version's delegation prefix ++ DELE ---- *)
Require Import RV.Proofs.CodeCert.

Theorem C10_translated_make_cert_is_model :
  forall ed_pk ed_sign lt v ok,
    ok_opt (gen_make_cert ed_pk ed_sign lt v ok) = ok_opt (make_cert ed_pk ed_sign v lt ok).
Proof. exact gen_make_cert_model. Qed.
Print Assumptions C10_translated_make_cert_is_model.

Theorem C10_translated_make_dele_is_model :
  forall ed_pk ok, ok_opt (gen_make_dele ed_pk ok) = ok_opt (make_dele ed_pk ok).
Proof. exact gen_make_dele_model. Qed.
Print Assumptions C10_translated_make_dele_is_model.

(* ---- the constructors AS TRANSLATED FROM THE SOURCE on this run: LongTermKey::new (the identity is
   computed from the seed alone: the signer is the seed, the SRV value the hash of its public key) and
   Responder::new (EVERY responder draws a fresh online key — the parameter online_seed — and has it
   certified by the long-term key before anything is served; the request list starts empty and the
   tree new) ---- *)
Require Import RV.Model.Server RV.Proofs.CodeCtor.

Theorem C10_translated_ltk_new_is_model :
  forall H, HashLen H -> forall ed_pk seed,
  gen_ltk_new ed_pk H seed = Ok (seed, ltk_srv_value H ed_pk seed).
Proof. exact gen_ltk_new_model. Qed.
Print Assumptions C10_translated_ltk_new_is_model.

Theorem C10_translated_ltk_accessors :
  forall H, HashLen H -> forall ed_pk seed,
  obind (gen_ltk_new ed_pk H seed) (fun k => gen_ltk_public_key ed_pk (fst k)) = Ok (ed_pk seed)
  /\ obind (gen_ltk_new ed_pk H seed) (fun k => gen_ltk_srv_value (snd k)) = Ok (ltk_srv_value H ed_pk seed).
Proof. exact gen_ltk_accessors_model. Qed.
Print Assumptions C10_translated_ltk_accessors.

Theorem C10_translated_responder_new_is_model :
  forall ed_pk ed_sign v lt online_seed,
  ok_opt (gen_responder_new online_seed ed_pk ed_sign v tt lt)
  = ok_opt (responder_new ed_pk ed_sign v lt online_seed).
Proof. exact gen_responder_new_model. Qed.
Print Assumptions C10_translated_responder_new_is_model.

(* ---- from the configuration file to the identity, through the translated code only: the file loader
   (C16), kms::load_seed of this build and LongTermKey::new. The long-term signer and the SRV value of a
   server started from a file are a function of the hex text of the file's LAST seed line, and of nothing
   else in the file or the environment ---- *)
Require Import RV.Model.Config RV.Model.ConfigLoad RV.Model.LoadModel RV.Proofs.CodeLoad RV.Proofs.CodeStart.
From Coq Require Import List. Import ListNotations.

Theorem C10_translated_load_seed_is_model :
  forall c, gen_load_seed c = match lc_kms c with KPlaintext => Ok (lc_seed c) | _ => Err InvalidConfiguration end.
Proof. exact gen_load_seed_model. Qed.
Print Assumptions C10_translated_load_seed_is_model.

Theorem C10_translated_identity_from_file :
  forall H, HashLen H -> forall ed_pk cores entries f c seed,
  gen_file_config_new cores (Ok [DHash entries]) f = Ok c ->
  gen_load_seed c = Ok seed ->
  gen_ltk_new ed_pk H seed = Ok (seed, ltk_srv_value H ed_pk seed)
  /\ match last_written entries t_seed with
     | Some v => exists s, v = YStr s /\ hex_decode s = Some seed
     | None => seed = []
     end.
Proof. exact gen_identity_from_file. Qed.
Print Assumptions C10_translated_identity_from_file.

(* ---- src/version.rs AS TRANSLATED: the wire bytes and the two signing contexts written in the source are
   the ones reflected from the compiled code (and hence, by C10_contexts, the protocol texts') ---- *)
Require Import RV.Proofs.CodeTag.
Theorem C10_translated_contexts_are_reflected :
  forall v,
  gen_version_wire_bytes v = Ok (ver_wire v)
  /\ gen_version_dele_prefix v = Ok (dele_prefix v)
  /\ gen_version_sign_prefix v = Ok (srep_prefix v).
Proof. exact gen_version_model. Qed.
Print Assumptions C10_translated_contexts_are_reflected.

Theorem C10_translated_supported_versions : gen_supported_versions_wire = Ok supported_versions_wire.
Proof. exact gen_supported_versions_wire_model. Qed.
Print Assumptions C10_translated_supported_versions.

(* OnlineKey::new AS TRANSLATED: a fresh signer (its seed is the parameter) carrying the list of supported versions *)
Theorem C10_translated_online_key_new : forall online_seed,
  gen_online_key_new online_seed = Ok (online_seed, supported_versions_wire).
Proof. exact gen_online_key_new_model. Qed.
Print Assumptions C10_translated_online_key_new.

(* ---- the key set-up of Server::new AS TRANSLATED (three consecutive statements): with a plaintext seed it builds
   exactly the model's server — the IETF responder first, then the classic one, BOTH certified under the one
   long-term key made from the configured seed, each with its own fresh online key — or fails where the model
   fails; with any other kms_protection this build refuses to come up ---- *)
Theorem C10_translated_server_keys_is_model :
  forall H, HashLen H -> forall ed_pk ed_sign oi oc c cfg,
  lc_kms c = KPlaintext ->
  ok_any (gen_server_new_keys oi oc H ed_pk ed_sign c)
  = match ok_opt (server_new H ed_pk ed_sign cfg (lc_seed c) oi oc) with
    | Some s => Some ((lc_seed c, s_srv_value s), s_ietf s, s_classic s)
    | None => None
    end.
Proof. exact gen_server_new_keys_model. Qed.
Print Assumptions C10_translated_server_keys_is_model.

Theorem C10_translated_server_keys_refuses_kms :
  forall H ed_pk ed_sign oi oc c,
  lc_kms c <> KPlaintext -> gen_server_new_keys oi oc H ed_pk ed_sign c = Panic site_gen.
Proof. exact gen_server_new_keys_refuses_kms. Qed.
Print Assumptions C10_translated_server_keys_refuses_kms.
