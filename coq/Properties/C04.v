(* C04 — Merkle inclusion proofs are complete and binding for every batch shape.
   Statements only; every proof is `exact <lemma from Proofs/>`. *)
Require Import RV.Model.Bytes RV.Gen.Tables RV.Model.Merkle RV.Spec.RefMerkle RV.Spec.MerkleGoals.
Require Import RV.Model.Sha512 RV.Proofs.Sha512Facts RV.Proofs.MerkleModel RV.Proofs.MerkleBinding.

(* the concrete SHA-512 used to run the model satisfies the one hypothesis the theorems need *)
Theorem C04_sha512_length : HashLen sha512.
Proof. exact sha512_length. Qed.
Print Assumptions C04_sha512_length.

(* on ANY tree object with at least one level — fresh, or left behind by earlier batches of any
   sizes — reset + push + compute_root + get_paths never panics and yields exactly the functional
   tree's root and paths: every leaf count 1 .. 2^32, every position, both profiles *)
Theorem C04_model_is_spec :
  forall H v t ls, HashLen H -> tver t = v -> levels t <> [] -> batch_ok ls ->
    exists t', batch H t ls = Ok (t', spec_root H v ls, spec_paths H v ls)
               /\ tver t' = v /\ levels t' <> [].
Proof. exact model_is_spec. Qed.
Print Assumptions C04_model_is_spec.

(* reusing one tree object over any sequence of batches gives what fresh trees give *)
Theorem C04_reuse :
  forall H v t bs, HashLen H -> tver t = v -> levels t <> [] -> Forall batch_ok bs ->
    batches H t bs = Ok (map (fun ls => (spec_root H v ls, spec_paths H v ls)) bs).
Proof. exact reuse. Qed.
Print Assumptions C04_reuse.

(* completeness: the path issued for position i recomputes exactly the root *)
Theorem C04_complete :
  forall (h : bytes -> bytes) (w : nat) ls i, (i < length ls)%nat ->
    s_recompute h (nth i ls []) i (s_path h w ls i) = s_root h w ls.
Proof. exact complete. Qed.
Print Assumptions C04_complete.

(* the verifier's root_from_paths is the functional recomputation; it panics exactly on a path
   whose length is not a multiple of the node width *)
Theorem C04_root_from_paths :
  forall H v j d p, HashLen H ->
    root_from_paths H v (N.of_nat j) d p =
      if (Nat.modulo (length p) (node_len v) =? 0)%nat
      then Ok (s_recompute (hashv H v) d j (chunks (node_len v) p))
      else Panic site_paths_len.
Proof. exact root_from_paths_spec. Qed.
Print Assumptions C04_root_from_paths.

(* binding: whatever (leaf, in-range index, path) recomputes the root of a batch is the genuine
   leaf at that index with the genuine path — a different leaf, a different in-range index, a
   changed, added or removed path element all fail — unless a hash collision or a preimage of
   the zero node is exhibited. Collision resistance is not assumed; it is a disjunct. *)
Theorem C04_binding :
  forall (h : bytes -> bytes) (w : nat) ls j d p,
    (forall x, length (h x) = w) -> Forall (fun q => length q = w) p -> (j < length ls)%nat ->
    s_recompute h d j p = s_root h w ls ->
    (d = nth j ls [] /\ p = s_path h w ls j) \/ Collision h w.
Proof. exact binding. Qed.
Print Assumptions C04_binding.

(* out-of-range indices are NOT rejected by recomputation (high index bits are ignored): this is
   why the property says "in-range"; recorded, not hidden *)
Example C04_out_of_range_index_accepted :
  let h := fun x : bytes => firstn 2 (x ++ [x00; x00]) in
  s_recompute h [x07] 2 (s_path h 2 [[x07]; [x08]] 0) = s_root h 2 [[x07]; [x08]].
Proof. vm_compute. reflexivity. Qed.

(* ---- tie to the source: the integer literals of the functions this property's model stands for
   (private constants, bounds, unit factors; the files are SiteMap.files_C04) are today the ones the
   model was written against. Gen/Sites.v num_literals is regenerated from /repo on every run; a
   changed, added or removed number in a modelled function breaks this obligation ---- *)
Require RV.Gen.Sites RV.Model.SiteMap RV.Proofs.SitesLits.
Theorem C04_literals_reviewed : RV.Model.SiteMap.literals_ok RV.Model.SiteMap.files_C04.
Proof. apply RV.Proofs.SitesLits.literals_okb_sound. vm_compute. reflexivity. Qed.
Print Assumptions C04_literals_reviewed.

(* ---- root_from_paths AS TRANSLATED FROM THE SOURCE on this run (Gen/Code.v, by /verif/rs2coq from
   src/merkle.rs: the leaf hash, the path-length assertion, the loop over path elements as a fold
   with the running hash and the shifting index, left/right by the index's low bit, the truncation
   to the node length, finalize_output) computes what the model computes, for every index, leaf and
   path: a value (the same one) or a panic. C04_root_from_paths and C04_binding therefore speak
   about the verifier as it is written today. *)
Require Import RV.Model.Message RV.Model.GenSupport RV.Gen.Code RV.Proofs.CodeMerkle.

Theorem C04_translated_root_from_paths_is_model :
  forall H, HashLen H -> forall v index data paths,
    ok_opt (gen_root_from_paths H v index data paths) = ok_opt (root_from_paths H v index data paths).
Proof. exact gen_root_from_paths_model. Qed.
Print Assumptions C04_translated_root_from_paths_is_model.

(* ---- the tree-building half of src/merkle.rs, translated on this run: push_leaf, is_empty, reset,
   get_paths (`while !self.levels[level].is_empty()` on fuel) and compute_root (`while node_count > 1`
   over the in-place level vectors, the zero-node padding, the pair-hash loop, the final pop and
   finalize_output). Each computes what the model computes, or both fail. `lvs` is `self.levels`,
   the tree of the model is `mktree lvs v`. ---- *)
Require RV.Proofs.CodeLib RV.Proofs.CodeTree.
Theorem C04_translated_compute_root_is_model :
  forall H, HashLen H -> forall v lvs,
  ok_opt (gen_compute_root H v lvs)
  = RV.Proofs.CodeLib.obo (ok_opt (compute_root H (mktree lvs v))) (fun p => Some (snd p, levels (fst p))).
Proof. exact RV.Proofs.CodeTree.gen_compute_root_model. Qed.
Print Assumptions C04_translated_compute_root_is_model.

Theorem C04_translated_get_paths_is_model :
  forall v lvs index,
  ok_opt (gen_get_paths v lvs index) = ok_opt (get_paths (mktree lvs v) (N.to_nat index)).
Proof. exact RV.Proofs.CodeTree.gen_get_paths_model. Qed.
Print Assumptions C04_translated_get_paths_is_model.

Theorem C04_translated_push_leaf_is_model :
  forall H, HashLen H -> forall v lvs d,
  ok_opt (RV.Proofs.CodeLib.omap (fun lv => mktree lv v) (gen_push_leaf H v lvs d))
  = ok_opt (push_leaf H (mktree lvs v) d).
Proof. exact RV.Proofs.CodeTree.gen_push_leaf_model. Qed.
Print Assumptions C04_translated_push_leaf_is_model.

Theorem C04_translated_reset_is_model :
  forall v lvs,
  RV.Proofs.CodeLib.omap (fun lv => mktree lv v) (gen_tree_reset lvs) = Ok (reset (mktree lvs v))
  /\ ok_opt (gen_tree_is_empty lvs) = ok_opt (tree_is_empty (mktree lvs v)).
Proof. exact RV.Proofs.CodeTree.gen_reset_model. Qed.
Print Assumptions C04_translated_reset_is_model.

(* the whole batch on the code as written: reset; push_leaf for every leaf; compute_root; get_paths for
   every position — composed from the TRANSLATED functions (Proofs/CodeTree.v gen_batch) — yields
   exactly the functional tree's root and paths, on any tree object left behind by earlier batches *)
Theorem C04_translated_batch_is_spec :
  forall H, HashLen H -> forall v lvs ls, lvs <> [] -> batch_ok ls ->
  exists lvs', RV.Proofs.CodeTree.gen_batch H v lvs ls = Ok (lvs', spec_root H v ls, spec_paths H v ls) /\ lvs' <> [].
Proof. exact RV.Proofs.CodeTree.gen_batch_is_spec. Qed.
Print Assumptions C04_translated_batch_is_spec.

(* MerkleTree::new AS TRANSLATED: one empty leaf level, the version as given *)
Require RV.Proofs.CodeSmall.
Theorem C04_translated_tree_new_is_model :
  forall v, RV.Gen.Code.gen_tree_new v = Ok (tree_new v).
Proof. exact RV.Proofs.CodeSmall.gen_tree_new_model. Qed.
Print Assumptions C04_translated_tree_new_is_model.
