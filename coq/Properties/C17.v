(* C17 — request statistics conserve events, stay bounded, and match the traffic served.
   Statements only; proofs are `exact <lemma>`. The wiring clause (recorded totals equal what the
   server received and sent) is the stats component of the server theorems (C09: one_batch_spec
   pins so_stats to spec_batch_stats) plus the correspondence run. *)
Require Import RV.Model.Bytes RV.Model.Server RV.Model.Stats RV.Spec.StatsGoals RV.Proofs.StatsFacts.
Local Open Scope N_scope.

(* every event is reflected exactly once: in the counter of its kind for its address, or in the
   overflow count — never both, never in another counter; for every history and every limit *)
Theorem C17_conservation :
  forall limit evs,
    let '(st, mask) := pc_run (pc_new limit) evs in
    length mask = length evs
    /\ (forall k a, cs_get k (cm_lookup (pc_clients st) a) = count_ka k a (select true evs mask))
    /\ (forall a, c_bytes (cm_lookup (pc_clients st) a) = bytes_a a (select true evs mask))
    /\ pc_overflows st = N.of_nat (length (select false evs mask)).
Proof. exact stats_conservation. Qed.
Print Assumptions C17_conservation.

(* the number of tracked addresses never exceeds the limit (and no address is tracked twice) *)
Theorem C17_bounded :
  forall limit evs, (length (pc_clients (fst (pc_run (pc_new limit) evs))) <= limit)%nat
                    /\ NoDup (map fst (pc_clients (fst (pc_run (pc_new limit) evs)))).
Proof. exact stats_bounded. Qed.
Print Assumptions C17_bounded.

(* the aggregated recorder counts every event *)
Theorem C17_aggregated :
  forall evs, (forall k, cs_get k (agg_run evs) = count_k k evs) /\ c_bytes (agg_run evs) = bytes_all evs.
Proof. exact stats_agg. Qed.
Print Assumptions C17_aggregated.

(* while no overflow occurs both recorders report identical totals *)
Theorem C17_equiv :
  forall limit evs,
    pc_overflows (fst (pc_run (pc_new limit) evs)) = 0 ->
    (forall k, pc_total k (fst (pc_run (pc_new limit) evs)) = cs_get k (agg_run evs))
    /\ pc_total_bytes (fst (pc_run (pc_new limit) evs)) = c_bytes (agg_run evs).
Proof. exact stats_equiv. Qed.
Print Assumptions C17_equiv.

(* merging snapshots in the reporter preserves every per-address sum *)
Theorem C17_merge :
  forall snaps a,
    (forall k, cs_get k (cm_lookup (rep_receive [] snaps) a) = snap_sum k a snaps)
    /\ c_bytes (cm_lookup (rep_receive [] snaps) a) = snap_bytes a snaps.
Proof. exact stats_merge. Qed.
Print Assumptions C17_merge.

(* end to end: any split of the recorded history across workers and snapshot points, merged by
   the reporter, yields per-address sums equal to the counts of all recorded events *)
Theorem C17_split_merge :
  forall limit (segments : list (list sev)) a k,
    let runs := map (fun evs => pc_run (pc_new limit) evs) segments in
    let snaps := map (fun r => pc_clients (fst r)) runs in
    let recorded := concat (map (fun p => select true (fst p) (snd (snd p))) (combine segments runs)) in
    cs_get k (cm_lookup (rep_receive [] snaps) a) = count_ka k a recorded.
Proof. exact stats_split_merge. Qed.
Print Assumptions C17_split_merge.

(* non-vacuity: a history with limit 1 in which one event is recorded and two are dropped
   (the second even though its address is already tracked: the recorder is full) *)
Example C17_overflow_example :
  let '(st, mask) := pc_run (pc_new 1) [SIetfRequest 7; SClassicRequest 7; SInvalidRequest 9] in
  mask = [true; false; false] /\ pc_overflows st = 2 /\ length (pc_clients st) = 1%nat.
Proof. vm_compute. repeat split. Qed.

(* ---- wiring: the recorded events against the traffic actually served ----
   For every queue of datagrams, every state left by earlier traffic and EVERY pattern of send
   failures (send_fails cfg a = true: send_to(.., a) returns an error), the statistics events the
   serving loop hands to its recorder (so_stats) satisfy, per client address a:
     - one request event (IETF / classic / invalid) per datagram read from a;
     - one response event per datagram actually emitted to a, carrying exactly its size
       (so response counts and byte totals equal what was sent);
     - one failed-send event per reply to a whose send failed, and every attempted reply is either
       emitted or counted as failed — never both, never neither;
     - no health-check or retry events.
   Together with C17_conservation / C17_aggregated (events -> counters) this ties the recorded
   totals to the traffic served. *)
Require Import RV.Gen.Tables RV.Model.Message RV.Model.Merkle RV.Model.Request RV.Model.Keys
        RV.Spec.MerkleGoals RV.Spec.RefVerify RV.Spec.ServerGoals RV.Proofs.RequestFacts RV.Proofs.ServerFacts RV.Proofs.WiringFacts.

Theorem C17_wiring :
  forall H ed_pk ed_sign, HashLen H -> PkLen ed_pk -> SigLen ed_sign ->
  forall cfg lt oi oc s queue clk coins,
    SInv H ed_pk ed_sign cfg lt oi oc s -> fault_pct cfg = 0 ->
    (1 <= batch_size cfg)%nat -> (batch_size cfg <= 255)%nat ->
    exists s' out,
      process_events H ed_sign s queue clk coins = Ok (s', out)
      /\ forall a,
           wired (send_fails cfg) a queue
                 (spec_drain_sent H ed_pk ed_sign (S (length queue)) (batch_size cfg)
                    (ltk_srv_value H ed_pk lt) lt oi oc clk 0 queue)
                 (so_sent out) (so_stats out).
Proof.
  intros H ed_pk ed_sign HL HP HS cfg lt oi oc s queue clk coins Hinv Hf Hb1 Hb2.
  destruct (drain_spec_f H ed_pk ed_sign classify_wellformed HL HP HS cfg lt oi oc s queue clk coins Hinv Hf Hb1 Hb2)
    as [s' [lg [E _]]].
  eexists. eexists. split; [exact E|]. intro a. cbn [so_sent so_stats].
  apply wiring_drain; [exact Hb1|apply Nat.lt_succ_diag_r].
Qed.
Print Assumptions C17_wiring.
