(* C17 — request statistics conserve events, stay bounded, and match the traffic served.
   Statements only; proofs are `exact <lemma>`. The wiring clause (recorded totals equal what the
   server received and sent) is the stats component of the server theorems (C09: one_batch_spec
   pins so_stats to spec_batch_stats) plus the correspondence run. *)
Require Import RV.Model.Bytes RV.Model.Server RV.Model.Stats RV.Spec.StatsGoals RV.Proofs.StatsFacts.
Local Open Scope N_scope.

(* every event is reflected exactly once: in the counter of its kind for its address, or in the
   overflow count — never both, never in another counter; for every history and every limit *)
Theorem C17_conservation :
  forall limit evs,
    let '(st, mask) := pc_run (pc_new limit) evs in
    length mask = length evs
    /\ (forall k a, cs_get k (cm_lookup (pc_clients st) a) = count_ka k a (select true evs mask))
    /\ (forall a, c_bytes (cm_lookup (pc_clients st) a) = bytes_a a (select true evs mask))
    /\ pc_overflows st = N.of_nat (length (select false evs mask)).
Proof. exact stats_conservation. Qed.
Print Assumptions C17_conservation.

(* the number of tracked addresses never exceeds the limit (and no address is tracked twice) *)
Theorem C17_bounded :
  forall limit evs, (length (pc_clients (fst (pc_run (pc_new limit) evs))) <= limit)%nat
                    /\ NoDup (map fst (pc_clients (fst (pc_run (pc_new limit) evs)))).
Proof. exact stats_bounded. Qed.
Print Assumptions C17_bounded.

(* the aggregated recorder counts every event *)
Theorem C17_aggregated :
  forall evs, (forall k, cs_get k (agg_run evs) = count_k k evs) /\ c_bytes (agg_run evs) = bytes_all evs.
Proof. exact stats_agg. Qed.
Print Assumptions C17_aggregated.

(* while no overflow occurs both recorders report identical totals *)
Theorem C17_equiv :
  forall limit evs,
    pc_overflows (fst (pc_run (pc_new limit) evs)) = 0 ->
    (forall k, pc_total k (fst (pc_run (pc_new limit) evs)) = cs_get k (agg_run evs))
    /\ pc_total_bytes (fst (pc_run (pc_new limit) evs)) = c_bytes (agg_run evs).
Proof. exact stats_equiv. Qed.
Print Assumptions C17_equiv.

(* merging snapshots in the reporter preserves every per-address sum *)
Theorem C17_merge :
  forall snaps a,
    (forall k, cs_get k (cm_lookup (rep_receive [] snaps) a) = snap_sum k a snaps)
    /\ c_bytes (cm_lookup (rep_receive [] snaps) a) = snap_bytes a snaps.
Proof. exact stats_merge. Qed.
Print Assumptions C17_merge.

(* end to end: any split of the recorded history across workers and snapshot points, merged by
   the reporter, yields per-address sums equal to the counts of all recorded events *)
Theorem C17_split_merge :
  forall limit (segments : list (list sev)) a k,
    let runs := map (fun evs => pc_run (pc_new limit) evs) segments in
    let snaps := map (fun r => pc_clients (fst r)) runs in
    let recorded := concat (map (fun p => select true (fst p) (snd (snd p))) (combine segments runs)) in
    cs_get k (cm_lookup (rep_receive [] snaps) a) = count_ka k a recorded.
Proof. exact stats_split_merge. Qed.
Print Assumptions C17_split_merge.

(* non-vacuity: a history with limit 1 in which one event is recorded and two are dropped
   (the second even though its address is already tracked: the recorder is full) *)
Example C17_overflow_example :
  let '(st, mask) := pc_run (pc_new 1) [SIetfRequest 7; SClassicRequest 7; SInvalidRequest 9] in
  mask = [true; false; false] /\ pc_overflows st = 2 /\ length (pc_clients st) = 1%nat.
Proof. vm_compute. repeat split. Qed.

(* ---- wiring: the recorded events against the traffic actually served ----
   For every queue of datagrams, every state left by earlier traffic and EVERY pattern of send
   failures (send_fails cfg a = true: send_to(.., a) returns an error), the statistics events the
   serving loop hands to its recorder (so_stats) satisfy, per client address a:
     - one request event (IETF / classic / invalid) per datagram read from a;
     - one response event per datagram actually emitted to a, carrying exactly its size
       (so response counts and byte totals equal what was sent);
     - one failed-send event per reply to a whose send failed, and every attempted reply is either
       emitted or counted as failed — never both, never neither;
     - no health-check or retry events.
   Together with C17_conservation / C17_aggregated (events -> counters) this ties the recorded
   totals to the traffic served. *)
Require Import RV.Gen.Tables RV.Model.Message RV.Model.Merkle RV.Model.Request RV.Model.Keys
        RV.Spec.MerkleGoals RV.Spec.RefVerify RV.Spec.ServerGoals RV.Proofs.RequestFacts RV.Proofs.ServerFacts RV.Proofs.WiringFacts.

Theorem C17_wiring :
  forall H ed_pk ed_sign, HashLen H -> PkLen ed_pk -> SigLen ed_sign ->
  forall cfg lt oi oc s queue clk coins,
    SInv H ed_pk ed_sign cfg lt oi oc s -> fault_pct cfg = 0 ->
    (1 <= batch_size cfg)%nat -> (batch_size cfg <= 255)%nat ->
    exists s' out,
      process_events H ed_sign s queue clk coins = Ok (s', out)
      /\ forall a,
           wired (send_fails cfg) a queue
                 (spec_drain_sent H ed_pk ed_sign (S (length queue)) (batch_size cfg)
                    (ltk_srv_value H ed_pk lt) lt oi oc clk 0 queue)
                 (so_sent out) (so_stats out).
Proof.
  intros H ed_pk ed_sign HL HP HS cfg lt oi oc s queue clk coins Hinv Hf Hb1 Hb2.
  destruct (drain_spec_f H ed_pk ed_sign classify_wellformed HL HP HS cfg lt oi oc s queue clk coins Hinv Hf Hb1 Hb2)
    as [s' [lg [E _]]].
  eexists. eexists. split; [exact E|]. intro a. cbn [so_sent so_stats].
  apply wiring_drain; [exact Hb1|apply Nat.lt_succ_diag_r].
Qed.
Print Assumptions C17_wiring.

(* ---- tie to the source: the eight recording operations of AggregatedStats (src/stats/aggregated.rs)
   as translated on this run: any event sequence through the translated add_* methods leaves the
   counters the model's aggregated recorder has ---- *)
Require RV.Model.GenSupport RV.Gen.Code RV.Proofs.CodeStats RV.Proofs.CodePerClient RV.Proofs.CodeReporter RV.Proofs.CodeTotals RV.Proofs.CodeServerNew RV.Model.ConfigLoad.
From Coq Require Import ZArith.
Theorem C17_translated_aggregated_is_model :
  forall evs c, RV.Proofs.CodeStats.gen_agg_run c evs = Ok (fold_left agg_step evs c).
Proof. exact RV.Proofs.CodeStats.gen_agg_run_model. Qed.
Print Assumptions C17_translated_aggregated_is_model.

(* the eight recording operations of src/stats/per_client.rs and their guard too_many_entries, as
   translated on this run (the guard through the translated helper, `entry(addr).or_insert_with_key(new)`
   as a place inside the map): each is pc_step — the bounded map of C17_bounded / C17_conservation —
   and a whole history through them is pc_run *)
Theorem C17_translated_per_client_is_model :
  forall clients ov mx e,
  RV.Proofs.CodePerClient.gen_pc_record clients ov mx e
  = Ok (let st := fst (pc_step (mkpc clients ov (N.to_nat mx)) e) in (pc_clients st, pc_overflows st)).
Proof. exact RV.Proofs.CodePerClient.gen_pc_record_model. Qed.
Print Assumptions C17_translated_per_client_is_model.

Theorem C17_translated_per_client_history_is_model :
  forall evs clients ov mx,
  RV.Proofs.CodePerClient.gen_pc_run clients ov mx evs
  = Ok (let st := fst (pc_run (mkpc clients ov (N.to_nat mx)) evs) in (pc_clients st, pc_overflows st)).
Proof. exact RV.Proofs.CodePerClient.gen_pc_run_model. Qed.
Print Assumptions C17_translated_per_client_history_is_model.

(* Server::send_client_stats (the statistics tick) as translated from src/server.rs: the recorder's
   per-client records go to the shared queue and the recorder is cleared only when there is at least
   one record; the aggregated recorder (no records) is left alone; this is the publishing step of the
   queue model of C17_queue_conservation *)
Theorem C17_translated_tick_is_model :
  forall rec q ev,
  RV.Gen.Code.gen_send_client_stats rec q ev
  = (let '(rec', q', o) := send_client_stats rec q in
     Ok (rec', q', ev ++ match o with Some x => [x] | None => [] end)).
Proof. exact RV.Proofs.CodeStats.gen_send_client_stats_model. Qed.
Print Assumptions C17_translated_tick_is_model.

Theorem C17_tick_is_the_queue_models_push :
  forall q m lost x r,
  q_run q m lost (QPush x :: r)
  = (let '(_, q', o) := send_client_stats x q in
     q_run q' m (lost ++ match o with Some y => [y] | None => [] end) r).
Proof. exact RV.Proofs.CodeStats.q_run_push_is_send_client_stats. Qed.
Print Assumptions C17_tick_is_the_queue_models_push.

(* the reporter's side, as translated: ClientStats::merge adds all nine counters when the addresses agree
   (src/stats/mod.rs), and one pass of Reporter::receive_client_stats (src/stats/reporter.rs: `while let
   Some(stats) = queue.pop() { for client in stats { entry(client.ip_addr).or_insert_with_key(new).merge(&client) } }`)
   empties the queue and merges every record of every queued snapshot, oldest first: the QDrain step of the
   queue model — with C17_translated_tick_is_model both halves of C17_queue_conservation are the code's *)
Theorem C17_translated_merge_is_model :
  forall c o, RV.Gen.Code.merge_entry (fst o) c o = cs_merge c (snd o).
Proof. exact RV.Proofs.CodeReporter.merge_entry_same. Qed.
Print Assumptions C17_translated_merge_is_model.

Theorem C17_translated_reporter_pass_is_model :
  forall q m, RV.Gen.Code.gen_receive_client_stats q m = Ok (mksq (sq_cap q) [], rep_receive m (sq_items q)).
Proof. exact RV.Proofs.CodeReporter.gen_receive_client_stats_model. Qed.
Print Assumptions C17_translated_reporter_pass_is_model.

Theorem C17_reporter_pass_is_the_queue_models_drain :
  forall q m lost r,
  q_run q m lost (QDrain :: r)
  = match RV.Gen.Code.gen_receive_client_stats q m with
    | Ok (q', m') => q_run q' m' lost r
    | _ => (q, m, lost)
    end.
Proof. exact RV.Proofs.CodeReporter.q_run_drain_is_receive. Qed.
Print Assumptions C17_reporter_pass_is_the_queue_models_drain.

(* the totals the ServerStats trait reports, as translated from both recorders (the sums over the client
   map written with iterator chains `.values().map(|&v| ..).sum()`; the aggregated counters): each is the
   model's pc_total / cs_get, and — composed with C17_equiv — while no overflow occurs every total is the
   same number whichever recorder the server runs with *)
Theorem C17_translated_totals_are_model :
  forall clients ov mx,
  let st := mkpc clients ov mx in
  RV.Gen.Code.gen_pc_num_rfc_requests clients = Ok (pc_total KRfcReq st)
  /\ RV.Gen.Code.gen_pc_num_classic_requests clients = Ok (pc_total KClassicReq st)
  /\ RV.Gen.Code.gen_pc_total_valid_requests clients = Ok (pc_total KRfcReq st + pc_total KClassicReq st)
  /\ RV.Gen.Code.gen_pc_total_invalid_requests clients = Ok (pc_total KInvalid st)
  /\ RV.Gen.Code.gen_pc_total_health_checks clients = Ok (pc_total KHealth st)
  /\ RV.Gen.Code.gen_pc_total_failed_send_attempts clients = Ok (pc_total KFailed st)
  /\ RV.Gen.Code.gen_pc_total_retried_send_attempts clients = Ok (pc_total KRetried st)
  /\ RV.Gen.Code.gen_pc_num_rfc_responses_sent clients = Ok (pc_total KRfcResp st)
  /\ RV.Gen.Code.gen_pc_num_classic_responses_sent clients = Ok (pc_total KClassicResp st)
  /\ RV.Gen.Code.gen_pc_total_responses_sent clients = Ok (pc_total KRfcResp st + pc_total KClassicResp st)
  /\ RV.Gen.Code.gen_pc_total_bytes_sent clients = Ok (pc_total_bytes st)
  /\ RV.Gen.Code.gen_pc_total_unique_clients clients = Ok (lenN clients).
Proof. exact RV.Proofs.CodeTotals.gen_pc_totals_model. Qed.
Print Assumptions C17_translated_totals_are_model.

Theorem C17_translated_totals_agree :
  forall limit evs,
  pc_overflows (fst (pc_run (pc_new limit) evs)) = 0 ->
  let st := fst (pc_run (pc_new limit) evs) in
  let c := agg_run evs in
  RV.Gen.Code.gen_pc_total_valid_requests (pc_clients st)
  = RV.Gen.Code.gen_agg_total_valid_requests (c_rfc_req c) (c_classic_req c) (c_invalid c) (c_health c) (c_rfc_resp c) (c_classic_resp c) (c_bytes c) (c_failed c) (c_retried c)
  /\ RV.Gen.Code.gen_pc_total_invalid_requests (pc_clients st)
  = RV.Gen.Code.gen_agg_total_invalid_requests (c_rfc_req c) (c_classic_req c) (c_invalid c) (c_health c) (c_rfc_resp c) (c_classic_resp c) (c_bytes c) (c_failed c) (c_retried c)
  /\ RV.Gen.Code.gen_pc_total_responses_sent (pc_clients st)
  = RV.Gen.Code.gen_agg_total_responses_sent (c_rfc_req c) (c_classic_req c) (c_invalid c) (c_health c) (c_rfc_resp c) (c_classic_resp c) (c_bytes c) (c_failed c) (c_retried c)
  /\ RV.Gen.Code.gen_pc_total_bytes_sent (pc_clients st)
  = RV.Gen.Code.gen_agg_total_bytes_sent (c_rfc_req c) (c_classic_req c) (c_invalid c) (c_health c) (c_rfc_resp c) (c_classic_resp c) (c_bytes c) (c_failed c) (c_retried c)
  /\ RV.Gen.Code.gen_pc_total_health_checks (pc_clients st)
  = RV.Gen.Code.gen_agg_total_health_checks (c_rfc_req c) (c_classic_req c) (c_invalid c) (c_health c) (c_rfc_resp c) (c_classic_resp c) (c_bytes c) (c_failed c) (c_retried c).
Proof. exact RV.Proofs.CodeTotals.gen_totals_agree. Qed.
Print Assumptions C17_translated_totals_agree.

(* the reporter thread's loop AS TRANSLATED (Reporter::processing_loop): in every pass keep_running is read
   first, everything the workers queued is merged, and the merged map is handed to report() and cleared in
   the same pass and only then; the loop returns at the first pass that finds the flag cleared (each pass
   ends with the one-second sleep, so the reporter notices a shutdown within one pass) *)
Theorem C17_translated_reporter_loop_is_model :
  forall pushed flag due fuel q m i reps,
  RV.Gen.Code.gen_reporter_loop pushed flag due fuel q m tt i reps
  = RV.Proofs.CodeReporter.reporter pushed flag due fuel q m i reps.
Proof. exact RV.Proofs.CodeReporter.gen_reporter_loop_model. Qed.
Print Assumptions C17_translated_reporter_loop_is_model.

Theorem C17_reporter_pass :
  forall pushed flag due f q m i reps, flag i = true ->
  RV.Proofs.CodeReporter.reporter pushed flag due (S f) q m i reps
  = let q1 := RV.Proofs.CodeReporter.after_pushes pushed q i in
    let m1 := rep_receive m (sq_items q1) in
    if due i then RV.Proofs.CodeReporter.reporter pushed flag due f (mksq (sq_cap q1) []) [] (S i) (reps ++ [m1])
    else RV.Proofs.CodeReporter.reporter pushed flag due f (mksq (sq_cap q1) []) m1 (S i) reps.
Proof. exact RV.Proofs.CodeReporter.reporter_pass. Qed.
Print Assumptions C17_reporter_pass.

Theorem C17_reporter_stops_at_the_first_cleared_flag :
  forall pushed flag due n fuel q m i reps,
  (n < fuel)%nat -> (forall j, (i <= j < i + n)%nat -> flag j = true) -> flag (i + n)%nat = false ->
  exists q' m' reps', RV.Proofs.CodeReporter.reporter pushed flag due fuel q m i reps = Ok (q', m', (i + n)%nat, reps').
Proof. exact RV.Proofs.CodeReporter.reporter_stops_at_flag. Qed.
Print Assumptions C17_reporter_stops_at_the_first_cleared_flag.

(* Server::new AS TRANSLATED (two of its statements): a worker records per client exactly when client_stats is on
   (the aggregated counters otherwise), and publishes every tenth of the status interval *)
Theorem C17_translated_recorder_choice :
  forall c, RV.Gen.Code.gen_server_new_recorder c = Ok (RV.Model.ConfigLoad.lc_cstats c).
Proof. exact RV.Proofs.CodeServerNew.gen_server_new_recorder_model. Qed.
Print Assumptions C17_translated_recorder_choice.

Theorem C17_translated_publication_period :
  forall c, RV.Gen.Code.gen_server_new_stats_freq c = Ok (Z.to_N (RV.Model.ConfigLoad.lc_status c) * 1000000000 / 10)%N.
Proof. exact RV.Proofs.CodeServerNew.gen_server_new_stats_freq_model. Qed.
Print Assumptions C17_translated_publication_period.

(* ---- tie to the source: the integer literals of the functions this property's model stands for
   (private constants, bounds, unit factors; the files are SiteMap.files_C17) are today the ones the
   model was written against. Gen/Sites.v num_literals is regenerated from /repo on every run; a
   changed, added or removed number in a modelled function breaks this obligation ---- *)
Require RV.Gen.Sites RV.Model.SiteMap RV.Proofs.SitesLits.
Theorem C17_literals_reviewed : RV.Model.SiteMap.literals_ok RV.Model.SiteMap.files_C17.
Proof. apply RV.Proofs.SitesLits.literals_okb_sound. vm_compute. reflexivity. Qed.
Print Assumptions C17_literals_reviewed.

(* ---- the shared statistics queue between the workers and the reporter ----
   (ArrayQueue of capacity 2 * num_workers; workers publish with force_push, which evicts the OLDEST
   snapshot when the queue is full; the reporter pops until empty once per cycle) *)

(* conservation through the queue: for every history of publishes and drains ended by a drain, and
   every capacity, each per-address sum over ALL published snapshots equals what the reporter merged
   plus what force_push evicted — a published snapshot is merged or evicted, never both, never neither *)
Theorem C17_queue_conservation :
  forall cap ops a k,
    let '(q, merged, lost) := q_run (mksq cap []) [] [] (ops ++ [QDrain]) in
    sq_items q = []
    /\ cs_get k (cm_lookup merged a) + snap_sum k a lost = snap_sum k a (pushed_snaps ops).
Proof. exact queue_conservation. Qed.
Print Assumptions C17_queue_conservation.

(* nothing is evicted (so the reporter's sums are exactly the published ones) whenever at most
   `capacity` snapshots are published between two drains *)
Theorem C17_queue_lossless :
  forall cap ops, within_capacity cap 0 ops = true -> snd (q_run (mksq cap []) [] [] ops) = [].
Proof. exact queue_lossless. Qed.
Print Assumptions C17_queue_lossless.

(* ... and ONLY then: one publish too many between two drains evicts the oldest snapshot, whose
   counts never reach the reporter (the queue is lossy by design; with status_interval below about
   five seconds the workers of a busy server publish faster than the reporter's 1 s cycle drains) *)
Example C17_queue_overflow_loses_oldest :
  let s1 := [(1, mkcs 3 0 0 0 0 0 0 0 0)] in
  let s2 := [(2, mkcs 0 5 0 0 0 0 0 0 0)] in
  let s3 := [(3, mkcs 0 0 7 0 0 0 0 0 0)] in
  let '(q, merged, lost) := q_run (mksq 2 []) [] [] [QPush s1; QPush s2; QPush s3; QDrain] in
  lost = [s1] /\ cm_get merged 1 = None /\ cs_get KClassicReq (cm_lookup merged 2) = 5.
Proof. vm_compute. repeat split. Qed.

(* ---- the remaining small operations of the two recorders AS TRANSLATED (constructors, clear, the per-client
   views): a per-client recorder starts empty with the documented limit; clear forgets clients and overflows and
   a cleared recorder hands the next publication tick nothing and reports zero; the aggregated recorder's
   per-client views are empty for every address *)
Require RV.Proofs.CodeRecorders.

Theorem C17_translated_recorder_new_and_clear :
  RV.Gen.Code.gen_pc_new = Ok ([], 0%N, RV.Gen.Tables.MAX_CLIENTS)
  /\ (forall st, RV.Gen.Code.gen_pc_clear (pc_clients st) (pc_overflows st)
                 = Ok (pc_clients (pc_clear st), pc_overflows (pc_clear st))).
Proof. exact RV.Proofs.CodeRecorders.gen_pc_new_clear_model. Qed.
Print Assumptions C17_translated_recorder_new_and_clear.

Theorem C17_translated_cleared_recorder_is_empty : forall clients ov,
  obind (RV.Gen.Code.gen_pc_clear clients ov) (fun s => RV.Gen.Code.gen_pc_iter (fst s)) = Ok []
  /\ obind (RV.Gen.Code.gen_pc_clear clients ov) (fun s => RV.Gen.Code.gen_pc_total_unique_clients (fst s)) = Ok 0%N
  /\ obind (RV.Gen.Code.gen_pc_clear clients ov) (fun s => RV.Gen.Code.gen_pc_total_valid_requests (fst s)) = Ok 0%N
  /\ obind (RV.Gen.Code.gen_pc_clear clients ov) (fun s => RV.Gen.Code.gen_pc_num_overflows (snd s)) = Ok 0%N.
Proof. exact RV.Proofs.CodeRecorders.gen_pc_cleared_is_empty. Qed.
Print Assumptions C17_translated_cleared_recorder_is_empty.

Theorem C17_translated_aggregated_has_no_clients : forall a,
  RV.Gen.Code.gen_agg_total_unique_clients = Ok 0%N
  /\ RV.Gen.Code.gen_agg_stats_for_client a = Ok None
  /\ obind RV.Gen.Code.gen_agg_new (fun s => RV.Gen.Code.gen_agg_iter (snd s)) = Ok [].
Proof. exact RV.Proofs.CodeRecorders.gen_agg_views_model. Qed.
Print Assumptions C17_translated_aggregated_has_no_clients.

(* ---- Reporter::report AS TRANSLATED (the CSV file of per-client statistics; File::create's success and the
   serializer's verdict per record are parameters): what is handed to the CSV writer is the longest prefix of
   the merged records that serialises, in map order; nothing is created when nothing was merged or no
   persistence directory is configured; a file that cannot be created changes nothing — and so, when the
   records serialise, the published file holds every merged record exactly once *)
Require RV.Proofs.CodeReport.

Theorem C17_translated_report_is_spec : forall ser_ok create_ok clients loc file,
  RV.Gen.Code.gen_reporter_report ser_ok create_ok clients loc file
  = Ok (RV.Proofs.CodeReport.report_spec ser_ok create_ok clients loc file).
Proof. exact RV.Proofs.CodeReport.gen_reporter_report_model. Qed.
Print Assumptions C17_translated_report_is_spec.

Theorem C17_report_writes_every_merged_record : forall ser_ok clients p file,
  clients <> [] -> (forall c, In c (map snd clients) -> ser_ok c = true) ->
  RV.Gen.Code.gen_reporter_report ser_ok true clients (Some p) file = Ok (Some (map snd clients)).
Proof. exact RV.Proofs.CodeReport.report_writes_every_merged_record. Qed.
Print Assumptions C17_report_writes_every_merged_record.
