(* C16 — effective settings equal the written ones (file or env), else start is refused.
   Statements only. The model enters at the integer written; YAML / decimal lexing, string-valued
   settings, missing and unknown keys are covered by the correspondence run only. *)
Require Import RV.Model.Config RV.Proofs.ConfigFacts.
From Coq Require Import ZArith Bool.
Local Open Scope Z_scope.

(* a value the server runs with is the value written, and it is inside the documented range *)
Theorem C16_faithful : forall s k z v,
  effective s k z = Running v -> v = z /\ in_range s k z = true.
Proof. exact config_running_in_range. Qed.
Print Assumptions C16_faithful.

(* for the four range-documented keys, anything outside the documented range refuses to start:
   it is never silently replaced by a different value *)
Theorem C16_refuses : forall s k z,
  (k = CPort \/ k = CBatch \/ k = CFault \/ k = CWorkers) ->
  in_range s k z = false -> effective s k z = Refused.
Proof. exact config_refuses. Qed.
Print Assumptions C16_refuses.

(* every documented in-range value is accepted as written *)
Theorem C16_accepts : forall s k z, in_range s k z = true -> effective s k z = Running z.
Proof. exact config_accepts. Qed.
Print Assumptions C16_accepts.

(* file and environment give the same result for the same value (status_interval within the
   documented 16-bit range; the file loader alone accepts larger intervals) *)
Theorem C16_sources_agree : forall k z,
  (k = CStatus -> z <= 65535) -> effective File k z = effective Env k z.
Proof. exact config_sources_agree. Qed.
Print Assumptions C16_sources_agree.

(* the former wrap points: 70000, 300, 256 are refused, not reduced modulo the type width *)
Example C16_wrap_points :
  effective File CPort 70000 = Refused /\ effective File CBatch 300 = Refused
  /\ effective File CFault 256 = Refused /\ effective Env CPort 65536 = Refused
  /\ effective File CPort 4464 = Running 4464.
Proof. repeat split. Qed.
