(* C16 — effective settings equal the written ones (file or env), else start is refused.
   Statements only. The first block enters at the integer written; the last block (the loaders as
   translated from the source) enters at the text: the YAML values yaml-rust hands to FileConfig::new
   and the strings of the process environment, with str::parse::<uN>, hex decoding and
   KmsProtection::from_str modelled in Model/ConfigLoad.v. YAML lexing itself is not modelled (the
   correspondence run feeds the model the values yaml-rust produced). *)
Require Import RV.Model.Config RV.Proofs.ConfigFacts.
From Coq Require Import ZArith Bool.
Local Open Scope Z_scope.

(* a value the server runs with is the value written, and it is inside the documented range *)
Theorem C16_faithful : forall s k z v,
  effective s k z = Running v -> v = z /\ in_range s k z = true.
Proof. exact config_running_in_range. Qed.
Print Assumptions C16_faithful.

(* for the four range-documented keys, anything outside the documented range refuses to start:
   it is never silently replaced by a different value *)
Theorem C16_refuses : forall s k z,
  (k = CPort \/ k = CBatch \/ k = CFault \/ k = CWorkers) ->
  in_range s k z = false -> effective s k z = Refused.
Proof. exact config_refuses. Qed.
Print Assumptions C16_refuses.

(* every documented in-range value is accepted as written *)
Theorem C16_accepts : forall s k z, in_range s k z = true -> effective s k z = Running z.
Proof. exact config_accepts. Qed.
Print Assumptions C16_accepts.

(* file and environment give the same result for the same value (status_interval within the
   documented 16-bit range: the file loader alone accepts larger intervals; num_workers within the
   YAML integer range: a wider literal is not a YAML integer and the file loader refuses it) *)
Theorem C16_sources_agree : forall k z,
  (k = CStatus -> z <= 65535) -> (k = CWorkers -> z <= 9223372036854775807) ->
  effective File k z = effective Env k z.
Proof. exact config_sources_agree. Qed.
Print Assumptions C16_sources_agree.

(* the former wrap points: 70000, 300, 256 are refused, not reduced modulo the type width *)
Example C16_wrap_points :
  effective File CPort 70000 = Refused /\ effective File CBatch 300 = Refused
  /\ effective File CFault 256 = Refused /\ effective Env CPort 65536 = Refused
  /\ effective File CPort 4464 = Running 4464.
Proof. repeat split. Qed.

(* ---- the whole configuration: is_valid_config as written (one flag, only ever cleared, checks in
   source order) accepts exactly the documented configurations ---- *)
Theorem C16_valid_config_iff : forall c, is_valid_config c = VOk true <-> config_ok c = true.
Proof. exact valid_config_iff. Qed.
Print Assumptions C16_valid_config_iff.

(* an out-of-range value or a missing required setting refuses start-up whatever the other settings
   are — in particular a good persistence directory with per-client statistics on does not excuse it *)
Theorem C16_valid_config_refuses : forall c,
  (s_port c = 0 \/ s_batch c < 1 \/ 64 < s_batch c \/ 50 < s_fault c \/ s_workers c = 0
   \/ s_seed_len c = 0 \/ s_interface_empty c = true) ->
  is_valid_config c <> VOk true.
Proof. exact valid_config_refuses. Qed.
Print Assumptions C16_valid_config_refuses.

(* the validator itself panics (start-up equally refused) exactly when per-client statistics are on
   and the configured persistence directory does not exist *)
Theorem C16_valid_config_panic : forall c,
  is_valid_config c = VPanic <->
  (s_client_stats c = true /\ exists d, s_pdir c = Some d /\ d_exists d = false).
Proof. exact valid_config_panic. Qed.
Print Assumptions C16_valid_config_panic.

Example C16_valid_config_example :
  is_valid_config (mksettings 2002 false 32 KmsPlaintext 64 0 4 true (Some (mkdir true true false)) true) = VOk true
  /\ is_valid_config (mksettings 2002 false 32 KmsPlaintext 65 0 4 true (Some (mkdir true true false)) true) = VOk false.
Proof. split; reflexivity. Qed.

(* ---- tie to the source: the integer literals of the functions this property's model stands for
   (private constants, bounds, unit factors; the files are SiteMap.files_C16) are today the ones the
   model was written against. Gen/Sites.v num_literals is regenerated from /repo on every run; a
   changed, added or removed number in a modelled function breaks this obligation ---- *)
Require RV.Gen.Sites RV.Model.SiteMap RV.Proofs.SitesLits.
Theorem C16_literals_reviewed : RV.Model.SiteMap.literals_ok RV.Model.SiteMap.files_C16.
Proof. apply RV.Proofs.SitesLits.literals_okb_sound. vm_compute. reflexivity. Qed.
Print Assumptions C16_literals_reviewed.

(* ---- the validator AS TRANSLATED FROM THE SOURCE on this run ----
   Gen/Code.v gen_is_valid_config is produced by /verif/rs2coq from src/config/mod.rs (control flow
   translated structurally: the one mutable flag, the sequence of ifs, else-if chains, the unwrap;
   configuration getters and the directory probes through the table in rs2coq/targets.txt). It is
   the modelled validator, so the theorems above hold of the code as it is written today. *)
Require Import RV.Model.Bytes RV.Model.Message RV.Gen.Code RV.Proofs.CodeConfig.

Theorem C16_translated_validator_is_model :
  forall c, to_vres (gen_is_valid_config c) = is_valid_config c.
Proof. exact gen_is_valid_config_model. Qed.
Print Assumptions C16_translated_validator_is_model.

Theorem C16_translated_validator_iff :
  forall c, gen_is_valid_config c = Ok true <-> config_ok c = true.
Proof. exact gen_is_valid_config_iff. Qed.
Print Assumptions C16_translated_validator_iff.

(* ---- the two LOADERS AS TRANSLATED FROM THE SOURCE on this run ----
   Gen/Code.v gen_file_config_new / gen_env_config_new / gen_checked_int / gen_kms_from_str are produced
   by /verif/rs2coq from src/config/file.rs, src/config/environment.rs and src/key/mod.rs: the loop over
   the YAML mapping and its match on the key, the eleven `if let Ok(..) = env::var(..)`, the field each
   arm assigns, the integer TYPE each arm converts to (taken from the struct's field declaration or the
   `let` annotation: that is the `tmax_uN` / `parse_uN` in the generated code), every unwrap / expect /
   unwrap_or_else(panic). They equal the compact hand-written loaders of Model/LoadModel.v. *)
Require Import RV.Model.ConfigLoad RV.Model.GenSupport RV.Model.LoadModel RV.Proofs.LoadLib RV.Proofs.CodeLoad.
From Coq Require Import List. Import ListNotations.

Theorem C16_translated_file_loader_is_model :
  forall cores docs f, gen_file_config_new cores docs f = file_load cores docs.
Proof. exact gen_file_config_new_model. Qed.
Print Assumptions C16_translated_file_loader_is_model.

Theorem C16_translated_env_loader_is_model :
  forall cores env, gen_env_config_new cores env = env_load cores env.
Proof. exact gen_env_config_new_model. Qed.
Print Assumptions C16_translated_env_loader_is_model.

(* the file: when FileConfig::new returns a configuration, every integer setting has the value its LAST
   line in the file gives it, that value fits the field's type (it is never wrapped), and a setting no
   line names keeps its default *)
Theorem C16_translated_file_written_is_loaded :
  forall cores entries f c,
  gen_file_config_new cores (Ok [DHash entries]) f = Ok c ->
  forall k, match last_written entries (key_name k) with
            | Some v => exists z, v = YInt z /\ load File k z = Some z /\ lc_get k c = Some z
            | None => lc_get k c = lc_get k (lc_default cores)
            end.
Proof. exact gen_file_written. Qed.
Print Assumptions C16_translated_file_written_is_loaded.

(* ... and EVERY line must be acceptable (known key, value of the right YAML type, integer inside the
   field's type, seed in hex, known kms spelling), not only the last one for its key *)
Theorem C16_translated_file_every_line_checked :
  forall cores entries f c,
  gen_file_config_new cores (Ok [DHash entries]) f = Ok c -> Forall entry_ok entries.
Proof. exact gen_file_every_line_ok. Qed.
Print Assumptions C16_translated_file_every_line_checked.

Theorem C16_translated_file_shape :
  forall cores docs f c,
  gen_file_config_new cores docs f = Ok c -> exists entries, docs = Ok [DHash entries].
Proof. exact gen_file_shape. Qed.
Print Assumptions C16_translated_file_shape.

(* loader + validator = `effective` of the first block: a file that loads and validates runs, for every
   integer setting it names, with exactly the value written *)
Theorem C16_translated_file_start_is_effective :
  forall cores entries f c ds ap,
  gen_file_config_new cores (Ok [DHash entries]) f = Ok c ->
  is_valid_config (to_settings c ds ap) = VOk true ->
  forall k v, last_written entries (key_name k) = Some v ->
  exists z, v = YInt z /\ lc_get k c = Some z /\ effective File k z = Running z.
Proof. exact gen_file_start_effective. Qed.
Print Assumptions C16_translated_file_start_is_effective.

(* the environment, at the level of the decimal TEXT: str::parse::<uN> of the decimal text of z is the
   integer-level loader (so `effective Env k z` speaks about the text `z` prints as) *)
Theorem C16_decimal_text_is_integer_level :
  forall s k z, 0 <= z -> parse_uint (type_max s k) (to_dec z) = load s k z.
Proof. exact parse_dec_load. Qed.
Print Assumptions C16_decimal_text_is_integer_level.

Theorem C16_translated_env_start_is_effective :
  forall cores env c ds ap,
  gen_env_config_new cores env = Ok c ->
  is_valid_config (to_settings c ds ap) = VOk true ->
  forall k z, 0 <= z -> env (env_name k) = Some (to_dec z) ->
  lc_get k c = Some z /\ effective Env k z = Running z.
Proof. exact gen_env_start_effective. Qed.
Print Assumptions C16_translated_env_start_is_effective.

(* a variable whose text is not a number of the field's type — empty, signed, spaced, or the decimal text
   of a value the type cannot hold — refuses the start; an unset variable leaves the default *)
Theorem C16_translated_env_refuses_unparsable :
  forall cores env k s,
  env (env_name k) = Some s -> parse_uint (type_max Env k) s = None ->
  forall c, gen_env_config_new cores env <> Ok c.
Proof. exact gen_env_refuses_unparsable. Qed.
Print Assumptions C16_translated_env_refuses_unparsable.

Theorem C16_translated_env_refuses_out_of_type :
  forall cores env k z,
  type_max Env k < z -> env (env_name k) = Some (to_dec z) -> forall c, gen_env_config_new cores env <> Ok c.
Proof. exact gen_env_refuses_out_of_type. Qed.
Print Assumptions C16_translated_env_refuses_out_of_type.

Theorem C16_translated_env_defaults :
  forall cores env c,
  gen_env_config_new cores env = Ok c -> forall k, env (env_name k) = None -> lc_get k c = lc_get k (lc_default cores).
Proof. exact gen_env_defaults. Qed.
Print Assumptions C16_translated_env_defaults.

(* the seed written as hex is the seed loaded *)
Theorem C16_hex_roundtrip : forall b, hex_decode (hex_encode b) = Some b.
Proof. exact hex_decode_encode. Qed.
Print Assumptions C16_hex_roundtrip.

Theorem C16_decimal_roundtrip : forall max z, 0 <= z <= max -> parse_uint max (to_dec z) = Some z.
Proof. exact parse_uint_to_dec. Qed.
Print Assumptions C16_decimal_roundtrip.

(* make_config AS TRANSLATED: the argument "ENV" selects the environment, anything else is read as a file
   path — so the whole way from the command-line argument to the loaded configuration is the code's *)
Theorem C16_translated_make_config_is_model :
  forall cores env fs arg,
  gen_make_config cores env fs arg
  = if bytes_eqb arg t_ENV then env_load cores env else file_load cores (fs arg).
Proof. exact gen_make_config_model. Qed.
Print Assumptions C16_translated_make_config_is_model.

(* ---- main of the server binary AS TRANSLATED FROM THE SOURCE on this run: the command line, make_config,
   is_valid_config (here any predicate `valid` on the loaded configuration), the spawn loop, the joins and
   every process::exit. Exit status 1 happens exactly for a refused start — wrong argument count, a loader
   error, a configuration the validator rejects — and then no thread has been spawned. ---- *)
Require Import RV.Proofs.CodeMain.

Theorem C16_translated_main_is_spec :
  forall argc arg cores env fs valid bind_ok joins_ok,
  gen_server_main argc arg cores env fs valid bind_ok joins_ok [] = main_spec argc arg cores env fs valid bind_ok joins_ok.
Proof. exact gen_server_main_model. Qed.
Print Assumptions C16_translated_main_is_spec.

Theorem C16_translated_refused_start_is_exit_1 :
  forall argc arg cores env fs valid bind_ok joins_ok ths,
  main_spec argc arg cores env fs valid bind_ok joins_ok = Err (ExitWith 1 ths) ->
  ths = [] /\ (argc <> 2%N
               \/ (exists e, (if bytes_eqb arg t_ENV then env_load cores env else file_load cores (fs arg)) = Err e)
               \/ (exists c, (if bytes_eqb arg t_ENV then env_load cores env else file_load cores (fs arg)) = Ok c /\ valid c = false)).
Proof. exact main_exit_1. Qed.
Print Assumptions C16_translated_refused_start_is_exit_1.

(* ... and with the TRANSLATED validator plugged in (`valid_of`: gen_is_valid_config on what the loader
   produced): the server gets as far as spawning threads exactly when the loader returns one of the documented
   configurations (config_ok); otherwise it exits with status 1 before anything is spawned *)
Theorem C16_translated_start_iff_documented :
  forall argc arg cores env fs ds ap bind_ok joins_ok,
  argc = 2%N ->
  match (if bytes_eqb arg t_ENV then env_load cores env else file_load cores (fs arg)) with
  | Ok c => if config_ok (to_settings c ds ap)
            then main_spec argc arg cores env fs (valid_of ds ap) bind_ok joins_ok
                 = (if forallb bind_ok (range_n 0%N (Z.to_N (lc_workers c))) then
                      if forallb joins_ok (threads_of c) then Err (ExitWith 0%N (threads_of c)) else Panic site_gen
                    else Panic site_gen)
            else main_spec argc arg cores env fs (valid_of ds ap) bind_ok joins_ok = Err (ExitWith 1%N [])
  | Err _ => main_spec argc arg cores env fs (valid_of ds ap) bind_ok joins_ok = Err (ExitWith 1%N [])
  | Panic p => main_spec argc arg cores env fs (valid_of ds ap) bind_ok joins_ok = Panic p
  end.
Proof. exact main_runs_iff_documented. Qed.
Print Assumptions C16_translated_start_iff_documented.

(* ---- the getters between the loaded configuration and everything that reads it (impl ServerConfig for
   FileConfig / EnvironmentConfig, translated on this run): each of the eleven hands over the field of its own
   name, for both sources ... *)
Require Import RV.Proofs.CodeGetters.

Theorem C16_translated_getters_are_the_loaded_fields :
  getters_are_fields file_getters /\ getters_are_fields env_getters.
Proof. exact (conj gen_file_getters_are_fields gen_env_getters_are_fields). Qed.
Print Assumptions C16_translated_getters_are_the_loaded_fields.

(* ... so that the translated validator, run on what the getters return, is the validator of the start-up
   theorems above (which take the fields directly, to_settings) *)
Theorem C16_translated_validation_reads_through_getters : forall c ds ap,
  obind (settings_through file_getters c ds ap) gen_is_valid_config = gen_is_valid_config (to_settings c ds ap)
  /\ obind (settings_through env_getters c ds ap) gen_is_valid_config = gen_is_valid_config (to_settings c ds ap).
Proof. exact gen_validation_through_getters. Qed.
Print Assumptions C16_translated_validation_reads_through_getters.

(* ---- the socket address: ServerConfig::udp_socket_addr, translated on this run, hands the parser the text
   "<interface>:<port in decimal>" of the loaded configuration — the port that is bound is the one written — and
   turns a refusal into InvalidConfiguration *)
Theorem C16_translated_socket_address_is_interface_and_port : forall parse c,
  gen_udp_socket_addr parse c
  = match parse (addr_text c) with Ok v => Ok v | Err _ => Err InvalidConfiguration | Panic p => Panic p end.
Proof. exact gen_udp_socket_addr_model. Qed.
Print Assumptions C16_translated_socket_address_is_interface_and_port.

Theorem C16_address_text_names_the_loaded_port : forall c, 0 <= lc_port c <= tmax_u16 ->
  exists pre, addr_text c = pre ++ to_dec (lc_port c)
              /\ pre = lc_interface c ++ [x3a]
              /\ parse_uint tmax_u16 (to_dec (lc_port c)) = Some (lc_port c).
Proof. exact addr_text_names_the_port. Qed.
Print Assumptions C16_address_text_names_the_loaded_port.
