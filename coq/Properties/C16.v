(* C16 — effective settings equal the written ones (file or env), else start is refused.
   Statements only. The model enters at the integer written; YAML / decimal lexing, string-valued
   settings, missing and unknown keys are covered by the correspondence run only. *)
Require Import RV.Model.Config RV.Proofs.ConfigFacts.
From Coq Require Import ZArith Bool.
Local Open Scope Z_scope.

(* a value the server runs with is the value written, and it is inside the documented range *)
Theorem C16_faithful : forall s k z v,
  effective s k z = Running v -> v = z /\ in_range s k z = true.
Proof. exact config_running_in_range. Qed.
Print Assumptions C16_faithful.

(* for the four range-documented keys, anything outside the documented range refuses to start:
   it is never silently replaced by a different value *)
Theorem C16_refuses : forall s k z,
  (k = CPort \/ k = CBatch \/ k = CFault \/ k = CWorkers) ->
  in_range s k z = false -> effective s k z = Refused.
Proof. exact config_refuses. Qed.
Print Assumptions C16_refuses.

(* every documented in-range value is accepted as written *)
Theorem C16_accepts : forall s k z, in_range s k z = true -> effective s k z = Running z.
Proof. exact config_accepts. Qed.
Print Assumptions C16_accepts.

(* file and environment give the same result for the same value (status_interval within the
   documented 16-bit range; the file loader alone accepts larger intervals) *)
Theorem C16_sources_agree : forall k z,
  (k = CStatus -> z <= 65535) -> effective File k z = effective Env k z.
Proof. exact config_sources_agree. Qed.
Print Assumptions C16_sources_agree.

(* the former wrap points: 70000, 300, 256 are refused, not reduced modulo the type width *)
Example C16_wrap_points :
  effective File CPort 70000 = Refused /\ effective File CBatch 300 = Refused
  /\ effective File CFault 256 = Refused /\ effective Env CPort 65536 = Refused
  /\ effective File CPort 4464 = Running 4464.
Proof. repeat split. Qed.

(* ---- the whole configuration: is_valid_config as written (one flag, only ever cleared, checks in
   source order) accepts exactly the documented configurations ---- *)
Theorem C16_valid_config_iff : forall c, is_valid_config c = VOk true <-> config_ok c = true.
Proof. exact valid_config_iff. Qed.
Print Assumptions C16_valid_config_iff.

(* an out-of-range value or a missing required setting refuses start-up whatever the other settings
   are — in particular a good persistence directory with per-client statistics on does not excuse it *)
Theorem C16_valid_config_refuses : forall c,
  (s_port c = 0 \/ s_batch c < 1 \/ 64 < s_batch c \/ 50 < s_fault c \/ s_workers c = 0
   \/ s_seed_len c = 0 \/ s_interface_empty c = true) ->
  is_valid_config c <> VOk true.
Proof. exact valid_config_refuses. Qed.
Print Assumptions C16_valid_config_refuses.

(* the validator itself panics (start-up equally refused) exactly when per-client statistics are on
   and the configured persistence directory does not exist *)
Theorem C16_valid_config_panic : forall c,
  is_valid_config c = VPanic <->
  (s_client_stats c = true /\ exists d, s_pdir c = Some d /\ d_exists d = false).
Proof. exact valid_config_panic. Qed.
Print Assumptions C16_valid_config_panic.

Example C16_valid_config_example :
  is_valid_config (mksettings 2002 false 32 KmsPlaintext 64 0 4 true (Some (mkdir true true false)) true) = VOk true
  /\ is_valid_config (mksettings 2002 false 32 KmsPlaintext 65 0 4 true (Some (mkdir true true false)) true) = VOk false.
Proof. split; reflexivity. Qed.

(* ---- tie to the source: the integer literals of the functions this property's model stands for
   (private constants, bounds, unit factors; the files are SiteMap.files_C16) are today the ones the
   model was written against. Gen/Sites.v num_literals is regenerated from /repo on every run; a
   changed, added or removed number in a modelled function breaks this obligation ---- *)
Require RV.Gen.Sites RV.Model.SiteMap RV.Proofs.SitesLits.
Theorem C16_literals_reviewed : RV.Model.SiteMap.literals_ok RV.Model.SiteMap.files_C16.
Proof. apply RV.Proofs.SitesLits.literals_okb_sound. vm_compute. reflexivity. Qed.
Print Assumptions C16_literals_reviewed.

(* ---- the validator AS TRANSLATED FROM THE SOURCE on this run ----
   Gen/Code.v gen_is_valid_config is produced by /verif/rs2coq from src/config/mod.rs (control flow
   translated structurally: the one mutable flag, the sequence of ifs, else-if chains, the unwrap;
   configuration getters and the directory probes through the table in rs2coq/targets.txt). It is
   the modelled validator, so the theorems above hold of the code as it is written today. *)
Require Import RV.Model.Bytes RV.Model.Message RV.Gen.Code RV.Proofs.CodeConfig.

Theorem C16_translated_validator_is_model :
  forall c, to_vres (gen_is_valid_config c) = is_valid_config c.
Proof. exact gen_is_valid_config_model. Qed.
Print Assumptions C16_translated_validator_is_model.

Theorem C16_translated_validator_iff :
  forall c, gen_is_valid_config c = Ok true <-> config_ok c = true.
Proof. exact gen_is_valid_config_iff. Qed.
Print Assumptions C16_translated_validator_iff.
