(* C05 — wire codec round-trips, is canonical, agrees with a reference codec.
   Statements only; every proof is `exact <lemma from Proofs/>`. The statements are the Props
   of Spec/CodecGoals.v, restated here in full so that they cannot drift silently. *)
Require Import RV.Model.Bytes RV.Gen.Tables RV.Model.Tag RV.Model.Message RV.Spec.RefCodec.
Require Import RV.Spec.CodecGoals RV.Proofs.TagFacts RV.Proofs.CodecDecode RV.Proofs.CodecEncode.
Local Open Scope N_scope.

(* Rust's derived order on Tag (what add_field / from_bytes compare with) is exactly the numeric
   order of the little-endian wire words, on today's regenerated table *)
Theorem C05_tag_order : forall a b, tag_lt a b = (tag_num a <? tag_num b).
Proof. exact tag_lt_numeric. Qed.
Print Assumptions C05_tag_order.

Theorem C05_tag_order_le : forall a b, tag_le a b = (tag_num a <=? tag_num b).
Proof. exact tag_le_numeric. Qed.
Print Assumptions C05_tag_order_le.

Theorem C05_tag_wire_roundtrip : forall t, tag_of_wire (tag_wire t) = Some t.
Proof. exact tag_of_wire_wire. Qed.
Print Assumptions C05_tag_wire_roundtrip.

Theorem C05_tag_from_wire_reflected : forall t, tag_from_wire_of_wire t = Some t.
Proof. exact tag_from_wire_reflected. Qed.
Print Assumptions C05_tag_from_wire_reflected.

(* the decoder accepts a byte string iff the reference decoder does, with identical content,
   for every input shorter than 2^32 bytes (the range in which `as u32` is the identity) *)
Theorem C05_decode_agrees :
  forall bs, lenN bs < two32 -> ok_opt (from_bytes bs) = ref_decode bs.
Proof. exact decode_agrees. Qed.
Print Assumptions C05_decode_agrees.

(* API-built messages with 4-byte aligned values encode canonically and decode back *)
Theorem C05_roundtrip :
  forall m, Built m -> aligned_values m -> N.of_nat (encoded_size m) < two32 ->
            encode m = Ok (canon m) /\ from_bytes (canon m) = Ok m.
Proof. exact (roundtrip_from_agrees decode_agrees). Qed.
Print Assumptions C05_roundtrip.

(* every accepted non-empty message re-encodes to the identical bytes *)
Theorem C05_canonical :
  forall bs m, lenN bs < two32 -> from_bytes bs = Ok m -> m <> [] -> encode m = Ok bs.
Proof. exact canonical. Qed.
Print Assumptions C05_canonical.

(* at most one field per known tag: the `2..=1024` arm never decides acceptance *)
Theorem C05_tagcount :
  forall bs m, from_bytes bs = Ok m -> (length m <= length all_tags)%nat.
Proof. exact tagcount. Qed.
Print Assumptions C05_tagcount.

(* RFC framing adds exactly the 8-byte magic and the little-endian payload length *)
Theorem C05_framed :
  forall m e, encode m = Ok e ->
              encode_framed m = Ok (REQUEST_FRAMING_BYTES ++ u32le (as_u32 (lenN e)) ++ e).
Proof. exact framed. Qed.
Print Assumptions C05_framed.

(* non-vacuity: a concrete API-built aligned message meets the hypotheses of C05_roundtrip *)
Example C05_roundtrip_nonvacuous :
  exists m, Built m /\ aligned_values m /\ N.of_nat (encoded_size m) < two32 /\ length m = 2%nat.
Proof.
  exists [(NONC, [x01; x02; x03; x04]); (PAD, [])].
  split.
  { eapply Built_add with (m := [(NONC, [x01; x02; x03; x04])]) (t := PAD) (v := []).
    - eapply Built_add with (m := []) (t := NONC) (v := [x01; x02; x03; x04]); [constructor|reflexivity].
    - reflexivity. }
  split; [repeat constructor|]. split; [vm_compute; reflexivity|reflexivity].
Qed.

(* ---- tie to the source: src/message.rs itself, translated by /verif/rs2coq on this run
   (Gen/Code.v), computes what the model computes. Inside message.rs a message is the pair of
   vectors `tags`, `values` (always of equal length); the model's message is `combine tags values`. ---- *)
Require RV.Model.GenSupport RV.Gen.Code RV.Proofs.CodeLib RV.Proofs.CodeMsgEnc RV.Proofs.CodeMsgDec RV.Proofs.CodeMsgRound.

Theorem C05_translated_decoder_is_model :
  forall bs, RV.Gen.Code.gen_from_bytes bs = from_bytes bs.
Proof. exact RV.Proofs.CodeMsgDec.gen_from_bytes_model. Qed.
Print Assumptions C05_translated_decoder_is_model.

Theorem C05_translated_encoder_is_model :
  forall tags values, length tags = length values ->
    RV.Gen.Code.gen_encode tags values = encode (combine tags values)
    /\ RV.Gen.Code.gen_encode_framed tags values = encode_framed (combine tags values)
    /\ RV.Gen.Code.gen_encoded_size tags values = Ok (N.of_nat (encoded_size (combine tags values))).
Proof. exact RV.Proofs.CodeMsgEnc.gen_encoder_model. Qed.
Print Assumptions C05_translated_encoder_is_model.

Theorem C05_translated_fields_are_model :
  forall tags values t v, length tags = length values ->
    RV.Gen.Code.gen_add_field tags values t v
      = RV.Proofs.CodeLib.omap RV.Proofs.CodeLib.unzip (add_field (combine tags values) t v)
    /\ RV.Gen.Code.gen_get_field tags values t = Ok (get_field (combine tags values) t).
Proof. exact RV.Proofs.CodeMsgEnc.gen_fields_model. Qed.
Print Assumptions C05_translated_fields_are_model.

(* hence the round trip holds of the translated functions themselves *)
Theorem C05_translated_canonical :
  forall bs tags values, lenN bs < two32 -> length tags = length values ->
    RV.Gen.Code.gen_from_bytes bs = Ok (combine tags values) -> combine tags values <> [] ->
    RV.Gen.Code.gen_encode tags values = Ok bs.
Proof. exact RV.Proofs.CodeMsgRound.gen_canonical. Qed.
Print Assumptions C05_translated_canonical.

(* ---- tie to the source: the integer literals of the functions this property's model stands for
   (private constants, bounds, unit factors; the files are SiteMap.files_C05) are today the ones the
   model was written against. Gen/Sites.v num_literals is regenerated from /repo on every run; a
   changed, added or removed number in a modelled function breaks this obligation ---- *)
Require RV.Gen.Sites RV.Model.SiteMap RV.Proofs.SitesLits.
Theorem C05_literals_reviewed : RV.Model.SiteMap.literals_ok RV.Model.SiteMap.files_C05.
Proof. apply RV.Proofs.SitesLits.literals_okb_sound. vm_compute. reflexivity. Qed.
Print Assumptions C05_literals_reviewed.

(* ---- src/tag.rs AS TRANSLATED FROM THE SOURCE on this run: the tag table written in the source (data():
   wire bytes and display text per tag; is_nested) is the table reflected from the compiled code
   (Gen/Tables.v), and from_wire — the match on the wire bytes — answers, for EVERY byte string, the tag of
   the table with those wire bytes and InvalidTag otherwise. The 32-bit sweep of the correspondence run is no
   longer what this rests on. ---- *)
Require Import RV.Model.GenSupport RV.Gen.Code RV.Proofs.CodeTag.

Theorem C05_translated_tag_table_is_reflected :
  forall t, gen_tag_wire_value t = Ok (tag_wire t) /\ gen_tag_as_string t = Ok (tag_display t)
            /\ gen_tag_is_nested t = Ok (tag_nested t).
Proof. exact gen_tag_table_model. Qed.
Print Assumptions C05_translated_tag_table_is_reflected.

Theorem C05_translated_from_wire_is_model :
  forall bs, gen_tag_from_wire bs = match tag_of_wire bs with Some t => Ok t | None => Err InvalidTag end.
Proof. exact gen_tag_from_wire_model. Qed.
Print Assumptions C05_translated_from_wire_is_model.

Theorem C05_translated_from_wire_only_table :
  forall bs t, gen_tag_from_wire bs = Ok t -> bs = tag_wire t.
Proof. exact gen_tag_from_wire_only_table. Qed.
Print Assumptions C05_translated_from_wire_only_table.

(* RtMessage::add_field AS TRANSLATED with the message kept on both outcomes: a refused call (tag not above
   the last one) leaves tags and values exactly as they were, an accepted one appends exactly one of each —
   so a caller that goes on after a refusal still holds a message that round-trips *)
Require Import RV.Proofs.CodeMsgState.
Theorem C05_translated_add_field_state :
  forall tags values t v,
  gen_add_field_st tags values t v
  = Ok (match last_opt tags with
        | Some l => if tag_le t l then (Err (TagNotStrictlyIncreasing t), (tags, values))
                    else (Ok tt, ((tags ++ [t])%list, (values ++ [v])%list))
        | None => (Ok tt, ((tags ++ [t])%list, (values ++ [v])%list))
        end).
Proof. exact gen_add_field_state. Qed.
Print Assumptions C05_translated_add_field_state.

Theorem C05_translated_refused_add_field_changes_nothing :
  forall tags values t v e st,
  gen_add_field_st tags values t v = Ok (Err e, st) -> st = (tags, values).
Proof. exact gen_add_field_refused_changes_nothing. Qed.
Print Assumptions C05_translated_refused_add_field_changes_nothing.

(* the remaining constructors / accessors of RtMessage AS TRANSLATED (with_capacity, new_deliberately_invalid,
   num_fields, into_hash_map, clear): the message is its two vectors, into_hash_map pairs them up in order *)
Require Import RV.Proofs.CodeSmall.
Theorem C05_translated_accessors_are_model :
  forall tags values n,
  gen_msg_with_capacity n = Ok ([], [])
  /\ gen_msg_new_deliberately_invalid tags values = Ok (tags, values)
  /\ gen_msg_num_fields tags values = Ok (as_u32 (lenN tags))
  /\ gen_msg_into_hash_map tags values = Ok (combine tags values)
  /\ gen_msg_clear tags values = Ok ([], []).
Proof. exact gen_msg_accessors_model. Qed.
Print Assumptions C05_translated_accessors_are_model.
