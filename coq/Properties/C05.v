(* C05 — wire codec round-trips, is canonical, agrees with a reference codec.
   This file contains statements only; every proof is `exact <lemma from Proofs/>`. *)
Require Import RV.Model.Bytes RV.Gen.Tables RV.Model.Tag RV.Model.Message RV.Spec.RefCodec.
Require Import RV.Proofs.TagFacts.
Local Open Scope N_scope.

(* Rust's derived order on Tag (what add_field / from_bytes compare with) is exactly the numeric
   order of the little-endian wire words, on today's table *)
Theorem C05_tag_order : forall a b, tag_lt a b = (tag_num a <? tag_num b).
Proof. exact tag_lt_numeric. Qed.
Print Assumptions C05_tag_order.

Theorem C05_tag_order_le : forall a b, tag_le a b = (tag_num a <=? tag_num b).
Proof. exact tag_le_numeric. Qed.
Print Assumptions C05_tag_order_le.

Theorem C05_tag_wire_roundtrip : forall t, tag_of_wire (tag_wire t) = Some t.
Proof. exact tag_of_wire_wire. Qed.
Print Assumptions C05_tag_wire_roundtrip.

Theorem C05_tag_from_wire_reflected : forall t, tag_from_wire_of_wire t = Some t.
Proof. exact tag_from_wire_reflected. Qed.
Print Assumptions C05_tag_from_wire_reflected.
