(* C20 — the long-term seed never appears in anything the server emits.
   PARTIAL: a non-interference theorem on the model plus a machine-checked review of every
   logging / formatting call site of today's sources; that the compiled code has no other emission
   path, and that signatures and public keys do not reveal the seed (Ed25519), are not theorems.
   The scan of real emissions (datagrams, captured log records at every level, the binary's
   stdout/stderr) for the seed and the derived scalar in raw / hex / base64 form is the tie. *)
Require Import RV.Model.Bytes RV.Gen.Tables RV.Gen.Sites RV.Model.Keys RV.Model.Server RV.Model.SiteMap
        RV.Spec.ProcessGoals.
Require Import RV.Proofs.ProcessFacts RV.Proofs.SitesLog.
From Coq Require Import List String.

(* the seed influences the server ONLY through the public key and the signatures made with it: two
   seeds with the same public key and the same signatures give the same server state, hence — since
   processing is a function of that state — the same datagrams and the same log records at every
   level, for all traffic *)
Theorem C20_noninterference :
  forall H ed_pk ed_sign cfg lt1 lt2 oi oc,
    ed_pk lt1 = ed_pk lt2 -> (forall m, ed_sign lt1 m = ed_sign lt2 m) ->
    server_new H ed_pk ed_sign cfg lt1 oi oc = server_new H ed_pk ed_sign cfg lt2 oi oc.
Proof. exact noninterference. Qed.
Print Assumptions C20_noninterference.

(* every logging / printing / formatting call site of today's sources (regenerated scan) is in the
   reviewed map, which records for each that no argument derives from the seed other than through
   the public key (or which model construct stands for it) *)
Theorem C20_log_sites_reviewed :
  forall s, In s log_sites -> exists note, In (s, note) log_site_map.
Proof. exact log_sites_covered. Qed.
Print Assumptions C20_log_sites_reviewed.

(* ---- tie to the source: the integer literals of the functions this property's model stands for
   (private constants, bounds, unit factors; the files are SiteMap.files_C20) are today the ones the
   model was written against. Gen/Sites.v num_literals is regenerated from /repo on every run; a
   changed, added or removed number in a modelled function breaks this obligation ---- *)
Require RV.Gen.Sites RV.Model.SiteMap RV.Proofs.SitesLits.
Theorem C20_literals_reviewed : RV.Model.SiteMap.literals_ok RV.Model.SiteMap.files_C20.
Proof. apply RV.Proofs.SitesLits.literals_okb_sound. vm_compute. reflexivity. Qed.
Print Assumptions C20_literals_reviewed.
