(* C13 — incremental signer/verifier equal one-shot Ed25519, no carry-over.
   Statements only; proofs are `exact <lemma>`. Ed25519 itself is abstract: the theorems hold
   for ANY one-shot primitives, in particular RFC 8032's. *)
Require Import RV.Model.Bytes RV.Model.Sign RV.Proofs.SignFacts.

(* for every seed and every operation sequence (hence every chunking, every number of messages):
   the k-th signature is the one-shot signature of the concatenated chunks of the k-th message *)
Theorem C13_signer :
  forall (ed_sign : bytes -> bytes -> bytes) seed s ops,
    signer_from_seed seed = Ok s ->
    run_signer ed_sign s ops = map (ed_sign seed) (messages ops).
Proof. exact signer_correct. Qed.
Print Assumptions C13_signer.

(* independence: signatures after a Sig are those of a fresh signer, whatever came before *)
Theorem C13_no_carry_over :
  forall (ed_sign : bytes -> bytes -> bytes) seed buf pre post,
    run_signer ed_sign (mksigner seed buf) (pre ++ Sig :: post)
    = run_signer ed_sign (mksigner seed buf) (pre ++ [Sig]) ++ run_signer ed_sign (mksigner seed []) post.
Proof. exact signer_no_carry_over. Qed.
Print Assumptions C13_no_carry_over.

(* the verifier's verdict is the direct verification of the concatenated chunks *)
Theorem C13_verifier :
  forall (ed_verify : bytes -> bytes -> bytes -> bool) (ed_point : bytes -> bool) pk chunks sig,
    run_verifier ed_verify ed_point pk chunks sig =
      if (length pk =? 32)%nat && ed_point pk then
        if (length sig =? 64)%nat then Ok (ed_verify pk (concat chunks) sig)
        else Panic site_sig_len
      else Panic site_pubkey.
Proof. exact verifier_correct. Qed.
Print Assumptions C13_verifier.

(* non-vacuity: a three-message sequence with empty chunks and an empty message *)
Example C13_messages_example :
  messages [Upd [x01]; Upd []; Upd [x02; x03]; Sig; Sig; Upd [x04]; Sig]
  = [[x01; x02; x03]; []; [x04]].
Proof. reflexivity. Qed.

(* ---- tie to the source: MsgSigner::{from_seed, update, sign} and MsgVerifier::{new, update, verify}
   as translated from src/sign.rs on this run keep the model's buffering discipline: update appends,
   sign signs exactly the buffer and clears it, verify checks exactly the buffer; a seed / key /
   signature of the wrong length is a panic on both sides ---- *)
Require RV.Model.GenSupport RV.Gen.Code RV.Proofs.CodeSign.
Theorem C13_translated_sign_is_model :
  forall ed_sign ed_verify ed_point,
  (forall seed, ok_opt (RV.Gen.Code.gen_signer_from_seed seed)
                = option_map (fun s => (sg_seed s, sg_buf s)) (RV.Proofs.CodeSign.ok_u (signer_from_seed seed)))
  /\ (forall s d, RV.Gen.Code.gen_signer_update (sg_buf s) d = Ok (sg_buf (signer_update s d)))
  /\ (forall s, RV.Gen.Code.gen_signer_sign ed_sign (sg_seed s) (sg_buf s)
                = Ok (fst (signer_sign ed_sign s), sg_buf (snd (signer_sign ed_sign s))))
  /\ (forall pk, ok_opt (RV.Gen.Code.gen_verifier_new ed_point pk)
                 = option_map (fun v => (vf_pk v, vf_buf v)) (RV.Proofs.CodeSign.ok_u (verifier_new ed_point pk)))
  /\ (forall v d, RV.Gen.Code.gen_verifier_update (vf_buf v) d = Ok (vf_buf (verifier_update v d)))
  /\ (forall v sig, ok_opt (RV.Gen.Code.gen_verifier_verify ed_verify (vf_pk v) (vf_buf v) sig)
                    = RV.Proofs.CodeSign.ok_u (verifier_verify ed_verify v sig)).
Proof. exact RV.Proofs.CodeSign.gen_sign_model. Qed.
Print Assumptions C13_translated_sign_is_model.

(* ---- tie to the source: the integer literals of the functions this property's model stands for
   (private constants, bounds, unit factors; the files are SiteMap.files_C13) are today the ones the
   model was written against. Gen/Sites.v num_literals is regenerated from /repo on every run; a
   changed, added or removed number in a modelled function breaks this obligation ---- *)
Require RV.Gen.Sites RV.Model.SiteMap RV.Proofs.SitesLits.
Theorem C13_literals_reviewed : RV.Model.SiteMap.literals_ok RV.Model.SiteMap.files_C13.
Proof. apply RV.Proofs.SitesLits.literals_okb_sound. vm_compute. reflexivity. Qed.
Print Assumptions C13_literals_reviewed.
