(* C02 — every server response verifies under an independent spec-derived verifier.
   Statements only. PARTIAL: the *rate* of fault-injected replies is a property of the PRNG
   (SmallRng / Bernoulli) and is measured by the correspondence run, not proved. *)
Require Import RV.Model.Bytes RV.Gen.Tables RV.Model.Message RV.Model.Merkle RV.Model.Keys RV.Model.Server
        RV.Spec.MerkleGoals RV.Spec.RefVerify RV.Spec.ServerGoals.
Require Import RV.Proofs.ReplyFacts RV.Proofs.ServerCorollaries.
Local Open Scope N_scope.

(* With fault injection off the server emits exactly spec_batch_sent (C09_drain); every such
   datagram goes to an accepted request's source and is accepted by the independent verifier
   (framing, reference decoding, nonce echo, certificate under the long-term key with the
   protocol's delegation context, SREP under the delegated key, VER inside SREP for IETF,
   midpoint in the window, index/path consistent with the batch, Merkle recomputation with the
   protocol's own width and leaf), and is no longer than that request. Relative to
   SigCorrect (verify accepts what sign produced) and the lengths of the primitives' outputs. *)
Theorem C02_honest_verifies :
  forall H ed_pk ed_sign ed_verify srv lt oi oc now ds e,
    HashLen H -> PkLen ed_pk -> SigLen ed_sign -> SigCorrect ed_pk ed_sign ed_verify ->
    (length ds <= 64)%nat -> fst now < two64 ->
    In e (spec_batch_sent H ed_pk ed_sign srv lt oi oc now ds) ->
    exists v r, In r (accepted srv v ds)
      /\ em_dest e = req_src r
      /\ wellformed srv (req_dgram r) = Some (req_nonce r, v)
      /\ verify_response H ed_verify v (ed_pk lt) (req_dgram r) (em_bytes e) = true
      /\ (length (em_bytes e) <= length (req_dgram r))%nat.
Proof. exact batch_emission. Qed.
Print Assumptions C02_honest_verifies.

(* the general form: any batch of up to 2^32 requests, any position *)
Theorem C02_reply_verifies :
  forall H ed_pk ed_sign ed_verify,
    HashLen H -> PkLen ed_pk -> SigLen ed_sign -> SigCorrect ed_pk ed_sign ed_verify ->
    forall v srv lt ok now ds i,
      let reqs := accepted srv v ds in
      (i < length reqs)%nat -> N.of_nat (length reqs) <= 4294967296 -> fst now < two64 ->
      verify_response H ed_verify v (ed_pk lt) (req_dgram (nth i reqs req0))
                      (reply_bytes H ed_pk ed_sign v lt ok now reqs i) = true.
Proof. exact reply_verifies. Qed.
Print Assumptions C02_reply_verifies.

(* fault injection: for EVERY PRNG outcome a greased reply is either unchanged or rejected
   outright by the independent verifier — never a reply that verifies but says something else *)
Theorem C02_grease_dichotomy :
  forall H ed_pk ed_sign ed_verify, PkLen ed_pk -> SigLen ed_sign ->
    forall v pk request srv lt ok now ds i fault c m' bs,
      let reqs := accepted srv v ds in
      N.of_nat (length reqs) <= 4294967296 ->
      grease fault c (reply_msg H ed_pk ed_sign v lt ok now reqs i) = Ok m' ->
      (match v with Google => encode m' | RfcDraft13 => encode_framed m' end) = Ok bs ->
      m' = reply_msg H ed_pk ed_sign v lt ok now reqs i
      \/ verify_response H ed_verify v pk request bs = false.
Proof. exact grease_dichotomy. Qed.
Print Assumptions C02_grease_dichotomy.

(* with fault_percentage = 0 grease is the identity whatever the PRNG says *)
Theorem C02_grease_off : forall c m, grease 0 c m = Ok m.
Proof. reflexivity. Qed.
Print Assumptions C02_grease_off.

(* ---- tie to the source: the two deliberate faults of src/grease.rs as translated on this run (the
   64 random signature bytes and the sampled index permutation are inputs) build the messages the
   model builds, or both fail ---- *)
Require RV.Model.GenSupport RV.Gen.Code RV.Proofs.CodeGrease.
Theorem C02_translated_grease_is_model :
  forall rnd (perm : list nat) m,
  ok_opt (RV.Gen.Code.gen_corrupt_response_signature rnd m) = ok_opt (corrupt_response_signature rnd m)
  /\ ok_opt (RV.Gen.Code.gen_randomly_order_tags (map N.of_nat perm) m) = ok_opt (randomly_order_tags perm m).
Proof. exact RV.Proofs.CodeGrease.gen_grease_model. Qed.
Print Assumptions C02_translated_grease_is_model.

(* C02 of the code as written: with fault injection off, EVERY datagram that one wake-up of the
   TRANSLATED process_events hands to the socket answers an accepted request of its batch, goes to that
   request's source, is accepted by the independent verifier for that request under the long-term key,
   and is no longer than the request (composition of C09_translated_process_events_meets_spec with
   C02_honest_verifies over every batch of the drain) *)
Require RV.Proofs.CodeReplies.
Theorem C02_translated_replies_verify :
  forall H ed_pk ed_sign ed_verify,
    HashLen H -> PkLen ed_pk -> SigLen ed_sign -> SigCorrect ed_pk ed_sign ed_verify ->
    forall cfg lt oi oc s queue clk coins on_health on_status buf st events ri' rc' out st',
      SInv H ed_pk ed_sign cfg lt oi oc s -> fault_pct cfg = 0 -> sends_ok cfg ->
      (1 <= batch_size cfg)%nat -> (batch_size cfg <= 64)%nat -> (forall j, fst (clk j) < two64) ->
      ok_opt (RV.Proofs.CodeLib.omap (fun '(sock, _, ri', rc', st', _, _) => (ri', rc', snd sock, st'))
         (RV.Gen.Code.gen_process_events H ed_sign cfg clk [RV.Model.GenSupport.EvMessage] on_health on_status
            (N.of_nat (batch_size cfg)) (queue, []) buf (ltk_srv_value H ed_pk lt) (s_ietf s) (s_classic s) st coins 0%nat events))
      = Some (ri', rc', out, st') ->
      Forall (RV.Proofs.CodeReplies.good_reply H ed_pk ed_verify (ltk_srv_value H ed_pk lt) lt) out.
Proof. exact RV.Proofs.CodeReplies.gen_replies_verify. Qed.
Print Assumptions C02_translated_replies_verify.

(* ---- tie to the source: the integer literals of the functions this property's model stands for
   (private constants, bounds, unit factors; the files are SiteMap.files_C02) are today the ones the
   model was written against. Gen/Sites.v num_literals is regenerated from /repo on every run; a
   changed, added or removed number in a modelled function breaks this obligation ---- *)
Require RV.Gen.Sites RV.Model.SiteMap RV.Proofs.SitesLits.
Theorem C02_literals_reviewed : RV.Model.SiteMap.literals_ok RV.Model.SiteMap.files_C02.
Proof. apply RV.Proofs.SitesLits.literals_okb_sound. vm_compute. reflexivity. Qed.
Print Assumptions C02_literals_reviewed.

(* ---- the fault RATE, proved: Grease::new and Grease::should_add_error AS TRANSLATED FROM THE SOURCE on
   this run, over rand's Bernoulli as reflected from the compiled crate (Gen/Tables.v bernoulli_threshold,
   found by bisection with a generator that returns a chosen value). A server configured with fault
   percentage p corrupts a response exactly when the generator's next 64-bit output v is below the
   threshold t(p); t(p) <= 2^64, t(0) = 0, and |t(p) / 2^64 - p / 100| < 2^18 / (100 * 2^64) < 2^-52:
   the failing share over the generator's whole output range is p percent. What stays measured is that
   SmallRng's outputs are uniform. ---- *)
Require Import RV.Model.GenSupport RV.Gen.Code RV.Proofs.CodeGreaseRate.
From Coq Require Import NArith ZArith.

Theorem C02_translated_fault_decision :
  forall p entropy v r,
  gen_grease_new entropy p = Ok ((0 <? p)%N, (p, 100%N), entropy) /\
  gen_should_add_error (0 <? p)%N (p, 100%N) (v :: r)
  = Ok (if (0 <? p)%N then ((v <? bern_threshold (p, 100%N))%N, r) else (false, v :: r)).
Proof. exact gen_fault_decision. Qed.
Print Assumptions C02_translated_fault_decision.

Theorem C02_fault_rate :
  forall p, (p <= 100)%N ->
  let t := bern_threshold (p, 100%N) in
  (t <= two64)%N /\ (p = 0%N -> t = 0%N) /\
  (Z.abs (Z.of_N t * 100 - Z.of_N p * Z.of_N two64) < 262144)%Z.
Proof. exact fault_rate. Qed.
Print Assumptions C02_fault_rate.
