(* Envelope.v — model of src/kms/envelope.rs. AEAD (AES-256-GCM with associated data) and the
   KMS provider are Section variables; the random DEK and nonce are explicit inputs.
   Definitions only. *)
Require Import RV.Model.Bytes.
Local Open Scope N_scope.

Inductive kms_error := InvalidData | OperationFailed | ProviderError (code : N).
Definition kres := outcome kms_error.

Definition DEK_LEN_FIELD : nat := 2.
Definition NONCE_LEN_FIELD : nat := 2.
Definition NONCE_LEN_BYTES : nat := 12.
Definition TAG_LEN_BYTES : nat := 16.
Definition DEK_LEN_BYTES : nat := 32.
Definition SEED_LEN : nat := 32.
(* MIN_PAYLOAD_SIZE = DEK_LEN_FIELD + NONCE_LEN_FIELD + NONCE_LEN_BYTES + SEED_LENGTH + TAG_LEN_BYTES *)
Definition MIN_PAYLOAD_SIZE : nat := 64.

(* AD = "roughenough" *)
Definition AD : bytes := [x72; x6f; x75; x67; x68; x65; x6e; x6f; x75; x67; x68].

Section Envelope.
  (* seal key nonce ad plaintext = ciphertext || tag ; open key nonce ad (ciphertext || tag) *)
  Variable seal : bytes -> bytes -> bytes -> bytes -> bytes.
  Variable open : bytes -> bytes -> bytes -> bytes -> option bytes.
  (* KmsProvider::encrypt_dek / decrypt_dek *)
  Variable wrap : bytes -> kres bytes.
  Variable unwrap : bytes -> kres bytes.

  (* the parse performed by decrypt_seed: (wrapped DEK, nonce, ciphertext+tag) *)
  Definition parse_blob (blob : bytes) : kres (bytes * bytes * bytes) :=
    if (length blob <? MIN_PAYLOAD_SIZE)%nat then Err InvalidData
    else
      let dek_len := N.to_nat (rd16 blob) in
      let nonce_len := N.to_nat (rd16 (skipn 2 blob)) in
      if negb (nonce_len =? NONCE_LEN_BYTES)%nat || (length blob <? dek_len)%nat then Err InvalidData
      else
        let rest := skipn 4 blob in
        (* read_exact(dek_len), read_exact(12): io error -> OperationFailed *)
        if (length rest <? dek_len)%nat then Err OperationFailed
        else
          let encrypted_dek := firstn dek_len rest in
          let rest2 := skipn dek_len rest in
          if (length rest2 <? NONCE_LEN_BYTES)%nat then Err OperationFailed
          else Ok (encrypted_dek, firstn NONCE_LEN_BYTES rest2, skipn NONCE_LEN_BYTES rest2).

  (* EnvelopeEncryption::decrypt_seed *)
  Definition decrypt_seed (blob : bytes) : kres bytes :=
    obind (parse_blob blob) (fun '(encrypted_dek, nonce, encrypted_seed) =>
    obind (unwrap encrypted_dek) (fun dek =>
    (* UnboundKey::new(&AES_256_GCM, &dek)? *)
    if negb (length dek =? DEK_LEN_BYTES)%nat then Err OperationFailed
    else match open dek nonce AD encrypted_seed with
         | Some p => Ok p
         | None => Err OperationFailed
         end)).

  (* EnvelopeEncryption::encrypt_seed with the RNG outputs made explicit *)
  Definition encrypt_seed (raw_dek raw_nonce plaintext : bytes) : kres bytes :=
    let buf := seal raw_dek raw_nonce AD plaintext in
    obind (wrap raw_dek) (fun wrapped =>
    Ok (u16le (N.of_nat (length wrapped) mod 65536) ++ u16le (N.of_nat (length raw_nonce) mod 65536)
        ++ wrapped ++ raw_nonce ++ buf)).
End Envelope.
