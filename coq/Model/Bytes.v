(* Bytes.v — byte strings, little-endian words, outcomes.
   Model layer: definitions only (proofs live in Proofs/). *)
From Coq Require Export List NArith Bool Arith.
From Coq Require Export Strings.Byte.
Export ListNotations.

Arguments N.add : simpl never.
Arguments N.sub : simpl never.
Arguments N.mul : simpl never.
Arguments N.div : simpl never.
Arguments N.modulo : simpl never.
Arguments N.ltb : simpl never.
Arguments N.leb : simpl never.
Arguments N.eqb : simpl never.
Arguments N.of_nat : simpl never.
Arguments N.to_nat : simpl never.
Arguments N.land : simpl never.
Arguments N.shiftr : simpl never.

Definition bytes := list byte.

Definition b2n (b : byte) : N := Byte.to_N b.

(* [n2b n] is the byte [n mod 256] *)
Definition n2b (n : N) : byte :=
  match Byte.of_N (n mod 256) with Some b => b | None => x00 end.

Definition byte_eqb (a b : byte) : bool := N.eqb (b2n a) (b2n b).

Fixpoint bytes_eqb (a b : bytes) : bool :=
  match a, b with
  | [], [] => true
  | x :: a', y :: b' => byte_eqb x y && bytes_eqb a' b'
  | _, _ => false
  end.

(* little-endian 32/64/16-bit words; writers use nested division *)
Definition rd32 (l : bytes) : N :=
  match l with
  | a :: b :: c :: d :: _ => b2n a + 256 * (b2n b + 256 * (b2n c + 256 * b2n d))
  | _ => 0
  end%N.

Definition u32le (n : N) : bytes :=
  [n2b n; n2b (n / 256); n2b (n / 256 / 256); n2b (n / 256 / 256 / 256)]%N.

Definition rd16 (l : bytes) : N :=
  match l with
  | a :: b :: _ => b2n a + 256 * b2n b
  | _ => 0
  end%N.

Definition u16le (n : N) : bytes := [n2b n; n2b (n / 256)]%N.

Fixpoint rdle (l : bytes) : N :=
  match l with
  | [] => 0
  | a :: r => b2n a + 256 * rdle r
  end%N.

Definition rd64 (l : bytes) : N := rdle (firstn 8 l).

Fixpoint wrle (k : nat) (n : N) : bytes :=
  match k with
  | O => []
  | S k' => n2b n :: wrle k' (n / 256)
  end%N.

Definition u64le (n : N) : bytes := wrle 8 n.

Definition two32 : N := 4294967296.
Definition two64 : N := 18446744073709551616.

(* `x as u32` on a usize *)
Definition as_u32 (n : N) : N := (n mod two32)%N.

Definition lenN {A} (l : list A) : N := N.of_nat (length l).

(* Rust panics are values *)
Inductive outcome (E A : Type) : Type :=
| Ok (a : A)
| Err (e : E)
| Panic (site : nat).
Arguments Ok {E A} a.
Arguments Err {E A} e.
Arguments Panic {E A} site.

Definition obind {E A B} (x : outcome E A) (f : A -> outcome E B) : outcome E B :=
  match x with
  | Ok a => f a
  | Err e => Err e
  | Panic s => Panic s
  end.

Definition is_panic {E A} (x : outcome E A) : bool :=
  match x with Panic _ => true | _ => false end.

Definition ok_opt {E A} (x : outcome E A) : option A :=
  match x with Ok a => Some a | _ => None end.

(* bytes[a..b] with Rust's bounds checks: panics if a > b or b > len *)
Definition slice {E} (site : nat) (bs : bytes) (a b : nat) : outcome E bytes :=
  if (b <? a) || (length bs <? b) then Panic site
  else Ok (firstn (b - a) (skipn a bs)).

Fixpoint repeat_byte (b : byte) (n : nat) : bytes :=
  match n with O => [] | S n' => b :: repeat_byte b n' end.

(* chunk a byte string into pieces of [w] bytes (last may be shorter), as slice::chunks;
   fuel = length suffices *)
Fixpoint chunks_fuel (fuel : nat) (w : nat) (bs : bytes) : list bytes :=
  match fuel with
  | O => []
  | S f =>
      match bs with
      | [] => []
      | _ => firstn w bs :: chunks_fuel f w (skipn w bs)
      end
  end.
Definition chunks (w : nat) (bs : bytes) : list bytes := chunks_fuel (length bs) w bs.

(* hex (lowercase) *)
Definition hexdigit (n : N) : byte :=
  match n with
  | 0 => x30 | 1 => x31 | 2 => x32 | 3 => x33 | 4 => x34 | 5 => x35 | 6 => x36 | 7 => x37
  | 8 => x38 | 9 => x39 | 10 => x61 | 11 => x62 | 12 => x63 | 13 => x64 | 14 => x65 | _ => x66
  end%N.

Fixpoint hex_encode (bs : bytes) : bytes :=
  match bs with
  | [] => []
  | b :: r => hexdigit (b2n b / 16) :: hexdigit (b2n b mod 16) :: hex_encode r
  end.
