(* Merkle.v — model of src/merkle.rs (MerkleTree), generic in the hash function.
   Definitions only. *)
Require Import RV.Model.Bytes RV.Gen.Tables.

Definition site_levels0 : nat := 10.      (* self.levels[0] *)
Definition site_root_assert : nat := 11.  (* assert_eq!(self.levels[level].len(), 1) / no-leaf assert *)
Definition site_node_index : nat := 12.   (* self.levels[level-1][i*2 (+1)] *)
Definition site_path_index : nat := 13.   (* self.levels[level][sibling] / self.levels[level] *)
Definition site_path_depth : nat := 14.   (* assert!(level <= 32) *)
Definition site_paths_len : nat := 15.    (* assert_eq!(paths.len() % node_len, 0) *)
Definition site_finalize : nat := 16.     (* data[0..32] *)
Definition site_mfuel : nat := 98.        (* model artefact *)

Definition mres := outcome unit.

Section Merkle.
  (* the full-width digest (SHA-512 in the implementation) *)
  Variable H : bytes -> bytes.

  (* MerkleTree::node_len *)
  Definition node_len (v : version) : nat :=
    match v with RfcDraft13 => 32 | Google => 64 end.

  (* MerkleTree::hash: digest truncated to node_len *)
  Definition hashv (v : version) (x : bytes) : bytes := firstn (node_len v) (H x).
  Definition hash_leaf (v : version) (d : bytes) : bytes := hashv v (TREE_LEAF_TWEAK ++ d).
  Definition hash_nodes (v : version) (a b : bytes) : bytes := hashv v (TREE_NODE_TWEAK ++ a ++ b).
  Definition zero_node (v : version) : bytes := repeat_byte x00 (node_len v).

  (* finalize_output *)
  Definition finalize (v : version) (d : bytes) : mres bytes :=
    match v with
    | RfcDraft13 => slice site_finalize d 0 32
    | Google => Ok d
    end.

  Record tree := mktree { levels : list (list bytes); tver : version }.

  Definition tree_new (v : version) : tree := mktree [[]] v.

  (* push_leaf: self.levels[0].push(hash) *)
  Definition push_leaf (t : tree) (d : bytes) : mres tree :=
    match levels t with
    | [] => Panic site_levels0
    | l0 :: r => Ok (mktree ((l0 ++ [hash_leaf (tver t) d]) :: r) (tver t))
    end.

  (* reset: clear every level *)
  Definition reset (t : tree) : tree := mktree (map (fun _ => []) (levels t)) (tver t).

  Definition tree_is_empty (t : tree) : mres bool :=
    match levels t with
    | [] => Panic site_levels0
    | l0 :: _ => Ok (match l0 with [] => true | _ => false end)
    end.

  (* the inner `for i in 0..node_count` loop: hashes of (l[2i], l[2i+1]) with checked indexing *)
  Fixpoint pair_hashes (v : version) (k i : nat) (l : list bytes) : mres (list bytes) :=
    match k with
    | O => Ok []
    | S k' =>
        match nth_error l (2 * i), nth_error l (2 * i + 1) with
        | Some a, Some b =>
            obind (pair_hashes v k' (S i) l) (fun r => Ok (hash_nodes v a b :: r))
        | _, _ => Panic site_node_index
        end
    end.

  (* the `while node_count > 1` loop. below = levels[0..level-1] (done), cur = levels[level],
     above = levels[level+1..] *)
  Fixpoint root_loop (fuel : nat) (v : version) (below : list (list bytes)) (cur : list bytes)
           (above : list (list bytes)) (node_count : nat) : mres (list (list bytes) * bytes) :=
    match fuel with
    | O => Panic site_mfuel
    | S f =>
        if (node_count <=? 1)%nat then
          match cur with
          | [r] => obind (finalize v r) (fun out => Ok (below ++ [[]] ++ above, out))
          | _ => Panic site_root_assert
          end
        else
          let '(next, above') := match above with [] => ([], []) | n :: a => (n, a) end in
          let odd := Nat.odd node_count in
          let cur' := if odd then cur ++ [zero_node v] else cur in
          let nc := Nat.div (if odd then S node_count else node_count) 2 in
          obind (pair_hashes v nc 0 cur') (fun hs =>
          root_loop f v (below ++ [cur']) (next ++ hs) above' nc)
    end.

  (* compute_root *)
  Definition compute_root (t : tree) : mres (tree * bytes) :=
    match levels t with
    | [] => Panic site_levels0
    | l0 :: above =>
        match l0 with
        | [] => Panic site_root_assert
        | _ =>
            obind (root_loop (S (length l0)) (tver t) [] l0 above (length l0)) (fun '(lv, out) =>
            Ok (mktree lv (tver t), out))
        end
    end.

  (* get_paths *)
  Fixpoint paths_loop (lvls : list (list bytes)) (index depth : nat) : mres bytes :=
    match lvls with
    | [] => Panic site_path_index
    | l :: rest =>
        match l with
        | [] => if (depth <=? 32)%nat then Ok [] else Panic site_path_depth
        | _ =>
            let sibling := if Nat.even index then S index else pred index in
            match nth_error l sibling with
            | None => Panic site_path_index
            | Some s => obind (paths_loop rest (Nat.div index 2) (S depth)) (fun p => Ok (s ++ p))
            end
        end
    end.

  Definition get_paths (t : tree) (index : nat) : mres bytes := paths_loop (levels t) index 0.

  (* root_from_paths *)
  Fixpoint climb (v : version) (hash : bytes) (index : N) (path : list bytes) : bytes :=
    match path with
    | [] => hash
    | p :: r =>
        let h' := if N.even index then hashv v (TREE_NODE_TWEAK ++ hash ++ p)
                  else hashv v (TREE_NODE_TWEAK ++ p ++ hash) in
        climb v h' (N.div2 index) r
    end.

  Definition root_from_paths (v : version) (index : N) (data paths : bytes) : mres bytes :=
    if negb (Nat.modulo (length paths) (node_len v) =? 0)%nat then Panic site_paths_len
    else finalize v (climb v (hash_leaf v data) index (chunks (node_len v) paths)).

  (* one batch on a tree: reset; push*; compute_root; get_paths for every position *)
  Fixpoint push_all (t : tree) (ls : list bytes) : mres tree :=
    match ls with
    | [] => Ok t
    | d :: r => obind (push_leaf t d) (fun t' => push_all t' r)
    end.

  Fixpoint all_paths (t : tree) (n i : nat) : mres (list bytes) :=
    match n with
    | O => Ok []
    | S n' => obind (get_paths t i) (fun p => obind (all_paths t n' (S i)) (fun r => Ok (p :: r)))
    end.

  Definition batch (t : tree) (ls : list bytes) : mres (tree * bytes * list bytes) :=
    obind (push_all (reset t) ls) (fun t1 =>
    obind (compute_root t1) (fun '(t2, root) =>
    obind (all_paths t2 (length ls) 0) (fun ps => Ok (t2, root, ps)))).

  (* a sequence of batches on one reused tree object *)
  Fixpoint batches (t : tree) (bs : list (list bytes)) : mres (list (bytes * list bytes)) :=
    match bs with
    | [] => Ok []
    | ls :: r =>
        obind (batch t ls) (fun '(t', root, ps) =>
        obind (batches t' r) (fun rest => Ok ((root, ps) :: rest)))
    end.
End Merkle.
