(* SiteMap.v — hand-maintained review of every logging / formatting call site and every
   panic-capable expression in the modelled files, as scanned on the tree this model was written
   against. Each entry says which model construct stands for the site (or why none is needed).
   Proofs/SitesFacts.v proves that TODAY's scan (Gen/Sites.v, regenerated every run) contains no
   site that is missing here: a new or changed log argument, unwrap, assert or slice breaks that
   obligation until it has been reviewed and modelled. *)
From Coq Require Import List String.
Require Import RV.Gen.Sites.
Import ListNotations.
Local Open Scope string_scope.

Definition log_site_map : list (site * string) := [
  (("src/server.rs", "new", "format", """{}:{}"", config.interface(), hc_port"), "seed-free: no argument is derived from the seed");
  (("src/server.rs", "send_to_self", "info", """Sent to self: {:?}"", res"), "seed-free: no argument is derived from the seed");
  (("src/server.rs", "collect_requests", "debug", """Invalid request: '{:?}' ({} bytes) from {} (#{} in batch)"", e, num_bytes, src_addr, i"), "modelled: Server.v collect log site 2 (level debug)");
  (("src/server.rs", "collect_requests", "error", """Error receiving from socket: {:?}: {:?}"", e.kind(), e"), "seed-free: no argument is derived from the seed");
  (("src/server.rs", "handle_health_check", "info", """health check from {}"", src_addr"), "seed-free: no argument is derived from the seed");
  (("src/server.rs", "handle_health_check", "warn", """error writing health check {}"", e"), "seed-free: no argument is derived from the seed");
  (("src/server.rs", "handle_health_check", "warn", """error in health check socket shutdown {}"", e"), "seed-free: no argument is derived from the seed");
  (("src/server.rs", "handle_health_check", "debug", """blocking in TCP health check"""), "seed-free: no argument is derived from the seed");
  (("src/server.rs", "handle_health_check", "warn", """unexpected health check error {}"", e"), "seed-free: no argument is derived from the seed");
  (("src/server.rs", "send_client_stats", "debug", """{} enqueued {} client stats in {:.3} seconds"", self.thread_name(), client_count, elapsed.as_secs_f32()"), "seed-free: no argument is derived from the seed");
  (("src/responder.rs", "send_responses", "debug", """Thread {} responded {} {} bytes to {} for '{}..' (#{} in batch)"", thread::current().name().unwrap(), self.version, bytes_sent, src_addr, HEX.encode(&nonce[0..4]), idx + 1,"), "modelled: Server.v respond_each log site 1 (level debug; evaluates nonce[0..4])");
  (("src/key/longterm.rs", "fmt", "write", "f, ""{}"", self.signer"), "seed-free: no argument is derived from the seed");
  (("src/key/online.rs", "fmt", "write", "f, ""{}"", self.signer"), "seed-free: no argument is derived from the seed");
  (("src/key/mod.rs", "fmt", "write", "f, ""Plaintext"""), "seed-free: no argument is derived from the seed");
  (("src/key/mod.rs", "fmt", "write", "f, ""AwsKms({})"", key_id"), "seed-free: no argument is derived from the seed");
  (("src/key/mod.rs", "fmt", "write", "f, ""GoogleKms({})"", key_id"), "seed-free: no argument is derived from the seed");
  (("src/key/mod.rs", "from_str", "format", """unknown KmsProtection '{}'"", s"), "seed-free: no argument is derived from the seed");
  (("src/sign.rs", "fmt", "write", "f, ""{}"", HEX.encode(&self.public_key_bytes())"), "public key only (a function of the seed through ed_pk)");
  (("src/sign.rs", "fmt", "write", "f, ""Signer({}, {:?})"", HEX.encode(&self.public_key_bytes()), self.buf"), "public key only (a function of the seed through ed_pk)");
  (("src/message.rs", "fmt", "write", "f, ""{}"", self.to_string(1)"), "seed-free: no argument is derived from the seed");
  (("src/lib.rs", "roughenough_version", "format", """{}{}"", VERSION, kms_str"), "seed-free: no argument is derived from the seed");
  (("src/version.rs", "fmt", "write", "f, ""{}"", self.as_string()"), "seed-free: no argument is derived from the seed");
  (("src/tag.rs", "fmt", "write", "f, ""{}"", self.as_string()"), "seed-free: no argument is derived from the seed");
  (("src/error.rs", "from", "format", """KMS operation failed: {}"", m"), "seed-free: no argument is derived from the seed");
  (("src/error.rs", "from", "format", """invalid KMS config: {}"", m"), "seed-free: no argument is derived from the seed");
  (("src/error.rs", "from", "format", """invalid KMS data: {}"", m"), "seed-free: no argument is derived from the seed");
  (("src/error.rs", "from", "format", """invalid KMS key: {}"", m"), "seed-free: no argument is derived from the seed");
  (("src/config/mod.rs", "udp_socket_addr", "format", """{}:{}"", self.interface(), self.port()"), "seed-free: no argument is derived from the seed");
  (("src/config/mod.rs", "is_valid_config", "error", """server port not set: {}"", cfg.port()"), "seed-free: no argument is derived from the seed");
  (("src/config/mod.rs", "is_valid_config", "error", """'interface' is missing"""), "seed-free: no argument is derived from the seed");
  (("src/config/mod.rs", "is_valid_config", "error", """'seed' value is missing"""), "seed-free: no argument is derived from the seed");
  (("src/config/mod.rs", "is_valid_config", "error", """plaintext seed value must be 32 characters long, found {}"", cfg.seed().len()"), "length of the seed only");
  (("src/config/mod.rs", "is_valid_config", "error", """KMS use enabled but seed value is too short to be an encrypted blob"""), "seed-free: no argument is derived from the seed");
  (("src/config/mod.rs", "is_valid_config", "error", """batch_size {} is invalid; valid range 1-64"", cfg.batch_size()"), "seed-free: no argument is derived from the seed");
  (("src/config/mod.rs", "is_valid_config", "error", """fault_percentage {} is invalid; valid range 0-50"", cfg.fault_percentage()"), "seed-free: no argument is derived from the seed");
  (("src/config/mod.rs", "is_valid_config", "error", """num_workers must be > 0"""), "seed-free: no argument is derived from the seed");
  (("src/config/mod.rs", "is_valid_config", "error", """persistence_directory {} is not a directory"", dir.display()"), "seed-free: no argument is derived from the seed");
  (("src/config/mod.rs", "is_valid_config", "error", """persistence_directory {} is not writable"", dir.display()"), "seed-free: no argument is derived from the seed");
  (("src/config/mod.rs", "is_valid_config", "error", """Per-client tracking is enabled (client_stats=true), but no persistence_directory was set"""), "seed-free: no argument is derived from the seed");
  (("src/config/mod.rs", "is_valid_config", "error", """This will result in high memory usage and is likely a misconfiguration"""), "seed-free: no argument is derived from the seed");
  (("src/config/mod.rs", "is_valid_config", "error", """failed to create UDP socket {}:{} {:?}"", cfg.interface(), cfg.port(), e"), "seed-free: no argument is derived from the seed");
  (("src/config/file.rs", "checked_int", "format", """{} value {} is out of range"", key, raw"), "seed-free: no argument is derived from the seed");
  (("src/config/file.rs", "new", "format", """Empty or malformed config file '{}'"", config_file"), "seed-free: no argument is derived from the seed");
  (("src/config/file.rs", "new", "format", """unknown config key: {}"", unknown"), "seed-free: no argument is derived from the seed");
  (("src/kms/mod.rs", "from", "format", """{:?}"", error"), "seed-free: no argument is derived from the seed");
  (("src/kms/mod.rs", "from", "format", """base64: {}"", error"), "seed-free: no argument is derived from the seed");
  (("src/kms/mod.rs", "load_seed", "info", """Unwrapping seed via AWS KMS key '{}'"", key_id"), "seed-free: no argument is derived from the seed");
  (("src/kms/mod.rs", "load_seed", "info", """Unwrapping seed via Google KMS key '{}'"", resource_id"), "seed-free: no argument is derived from the seed");
  (("src/kms/mod.rs", "load_seed", "format", """kms_protection '{}' requires KMS, but server was not compiled with KMS support"", v"), "seed-free: no argument is derived from the seed");
  (("src/kms/envelope.rs", "decrypt_seed", "format", """ciphertext too short: min {}, found {}"", MIN_PAYLOAD_SIZE, ciphertext_blob.len()"), "seed-free: no argument is derived from the seed");
  (("src/kms/envelope.rs", "decrypt_seed", "format", """invalid DEK ({}) or nonce ({}) length"", dek_len, nonce_len"), "seed-free: no argument is derived from the seed");
  (("src/stats/reporter.rs", "receive_client_stats", "info", """Received {} client stat entries in {:.3} seconds"", num_processed, elapsed.as_secs_f32()"), "seed-free: no argument is derived from the seed");
  (("src/stats/reporter.rs", "report", "info", """No client stats to persist"""), "seed-free: no argument is derived from the seed");
  (("src/stats/reporter.rs", "report", "info", """No output location to persist to"""), "seed-free: no argument is derived from the seed");
  (("src/stats/reporter.rs", "report", "info", """Writing {} client statistics to: {}"", self.client_stats.len(), outpath.display()"), "seed-free: no argument is derived from the seed");
  (("src/stats/reporter.rs", "report", "warn", """failed to open output file: {}"", e"), "seed-free: no argument is derived from the seed");
  (("src/stats/reporter.rs", "report", "warn", """serializing record failed: {}"", e"), "seed-free: no argument is derived from the seed");
  (("src/stats/reporter.rs", "report", "info", """Wrote {} records in {:.3} seconds"", num_processed, start.elapsed().as_secs_f32()"), "seed-free: no argument is derived from the seed");
  (("src/bin/roughenough-server.rs", "polling_loop", "warn", """Ctrl-C caught, exiting..."""), "seed-free: no argument is derived from the seed");
  (("src/bin/roughenough-server.rs", "display_config", "info", """Processing thread : {}"", server.thread_name()"), "seed-free: no argument is derived from the seed");
  (("src/bin/roughenough-server.rs", "display_config", "info", """Number of workers : {}"", cfg.num_workers()"), "seed-free: no argument is derived from the seed");
  (("src/bin/roughenough-server.rs", "display_config", "info", """Long-term public key : {}"", server.get_public_key()"), "public key only (a function of the seed through ed_pk)");
  (("src/bin/roughenough-server.rs", "display_config", "info", """Max response batch size : {}"", cfg.batch_size()"), "seed-free: no argument is derived from the seed");
  (("src/bin/roughenough-server.rs", "display_config", "info", """Status updates every : {} seconds"", cfg.status_interval().as_secs()"), "seed-free: no argument is derived from the seed");
  (("src/bin/roughenough-server.rs", "display_config", "info", """Server listening on : {}:{}"", cfg.interface(), cfg.port()"), "seed-free: no argument is derived from the seed");
  (("src/bin/roughenough-server.rs", "display_config", "info", """TCP health check : {}:{}"", cfg.interface(), hc_port"), "seed-free: no argument is derived from the seed");
  (("src/bin/roughenough-server.rs", "display_config", "info", """TCP health check : disabled"""), "seed-free: no argument is derived from the seed");
  (("src/bin/roughenough-server.rs", "display_config", "info", """Client req/resp tracking : {}"", if cfg.client_stats_enabled() { ""per-client"" } else { ""aggregated"" }"), "seed-free: no argument is derived from the seed");
  (("src/bin/roughenough-server.rs", "display_config", "info", """Persistence directory : {}"", cfg.persistence_directory().unwrap().display()"), "seed-free: no argument is derived from the seed");
  (("src/bin/roughenough-server.rs", "display_config", "info", """Deliberate response errors : ~{}%"", cfg.fault_percentage()"), "seed-free: no argument is derived from the seed");
  (("src/bin/roughenough-server.rs", "display_config", "info", """Deliberate response errors : disabled"""), "seed-free: no argument is derived from the seed");
  (("src/bin/roughenough-server.rs", "main", "info", """Roughenough server v{} starting"", roughenough_version()"), "seed-free: no argument is derived from the seed");
  (("src/bin/roughenough-server.rs", "main", "error", """Usage: server <ENV | /path/to/config.yaml>"""), "seed-free: no argument is derived from the seed");
  (("src/bin/roughenough-server.rs", "main", "error", """{:?}"", e"), "seed-free: no argument is derived from the seed");
  (("src/bin/roughenough-server.rs", "main", "format", """worker-{}"", i"), "seed-free: no argument is derived from the seed");
  (("src/bin/roughenough-server.rs", "main", "info", """Done."""), "seed-free: no argument is derived from the seed")
].

Definition panic_site_map : list (site * string) := [
  (("src/server.rs", "new", "panic-capable", "let poll = Poll::new().unwrap();"), "Server::new / poll setup (start-up, Model/Process.v) or unreachable!() on unknown tokens");
  (("src/server.rs", "new", "panic-capable", ".unwrap();"), "Server::new / poll setup (start-up, Model/Process.v) or unreachable!() on unknown tokens");
  (("src/server.rs", "new", "panic-capable", ".unwrap();"), "Server::new / poll setup (start-up, Model/Process.v) or unreachable!() on unknown tokens");
  (("src/server.rs", "new", "panic-capable", ".unwrap();"), "Server::new / poll setup (start-up, Model/Process.v) or unreachable!() on unknown tokens");
  (("src/server.rs", "new", "panic-capable", ".expect(""failed to bind TCP listener for health check"");"), "Server::new / poll setup (start-up, Model/Process.v) or unreachable!() on unknown tokens");
  (("src/server.rs", "new", "panic-capable", ".unwrap();"), "Server::new / poll setup (start-up, Model/Process.v) or unreachable!() on unknown tokens");
  (("src/server.rs", "new", "panic-capable", "let seed = kms::load_seed(config).expect(""failed loading seed"");"), "Server::new / poll setup (start-up, Model/Process.v) or unreachable!() on unknown tokens");
  (("src/server.rs", "new", "panic-capable", "let thread_name = thread::current().name().unwrap().to_string();"), "Server::new / poll setup (start-up, Model/Process.v) or unreachable!() on unknown tokens");
  (("src/server.rs", "new", "panic-capable", "fake_client_socket: UdpSocket::bind(&""127.0.0.1:0"".parse().unwrap()).unwrap(),"), "Server::new / poll setup (start-up, Model/Process.v) or unreachable!() on unknown tokens");
  (("src/server.rs", "send_to_self", "panic-capable", ".send_to(data, &self.socket.local_addr().unwrap());"), "Server::new / poll setup (start-up, Model/Process.v) or unreachable!() on unknown tokens");
  (("src/server.rs", "process_events", "panic-capable", ".expect(""server event poll failed; cannot recover"");"), "Server::new / poll setup (start-up, Model/Process.v) or unreachable!() on unknown tokens");
  (("src/server.rs", "process_events", "panic-capable", "_ => unreachable!(),"), "Server::new / poll setup (start-up, Model/Process.v) or unreachable!() on unknown tokens");
  (("src/server.rs", "collect_requests", "panic-capable", "let request_bytes = &self.buf[..num_bytes];"), "Server::new / poll setup (start-up, Model/Process.v) or unreachable!() on unknown tokens");
  (("src/server.rs", "handle_health_check", "panic-capable", "let listener = self.health_listener.as_ref().unwrap();"), "Server::new / poll setup (start-up, Model/Process.v) or unreachable!() on unknown tokens");
  (("src/responder.rs", "new", "panic-capable", ".expect(""make_cert"");"), "modelled in Model/Server.v + Model/Keys.v (unwrap sites, log slice)");
  (("src/responder.rs", "new", "panic-capable", "let thread_id = thread::current().name().unwrap().to_string();"), "modelled in Model/Server.v + Model/Keys.v (unwrap sites, log slice)");
  (("src/responder.rs", "send_responses", "panic-capable", "Version::Google => resp_msg.encode().unwrap(),"), "modelled in Model/Server.v + Model/Keys.v (unwrap sites, log slice)");
  (("src/responder.rs", "send_responses", "panic-capable", "Version::RfcDraft13 => resp_msg.encode_framed().unwrap(),"), "modelled in Model/Server.v + Model/Keys.v (unwrap sites, log slice)");
  (("src/responder.rs", "send_responses", "panic-capable", "thread::current().name().unwrap(),"), "modelled in Model/Server.v + Model/Keys.v (unwrap sites, log slice)");
  (("src/responder.rs", "send_responses", "panic-capable", "HEX.encode(&nonce[0..4]),"), "modelled in Model/Server.v + Model/Keys.v (unwrap sites, log slice)");
  (("src/responder.rs", "make_response", "panic-capable", ".unwrap();"), "modelled in Model/Server.v + Model/Keys.v (unwrap sites, log slice)");
  (("src/responder.rs", "make_response", "panic-capable", "let sig_bytes = srep.get_field(Tag::SIG).unwrap();"), "modelled in Model/Server.v + Model/Keys.v (unwrap sites, log slice)");
  (("src/responder.rs", "make_response", "panic-capable", "let srep_bytes = srep.get_field(Tag::SREP).unwrap();"), "modelled in Model/Server.v + Model/Keys.v (unwrap sites, log slice)");
  (("src/responder.rs", "make_response", "panic-capable", "response.add_field(Tag::SIG, sig_bytes).unwrap();"), "modelled in Model/Server.v + Model/Keys.v (unwrap sites, log slice)");
  (("src/responder.rs", "make_response", "panic-capable", "response.add_field(Tag::NONC, nonce).unwrap();"), "modelled in Model/Server.v + Model/Keys.v (unwrap sites, log slice)");
  (("src/responder.rs", "make_response", "panic-capable", "response.add_field(Tag::PATH, path).unwrap();"), "modelled in Model/Server.v + Model/Keys.v (unwrap sites, log slice)");
  (("src/responder.rs", "make_response", "panic-capable", "response.add_field(Tag::SREP, srep_bytes).unwrap();"), "modelled in Model/Server.v + Model/Keys.v (unwrap sites, log slice)");
  (("src/responder.rs", "make_response", "panic-capable", "response.add_field(Tag::CERT, cert_bytes).unwrap();"), "modelled in Model/Server.v + Model/Keys.v (unwrap sites, log slice)");
  (("src/responder.rs", "make_response", "panic-capable", "response.add_field(Tag::INDX, &index).unwrap();"), "modelled in Model/Server.v + Model/Keys.v (unwrap sites, log slice)");
  (("src/request.rs", "nonce_from_request", "panic-capable", "nonce_from_rfc_request(&buf[..num_bytes], expected_srv)"), "modelled in Model/Request.v (slice site; guarded by the length gate)");
  (("src/request.rs", "nonce_from_request", "panic-capable", "nonce_from_classic_request(&buf[..num_bytes])"), "modelled in Model/Request.v (slice site; guarded by the length gate)");
  (("src/request.rs", "is_rfc_request", "panic-capable", "&buf[0..8] == REQUEST_FRAMING_BYTES"), "modelled in Model/Request.v (slice site; guarded by the length gate)");
  (("src/request.rs", "nonce_from_rfc_request", "panic-capable", "let mut cur = Cursor::new(&buf[8..12]);"), "modelled in Model/Request.v (slice site; guarded by the length gate)");
  (("src/request.rs", "nonce_from_rfc_request", "panic-capable", "let msg = RtMessage::from_bytes(&buf[12..])?;"), "modelled in Model/Request.v (slice site; guarded by the length gate)");
  (("src/request.rs", "nonce_from_rfc_request", "panic-capable", "Some(nonce) if nonce.len() == RFC_NONCE_LENGTH => Ok((nonce.to_vec(), version.unwrap())),"), "modelled in Model/Request.v (slice site; guarded by the length gate)");
  (("src/grease.rs", "add_errors", "panic-capable", "None => unreachable!(),"), "modelled in Model/Server.v (grease unwraps)");
  (("src/grease.rs", "randomly_order_tags", "panic-capable", "new_tags.push(*src_tags.get(idx).unwrap());"), "modelled in Model/Server.v (grease unwraps)");
  (("src/grease.rs", "randomly_order_tags", "panic-capable", "new_values.push(src_values.get(idx).unwrap().to_vec());"), "modelled in Model/Server.v (grease unwraps)");
  (("src/grease.rs", "corrupt_response_signature", "panic-capable", "new_msg.add_field(Tag::SIG, &random_sig).unwrap();"), "modelled in Model/Server.v (grease unwraps)");
  (("src/grease.rs", "corrupt_response_signature", "panic-capable", ".add_field(Tag::PATH, src_msg.get_field(Tag::PATH).unwrap())"), "modelled in Model/Server.v (grease unwraps)");
  (("src/grease.rs", "corrupt_response_signature", "panic-capable", ".unwrap();"), "modelled in Model/Server.v (grease unwraps)");
  (("src/grease.rs", "corrupt_response_signature", "panic-capable", ".add_field(Tag::SREP, src_msg.get_field(Tag::SREP).unwrap())"), "modelled in Model/Server.v (grease unwraps)");
  (("src/grease.rs", "corrupt_response_signature", "panic-capable", ".unwrap();"), "modelled in Model/Server.v (grease unwraps)");
  (("src/grease.rs", "corrupt_response_signature", "panic-capable", ".add_field(Tag::CERT, src_msg.get_field(Tag::CERT).unwrap())"), "modelled in Model/Server.v (grease unwraps)");
  (("src/grease.rs", "corrupt_response_signature", "panic-capable", ".unwrap();"), "modelled in Model/Server.v (grease unwraps)");
  (("src/grease.rs", "corrupt_response_signature", "panic-capable", ".add_field(Tag::INDX, src_msg.get_field(Tag::INDX).unwrap())"), "modelled in Model/Server.v (grease unwraps)");
  (("src/grease.rs", "corrupt_response_signature", "panic-capable", ".unwrap();"), "modelled in Model/Server.v (grease unwraps)");
  (("src/message.rs", "single_tag_message", "panic-capable", "let tag = Tag::from_wire(&bytes[pos..pos + 4])?;"), "modelled in Model/Message.v (slice / assert / indent sites)");
  (("src/message.rs", "multi_tag_message", "panic-capable", "let value = bytes[start_idx..end_idx].to_vec();"), "modelled in Model/Message.v (slice / assert / indent sites)");
  (("src/message.rs", "encode", "panic-capable", "for val in &self.values[1..] {"), "modelled in Model/Message.v (slice / assert / indent sites)");
  (("src/message.rs", "encode", "panic-capable", "assert_eq!(out.len(), self.encoded_size(), ""unexpected length"");"), "modelled in Model/Message.v (slice / assert / indent sites)");
  (("src/message.rs", "to_string", "panic-capable", "assert!("), "modelled in Model/Message.v (slice / assert / indent sites)");
  (("src/merkle.rs", "get_paths", "panic-capable", "assert!(level <= 32, ""impossible: PATH depth {} exceeds 32"", level);"), "modelled in Model/Merkle.v (index / assert / finalize sites)");
  (("src/merkle.rs", "get_paths", "panic-capable", "assert!("), "modelled in Model/Merkle.v (index / assert / finalize sites)");
  (("src/merkle.rs", "compute_root", "panic-capable", "assert_eq!(self.levels[level].len(), 1);"), "modelled in Model/Merkle.v (index / assert / finalize sites)");
  (("src/merkle.rs", "compute_root", "panic-capable", "let result = self.levels[level].pop().unwrap();"), "modelled in Model/Merkle.v (index / assert / finalize sites)");
  (("src/merkle.rs", "hash", "panic-capable", "Data::from(&ctx.finish().as_ref()[..self.node_len()])"), "modelled in Model/Merkle.v (index / assert / finalize sites)");
  (("src/merkle.rs", "root_from_paths", "panic-capable", "assert_eq!(paths.len() % self.node_len(), 0);"), "modelled in Model/Merkle.v (index / assert / finalize sites)");
  (("src/merkle.rs", "root_from_paths", "panic-capable", "hash = Hash::from(&ctx.finish().as_ref()[..self.node_len()]);"), "modelled in Model/Merkle.v (index / assert / finalize sites)");
  (("src/merkle.rs", "finalize_output", "panic-capable", "RfcDraft13 => data[0..32].into(),"), "modelled in Model/Merkle.v (index / assert / finalize sites)");
  (("src/key/longterm.rs", "calc_srv_value", "panic-capable", "ctx.finish().as_ref()[0..32].to_vec()"), "modelled in Model/Keys.v (unwrap sites)");
  (("src/key/longterm.rs", "make_cert", "panic-capable", "let dele_bytes = online_key.make_dele().encode().unwrap();"), "modelled in Model/Keys.v (unwrap sites)");
  (("src/key/longterm.rs", "make_cert", "panic-capable", "cert_msg.add_field(Tag::SIG, &dele_signature).unwrap();"), "modelled in Model/Keys.v (unwrap sites)");
  (("src/key/longterm.rs", "make_cert", "panic-capable", "cert_msg.add_field(Tag::DELE, &dele_bytes).unwrap();"), "modelled in Model/Keys.v (unwrap sites)");
  (("src/key/online.rs", "make_dele", "panic-capable", "dele_msg.add_field(Tag::PUBK, &pub_key_bytes).unwrap();"), "modelled in Model/Keys.v (unwrap sites; clock before epoch excluded)");
  (("src/key/online.rs", "make_dele", "panic-capable", "dele_msg.add_field(Tag::MINT, &zeros).unwrap();"), "modelled in Model/Keys.v (unwrap sites; clock before epoch excluded)");
  (("src/key/online.rs", "make_dele", "panic-capable", "dele_msg.add_field(Tag::MAXT, &max).unwrap();"), "modelled in Model/Keys.v (unwrap sites; clock before epoch excluded)");
  (("src/key/online.rs", "classic_midp", "panic-capable", ".expect(""duration since epoch"");"), "modelled in Model/Keys.v (unwrap sites; clock before epoch excluded)");
  (("src/key/online.rs", "rfc_midp", "panic-capable", "now.duration_since(UNIX_EPOCH).unwrap().as_secs()"), "modelled in Model/Keys.v (unwrap sites; clock before epoch excluded)");
  (("src/key/online.rs", "make_srep", "panic-capable", ".unwrap();"), "modelled in Model/Keys.v (unwrap sites; clock before epoch excluded)");
  (("src/key/online.rs", "make_srep", "panic-capable", ".unwrap();"), "modelled in Model/Keys.v (unwrap sites; clock before epoch excluded)");
  (("src/key/online.rs", "make_srep", "panic-capable", "srep_msg.add_field(Tag::RADI, &radi).unwrap();"), "modelled in Model/Keys.v (unwrap sites; clock before epoch excluded)");
  (("src/key/online.rs", "make_srep", "panic-capable", "srep_msg.add_field(Tag::MIDP, &midp).unwrap();"), "modelled in Model/Keys.v (unwrap sites; clock before epoch excluded)");
  (("src/key/online.rs", "make_srep", "panic-capable", "srep_msg.add_field(Tag::ROOT, merkle_root).unwrap();"), "modelled in Model/Keys.v (unwrap sites; clock before epoch excluded)");
  (("src/key/online.rs", "make_srep", "panic-capable", "srep_msg.encode().unwrap()"), "modelled in Model/Keys.v (unwrap sites; clock before epoch excluded)");
  (("src/key/online.rs", "make_srep", "panic-capable", "srep_msg.add_field(Tag::VER, version.wire_bytes()).unwrap();"), "modelled in Model/Keys.v (unwrap sites; clock before epoch excluded)");
  (("src/key/online.rs", "make_srep", "panic-capable", "srep_msg.add_field(Tag::RADI, &radi).unwrap();"), "modelled in Model/Keys.v (unwrap sites; clock before epoch excluded)");
  (("src/key/online.rs", "make_srep", "panic-capable", "srep_msg.add_field(Tag::MIDP, &midp).unwrap();"), "modelled in Model/Keys.v (unwrap sites; clock before epoch excluded)");
  (("src/key/online.rs", "make_srep", "panic-capable", "srep_msg.add_field(Tag::VERS, &self.vers_wire_bytes).unwrap();"), "modelled in Model/Keys.v (unwrap sites; clock before epoch excluded)");
  (("src/key/online.rs", "make_srep", "panic-capable", "srep_msg.add_field(Tag::ROOT, merkle_root).unwrap();"), "modelled in Model/Keys.v (unwrap sites; clock before epoch excluded)");
  (("src/key/online.rs", "make_srep", "panic-capable", "srep_msg.encode().unwrap()"), "modelled in Model/Keys.v (unwrap sites; clock before epoch excluded)");
  (("src/key/online.rs", "make_srep", "panic-capable", "result.add_field(Tag::SIG, &srep_signature).unwrap();"), "modelled in Model/Keys.v (unwrap sites; clock before epoch excluded)");
  (("src/key/online.rs", "make_srep", "panic-capable", "result.add_field(Tag::SREP, &srep_bytes).unwrap();"), "modelled in Model/Keys.v (unwrap sites; clock before epoch excluded)");
  (("src/sign.rs", "new", "panic-capable", "let pk: &[u8; 32] = pubkey.try_into().expect(""valid pubkey"");"), "modelled in Model/Sign.v (seed length, pubkey, signature length)");
  (("src/sign.rs", "new", "panic-capable", "pubkey: VerifyingKey::from_bytes(pk).unwrap(),"), "modelled in Model/Sign.v (seed length, pubkey, signature length)");
  (("src/sign.rs", "verify", "panic-capable", "let sig = Signature::from_slice(provided_sig).expect(""valid signature"");"), "modelled in Model/Sign.v (seed length, pubkey, signature length)");
  (("src/sign.rs", "new", "panic-capable", "rng.fill(&mut seed).unwrap();"), "modelled in Model/Sign.v (seed length, pubkey, signature length)");
  (("src/sign.rs", "from_seed", "panic-capable", "let secret_key = SecretKey::try_from(seed).expect(""invalid seed"");"), "modelled in Model/Sign.v (seed length, pubkey, signature length)")
].

(* ---- numeric literals ----
   The reviewed copy of Gen/Sites.v num_literals: the integer literals of every modelled function, in
   source order, as they were when the model was written against them (where each one lives in the
   model is noted in DESIGN.md §0.6). `lits_for f num_literals = lits_for f reviewed_literals` is
   re-checked per file in the property files that depend on that file: a changed, added or removed
   number in a modelled function breaks the obligation until the model is revisited. *)
From Coq Require Import NArith Bool.
Definition lits_for (f : string) (l : list (string * string * list N)) : list (string * list N) :=
  map (fun x => (snd (fst x), snd x)) (filter (fun x => String.eqb (fst (fst x)) f) l).

(* which source files each property's model stands for, and which of their functions it does not
   (C03 / C05 do not speak about Display) *)
Definition files_C01 : list (string * list string) := [("src/bin/roughenough-client.rs", []); ("src/merkle.rs", []); ("src/sign.rs", [])].
Definition files_C02 : list (string * list string) := [("src/grease.rs", []); ("src/responder.rs", []); ("src/key/online.rs", []); ("src/merkle.rs", [])].
Definition files_C03 : list (string * list string) := [("src/bin/roughenough-client.rs", []); ("src/message.rs", ["to_string"])].
Definition files_C04 : list (string * list string) := [("src/merkle.rs", [])].
Definition files_C05 : list (string * list string) := [("src/message.rs", ["to_string"])].
Definition files_C06 : list (string * list string) := [("src/message.rs", [])].
Definition files_C07 : list (string * list string) := [("src/request.rs", []); ("src/lib.rs", [])].
Definition files_C08 : list (string * list string) := [("src/server.rs", []); ("src/responder.rs", []); ("src/request.rs", []); ("src/grease.rs", [])].
Definition files_C09 : list (string * list string) := [("src/server.rs", []); ("src/responder.rs", [])].
Definition files_C10 : list (string * list string) := [("src/key/longterm.rs", []); ("src/key/online.rs", [])].
Definition files_C11 : list (string * list string) := [("src/key/online.rs", [])].
Definition files_C12 : list (string * list string) := [("src/request.rs", []); ("src/version.rs", [])].
Definition files_C13 : list (string * list string) := [("src/sign.rs", [])].
Definition files_C14 : list (string * list string) := [("src/kms/envelope.rs", []); ("src/kms/mod.rs", [])].
Definition files_C15 : list (string * list string) := [("src/bin/roughenough-server.rs", []); ("src/server.rs", []); ("src/config/mod.rs", [])].
Definition files_C16 : list (string * list string) := [("src/config/mod.rs", []); ("src/config/file.rs", []); ("src/config/environment.rs", [])].
Definition files_C17 : list (string * list string) := [("src/stats/per_client.rs", []); ("src/stats/mod.rs", []); ("src/stats/reporter.rs", [])].
Definition files_C18 : list (string * list string) := [("src/bin/roughenough-server.rs", []); ("src/server.rs", [])].
Definition files_C19 : list (string * list string) := [("src/bin/roughenough-server.rs", []); ("src/stats/reporter.rs", []); ("src/server.rs", [])].
Definition files_C20 : list (string * list string) := [("src/config/mod.rs", []); ("src/config/file.rs", [])].

Definition reviewed_literals : list (string * string * list N) := [
  ("src/request.rs", "-", [64; 32]%N);
  ("src/request.rs", "is_rfc_request", [0]%N);
  ("src/request.rs", "nonce_from_rfc_request", [8; 12; 12]%N);
  ("src/request.rs", "get_supported_version", [4; 4]%N);
  ("src/message.rs", "-", [8]%N);
  ("src/message.rs", "from_bytes", [4; 4; 0; 0; 1; 2; 1024]%N);
  ("src/message.rs", "single_tag_message", [8; 4; 4]%N);
  ("src/message.rs", "multi_tag_message", [1; 0; 1; 4; 0; 0; 4; 0; 0]%N);
  ("src/message.rs", "encode_framed", [4]%N);
  ("src/message.rs", "encode", [1; 0; 1]%N);
  ("src/message.rs", "encoded_size", [4; 2; 0; 4; 1; 4]%N);
  ("src/message.rs", "calculate_padding_length", [1024; 0; 1024; 1; 4]%N);
  ("src/message.rs", "to_string", [0; 2; 1; 2; 1]%N);
  ("src/merkle.rs", "push_leaf", [0]%N);
  ("src/merkle.rs", "get_paths", [0; 2; 0; 1; 1; 1; 2; 32]%N);
  ("src/merkle.rs", "compute_root", [0; 0; 0; 1; 1; 1; 2; 0; 0; 1; 1; 2; 0; 1; 2; 1; 2; 1; 1]%N);
  ("src/merkle.rs", "is_empty", [0]%N);
  ("src/merkle.rs", "node_len", [32]%N);
  ("src/merkle.rs", "root_from_paths", [0; 1; 0; 1]%N);
  ("src/merkle.rs", "finalize_output", [0]%N);
  ("src/key/online.rs", "make_dele", [0; 8; 255; 8]%N);
  ("src/key/online.rs", "classic_midp", [1000000; 1000]%N);
  ("src/key/online.rs", "make_srep", [0; 4; 0; 8; 5000000; 5]%N);
  ("src/key/longterm.rs", "calc_srv_value", [0]%N);
  ("src/responder.rs", "send_responses", [0]%N);
  ("src/responder.rs", "make_response", [0; 4]%N);
  ("src/server.rs", "-", [0; 1; 2; 65536]%N);
  ("src/server.rs", "new", [10; 100; 0; 65536]%N);
  ("src/server.rs", "bind_health_listener", [1024]%N);
  ("src/server.rs", "collect_requests", [0]%N);
  ("src/server.rs", "send_client_stats", [0]%N);
  ("src/server.rs", "compute_delay", [1; 0; 0; 255; 1; 1]%N);
  ("src/grease.rs", "new", [0; 100]%N);
  ("src/grease.rs", "corrupt_response_signature", [0]%N);
  ("src/sign.rs", "-", [1024]%N);
  ("src/sign.rs", "new", [32; 0; 32]%N);
  ("src/kms/envelope.rs", "-", [2; 2]%N);
  ("src/kms/envelope.rs", "vec_zero_filled", [0; 0]%N);
  ("src/kms/envelope.rs", "decrypt_seed", [0]%N);
  ("src/kms/envelope.rs", "encrypt_seed", [0; 0]%N);
  ("src/kms/mod.rs", "from", [12; 16; 32]%N);
  ("src/config/mod.rs", "-", [64; 600]%N);
  ("src/config/mod.rs", "is_valid_config", [0; 1; 64; 50; 0]%N);
  ("src/config/file.rs", "new", [1; 0; 0; 0]%N);
  ("src/config/environment.rs", "new", [0; 0]%N);
  ("src/stats/per_client.rs", "new", [0]%N);
  ("src/stats/per_client.rs", "with_limit", [0]%N);
  ("src/stats/per_client.rs", "too_many_entries", [1]%N);
  ("src/stats/per_client.rs", "add_ietf_request", [1]%N);
  ("src/stats/per_client.rs", "add_classic_request", [1]%N);
  ("src/stats/per_client.rs", "add_invalid_request", [1]%N);
  ("src/stats/per_client.rs", "add_failed_send_attempt", [1]%N);
  ("src/stats/per_client.rs", "add_retried_send_attempt", [1]%N);
  ("src/stats/per_client.rs", "add_health_check", [1]%N);
  ("src/stats/per_client.rs", "add_rfc_response", [1]%N);
  ("src/stats/per_client.rs", "add_classic_response", [1]%N);
  ("src/stats/per_client.rs", "clear", [0]%N);
  ("src/stats/mod.rs", "-", [5000000]%N);
  ("src/stats/mod.rs", "new", [0; 0; 0; 0; 0; 0; 0; 0; 0]%N);
  ("src/stats/reporter.rs", "processing_loop", [1]%N);
  ("src/stats/reporter.rs", "receive_client_stats", [0; 1; 0]%N);
  ("src/stats/reporter.rs", "report", [9; 0; 1]%N);
  ("src/version.rs", "data", [0; 0; 0; 0; 12; 0; 0; 128]%N);
  ("src/lib.rs", "roughenough_version", [1024; 1500; 32; 64; 0; 1]%N);
  ("src/bin/roughenough-client.rs", "create_nonce", [0; 64; 0; 32]%N);
  ("src/bin/roughenough-client.rs", "make_request", [0; 0; 0; 0]%N);
  ("src/bin/roughenough-client.rs", "receive_response", [0; 12]%N);
  ("src/bin/roughenough-client.rs", "verify_framing", [0; 8; 12]%N);
  ("src/bin/roughenough-client.rs", "main", [0; 13; 0; 0; 4096; 0; 10; 6; 10; 6; 10; 3; 0]%N);
  ("src/bin/roughenough-server.rs", "display_config", [0]%N);
  ("src/bin/roughenough-server.rs", "main", [2; 1; 1; 1; 1; 2; 0; 0]%N)
].



(* the literals of the given files are today the reviewed ones *)
Definition lits_sel (sel : string * list string) (l : list (string * string * list N)) : list (string * list N) :=
  filter (fun x => negb (existsb (String.eqb (fst x)) (snd sel))) (lits_for (fst sel) l).
Definition literals_ok (files : list (string * list string)) : Prop :=
  Forall (fun f => lits_sel f num_literals = lits_sel f reviewed_literals) files.

(* the same as a computation (decided by vm_compute: fails at once when a number changed) *)
Fixpoint list_eqb {A} (eqb : A -> A -> bool) (l1 l2 : list A) : bool :=
  match l1, l2 with
  | [], [] => true
  | x :: r1, y :: r2 => eqb x y && list_eqb eqb r1 r2
  | _, _ => false
  end.
Definition lits_eqb (a b : list (string * list N)) : bool :=
  list_eqb (fun x y => String.eqb (fst x) (fst y) && list_eqb N.eqb (snd x) (snd y)) a b.
Definition literals_okb (files : list (string * list string)) : bool :=
  forallb (fun f => lits_eqb (lits_sel f num_literals) (lits_sel f reviewed_literals)) files.
