(* Tag.v — tags over the regenerated table *)
Require Import RV.Model.Bytes RV.Gen.Tables.

Definition tag_eqb (a b : tag) : bool := tag_beq a b.

(* Tag::from_wire: the inverse of wire_value on the table, InvalidTag elsewhere.
   (Tie: `rh-harness tagsweep` checks exactly this against the compiled match.) *)
Definition tag_of_wire (w : bytes) : option tag :=
  find (fun t => bytes_eqb (tag_wire t) w) all_tags.

(* numeric value of a tag: its wire bytes read as a little-endian u32 *)
Definition tag_num (t : tag) : N := rd32 (tag_wire t).

Definition version_eqb (a b : version) : bool := version_beq a b.
