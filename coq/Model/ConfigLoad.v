(* ConfigLoad.v — model of the two configuration loaders at the level of the TEXT that is written:
   FileConfig::new (src/config/file.rs) over the YAML document yaml-rust produced, and
   EnvironmentConfig::new (src/config/environment.rs) over the process environment; with the
   library functions they lean on: str::parse::<uN> (decimal digits, optional '+', overflow is an
   error), data_encoding's HEXLOWER_PERMISSIVE.decode, str::to_ascii_lowercase, str::starts_with and
   KmsProtection::from_str. Definitions only. The bodies of the loaders themselves are NOT written
   here: they are translated from the source (Gen/Code.v) over these operations; Proofs/CodeLoad.v
   relates them to the integer-level model of Config.v. *)
From Coq Require Import ZArith List Bool.
Require Import RV.Model.Bytes RV.Model.Config.
Import ListNotations.
Local Open Scope Z_scope.

(* Error::InvalidConfiguration(text); NoneValue stands for the `None` of an Option-returning
   accessor (as_i64 / as_str / as_hash), which the loaders always unwrap *)
Inductive cfg_error := InvalidConfiguration | NoneValue.
Definition cres := outcome cfg_error.

Definition unwrap_c {A} (site : nat) (x : cres A) : cres A :=
  match x with Ok a => Ok a | Err _ => Panic site | Panic s => Panic s end.

(* ---- integer types: the largest value of each (try_from / parse refuse anything above, and anything
   negative) *)
Definition tmax_u8 : Z := 255.
Definition tmax_u16 : Z := 65535.
Definition tmax_u64 : Z := 18446744073709551615.
Definition tmax_usize : Z := 18446744073709551615.
Definition i64_min : Z := -9223372036854775808.
Definition i64_max : Z := 9223372036854775807.

(* ---- str::parse::<uN>() (core::num::from_str_radix with radix 10, unsigned): an optional single '+',
   then at least one ASCII digit and nothing else; a value above the type's maximum is an error *)
Definition digit_val (b : byte) : option Z :=
  let n := Z.of_N (b2n b) in
  if (48 <=? n) && (n <=? 57) then Some (n - 48) else None.

Fixpoint parse_digits (max acc : Z) (s : bytes) : option Z :=
  match s with
  | [] => Some acc
  | c :: r =>
      match digit_val c with
      | None => None
      | Some d => let acc' := acc * 10 + d in
                  if max <? acc' then None else parse_digits max acc' r
      end
  end.

Definition parse_uint (max : Z) (s : bytes) : option Z :=
  let digits := match s with
                | c :: r => if byte_eqb c x2b then r else s      (* '+' *)
                | [] => []
                end in
  match digits with
  | [] => None
  | _ => parse_digits max 0 digits
  end.

Definition parse_as (max : Z) (s : bytes) : cres Z :=
  match parse_uint max s with Some z => Ok z | None => Err NoneValue end.
Definition parse_u8 := parse_as tmax_u8.
Definition parse_u16 := parse_as tmax_u16.
Definition parse_u64 := parse_as tmax_u64.
Definition parse_usize := parse_as tmax_usize.
(* String::from_str never fails *)
Definition parse_String (s : bytes) : cres bytes := Ok s.

(* decimal text of a non-negative integer (what `{}` prints); fuel = more than the number of digits *)
Definition digit_char (d : Z) : byte := n2b (Z.to_N (48 + d)).
Fixpoint to_dec_aux (fuel : nat) (z : Z) (acc : bytes) : bytes :=
  match fuel with
  | O => acc
  | S f => let acc' := digit_char (z mod 10) :: acc in
           if z <? 10 then acc' else to_dec_aux f (z / 10) acc'
  end.
Definition to_dec (z : Z) : bytes := to_dec_aux (S (Z.to_nat (Z.log2 z))) z [].

(* ---- HEXLOWER_PERMISSIVE.decode: pairs of hex digits of either case, nothing else *)
Definition hex_val (b : byte) : option N :=
  let n := b2n b in
  if (48 <=? n)%N && (n <=? 57)%N then Some (n - 48)%N
  else if (97 <=? n)%N && (n <=? 102)%N then Some (n - 87)%N
  else if (65 <=? n)%N && (n <=? 70)%N then Some (n - 55)%N
  else None.

Fixpoint hex_decode (s : bytes) : option bytes :=
  match s with
  | [] => Some []
  | [_] => None
  | a :: b :: r =>
      match hex_val a, hex_val b, hex_decode r with
      | Some h, Some l, Some t => Some (n2b (16 * h + l)%N :: t)
      | _, _, _ => None
      end
  end.
Definition hex_decode_r (s : bytes) : cres bytes :=
  match hex_decode s with Some b => Ok b | None => Err NoneValue end.

(* ---- str::to_ascii_lowercase / make_ascii_lowercase *)
Definition lower_byte (b : byte) : byte :=
  let n := b2n b in if (65 <=? n)%N && (n <=? 90)%N then n2b (n + 32)%N else b.
Definition ascii_lower (s : bytes) : bytes := map lower_byte s.

(* ---- str::starts_with(&str) *)
Fixpoint starts_with (s p : bytes) : bool :=
  match p, s with
  | [], _ => true
  | x :: p', y :: s' => byte_eqb x y && starts_with s' p'
  | _ :: _, [] => false
  end.

(* ---- KmsProtection (src/key/mod.rs) *)
Inductive kmsprot := KPlaintext | KAws (arn : bytes) | KGcp (resource : bytes).

Definition kms_from_str (s : bytes) : cres kmsprot :=
  if bytes_eqb s [x70; x6c; x61; x69; x6e; x74; x65; x78; x74] then Ok KPlaintext          (* "plaintext" *)
  else if starts_with s [x61; x72; x6e; x3a] then Ok (KAws s)                               (* "arn:" *)
  else if starts_with s [x70; x72; x6f; x6a; x65; x63; x74; x73; x2f] then Ok (KGcp s)      (* "projects/" *)
  else Err NoneValue.

(* ---- the YAML values yaml-rust hands to the loader: what matters is which accessor answers *)
Inductive yval := YInt (z : Z) | YStr (s : bytes) | YOther.
Inductive ydoc := DHash (entries : list (yval * yval)) | DOther.

(* as_i64: a literal outside the i64 range is not a YAML integer for yaml-rust (it becomes a Real) *)
Definition y_as_i64 (v : yval) : cres Z :=
  match v with
  | YInt z => if (i64_min <=? z) && (z <=? i64_max) then Ok z else Err NoneValue
  | _ => Err NoneValue
  end.
Definition y_as_str (v : yval) : cres bytes := match v with YStr s => Ok s | _ => Err NoneValue end.
Definition y_str_opt (v : yval) : option bytes := match v with YStr s => Some s | _ => None end.
Definition doc_hash (site : nat) (docs : list ydoc) : cres (list (yval * yval)) :=
  match docs with
  | DHash l :: _ => Ok l
  | DOther :: _ => Panic site          (* as_hash().unwrap() *)
  | [] => Panic site                   (* cfg[0] *)
  end.

(* T::try_from(i64) for an unsigned T *)
Definition try_from_i64 (max raw : Z) : cres Z :=
  if (0 <=? raw) && (raw <=? max) then Ok raw else Err NoneValue.

(* ---- the loaded configuration: the fields of FileConfig / EnvironmentConfig, in declaration order
   (status_interval in seconds) *)
Record lcfg := mklcfg {
  lc_port : Z; lc_interface : bytes; lc_seed : bytes; lc_batch : Z; lc_status : Z;
  lc_kms : kmsprot; lc_health : option Z; lc_cstats : bool; lc_fault : Z; lc_workers : Z;
  lc_pdir : option bytes }.

(* std::env::var: the value of a variable, if set (to valid unicode) *)
Definition env_var (env : bytes -> option bytes) (name : bytes) : cres bytes :=
  match env name with Some v => Ok v | None => Err NoneValue end.

(* ---- the integer-valued settings by key, for the statements of Proofs/CodeLoad.v *)
Definition lc_get (k : ckey) (c : lcfg) : option Z :=
  match k with
  | CPort => Some (lc_port c) | CBatch => Some (lc_batch c) | CStatus => Some (lc_status c)
  | CHealth => lc_health c | CFault => Some (lc_fault c) | CWorkers => Some (lc_workers c)
  end.
