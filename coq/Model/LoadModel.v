(* LoadModel.v — the two configuration loaders written by hand, compactly, over the operations of
   ConfigLoad.v: one table of keys for the file loader, one line per variable for the environment
   loader. Proofs/CodeLoad.v proves the functions translated from src/config/file.rs and
   src/config/environment.rs equal to these, and proves the C16 statements about them.
   Definitions only. *)
From Coq Require Import ZArith List Bool.
Require Import RV.Model.Bytes RV.Gen.Tables RV.Model.Config RV.Model.ConfigLoad RV.Model.GenSupport.
Import ListNotations.
Local Open Scope Z_scope.

(* the texts the loaders compare with, as bytes (Proofs/CodeLoad.v texts_are checks each against its string) *)
Definition t_ROUGHENOUGH_BATCH_SIZE : bytes := [x52; x4f; x55; x47; x48; x45; x4e; x4f; x55; x47; x48; x5f; x42; x41; x54; x43; x48; x5f; x53; x49; x5a; x45].  (* "ROUGHENOUGH_BATCH_SIZE" *)
Definition t_ROUGHENOUGH_CLIENT_STATS : bytes := [x52; x4f; x55; x47; x48; x45; x4e; x4f; x55; x47; x48; x5f; x43; x4c; x49; x45; x4e; x54; x5f; x53; x54; x41; x54; x53].  (* "ROUGHENOUGH_CLIENT_STATS" *)
Definition t_ROUGHENOUGH_FAULT_PERCENTAGE : bytes := [x52; x4f; x55; x47; x48; x45; x4e; x4f; x55; x47; x48; x5f; x46; x41; x55; x4c; x54; x5f; x50; x45; x52; x43; x45; x4e; x54; x41; x47; x45].  (* "ROUGHENOUGH_FAULT_PERCENTAGE" *)
Definition t_ROUGHENOUGH_HEALTH_CHECK_PORT : bytes := [x52; x4f; x55; x47; x48; x45; x4e; x4f; x55; x47; x48; x5f; x48; x45; x41; x4c; x54; x48; x5f; x43; x48; x45; x43; x4b; x5f; x50; x4f; x52; x54].  (* "ROUGHENOUGH_HEALTH_CHECK_PORT" *)
Definition t_ROUGHENOUGH_INTERFACE : bytes := [x52; x4f; x55; x47; x48; x45; x4e; x4f; x55; x47; x48; x5f; x49; x4e; x54; x45; x52; x46; x41; x43; x45].  (* "ROUGHENOUGH_INTERFACE" *)
Definition t_ROUGHENOUGH_KMS_PROTECTION : bytes := [x52; x4f; x55; x47; x48; x45; x4e; x4f; x55; x47; x48; x5f; x4b; x4d; x53; x5f; x50; x52; x4f; x54; x45; x43; x54; x49; x4f; x4e].  (* "ROUGHENOUGH_KMS_PROTECTION" *)
Definition t_ROUGHENOUGH_NUM_WORKERS : bytes := [x52; x4f; x55; x47; x48; x45; x4e; x4f; x55; x47; x48; x5f; x4e; x55; x4d; x5f; x57; x4f; x52; x4b; x45; x52; x53].  (* "ROUGHENOUGH_NUM_WORKERS" *)
Definition t_ROUGHENOUGH_PERSISTENCE_DIRECTORY : bytes := [x52; x4f; x55; x47; x48; x45; x4e; x4f; x55; x47; x48; x5f; x50; x45; x52; x53; x49; x53; x54; x45; x4e; x43; x45; x5f; x44; x49; x52; x45; x43; x54; x4f; x52; x59].  (* "ROUGHENOUGH_PERSISTENCE_DIRECTORY" *)
Definition t_ROUGHENOUGH_PORT : bytes := [x52; x4f; x55; x47; x48; x45; x4e; x4f; x55; x47; x48; x5f; x50; x4f; x52; x54].  (* "ROUGHENOUGH_PORT" *)
Definition t_ROUGHENOUGH_SEED : bytes := [x52; x4f; x55; x47; x48; x45; x4e; x4f; x55; x47; x48; x5f; x53; x45; x45; x44].  (* "ROUGHENOUGH_SEED" *)
Definition t_ROUGHENOUGH_STATUS_INTERVAL : bytes := [x52; x4f; x55; x47; x48; x45; x4e; x4f; x55; x47; x48; x5f; x53; x54; x41; x54; x55; x53; x5f; x49; x4e; x54; x45; x52; x56; x41; x4c].  (* "ROUGHENOUGH_STATUS_INTERVAL" *)
Definition t_batch_size : bytes := [x62; x61; x74; x63; x68; x5f; x73; x69; x7a; x65].  (* "batch_size" *)
Definition t_client_stats : bytes := [x63; x6c; x69; x65; x6e; x74; x5f; x73; x74; x61; x74; x73].  (* "client_stats" *)
Definition t_fault_percentage : bytes := [x66; x61; x75; x6c; x74; x5f; x70; x65; x72; x63; x65; x6e; x74; x61; x67; x65].  (* "fault_percentage" *)
Definition t_health_check_port : bytes := [x68; x65; x61; x6c; x74; x68; x5f; x63; x68; x65; x63; x6b; x5f; x70; x6f; x72; x74].  (* "health_check_port" *)
Definition t_interface : bytes := [x69; x6e; x74; x65; x72; x66; x61; x63; x65].  (* "interface" *)
Definition t_kms_protection : bytes := [x6b; x6d; x73; x5f; x70; x72; x6f; x74; x65; x63; x74; x69; x6f; x6e].  (* "kms_protection" *)
Definition t_num_workers : bytes := [x6e; x75; x6d; x5f; x77; x6f; x72; x6b; x65; x72; x73].  (* "num_workers" *)
Definition t_on : bytes := [x6f; x6e].  (* "on" *)
Definition t_persistence_directory : bytes := [x70; x65; x72; x73; x69; x73; x74; x65; x6e; x63; x65; x5f; x64; x69; x72; x65; x63; x74; x6f; x72; x79].  (* "persistence_directory" *)
Definition t_port : bytes := [x70; x6f; x72; x74].  (* "port" *)
Definition t_seed : bytes := [x73; x65; x65; x64].  (* "seed" *)
Definition t_status_interval : bytes := [x73; x74; x61; x74; x75; x73; x5f; x69; x6e; x74; x65; x72; x76; x61; x6c].  (* "status_interval" *)
Definition t_yes : bytes := [x79; x65; x73].  (* "yes" *)

(* ---- field updates *)
Definition lc_set (k : ckey) (z : Z) (c : lcfg) : lcfg :=
  match k with
  | CPort => mklcfg z (lc_interface c) (lc_seed c) (lc_batch c) (lc_status c) (lc_kms c) (lc_health c) (lc_cstats c) (lc_fault c) (lc_workers c) (lc_pdir c)
  | CBatch => mklcfg (lc_port c) (lc_interface c) (lc_seed c) z (lc_status c) (lc_kms c) (lc_health c) (lc_cstats c) (lc_fault c) (lc_workers c) (lc_pdir c)
  | CStatus => mklcfg (lc_port c) (lc_interface c) (lc_seed c) (lc_batch c) z (lc_kms c) (lc_health c) (lc_cstats c) (lc_fault c) (lc_workers c) (lc_pdir c)
  | CHealth => mklcfg (lc_port c) (lc_interface c) (lc_seed c) (lc_batch c) (lc_status c) (lc_kms c) (Some z) (lc_cstats c) (lc_fault c) (lc_workers c) (lc_pdir c)
  | CFault => mklcfg (lc_port c) (lc_interface c) (lc_seed c) (lc_batch c) (lc_status c) (lc_kms c) (lc_health c) (lc_cstats c) z (lc_workers c) (lc_pdir c)
  | CWorkers => mklcfg (lc_port c) (lc_interface c) (lc_seed c) (lc_batch c) (lc_status c) (lc_kms c) (lc_health c) (lc_cstats c) (lc_fault c) z (lc_pdir c)
  end.
Definition set_interface (s : bytes) (c : lcfg) : lcfg :=
  mklcfg (lc_port c) s (lc_seed c) (lc_batch c) (lc_status c) (lc_kms c) (lc_health c) (lc_cstats c) (lc_fault c) (lc_workers c) (lc_pdir c).
Definition set_seed (s : bytes) (c : lcfg) : lcfg :=
  mklcfg (lc_port c) (lc_interface c) s (lc_batch c) (lc_status c) (lc_kms c) (lc_health c) (lc_cstats c) (lc_fault c) (lc_workers c) (lc_pdir c).
Definition set_kms (x : kmsprot) (c : lcfg) : lcfg :=
  mklcfg (lc_port c) (lc_interface c) (lc_seed c) (lc_batch c) (lc_status c) x (lc_health c) (lc_cstats c) (lc_fault c) (lc_workers c) (lc_pdir c).
Definition set_cstats (x : bool) (c : lcfg) : lcfg :=
  mklcfg (lc_port c) (lc_interface c) (lc_seed c) (lc_batch c) (lc_status c) (lc_kms c) (lc_health c) x (lc_fault c) (lc_workers c) (lc_pdir c).
Definition set_pdir (x : option bytes) (c : lcfg) : lcfg :=
  mklcfg (lc_port c) (lc_interface c) (lc_seed c) (lc_batch c) (lc_status c) (lc_kms c) (lc_health c) (lc_cstats c) (lc_fault c) (lc_workers c) x.

(* the configuration before anything is read: the defaults of both loaders *)
Definition lc_default (cores : Z) : lcfg :=
  mklcfg 0 [] [] (Z.of_N DEFAULT_BATCH_SIZE) (Z.of_N DEFAULT_STATUS_INTERVAL) KPlaintext None false 0 cores None.

(* "yes" / "on", case-insensitively *)
Definition enabling (s : bytes) : bool :=
  bytes_eqb (ascii_lower s) (t_yes) || bytes_eqb (ascii_lower s) (t_on).

(* ---- the file loader *)
Inductive skey := SInterface | SSeed | SKms | SCstats | SPdir.
Inductive fkey := FInt (k : ckey) | FOther (k : skey).

(* the keys of the YAML file, in the order the source tests them *)
Definition fkey_table : list (bytes * fkey) :=
  [ (t_port, FInt CPort); (t_interface, FOther SInterface); (t_batch_size, FInt CBatch);
    (t_seed, FOther SSeed); (t_status_interval, FInt CStatus); (t_kms_protection, FOther SKms);
    (t_health_check_port, FInt CHealth); (t_client_stats, FOther SCstats);
    (t_persistence_directory, FOther SPdir); (t_fault_percentage, FInt CFault);
    (t_num_workers, FInt CWorkers) ].

Fixpoint lookup_key {K} (t : list (bytes * K)) (name : bytes) : option K :=
  match t with
  | [] => None
  | (n, k) :: r => if bytes_eqb name n then Some k else lookup_key r name
  end.

(* the Rust type of each integer field of FileConfig: the T of checked_int::<T> *)
Definition file_tmax (k : ckey) : Z :=
  match k with
  | CPort | CHealth => tmax_u16 | CBatch | CFault => tmax_u8 | CStatus => tmax_u64 | CWorkers => tmax_usize
  end.

(* checked_int::<T>: not a YAML integer -> panic; out of T's range -> InvalidConfiguration *)
Definition file_int (tmax : Z) (v : yval) : cres Z :=
  match v with
  | YInt z => if (i64_min <=? z) && (z <=? i64_max)
              then (if (0 <=? z) && (z <=? tmax) then Ok z else Err InvalidConfiguration)
              else Panic site_gen
  | _ => Panic site_gen
  end.
(* value.as_str().unwrap() *)
Definition file_str (v : yval) : cres bytes :=
  match v with YStr s => Ok s | _ => Panic site_gen end.

Definition file_step (c : lcfg) (kv : yval * yval) : cres lcfg :=
  obind (file_str (fst kv)) (fun name =>
  match lookup_key fkey_table name with
  | None => Err InvalidConfiguration                           (* unknown config key *)
  | Some (FInt k) => obind (file_int (file_tmax k) (snd kv)) (fun z => Ok (lc_set k z c))
  | Some (FOther SInterface) => obind (file_str (snd kv)) (fun s => Ok (set_interface s c))
  | Some (FOther SSeed) =>
      obind (file_str (snd kv)) (fun s =>
      match hex_decode s with Some b => Ok (set_seed b c) | None => Panic site_gen end)
  | Some (FOther SKms) =>
      obind (file_str (snd kv)) (fun s =>
      obind (unwrap_c site_gen (kms_from_str s)) (fun x => Ok (set_kms x c)))
  | Some (FOther SCstats) => obind (file_str (snd kv)) (fun s => Ok (set_cstats (enabling s) c))
  | Some (FOther SPdir) => Ok (set_pdir (y_str_opt (snd kv)) c)
  end).

(* FileConfig::new over the documents of the file *)
Definition file_load (cores : Z) (docs : cres (list ydoc)) : cres lcfg :=
  obind docs (fun ds =>
  match ds with
  | [DHash entries] => fold_out file_step entries (lc_default cores)
  | [DOther] => Panic site_gen
  | _ => Err InvalidConfiguration                              (* empty or several documents *)
  end).

(* the value the LAST entry with this key gives it, if any entry does *)
Fixpoint last_written (entries : list (yval * yval)) (name : bytes) : option yval :=
  match entries with
  | [] => None
  | (k, v) :: r =>
      match last_written r name with
      | Some v' => Some v'
      | None => match k with YStr n => if bytes_eqb n name then Some v else None | _ => None end
      end
  end.

Definition key_name (k : ckey) : bytes :=
  match k with
  | CPort => t_port | CBatch => t_batch_size | CStatus => t_status_interval
  | CHealth => t_health_check_port | CFault => t_fault_percentage | CWorkers => t_num_workers
  end.

(* ---- the environment loader *)
Definition env_name (k : ckey) : bytes :=
  match k with
  | CPort => t_ROUGHENOUGH_PORT | CBatch => t_ROUGHENOUGH_BATCH_SIZE
  | CStatus => t_ROUGHENOUGH_STATUS_INTERVAL | CHealth => t_ROUGHENOUGH_HEALTH_CHECK_PORT
  | CFault => t_ROUGHENOUGH_FAULT_PERCENTAGE | CWorkers => t_ROUGHENOUGH_NUM_WORKERS
  end.

(* one variable: unset -> the default stays; set -> parsed, and a parse error is a panic *)
Definition env_setting {A} (env : bytes -> option bytes) (name : bytes) (parse : bytes -> cres A) (dflt : A) : cres A :=
  match env name with
  | Some s => unwrap_c site_gen (parse s)
  | None => Ok dflt
  end.

Definition env_tmax (k : ckey) : Z :=
  match k with
  | CPort | CHealth | CStatus => tmax_u16 | CBatch | CFault => tmax_u8 | CWorkers => tmax_usize
  end.

Definition env_load (cores : Z) (env : bytes -> option bytes) : cres lcfg :=
  let d := lc_default cores in
  obind (env_setting env (env_name CPort) (parse_as (env_tmax CPort)) (lc_port d)) (fun port =>
  obind (env_setting env (t_ROUGHENOUGH_INTERFACE) (fun s => Ok s) (lc_interface d)) (fun iface =>
  obind (env_setting env (t_ROUGHENOUGH_SEED) hex_decode_r (lc_seed d)) (fun seed =>
  obind (env_setting env (env_name CBatch) (parse_as (env_tmax CBatch)) (lc_batch d)) (fun batch =>
  obind (env_setting env (env_name CStatus) (parse_as (env_tmax CStatus)) (lc_status d)) (fun status =>
  obind (env_setting env (t_ROUGHENOUGH_KMS_PROTECTION) kms_from_str (lc_kms d)) (fun kms =>
  obind (env_setting env (env_name CHealth) (fun s => match parse_as (env_tmax CHealth) s with Ok z => Ok (Some z) | Err e => Err e | Panic p => Panic p end) (lc_health d)) (fun health =>
  obind (env_setting env (t_ROUGHENOUGH_CLIENT_STATS) (fun s => Ok (enabling s)) (lc_cstats d)) (fun cstats =>
  obind (env_setting env (env_name CFault) (parse_as (env_tmax CFault)) (lc_fault d)) (fun fault =>
  obind (env_setting env (env_name CWorkers) (parse_as (env_tmax CWorkers)) (lc_workers d)) (fun workers =>
  obind (env_setting env (t_ROUGHENOUGH_PERSISTENCE_DIRECTORY) (fun s => Ok (Some s)) (lc_pdir d)) (fun pdir =>
  Ok (mklcfg port iface seed batch status kms health cstats fault workers pdir)))))))))))).

(* ---- from the loaded configuration to what is_valid_config looks at (Config.v's settings): the
   state of the persistence directory and whether "<interface>:<port>" parses are inputs *)
Definition to_settings (c : lcfg) (dir_state : bytes -> dirinfo) (addr_parses : bytes -> Z -> bool) : settings :=
  mksettings (lc_port c)
             (match lc_interface c with [] => true | _ => false end)
             (Z.of_N (lenN (lc_seed c)))
             (match lc_kms c with KPlaintext => KmsPlaintext | _ => KmsEnabled end)
             (lc_batch c) (lc_fault c) (lc_workers c) (lc_cstats c)
             (match lc_pdir c with Some p => Some (dir_state p) | None => None end)
             (addr_parses (lc_interface c) (lc_port c)).
