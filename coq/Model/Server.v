(* Server.v — model of src/grease.rs, src/responder.rs and the serving part of src/server.rs:
   a state machine over a queue of datagrams. Definitions only.
   Ed25519, SHA-512 are Section variables; the clock, the PRNG decisions of grease and the log
   level are explicit inputs. *)
Require Import RV.Model.Bytes RV.Gen.Tables RV.Model.Tag RV.Model.Message RV.Model.Merkle
        RV.Model.Request RV.Model.Keys.
Local Open Scope N_scope.

Definition site_log_nonce : nat := 40.     (* HEX.encode(&nonce[0..4]) inside debug!() *)
Definition site_grease_idx : nat := 41.    (* src_tags.get(idx).unwrap() *)

(* source address of a datagram (socket identity), abstract *)
Definition addr := N.

(* log levels as in the `log` crate: Off < Error < Warn < Info < Debug < Trace *)
Definition lvl_off : nat := 0.
Definition lvl_error : nat := 1.
Definition lvl_warn : nat := 2.
Definition lvl_info : nat := 3.
Definition lvl_debug : nat := 4.
Definition lvl_trace : nat := 5.

(* one decision of the grease PRNG for one response *)
Inductive coin : Type :=
| NoFault
| Shuffle (perm : list nat)          (* should_add_error = true, RandomlyOrderTags, index_sample *)
| CorruptSig (rnd : bytes).          (* should_add_error = true, CorruptResponseSignature, 64 random bytes *)

(* statistics events, in the order the code records them *)
Inductive sev : Type :=
| SIetfRequest (a : addr)
| SClassicRequest (a : addr)
| SInvalidRequest (a : addr)
| SRfcResponse (a : addr) (bytes_sent : N)
| SClassicResponse (a : addr) (bytes_sent : N)
| SFailedSend (a : addr)
| SRetriedSend (a : addr)
| SHealthCheck (a : addr).

(* log records: level and the argument values that are formatted *)
Record logrec := mklog { log_level_of : nat; log_site : nat; log_args : list bytes }.

(* send_fails: the environment's answer to socket.send_to(resp, addr) — true when the call returns
   an error for that destination (e.g. EINVAL for port 0, EACCES, ENETUNREACH, a full send buffer) *)
Record config := mkconfig { batch_size : nat; fault_pct : N; log_level : nat; send_fails : addr -> bool }.

Definition sends_ok (cfg : config) : Prop := forall a, send_fails cfg a = false.

Section Server.
  Variable H : bytes -> bytes.
  Variable ed_pk : bytes -> bytes.
  Variable ed_sign : bytes -> bytes -> bytes.

  (* ---- grease.rs ---- *)
  Definition randomly_order_tags (perm : list nat) (m : msg) : res msg :=
    let fix go (p : list nat) : res msg :=
      match p with
      | [] => Ok []
      | i :: r =>
          match nth_error m i with
          | None => Panic site_grease_idx
          | Some tv => obind (go r) (fun rest => Ok (tv :: rest))
          end
      end in
    go perm.

  Definition get_unwrap (m : msg) (t : tag) : res bytes :=
    match get_field m t with Some v => Ok v | None => Panic site_unwrap_get end.

  Definition corrupt_response_signature (rnd : bytes) (m : msg) : res msg :=
    match get_field m SIG with
    | None => Ok m
    | Some _ =>
        obind (get_unwrap m PATH) (fun path =>
        obind (get_unwrap m SREP) (fun srep =>
        obind (get_unwrap m CERT) (fun cert =>
        obind (get_unwrap m INDX) (fun indx =>
        build_unwrap [] [(SIG, rnd); (PATH, path); (SREP, srep); (CERT, cert); (INDX, indx)]))))
    end.

  (* should_add_error + add_errors, driven by one coin; with fault_percentage = 0 grease is
     disabled and the coin is ignored *)
  Definition grease (fault : N) (c : coin) (m : msg) : res msg :=
    if fault =? 0 then Ok m
    else match c with
         | NoFault => Ok m
         | Shuffle perm => randomly_order_tags perm m
         | CorruptSig rnd => corrupt_response_signature rnd m
         end.

  (* ---- responder.rs ---- *)
  Record responder := mkresp {
    r_version : version;
    r_online_seed : bytes;
    r_cert_bytes : bytes;
    r_requests : list (bytes * addr);     (* (nonce, src_addr) *)
    r_merkle : tree
  }.

  (* Responder::new *)
  Definition responder_new (v : version) (lt_seed online_seed : bytes) : res responder :=
    obind (make_cert ed_pk ed_sign v lt_seed online_seed) (fun cert =>
    obind (unwrap site_unwrap_enc (encode cert)) (fun cert_bytes =>
    Ok (mkresp v online_seed cert_bytes [] (tree_new v)))).

  Definition responder_reset (r : responder) : responder :=
    mkresp (r_version r) (r_online_seed r) (r_cert_bytes r) [] (reset (r_merkle r)).

  (* add_classic_request / add_ietf_request: leaf is the nonce / the whole request *)
  Definition responder_add (r : responder) (leaf nonce : bytes) (src : addr) : outcome unit responder :=
    obind (push_leaf H (r_merkle r) leaf) (fun t =>
    Ok (mkresp (r_version r) (r_online_seed r) (r_cert_bytes r) (r_requests r ++ [(nonce, src)]) t)).

  (* make_response *)
  Definition make_response (srep : msg) (cert_bytes path : bytes) (idx : N) (nonce : bytes) : res msg :=
    obind (get_unwrap srep SIG) (fun sig_bytes =>
    obind (get_unwrap srep SREP) (fun srep_bytes =>
    build_unwrap [] [(SIG, sig_bytes); (NONC, nonce); (PATH, path); (SREP, srep_bytes);
                     (CERT, cert_bytes); (INDX, u32le (as_u32 idx))])).

  Definition lift {A} (x : outcome unit A) : res A :=
    match x with Ok a => Ok a | Err _ => Panic site_mfuel | Panic s => Panic s end.

  Record emission := mkem { em_dest : addr; em_bytes : bytes }.

  Record batch_out := mkbo {
    bo_sent : list emission;
    bo_stats : list sev;
    bo_logs : list logrec;
    bo_coins : list coin            (* coins left *)
  }.

  (* the per-request loop of send_responses *)
  Fixpoint respond_each (cfg : config) (v : version) (srep : msg) (cert_bytes : bytes) (t : tree)
           (reqs : list (bytes * addr)) (idx : nat) (coins : list coin) : res batch_out :=
    match reqs with
    | [] => Ok (mkbo [] [] [] coins)
    | (nonce, src) :: rest =>
        obind (lift (get_paths t idx)) (fun paths =>
        obind (make_response srep cert_bytes paths (N.of_nat idx) nonce) (fun r =>
        let '(c, coins') := match coins with [] => (NoFault, []) | c :: cs => (c, cs) end in
        (* with grease disabled should_add_error does not touch the PRNG *)
        let coins'' := if fault_pct cfg =? 0 then coins else coins' in
        obind (grease (fault_pct cfg) c r) (fun resp_msg =>
        obind (unwrap site_unwrap_enc
                 (match v with Google => encode resp_msg | RfcDraft13 => encode_framed resp_msg end))
              (fun resp_bytes =>
        (* match socket.send_to(..) { Ok(n) => bytes_sent = n, Err(_) => successful_send = false } *)
        let failed := send_fails cfg src in
        let bytes_sent := if failed then 0 else lenN resp_bytes in
        (* debug!(... HEX.encode(&nonce[0..4]) ...): arguments are evaluated only when enabled *)
        obind (if (lvl_debug <=? log_level cfg)%nat
               then obind (slice site_log_nonce nonce 0 4) (fun n4 =>
                    Ok [mklog lvl_debug 1 [ver_wire v; u64le bytes_sent; u64le src;
                                           hex_encode n4; u64le (N.of_nat (S idx))]])
               else Ok []) (fun logs =>
        let st := if failed then SFailedSend src
                  else match v with
                       | Google => SClassicResponse src bytes_sent
                       | RfcDraft13 => SRfcResponse src bytes_sent
                       end in
        obind (respond_each cfg v srep cert_bytes t rest (S idx) coins'') (fun bo =>
        Ok (mkbo ((if failed then [] else [mkem src resp_bytes]) ++ bo_sent bo) (st :: bo_stats bo)
                 (logs ++ bo_logs bo) (bo_coins bo))))))))
    end.

  (* Responder::send_responses: nothing if no requests queued *)
  Definition send_responses (cfg : config) (r : responder) (now : clock) (coins : list coin)
    : res (responder * batch_out) :=
    match r_requests r with
    | [] => Ok (r, mkbo [] [] [] coins)
    | _ =>
        obind (lift (compute_root H (r_merkle r))) (fun '(t', root) =>
        obind (make_srep ed_sign (r_version r) (r_online_seed r) now root) (fun srep =>
        obind (respond_each cfg (r_version r) srep (r_cert_bytes r) t' (r_requests r) 0 coins)
              (fun bo =>
        Ok (mkresp (r_version r) (r_online_seed r) (r_cert_bytes r) (r_requests r) t', bo))))
    end.

  (* ---- server.rs ---- *)
  Record server := mksrv {
    s_cfg : config;
    s_srv_value : bytes;
    s_ietf : responder;
    s_classic : responder
  }.

  (* Server::new: the IETF responder is certified first, then the classic one *)
  Definition server_new (cfg : config) (lt_seed ok_ietf ok_classic : bytes) : res server :=
    obind (responder_new RfcDraft13 lt_seed ok_ietf) (fun ri =>
    obind (responder_new Google lt_seed ok_classic) (fun rc =>
    Ok (mksrv cfg (ltk_srv_value H ed_pk lt_seed) ri rc))).

  Definition dgram := (addr * bytes)%type.

  (* collect_requests over the datagrams read in this batch *)
  Fixpoint collect (srv : bytes) (cfg : config) (ri rc : responder) (ds : list dgram) (i : nat)
    : res (responder * responder * list sev * list logrec) :=
    match ds with
    | [] => Ok (ri, rc, [], [])
    | (src, d) :: rest =>
        match classify srv d with
        | Panic s => Panic s
        | Ok (nonce, RfcDraft13) =>
            obind (lift (responder_add ri d nonce src)) (fun ri' =>
            obind (collect srv cfg ri' rc rest (S i)) (fun '(ri2, rc2, st, lg) =>
            Ok (ri2, rc2, SIetfRequest src :: st, lg)))
        | Ok (nonce, Google) =>
            obind (lift (responder_add rc nonce nonce src)) (fun rc' =>
            obind (collect srv cfg ri rc' rest (S i)) (fun '(ri2, rc2, st, lg) =>
            Ok (ri2, rc2, SClassicRequest src :: st, lg)))
        | Err e =>
            let lg0 := if (lvl_debug <=? log_level cfg)%nat
                       then [mklog lvl_debug 2 [u64le (lenN d); u64le src; u64le (N.of_nat i)]]
                       else [] in
            obind (collect srv cfg ri rc rest (S i)) (fun '(ri2, rc2, st, lg) =>
            Ok (ri2, rc2, SInvalidRequest src :: st, lg0 ++ lg))
        end
    end.

  Record serve_out := mkso {
    so_sent : list emission;
    so_stats : list sev;
    so_logs : list logrec
  }.

  (* one iteration of the EVT_MESSAGE loop: reset both responders, read up to batch_size
     datagrams, answer IETF requests then classic ones *)
  Definition one_batch (s : server) (ds : list dgram) (now : clock) (coins : list coin)
    : res (server * serve_out * list coin) :=
    let ri0 := responder_reset (s_ietf s) in
    let rc0 := responder_reset (s_classic s) in
    obind (collect (s_srv_value s) (s_cfg s) ri0 rc0 ds 0) (fun '(ri1, rc1, st, lg) =>
    obind (send_responses (s_cfg s) ri1 now coins) (fun '(ri2, bo1) =>
    obind (send_responses (s_cfg s) rc1 now (bo_coins bo1)) (fun '(rc2, bo2) =>
    Ok (mksrv (s_cfg s) (s_srv_value s) ri2 rc2,
        mkso (bo_sent bo1 ++ bo_sent bo2) (st ++ bo_stats bo1 ++ bo_stats bo2)
             (lg ++ bo_logs bo1 ++ bo_logs bo2),
        bo_coins bo2)))).

  (* the drain: batches of at most batch_size until a read finds the queue empty.
     clock k is the clock reading of the k-th loop iteration. fuel = S (length queue). *)
  Fixpoint drain (fuel : nat) (s : server) (queue : list dgram) (clk : nat -> clock) (k : nat)
           (coins : list coin) : res (server * serve_out) :=
    match fuel with
    | O => Panic site_mfuel
    | S f =>
        let n := batch_size (s_cfg s) in
        let ds := firstn n queue in
        let rest := skipn n queue in
        obind (one_batch s ds (clk k) coins) (fun '(s1, o1, coins1) =>
        (* socket_now_empty: a recv_from returned WouldBlock within this batch *)
        if (length queue <? n)%nat then Ok (s1, o1)
        else obind (drain f s1 rest clk (S k) coins1) (fun '(s2, o2) =>
             Ok (s2, mkso (so_sent o1 ++ so_sent o2) (so_stats o1 ++ so_stats o2)
                          (so_logs o1 ++ so_logs o2))))
    end.

  (* process_events on an EVT_MESSAGE with the given queue contents *)
  Definition process_events (s : server) (queue : list dgram) (clk : nat -> clock)
             (coins : list coin) : res (server * serve_out) :=
    drain (S (length queue)) s queue clk 0 coins.
End Server.
