(* Keys.v — model of src/key/{longterm,online}.rs and the parts of sign.rs they use.
   Ed25519 is a Section variable: seed -> public key, seed -> message -> signature.
   MsgSigner is modelled in Model/Sign.v; here its observable behaviour (C13: sign() returns the
   one-shot signature of the bytes fed since the previous sign()) is used directly. *)
Require Import RV.Model.Bytes RV.Gen.Tables RV.Model.Tag RV.Model.Message.
Local Open Scope N_scope.

Definition site_unwrap_add : nat := 30.   (* add_field(..).unwrap() in key/*.rs, responder.rs *)
Definition site_unwrap_enc : nat := 31.   (* encode().unwrap() / expect("make_cert") *)
Definition site_unwrap_get : nat := 32.   (* get_field(..).unwrap() *)

(* x.unwrap() on a Result *)
Definition unwrap {A} (site : nat) (x : res A) : res A :=
  match x with Ok a => Ok a | _ => Panic site end.

(* build a message by successive add_field(..).unwrap() calls *)
Fixpoint build_unwrap (m : msg) (fields : list (tag * bytes)) : res msg :=
  match fields with
  | [] => Ok m
  | (t, v) :: r => obind (unwrap site_unwrap_add (add_field m t v)) (fun m' => build_unwrap m' r)
  end.

Section Keys.
  Variable H : bytes -> bytes.                      (* SHA-512 *)
  Variable ed_pk : bytes -> bytes.                  (* seed -> public key *)
  Variable ed_sign : bytes -> bytes -> bytes.       (* seed -> message -> signature *)

  (* LongTermKey::calc_srv_value *)
  Definition calc_srv_value (pubkey : bytes) : bytes := firstn 32 (H (SRV_PREFIX ++ pubkey)).

  (* LongTermKey::new(seed): public key and SRV value *)
  Definition ltk_public_key (seed : bytes) : bytes := ed_pk seed.
  Definition ltk_srv_value (seed : bytes) : bytes := calc_srv_value (ed_pk seed).

  (* OnlineKey::make_dele *)
  Definition make_dele (online_seed : bytes) : res msg :=
    build_unwrap [] [(PUBK, ed_pk online_seed); (MINT, repeat_byte x00 8); (MAXT, repeat_byte xff 8)].

  (* LongTermKey::make_cert *)
  Definition make_cert (v : version) (lt_seed online_seed : bytes) : res msg :=
    obind (make_dele online_seed) (fun dele =>
    obind (unwrap site_unwrap_enc (encode dele)) (fun dele_bytes =>
    let sig := ed_sign lt_seed (dele_prefix v ++ dele_bytes) in
    build_unwrap [] [(SIG, sig); (DELE, dele_bytes)])).

  (* clock reading: whole seconds and sub-second nanoseconds since the Unix epoch *)
  Definition clock := (N * N)%type.

  (* classic_midp: secs * 1_000_000 + nanos / 1_000, in u64 arithmetic *)
  Definition classic_midp (now : clock) : N :=
    let '(secs, nanos) := now in ((secs * 1000000) mod two64 + nanos / 1000) mod two64.
  Definition rfc_midp (now : clock) : N := fst now.

  Definition radi_of (v : version) : N :=
    match v with Google => 5000000 | RfcDraft13 => 5 end.
  Definition midp_of (v : version) (now : clock) : N :=
    match v with Google => classic_midp now | RfcDraft13 => rfc_midp now end.

  (* the SREP value (the bytes that get signed, after the context string) *)
  Definition srep_value (v : version) (now : clock) (root : bytes) : res bytes :=
    let radi := u32le (radi_of v) in
    let midp := u64le (midp_of v now) in
    match v with
    | Google =>
        obind (build_unwrap [] [(RADI, radi); (MIDP, midp); (ROOT, root)]) (fun m =>
        unwrap site_unwrap_enc (encode m))
    | RfcDraft13 =>
        obind (build_unwrap [] [(VER, ver_wire v); (RADI, radi); (MIDP, midp);
                                (VERS, supported_versions_wire); (ROOT, root)]) (fun m =>
        unwrap site_unwrap_enc (encode m))
    end.

  (* OnlineKey::make_srep *)
  Definition make_srep (v : version) (online_seed : bytes) (now : clock) (root : bytes) : res msg :=
    obind (srep_value v now root) (fun srep_bytes =>
    let sig := ed_sign online_seed (srep_prefix v ++ srep_bytes) in
    build_unwrap [] [(SIG, sig); (SREP, srep_bytes)]).
End Keys.
