(* Sign.v — model of src/sign.rs: MsgSigner / MsgVerifier (init-update-finish) over one-shot
   Ed25519 oracles. Definitions only. *)
Require Import RV.Model.Bytes.

Definition site_seed_len : nat := 50.    (* SecretKey::try_from(seed).expect("invalid seed") *)
Definition site_pubkey : nat := 51.      (* try_into().expect("valid pubkey") / from_bytes().unwrap() *)
Definition site_sig_len : nat := 52.     (* Signature::from_slice(..).expect("valid signature") *)

Section Sign.
  Variable ed_sign : bytes -> bytes -> bytes.             (* seed -> message -> signature *)
  Variable ed_verify : bytes -> bytes -> bytes -> bool.   (* pk -> message -> signature *)
  Variable ed_point : bytes -> bool.                      (* do these 32 bytes decode to a point *)

  Record signer := mksigner { sg_seed : bytes; sg_buf : bytes }.

  (* MsgSigner::from_seed *)
  Definition signer_from_seed (seed : bytes) : outcome unit signer :=
    if (length seed =? 32)%nat then Ok (mksigner seed []) else Panic site_seed_len.

  (* MsgSigner::update *)
  Definition signer_update (s : signer) (d : bytes) : signer := mksigner (sg_seed s) (sg_buf s ++ d).

  (* MsgSigner::sign: signs the buffer and clears it *)
  Definition signer_sign (s : signer) : bytes * signer :=
    (ed_sign (sg_seed s) (sg_buf s), mksigner (sg_seed s) []).

  Inductive sop := Upd (d : bytes) | Sig.

  (* a sequence of operations on one signer object: the signatures produced, in order *)
  Fixpoint run_signer (s : signer) (ops : list sop) : list bytes :=
    match ops with
    | [] => []
    | Upd d :: r => run_signer (signer_update s d) r
    | Sig :: r => let '(sg, s') := signer_sign s in sg :: run_signer s' r
    end.

  (* the messages a sequence of operations denotes: chunks concatenated between Sig's *)
  Fixpoint messages_from (cur : bytes) (ops : list sop) : list bytes :=
    match ops with
    | [] => []
    | Upd d :: r => messages_from (cur ++ d) r
    | Sig :: r => cur :: messages_from [] r
    end.
  Definition messages (ops : list sop) : list bytes := messages_from [] ops.

  Record verifier := mkverifier { vf_pk : bytes; vf_buf : bytes }.

  (* MsgVerifier::new *)
  Definition verifier_new (pk : bytes) : outcome unit verifier :=
    if (length pk =? 32)%nat && ed_point pk then Ok (mkverifier pk []) else Panic site_pubkey.

  Definition verifier_update (v : verifier) (d : bytes) : verifier := mkverifier (vf_pk v) (vf_buf v ++ d).

  (* MsgVerifier::verify *)
  Definition verifier_verify (v : verifier) (sig : bytes) : outcome unit bool :=
    if (length sig =? 64)%nat then Ok (ed_verify (vf_pk v) (vf_buf v) sig) else Panic site_sig_len.

  (* new; update*; verify *)
  Definition run_verifier (pk : bytes) (chunks : list bytes) (sig : bytes) : outcome unit bool :=
    obind (verifier_new pk) (fun v =>
    verifier_verify (fold_left verifier_update chunks v) sig).
End Sign.
