(* Config.v — model of the integer-valued settings' path through src/config/{file,environment}.rs
   and is_valid_config. The model enters at the integer written (yaml-rust's as_i64 / the decimal
   string given to str::parse). Definitions only. *)
From Coq Require Import ZArith Bool.
Local Open Scope Z_scope.

Inductive ckey := CPort | CBatch | CStatus | CHealth | CFault | CWorkers.
Inductive csrc := File | Env.

(* largest value the field's type can hold on this source: checked_int::<T> / str::parse::<T> *)
Definition type_max (s : csrc) (k : ckey) : Z :=
  match k with
  | CPort | CHealth => 65535                      (* u16 *)
  | CBatch | CFault => 255                        (* u8 *)
  | CWorkers => 18446744073709551615              (* usize *)
  | CStatus => match s with
               | File => 9223372036854775807      (* i64 from YAML, then u64 *)
               | Env => 65535                     (* parsed as u16 *)
               end
  end.

(* the loader: Some v when the written integer fits the type, None when the loader refuses
   (InvalidConfiguration from checked_int, or a panic from parse().unwrap_or_else(panic)) *)
Definition load (s : csrc) (k : ckey) (z : Z) : option Z :=
  if (0 <=? z) && (z <=? type_max s k) then Some z else None.

(* is_valid_config on the loaded value *)
Definition valid (k : ckey) (v : Z) : bool :=
  match k with
  | CPort => negb (v =? 0)
  | CBatch => (1 <=? v) && (v <=? 64)
  | CFault => v <=? 50
  | CWorkers => negb (v =? 0)
  | CStatus | CHealth => true
  end.

Inductive effect := Running (v : Z) | Refused.

Definition effective (s : csrc) (k : ckey) (z : Z) : effect :=
  match load s k z with
  | None => Refused
  | Some v => if valid k v then Running v else Refused
  end.

(* the documented ranges (README / ServerConfig docs) *)
Definition in_range (s : csrc) (k : ckey) (z : Z) : bool :=
  match k with
  | CPort => (1 <=? z) && (z <=? 65535)
  | CBatch => (1 <=? z) && (z <=? 64)
  | CFault => (0 <=? z) && (z <=? 50)
  | CWorkers => (1 <=? z) && (z <=? 18446744073709551615)
  | CStatus => (0 <=? z) && (z <=? type_max s CStatus)   (* no documented bound: the type's *)
  | CHealth => (0 <=? z) && (z <=? 65535)
  end.
