(* Config.v — model of the integer-valued settings' path through src/config/{file,environment}.rs
   and is_valid_config. The model enters at the integer written (yaml-rust's as_i64 / the decimal
   string given to str::parse). Definitions only. *)
From Coq Require Import ZArith Bool.
Local Open Scope Z_scope.

Inductive ckey := CPort | CBatch | CStatus | CHealth | CFault | CWorkers.
Inductive csrc := File | Env.

(* largest value the field's type can hold on this source: checked_int::<T> / str::parse::<T> *)
Definition type_max (s : csrc) (k : ckey) : Z :=
  match k with
  | CPort | CHealth => 65535                      (* u16 *)
  | CBatch | CFault => 255                        (* u8 *)
  | CWorkers => match s with
                | File => 9223372036854775807     (* i64 from YAML (a wider literal is not a YAML integer), then usize *)
                | Env => 18446744073709551615     (* usize *)
                end
  | CStatus => match s with
               | File => 9223372036854775807      (* i64 from YAML, then u64 *)
               | Env => 65535                     (* parsed as u16 *)
               end
  end.

(* the loader: Some v when the written integer fits the type, None when the loader refuses
   (InvalidConfiguration from checked_int, or a panic from parse().unwrap_or_else(panic)) *)
Definition load (s : csrc) (k : ckey) (z : Z) : option Z :=
  if (0 <=? z) && (z <=? type_max s k) then Some z else None.

(* is_valid_config on the loaded value *)
Definition valid (k : ckey) (v : Z) : bool :=
  match k with
  | CPort => negb (v =? 0)
  | CBatch => (1 <=? v) && (v <=? 64)
  | CFault => v <=? 50
  | CWorkers => negb (v =? 0)
  | CStatus | CHealth => true
  end.

Inductive effect := Running (v : Z) | Refused.

Definition effective (s : csrc) (k : ckey) (z : Z) : effect :=
  match load s k z with
  | None => Refused
  | Some v => if valid k v then Running v else Refused
  end.

(* the documented ranges (README / ServerConfig docs) *)
Definition in_range (s : csrc) (k : ckey) (z : Z) : bool :=
  match k with
  | CPort => (1 <=? z) && (z <=? 65535)
  | CBatch => (1 <=? z) && (z <=? 64)
  | CFault => (0 <=? z) && (z <=? 50)
  | CWorkers => (1 <=? z) && (z <=? type_max s CWorkers)  (* no documented upper bound: the type's *)
  | CStatus => (0 <=? z) && (z <=? type_max s CStatus)   (* no documented bound: the type's *)
  | CHealth => (0 <=? z) && (z <=? 65535)
  end.

(* ---------------------------------------------------------------------------------------------
   is_valid_config over a WHOLE configuration (src/config/mod.rs), mirroring its control flow: one
   mutable flag that is only ever cleared, checks in source order, and the one panic-capable
   expression (`dir.metadata().unwrap()` on a path that does not exist). The model enters at the
   values the getters return; the state of the persistence directory is an input. *)
Inductive kms_mode := KmsPlaintext | KmsEnabled.

Record dirinfo := mkdir { d_exists : bool; d_is_dir : bool; d_readonly : bool }.

Record settings := mksettings {
  s_port : Z;
  s_interface_empty : bool;
  s_seed_len : Z;                 (* bytes of the decoded seed value; 0 = missing *)
  s_kms : kms_mode;
  s_batch : Z;
  s_fault : Z;
  s_workers : Z;
  s_client_stats : bool;
  s_pdir : option dirinfo;
  s_addr_parses : bool            (* udp_socket_addr(): "<interface>:<port>" parses *)
}.

Inductive vres := VOk (valid : bool) | VPanic.

Definition SEED_LEN : Z := 32.

Definition is_valid_config (c : settings) : vres :=
  let v := true in
  let v := if s_port c =? 0 then false else v in
  let v := if s_interface_empty c then false else v in
  let v := if s_seed_len c =? 0 then false
           else match s_kms c with
                | KmsPlaintext => if negb (s_seed_len c =? SEED_LEN) then false else v
                | KmsEnabled => if s_seed_len c <=? SEED_LEN then false else v
                end in
  let v := if (s_batch c <? 1) || (64 <? s_batch c) then false else v in
  let v := if 50 <? s_fault c then false else v in
  let v := if s_workers c =? 0 then false else v in
  let after_dir : vres :=
    if s_client_stats c then
      match s_pdir c with
      | Some d =>
          let v := if negb (d_is_dir d) then false else v in
          if negb (d_exists d) then VPanic            (* dir.metadata().unwrap() *)
          else VOk (if d_readonly d then false else v)
      | None => VOk false
      end
    else VOk v in
  match after_dir with
  | VPanic => VPanic
  | VOk v => VOk (if v then (if s_addr_parses c then true else false) else false)
  end.

(* what the documentation promises, as one conjunction *)
Definition config_ok (c : settings) : bool :=
  negb (s_port c =? 0)
  && negb (s_interface_empty c)
  && (match s_kms c with
      | KmsPlaintext => s_seed_len c =? SEED_LEN
      | KmsEnabled => SEED_LEN <? s_seed_len c
      end)
  && (1 <=? s_batch c) && (s_batch c <=? 64)
  && (s_fault c <=? 50)
  && negb (s_workers c =? 0)
  && (if s_client_stats c
      then match s_pdir c with
           | Some d => d_exists d && d_is_dir d && negb (d_readonly d)
           | None => false
           end
      else true)
  && s_addr_parses c.
