(* Request.v — model of src/request.rs: request classification. Definitions only. *)
Require Import RV.Model.Bytes RV.Gen.Tables RV.Model.Tag RV.Model.Message.
Local Open Scope N_scope.

(* private constants of request.rs (behaviour, pinned by the correspondence at both sides of
   each boundary) *)
Definition CLASSIC_NONCE_LENGTH : nat := 64.
Definition RFC_NONCE_LENGTH : nat := 32.
Definition ITERATION_LIMIT : nat := 4.

Definition site_req_slice : nat := 20.  (* buf[0..8], buf[8..12], buf[12..] *)

(* get_supported_version: the first ITERATION_LIMIT 4-byte chunks of VER, looking for draft-13 *)
Definition get_supported_version (m : msg) : option version :=
  match get_field m VER with
  | None => None
  | Some tag_bytes =>
      if existsb (fun c => bytes_eqb (ver_wire RfcDraft13) c)
                 (firstn ITERATION_LIMIT (chunks 4 tag_bytes))
      then Some RfcDraft13 else None
  end.

Definition is_rfc_request (d : bytes) : bool := bytes_eqb (firstn 8 d) REQUEST_FRAMING_BYTES.

Definition nonce_from_classic_request (d : bytes) : res (bytes * version) :=
  obind (from_bytes d) (fun m =>
  match get_field m NONC with
  | Some nonce => if (length nonce =? CLASSIC_NONCE_LENGTH)%nat then Ok (nonce, Google)
                  else Err InvalidRequest
  | None => Err InvalidRequest
  end).

Definition nonce_from_rfc_request (d expected_srv : bytes) : res (bytes * version) :=
  obind (slice site_req_slice d 8 12) (fun lenw =>
  let reported_len := rd32 lenw in
  let actual_len := as_u32 (N.of_nat (length d - 12)) in
  if negb (reported_len =? actual_len) then Err (LengthMismatch reported_len actual_len)
  else
    obind (from_bytes (skipn 12 d)) (fun m =>
    match get_supported_version m with
    | None => Err NoCompatibleVersion
    | Some v =>
        let srv_bad := match get_field m SRV with
                       | Some s => negb (bytes_eqb s expected_srv)
                       | None => false
                       end in
        if srv_bad then Err SrvMismatch
        else match get_field m NONC with
             | Some nonce => if (length nonce =? RFC_NONCE_LENGTH)%nat then Ok (nonce, v)
                             else Err InvalidRequest
             | None => Err InvalidRequest
             end
    end)).

(* nonce_from_request(buf, num_bytes, expected_srv) on d = buf[..num_bytes] *)
Definition classify (expected_srv d : bytes) : res (bytes * version) :=
  if lenN d <? MIN_REQUEST_LENGTH then Err RequestTooShort
  else if MAX_REQUEST_LENGTH <? lenN d then Err RequestTooLarge
  else if is_rfc_request d then nonce_from_rfc_request d expected_srv
  else nonce_from_classic_request d.
