(* Message.v — model of src/message.rs (RtMessage), mirroring the Rust control flow.
   Definitions only. *)
Require Import RV.Model.Bytes RV.Gen.Tables RV.Model.Tag.
Local Open Scope N_scope.

(* mirrors `enum Error` (only the variants the modelled code produces carry payloads) *)
Inductive error : Set :=
| TagNotStrictlyIncreasing (t : tag)
| InvalidTag
| InvalidNumTags (n : N)
| InvalidValueLength (t : tag) (n : N)
| EncodingFailure
| RequestTooShort
| RequestTooLarge
| InvalidAlignment (n : N)
| InvalidOffsetValue (n : N)
| MessageTooShort
| InvalidRequest
| InvalidResponse
| LengthMismatch (a b : N)
| NoCompatibleVersion
| SrvMismatch.

Definition res := outcome error.

(* panic sites of message.rs *)
Definition site_slice_value : nat := 1.   (* bytes[start_idx..end_idx] in multi_tag_message *)
Definition site_slice_tag : nat := 2.     (* bytes[pos..pos+4] in single_tag_message *)
Definition site_encode_assert : nat := 3. (* assert_eq!(out.len(), encoded_size()) *)
Definition site_values0 : nat := 4.       (* self.values[0] in encode *)
Definition site_indent_assert : nat := 5. (* assert!(indent_level > 0) in to_string *)
Definition site_fuel : nat := 99.         (* model artefact: recursion fuel exhausted *)

(* RtMessage { tags, values }: parallel vectors, modelled as a list of pairs *)
Definition msg := list (tag * bytes).

Definition last_tag (m : msg) : option tag :=
  match rev m with
  | (t, _) :: _ => Some t
  | [] => None
  end.

(* RtMessage::add_field *)
Definition add_field (m : msg) (t : tag) (v : bytes) : res msg :=
  match last_tag m with
  | Some lt => if tag_le t lt then Err (TagNotStrictlyIncreasing t) else Ok (m ++ [(t, v)])
  | None => Ok (m ++ [(t, v)])
  end.

(* RtMessage::get_field *)
Fixpoint get_field (m : msg) (t : tag) : option bytes :=
  match m with
  | [] => None
  | (u, v) :: r => if tag_eqb t u then Some v else get_field r t
  end.

(* single_tag_message *)
Definition single_tag_message (bs : bytes) : res msg :=
  if (length bs <? 8)%nat then Err MessageTooShort
  else
    obind (slice site_slice_tag bs 4 8) (fun tw =>
    match tag_of_wire tw with
    | None => Err InvalidTag
    | Some t => add_field [] t (skipn 8 bs)
    end).

(* the offsets loop: k reads of a u32 from the cursor, each checked as it is read *)
Fixpoint read_offsets (k : nat) (cur : bytes) (blen32 : N) : res (list N * bytes) :=
  match k with
  | O => Ok ([], cur)
  | S k' =>
      match cur with
      | a :: b :: c :: d :: rest =>
          let off := rd32 [a; b; c; d] in
          if negb (off mod 4 =? 0) then Err (InvalidAlignment off)
          else if blen32 <? off then Err (InvalidOffsetValue off)
          else obind (read_offsets k' rest blen32) (fun '(os, r) => Ok (off :: os, r))
      | _ => Err EncodingFailure        (* read_u32 hit EOF: io::Error -> EncodingFailure *)
      end
  end.

(* the tags loop *)
Fixpoint read_tags (k : nat) (cur : bytes) (last : option tag) : res (list tag * bytes) :=
  match k with
  | O => Ok ([], cur)
  | S k' =>
      match cur with
      | a :: b :: c :: d :: rest =>
          match tag_of_wire [a; b; c; d] with
          | None => Err InvalidTag
          | Some t =>
              let bad := match last with Some lt => tag_le t lt | None => false end in
              if bad then Err (TagNotStrictlyIncreasing t)
              else obind (read_tags k' rest (Some t)) (fun '(ts, r) => Ok (t :: ts, r))
          end
      | _ => Err MessageTooShort        (* read_exact failed *)
      end
  end.

(* the value loop over tags zipped with (start, end) offset pairs *)
Fixpoint read_values (bs : bytes) (header_end : nat) (tags : list tag)
         (starts ends : list nat) (acc : msg) : res msg :=
  match tags, starts, ends with
  | t :: ts, s :: ss, e :: es =>
      let start_idx := (header_end + s)%nat in
      let end_idx := (header_end + e)%nat in
      if (length bs <? end_idx)%nat || (end_idx <? start_idx)%nat
      then Err (InvalidValueLength t (as_u32 (N.of_nat end_idx)))
      else
        obind (slice site_slice_value bs start_idx end_idx) (fun v =>
        obind (add_field acc t v) (fun acc' =>
        read_values bs header_end ts ss es acc'))
  | _, _, _ => Ok acc                     (* zip stops at the shortest *)
  end.

(* multi_tag_message *)
Definition multi_tag_message (num_tags : N) (bs : bytes) : res msg :=
  let blen32 := as_u32 (lenN bs) in
  let n := N.to_nat num_tags in           (* num_tags <= 1024 here *)
  obind (read_offsets (n - 1) (skipn 4 bs) blen32) (fun '(offs, cur1) =>
  obind (read_tags n cur1 None) (fun '(tags, cur2) =>
  let header_end := (length bs - length cur2)%nat in
  let msg_end := (length bs - header_end)%nat in
  let offs_n := map N.to_nat offs in      (* each <= blen32 <= len *)
  read_values bs header_end tags (0%nat :: offs_n) (offs_n ++ [msg_end]) [])).

(* RtMessage::from_bytes *)
Definition from_bytes (bs : bytes) : res msg :=
  if (length bs <? 4)%nat then Err MessageTooShort
  else if negb (lenN bs mod 4 =? 0) then Err (InvalidAlignment (as_u32 (lenN bs)))
  else
    let num_tags := rd32 bs in
    if num_tags =? 0 then Ok []
    else if num_tags =? 1 then single_tag_message bs
    else if num_tags <=? 1024 then multi_tag_message num_tags bs
    else Err (InvalidNumTags num_tags).

(* ---- encoding ---- *)

Fixpoint sum_lengths (m : msg) : nat :=
  match m with
  | [] => 0
  | (_, v) :: r => (length v + sum_lengths r)%nat
  end.

(* RtMessage::encoded_size *)
Definition encoded_size (m : msg) : nat :=
  let n := length m in
  (4 + 4 * n + (if (n <? 2)%nat then 0 else 4 * (n - 1)) + sum_lengths m)%nat.

(* offsets written for values[1..], running sum starting at len(values[0]) *)
Fixpoint enc_offsets (sum : nat) (rest : msg) : bytes :=
  match rest with
  | [] => []
  | (_, v) :: r => u32le (as_u32 (N.of_nat sum)) ++ enc_offsets (sum + length v)%nat r
  end.

Fixpoint enc_tags (m : msg) : bytes :=
  match m with
  | [] => []
  | (t, _) :: r => tag_wire t ++ enc_tags r
  end.

Fixpoint enc_values (m : msg) : bytes :=
  match m with
  | [] => []
  | (_, v) :: r => v ++ enc_values r
  end.

(* RtMessage::encode *)
Definition encode (m : msg) : res bytes :=
  let n := length m in
  let offs :=
    if (1 <? n)%nat then
      match m with
      | (_, v0) :: r => Ok (enc_offsets (length v0) r)
      | [] => Panic site_values0
      end
    else Ok [] in
  obind offs (fun offs =>
  let out := u32le (as_u32 (N.of_nat n)) ++ offs ++ enc_tags m ++ enc_values m in
  if (length out =? encoded_size m)%nat then Ok out else Panic site_encode_assert).

(* RtMessage::encode_framed *)
Definition encode_framed (m : msg) : res bytes :=
  obind (encode m) (fun e =>
  Ok (REQUEST_FRAMING_BYTES ++ u32le (as_u32 (lenN e)) ++ e)).

(* RtMessage::calculate_padding_length *)
Definition calculate_padding_length (m : msg) : nat :=
  let size := encoded_size m in
  if (1024 <=? size)%nat then 0%nat
  else
    let padding_needed := (1024 - size)%nat in
    if (length m =? 1)%nat then (padding_needed - 4)%nat else padding_needed.

(* ---- display ---- *)

(* decimal rendering of a number (usize::to_string) *)
Fixpoint dec_fuel (fuel : nat) (n : N) (acc : bytes) : bytes :=
  match fuel with
  | O => acc
  | S f =>
      let d := n2b (48 + n mod 10) in
      if n <? 10 then d :: acc else dec_fuel f (n / 10) (d :: acc)
  end.
Definition dec (n : N) : bytes := dec_fuel 40 n [].

Definition spaces (n : nat) : bytes := repeat_byte x20 n.

Definition MAX_DISPLAY_DEPTH : nat := 8.

Definition str_RtMessage : bytes := [x52; x74; x4d; x65; x73; x73; x61; x67; x65; x7c]. (* "RtMessage|" *)
Definition str_open : bytes := [x7c; x7b; x0a].       (* "|{\n" *)
Definition str_close : bytes := [x7d; x0a].            (* "}\n" *)
Definition str_eq : bytes := [x29; x20; x3d; x20].    (* ") = " *)

(* RtMessage::to_string(indent_level) *)
Fixpoint to_string_f (fuel : nat) (indent : nat) (m : msg) : res bytes :=
  match fuel with
  | O => Panic site_fuel
  | S f =>
      if (indent =? 0)%nat then Panic site_indent_assert
      else
        let indent1 := spaces (2 * (indent - 1)) in
        let indent2 := spaces (2 * indent) in
        let field (tv : tag * bytes) : res bytes :=
          let '(t, v) := tv in
          let head := indent2 ++ tag_display t ++ [x28] ++ dec (lenN v) ++ str_eq in
          let nested :=
            if tag_nested t && (indent <? MAX_DISPLAY_DEPTH)%nat
            then ok_opt (from_bytes v) else None in
          match nested with
          | Some nm => obind (to_string_f f (S indent) nm) (fun s => Ok (head ++ s))
          | None => Ok (head ++ hex_encode v ++ [x0a])
          end in
        let fix fields (l : msg) : res bytes :=
          match l with
          | [] => Ok []
          | tv :: r => obind (field tv) (fun a => obind (fields r) (fun b => Ok (a ++ b)))
          end in
        obind (fields m) (fun body =>
        Ok (str_RtMessage ++ dec (lenN m) ++ str_open ++ body ++ indent1 ++ str_close))
  end.

(* Display for RtMessage: to_string(1); nesting is cut at MAX_DISPLAY_DEPTH so 9 levels of fuel
   are always enough (proved in Proofs/) *)
Definition to_string (m : msg) : res bytes := to_string_f (S MAX_DISPLAY_DEPTH) 1 m.
