(* Stats.v — model of src/stats/{mod,per_client,aggregated,reporter}.rs. Definitions only.
   Counters are unbounded N (the u32 width of per-client counters is a stated bound, not
   modelled); timestamps (first_seen) are not modelled. *)
Require Import RV.Model.Bytes RV.Model.Server.
Local Open Scope N_scope.

Inductive kind := KRfcReq | KClassicReq | KInvalid | KHealth | KRfcResp | KClassicResp | KFailed | KRetried.

Definition kind_eqb (a b : kind) : bool :=
  match a, b with
  | KRfcReq, KRfcReq | KClassicReq, KClassicReq | KInvalid, KInvalid | KHealth, KHealth
  | KRfcResp, KRfcResp | KClassicResp, KClassicResp | KFailed, KFailed | KRetried, KRetried => true
  | _, _ => false
  end.

Definition ev_kind (e : sev) : kind :=
  match e with
  | SIetfRequest _ => KRfcReq | SClassicRequest _ => KClassicReq | SInvalidRequest _ => KInvalid
  | SRfcResponse _ _ => KRfcResp | SClassicResponse _ _ => KClassicResp
  | SFailedSend _ => KFailed | SRetriedSend _ => KRetried | SHealthCheck _ => KHealth
  end.

Definition ev_addr (e : sev) : addr :=
  match e with
  | SIetfRequest a | SClassicRequest a | SInvalidRequest a | SRfcResponse a _
  | SClassicResponse a _ | SFailedSend a | SRetriedSend a | SHealthCheck a => a
  end.

Definition ev_bytes (e : sev) : N :=
  match e with SRfcResponse _ n | SClassicResponse _ n => n | _ => 0 end.

(* struct ClientStats (without first_seen / ip_addr) *)
Record cstats := mkcs {
  c_rfc_req : N; c_classic_req : N; c_invalid : N; c_health : N;
  c_rfc_resp : N; c_classic_resp : N; c_bytes : N; c_failed : N; c_retried : N }.

Definition cs_zero : cstats := mkcs 0 0 0 0 0 0 0 0 0.

Definition cs_get (k : kind) (c : cstats) : N :=
  match k with
  | KRfcReq => c_rfc_req c | KClassicReq => c_classic_req c | KInvalid => c_invalid c
  | KHealth => c_health c | KRfcResp => c_rfc_resp c | KClassicResp => c_classic_resp c
  | KFailed => c_failed c | KRetried => c_retried c
  end.

(* the `+= 1` (and `bytes_sent += n`) of each add_* method *)
Definition cs_bump (e : sev) (c : cstats) : cstats :=
  match e with
  | SIetfRequest _ => mkcs (c_rfc_req c + 1) (c_classic_req c) (c_invalid c) (c_health c) (c_rfc_resp c) (c_classic_resp c) (c_bytes c) (c_failed c) (c_retried c)
  | SClassicRequest _ => mkcs (c_rfc_req c) (c_classic_req c + 1) (c_invalid c) (c_health c) (c_rfc_resp c) (c_classic_resp c) (c_bytes c) (c_failed c) (c_retried c)
  | SInvalidRequest _ => mkcs (c_rfc_req c) (c_classic_req c) (c_invalid c + 1) (c_health c) (c_rfc_resp c) (c_classic_resp c) (c_bytes c) (c_failed c) (c_retried c)
  | SHealthCheck _ => mkcs (c_rfc_req c) (c_classic_req c) (c_invalid c) (c_health c + 1) (c_rfc_resp c) (c_classic_resp c) (c_bytes c) (c_failed c) (c_retried c)
  | SRfcResponse _ n => mkcs (c_rfc_req c) (c_classic_req c) (c_invalid c) (c_health c) (c_rfc_resp c + 1) (c_classic_resp c) (c_bytes c + n) (c_failed c) (c_retried c)
  | SClassicResponse _ n => mkcs (c_rfc_req c) (c_classic_req c) (c_invalid c) (c_health c) (c_rfc_resp c) (c_classic_resp c + 1) (c_bytes c + n) (c_failed c) (c_retried c)
  | SFailedSend _ => mkcs (c_rfc_req c) (c_classic_req c) (c_invalid c) (c_health c) (c_rfc_resp c) (c_classic_resp c) (c_bytes c) (c_failed c + 1) (c_retried c)
  | SRetriedSend _ => mkcs (c_rfc_req c) (c_classic_req c) (c_invalid c) (c_health c) (c_rfc_resp c) (c_classic_resp c) (c_bytes c) (c_failed c) (c_retried c + 1)
  end.

(* ClientStats::merge *)
Definition cs_merge (a b : cstats) : cstats :=
  mkcs (c_rfc_req a + c_rfc_req b) (c_classic_req a + c_classic_req b) (c_invalid a + c_invalid b)
       (c_health a + c_health b) (c_rfc_resp a + c_rfc_resp b) (c_classic_resp a + c_classic_resp b)
       (c_bytes a + c_bytes b) (c_failed a + c_failed b) (c_retried a + c_retried b).

(* the client map as an association list (insertion order; the HashMap's iteration order is
   not an observable) *)
Definition cmap := list (addr * cstats).

Fixpoint cm_get (m : cmap) (a : addr) : option cstats :=
  match m with
  | [] => None
  | (b, c) :: r => if a =? b then Some c else cm_get r a
  end.

(* entry(a).or_insert_with(new) then f *)
Fixpoint cm_upd (m : cmap) (a : addr) (f : cstats -> cstats) : cmap :=
  match m with
  | [] => [(a, f cs_zero)]
  | (b, c) :: r => if a =? b then (b, f c) :: r else (b, c) :: cm_upd r a f
  end.

(* the entry of a client as a place: what `entry(a).or_insert_with_key(new)` reads (a fresh record when the
   address is not tracked) and what writing it back does *)
Definition cm_get0 (m : cmap) (a : addr) : cstats :=
  match cm_get m a with Some c => c | None => cs_zero end.
Definition cm_put (m : cmap) (a : addr) (c : cstats) : cmap := cm_upd m a (fun _ => c).

(* field updates of ClientStats *)
Definition cs_set_rfc_req (c : cstats) (v : N) := mkcs v (c_classic_req c) (c_invalid c) (c_health c) (c_rfc_resp c) (c_classic_resp c) (c_bytes c) (c_failed c) (c_retried c).
Definition cs_set_classic_req (c : cstats) (v : N) := mkcs (c_rfc_req c) v (c_invalid c) (c_health c) (c_rfc_resp c) (c_classic_resp c) (c_bytes c) (c_failed c) (c_retried c).
Definition cs_set_invalid (c : cstats) (v : N) := mkcs (c_rfc_req c) (c_classic_req c) v (c_health c) (c_rfc_resp c) (c_classic_resp c) (c_bytes c) (c_failed c) (c_retried c).
Definition cs_set_health (c : cstats) (v : N) := mkcs (c_rfc_req c) (c_classic_req c) (c_invalid c) v (c_rfc_resp c) (c_classic_resp c) (c_bytes c) (c_failed c) (c_retried c).
Definition cs_set_rfc_resp (c : cstats) (v : N) := mkcs (c_rfc_req c) (c_classic_req c) (c_invalid c) (c_health c) v (c_classic_resp c) (c_bytes c) (c_failed c) (c_retried c).
Definition cs_set_classic_resp (c : cstats) (v : N) := mkcs (c_rfc_req c) (c_classic_req c) (c_invalid c) (c_health c) (c_rfc_resp c) v (c_bytes c) (c_failed c) (c_retried c).
Definition cs_set_bytes (c : cstats) (v : N) := mkcs (c_rfc_req c) (c_classic_req c) (c_invalid c) (c_health c) (c_rfc_resp c) (c_classic_resp c) v (c_failed c) (c_retried c).
Definition cs_set_failed (c : cstats) (v : N) := mkcs (c_rfc_req c) (c_classic_req c) (c_invalid c) (c_health c) (c_rfc_resp c) (c_classic_resp c) (c_bytes c) v (c_retried c).
Definition cs_set_retried (c : cstats) (v : N) := mkcs (c_rfc_req c) (c_classic_req c) (c_invalid c) (c_health c) (c_rfc_resp c) (c_classic_resp c) (c_bytes c) (c_failed c) v.

(* PerClientStats *)
Record pcstate := mkpc { pc_clients : cmap; pc_overflows : N; pc_max : nat }.

Definition pc_new (limit : nat) : pcstate := mkpc [] 0 limit.

(* every add_* method: too_many_entries() first (counts an overflow and drops the event even
   for an address that is already tracked), else bump the entry *)
Definition pc_step (st : pcstate) (e : sev) : pcstate * bool :=
  if (pc_max st <=? length (pc_clients st))%nat
  then (mkpc (pc_clients st) (pc_overflows st + 1) (pc_max st), false)
  else (mkpc (cm_upd (pc_clients st) (ev_addr e) (cs_bump e)) (pc_overflows st) (pc_max st), true).

(* run a history; the mask says which events were recorded *)
Fixpoint pc_run (st : pcstate) (evs : list sev) : pcstate * list bool :=
  match evs with
  | [] => (st, [])
  | e :: r =>
      let '(st1, b) := pc_step st e in
      let '(st2, bs) := pc_run st1 r in
      (st2, b :: bs)
  end.

(* clear(): forget clients and overflows *)
Definition pc_clear (st : pcstate) : pcstate := mkpc [] 0 (pc_max st).

(* totals as the trait's accessor methods compute them *)
Definition pc_total (k : kind) (st : pcstate) : N :=
  fold_right (fun ac acc => cs_get k (snd ac) + acc) 0 (pc_clients st).
Definition pc_total_bytes (st : pcstate) : N :=
  fold_right (fun ac acc => c_bytes (snd ac) + acc) 0 (pc_clients st).

(* AggregatedStats *)
Definition agg_step (c : cstats) (e : sev) : cstats := cs_bump e c.
Definition agg_run (evs : list sev) : cstats := fold_left agg_step evs cs_zero.

(* Reporter::receive_client_stats over the queued snapshots: merge every entry into the map *)
Definition rep_merge_entry (m : cmap) (ac : addr * cstats) : cmap :=
  cm_upd m (fst ac) (fun c => cs_merge c (snd ac)).
Definition rep_receive (m : cmap) (snapshots : list cmap) : cmap :=
  fold_left (fun m snap => fold_left rep_merge_entry snap m) snapshots m.

(* ---- the shared statistics queue (crossbeam ArrayQueue<Vec<ClientStats>>, capacity 2 * num_workers)
   Workers publish snapshots with force_push — when the queue is full the OLDEST element is evicted
   to make room — and the reporter pops until empty once per cycle, merging every entry. *)
Record squeue := mksq { sq_cap : nat; sq_items : list cmap }.

Definition sq_force_push (q : squeue) (x : cmap) : squeue * option cmap :=
  if (length (sq_items q) <? sq_cap q)%nat then (mksq (sq_cap q) (sq_items q ++ [x]), None)
  else match sq_items q with
       | [] => (mksq (sq_cap q) [x], None)                      (* capacity 0 cannot be constructed *)
       | old :: r => (mksq (sq_cap q) (r ++ [x]), Some old)     (* the evicted snapshot *)
       end.

(* Server::send_client_stats (the statistics tick of a worker): the recorder's per-client records are
   handed to the shared queue and the recorder is cleared — only when there is at least one record
   (the aggregated recorder never has any: its totals are cumulative). Returns the recorder, the queue
   and the snapshot the push evicted, if any. *)
Definition send_client_stats (rec : cmap) (q : squeue) : cmap * squeue * option cmap :=
  match rec with
  | [] => (rec, q, None)
  | _ => let '(q', ev) := sq_force_push q rec in ([], q', ev)
  end.

Inductive qop := QPush (snap : cmap) | QDrain.

(* state: the queue, the reporter's merged map, and (for the accounting) the evicted snapshots *)
Fixpoint q_run (q : squeue) (merged : cmap) (lost : list cmap) (ops : list qop)
  : squeue * cmap * list cmap :=
  match ops with
  | [] => (q, merged, lost)
  | QPush x :: r =>
      (* send_client_stats publishes only non-empty snapshots *)
      match x with
      | [] => q_run q merged lost r
      | _ => let '(q', ev) := sq_force_push q x in
             q_run q' merged (match ev with Some o => lost ++ [o] | None => lost end) r
      end
  | QDrain :: r => q_run (mksq (sq_cap q) []) (rep_receive merged (sq_items q)) lost r
  end.

Definition pushed_snaps (ops : list qop) : list cmap :=
  flat_map (fun o => match o with QPush (e :: r) => [e :: r] | _ => [] end) ops.

(* ArrayQueue::pop: the oldest snapshot, if any *)
Definition sq_pop (q : squeue) : option cmap * squeue :=
  match sq_items q with
  | [] => (None, q)
  | x :: r => (Some x, mksq (sq_cap q) r)
  end.
