(* Client.v — model of src/bin/roughenough-client.rs: request construction and the decision
   procedure over the reply. Every panic of the binary (unwrap, index, assert, expect) is a Panic
   value: "non-zero exit, no time printed". Definitions only. *)
Require Import RV.Model.Bytes RV.Gen.Tables RV.Model.Tag RV.Model.Message RV.Model.Merkle
        RV.Model.Keys RV.Model.Sign.
Local Open Scope N_scope.

Definition site_cl_decode : nat := 60.     (* RtMessage::from_bytes(..).unwrap() *)
Definition site_cl_framing : nat := 61.    (* verify_framing(buf).unwrap() *)
Definition site_cl_slice : nat := 62.      (* buf[12..buf_len] *)
Definition site_cl_index : nat := 63.      (* map[&Tag::X] on a missing tag *)
Definition site_cl_read : nat := 64.       (* read_u64 / read_u32 .unwrap() on a short value *)
Definition site_cl_merkle : nat := 65.     (* assert_eq!(hash, srep[ROOT]) *)
Definition site_cl_midpoint : nat := 66.   (* assert!(midpoint >= mint) / <= maxt *)
Definition site_cl_sig : nat := 67.        (* panic!("INVALID signature ...") *)
Definition site_cl_time : nat := 68.       (* timestamp_opt(..).unwrap() *)

Definition RECV_BUF : nat := 4096.

(* ---- make_request ---- *)
Definition padded (fields_before : msg) (pad_tag : tag) : res msg :=
  obind (build_unwrap [] (fields_before ++ [(pad_tag, [])])) (fun m0 =>
  let padding := repeat_byte x00 (calculate_padding_length m0) in
  build_unwrap [] (fields_before ++ [(pad_tag, padding)])).

Section Client.
  Variable H : bytes -> bytes.
  Variable ed_verify : bytes -> bytes -> bytes -> bool.
  Variable ed_point : bytes -> bool.

  Definition make_request (v : version) (nonce : bytes) (pub_key : option bytes) : res bytes :=
    match v with
    | Google =>
        obind (padded [(NONC, nonce)] PAD) (fun m => unwrap site_unwrap_enc (encode m))
    | RfcDraft13 =>
        let srv := match pub_key with
                   | Some pk => [(SRV, calc_srv_value H pk)]
                   | None => []
                   end in
        obind (padded ([(VER, ver_wire v)] ++ srv ++ [(NONC, nonce)]) ZZZZ) (fun m =>
        unwrap site_unwrap_enc (encode_framed m))
    end.

  (* ---- receive_response: the datagram sits in a zeroed 4096-byte buffer ---- *)
  Definition verify_framing (buf : bytes) : res unit :=
    if negb (bytes_eqb (firstn 8 buf) REQUEST_FRAMING_BYTES) then Err InvalidResponse
    else if N.of_nat (length buf - 12) <? rd32 (firstn 4 (skipn 8 buf)) then Err MessageTooShort
    else Ok tt.

  Definition receive_response (v : version) (dgram : bytes) : res msg :=
    let buf_len := length dgram in
    let buf := dgram ++ repeat_byte x00 (RECV_BUF - buf_len) in
    match v with
    | Google => unwrap site_cl_decode (from_bytes dgram)
    | RfcDraft13 =>
        obind (unwrap site_cl_framing (verify_framing buf)) (fun _ =>
        obind (slice site_cl_slice buf 12 buf_len) (fun payload =>
        unwrap site_cl_decode (from_bytes payload)))
    end.

  (* map[&tag] *)
  Definition idx (m : msg) (t : tag) : res bytes :=
    match get_field m t with Some v => Ok v | None => Panic site_cl_index end.

  (* value.as_slice().read_uN::<LittleEndian>().unwrap(): first N bytes, panic if shorter *)
  Definition read_u64 (b : bytes) : res N :=
    if (length b <? 8)%nat then Panic site_cl_read else Ok (rd64 b).
  Definition read_u32 (b : bytes) : res N :=
    if (length b <? 4)%nat then Panic site_cl_read else Ok (rd32 b).

  (* validate_sig: MsgVerifier::new(pk); update(data); verify(sig) *)
  Definition validate_sig (pk sig data : bytes) : res bool :=
    match run_verifier ed_verify ed_point pk [data] sig with
    | Ok b => Ok b
    | Err _ => Panic site_pubkey
    | Panic s => Panic s
    end.

  (* validate_merkle *)
  Definition validate_merkle (v : version) (nonce request : bytes) (resp srep : msg) : res N :=
    obind (idx resp INDX) (fun indx_b => obind (read_u32 indx_b) (fun index =>
    obind (idx resp PATH) (fun paths =>
    let leaf := match v with Google => nonce | RfcDraft13 => request end in
    obind (match root_from_paths H v index leaf paths with
           | Ok h => Ok h
           | Err _ => Panic site_mfuel
           | Panic s => Panic s
           end) (fun hash =>
    obind (idx srep ROOT) (fun root =>
    if bytes_eqb hash root then Ok index else Panic site_cl_merkle))))).

  (* validate_midpoint *)
  Definition validate_midpoint (dele : msg) (midpoint : N) : res unit :=
    obind (idx dele MINT) (fun mint_b => obind (read_u64 mint_b) (fun mint =>
    obind (idx dele MAXT) (fun maxt_b => obind (read_u64 maxt_b) (fun maxt =>
    if midpoint <? mint then Panic site_cl_midpoint
    else if maxt <? midpoint then Panic site_cl_midpoint
    else Ok tt)))).

  (* validate_dele; validate_srep (only with a pinned key) *)
  Definition validate_signatures (v : version) (pk : bytes) (resp cert dele : msg) : res unit :=
    obind (idx cert SIG) (fun csig =>
    obind (idx cert DELE) (fun dele_b =>
    obind (validate_sig pk csig (dele_prefix v ++ dele_b)) (fun ok1 =>
    if negb ok1 then Panic site_cl_sig else
    obind (idx dele PUBK) (fun pubk =>
    obind (idx resp SIG) (fun sig =>
    obind (idx resp SREP) (fun srep_b =>
    obind (validate_sig pubk sig (srep_prefix v ++ srep_b)) (fun ok2 =>
    if negb ok2 then Panic site_cl_sig else Ok tt))))))).

  Record parsed := mkparsed { p_verified : bool; p_midpoint : N; p_radius : N; p_index : N }.

  (* ResponseHandler::new + extract_time + the index read in main *)
  Definition handle_response (v : version) (pub_key : option bytes) (nonce request : bytes)
             (resp : msg) : res parsed :=
    obind (idx resp SREP) (fun srep_b =>
    obind (unwrap site_cl_decode (from_bytes srep_b)) (fun srep =>
    obind (idx resp CERT) (fun cert_b =>
    obind (unwrap site_cl_decode (from_bytes cert_b)) (fun cert =>
    obind (idx cert DELE) (fun dele_b =>
    obind (unwrap site_cl_decode (from_bytes dele_b)) (fun dele =>
    obind (idx srep MIDP) (fun midp_b => obind (read_u64 midp_b) (fun midpoint =>
    obind (idx srep RADI) (fun radi_b => obind (read_u32 radi_b) (fun radius =>
    obind (validate_merkle v nonce request resp srep) (fun index =>
    obind (validate_midpoint dele midpoint) (fun _ =>
    obind (match pub_key with
           | None => Ok false
           | Some pk => obind (validate_signatures v pk resp cert dele) (fun _ => Ok true)
           end) (fun verified =>
    Ok (mkparsed verified midpoint radius index)))))))))))))).

  (* chrono's representable range for timestamp_opt (years -262143 ..= 262142) *)
  Definition TS_MAX : N := 8210266876799.

  (* main: (seconds, nanoseconds) from the midpoint in the protocol's unit; `seconds as i64` of a
     value >= 2^63 is negative and below chrono's minimum, so only the upper bound matters *)
  Definition to_time (v : version) (midpoint : N) : res (N * N) :=
    let '(seconds, nsecs) :=
      match v with
      | Google => let s := midpoint / 1000000 in (s, (midpoint - s * 1000000) * 1000)
      | RfcDraft13 => (midpoint, 0)
      end in
    if TS_MAX <? seconds then Panic site_cl_time else Ok (seconds, nsecs).

  Record client_out := mkout { o_verified : bool; o_secs : N; o_nsecs : N; o_radius : N; o_index : N }.

  (* what the client does with one reply datagram *)
  Definition client_handle (v : version) (pub_key : option bytes) (nonce request dgram : bytes)
    : res client_out :=
    obind (receive_response v dgram) (fun resp =>
    obind (handle_response v pub_key nonce request resp) (fun p =>
    obind (to_time v (p_midpoint p)) (fun '(s, ns) =>
    Ok (mkout (p_verified p) s ns (p_radius p) (p_index p))))).

  (* ---- main's loop over the -n requests ----
     all requests are sent first; then the responses are handled one after another, each against
     ITS OWN (nonce, request) and with no state carried over from the earlier ones. The first one
     that panics ends the process (non-zero exit, nothing printed after it); a receive timeout
     ends the run with `return` (exit 0, nothing further printed). *)
  Inductive arrival : Type := Arrived (dgram : bytes) | TimedOut.
  Record exchange := mkex { ex_nonce : bytes; ex_request : bytes; ex_arrival : arrival }.
  Inductive run_end : Type := RunDone | RunTimeout | RunPanic (site : nat).

  Fixpoint client_run (v : version) (pub_key : option bytes) (xs : list exchange)
    : list client_out * run_end :=
    match xs with
    | [] => ([], RunDone)
    | x :: rest =>
        match ex_arrival x with
        | TimedOut => ([], RunTimeout)
        | Arrived d =>
            match client_handle v pub_key (ex_nonce x) (ex_request x) d with
            | Ok o => let '(os, e) := client_run v pub_key rest in (o :: os, e)
            | Err _ => ([], RunPanic site_cl_decode)      (* unreachable: C01_fail_is_panic *)
            | Panic s => ([], RunPanic s)
            end
        end
    end.

  Definition exit_zero (e : run_end) : bool :=
    match e with RunPanic _ => false | _ => true end.
End Client.
