(* Process.v — models of the process shell (src/bin/roughenough-server.rs) around the serving
   core: (1) N independent workers fed by an arbitrary distribution / interleaving of deliveries,
   (2) the worker loop with the KEEP_RUNNING flag and datagrams arriving while a drain is in
   progress, (3) worker start-up under a shared config mutex and a port table, (4) the
   edge-triggered health-check listener. Definitions only. *)
Require Import RV.Model.Bytes RV.Gen.Tables RV.Model.Message RV.Model.Merkle RV.Model.Keys RV.Model.Server.
Local Open Scope N_scope.

Fixpoint set_nth {A} (l : list A) (n : nat) (x : A) : list A :=
  match l, n with
  | [], _ => []
  | _ :: r, O => x :: r
  | a :: r, S n' => a :: set_nth r n' x
  end.

Section Workers.
  Variable H : bytes -> bytes.
  Variable ed_sign : bytes -> bytes -> bytes.

  (* the kernel hands a burst of datagrams to ONE of the bound sockets; that worker's poll fires *)
  Record delivery := mkdel { d_worker : nat; d_queue : list dgram; d_clk : nat -> clock; d_coins : list coin }.

  (* any schedule is a list of deliveries: workers share no state, so a step of worker w touches
     only the w-th component *)
  Fixpoint run_sys (ws : list server) (evs : list delivery) : res (list server * list (nat * serve_out)) :=
    match evs with
    | [] => Ok (ws, [])
    | e :: r =>
        match nth_error ws (d_worker e) with
        | None => Panic site_mfuel
        | Some s =>
            obind (process_events H ed_sign s (d_queue e) (d_clk e) (d_coins e)) (fun '(s', o) =>
            obind (run_sys (set_nth ws (d_worker e) s') r) (fun '(ws', outs) =>
            Ok (ws', (d_worker e, o) :: outs)))
        end
    end.

  (* ---- worker loop with live arrivals and the shutdown flag ---- *)

  (* the EVT_MESSAGE loop when datagrams keep arriving: those that arrive while batch k is being
     processed are appended to the socket queue before the next read *)
  Fixpoint drain_live (fuel : nat) (s : server) (queue : list dgram) (arrivals : nat -> list dgram)
           (clk : nat -> clock) (k : nat) (coins : list coin) : res (server * list serve_out) :=
    match fuel with
    | O => Panic site_mfuel              (* has not returned after `fuel` batches *)
    | S f =>
        let n := batch_size (s_cfg s) in
        obind (one_batch H ed_sign s (firstn n queue) (clk k) coins) (fun '(s1, o1, coins1) =>
        if (length queue <? n)%nat then Ok (s1, [o1])
        else obind (drain_live f s1 (skipn n queue ++ arrivals k) arrivals clk (S k) coins1)
                   (fun '(s2, os) => Ok (s2, o1 :: os)))
    end.

  (* polling_loop: loop { process_events; if !KEEP_RUNNING { return } }.
     Iteration i is given its traffic by `traffic i`; the flag is set (by the signal handler
     thread) before the test of iteration `flag_at`. `batches i` bounds the drain of iteration i. *)
  Fixpoint polling_loop (iters : nat) (s : server) (i flag_at : nat)
           (traffic : nat -> list dgram * (nat -> list dgram)) (batches : nat -> nat)
           (clk : nat -> clock) : res (list (list serve_out)) :=
    match iters with
    | O => Panic site_mfuel
    | S it =>
        let '(q, arr) := traffic i in
        obind (drain_live (batches i) s q arr clk 0 []) (fun '(s', outs) =>
        if (flag_at <=? i)%nat then Ok [outs]
        else obind (polling_loop it s' (S i) flag_at traffic batches clk) (fun r => Ok (outs :: r)))
    end.
End Workers.

(* ---- start-up: main binds a UDP socket per worker (locking the shared config each time) and
   spawns the worker; each worker locks the config, builds its Server (binding the TCP health
   listener when configured) and unlocks. A panic while holding the lock poisons it. ---- *)
Inductive wphase := NotStarted | Waiting | Serving | Dead.

Record startup := mkstartup {
  su_phases : list wphase;          (* one per worker *)
  su_poisoned : bool;               (* the config mutex *)
  su_health_bound : nat;            (* listeners already bound to the health port *)
  su_spawned : nat                  (* workers spawned by main so far *)
}.

(* the kernel's bind rule for a TCP port: a second bind succeeds only if every binder (the earlier
   ones and this one) set SO_REUSEPORT *)
Definition tcp_bind_ok (reuseport : bool) (already : nat) : bool :=
  match already with O => true | _ => reuseport end.

Inductive sustep := MainSpawn | WorkerInit (w : nat).

Definition su_step (health : bool) (reuseport : bool) (n : nat) (st : startup) (a : sustep) : startup :=
  match a with
  | MainSpawn =>
      (* bind_socket locks the config: main panics on a poisoned lock (the process dies) *)
      if su_poisoned st || (n <=? su_spawned st)%nat then st
      else mkstartup (set_nth (su_phases st) (su_spawned st) Waiting) false
                     (su_health_bound st) (S (su_spawned st))
  | WorkerInit w =>
      match nth_error (su_phases st) w with
      | Some Waiting =>
          if su_poisoned st then
            (* cfg.lock().unwrap() on a poisoned mutex panics: the worker dies *)
            mkstartup (set_nth (su_phases st) w Dead) true (su_health_bound st) (su_spawned st)
          else if health && negb (tcp_bind_ok reuseport (su_health_bound st)) then
            (* .expect("failed to bind TCP listener") panics while holding the lock *)
            mkstartup (set_nth (su_phases st) w Dead) true (su_health_bound st) (su_spawned st)
          else
            mkstartup (set_nth (su_phases st) w Serving) false
                      (if health then S (su_health_bound st) else su_health_bound st) (su_spawned st)
      | _ => st
      end
  end.

Definition su_init (n : nat) : startup := mkstartup (repeat NotStarted n) false 0 0.

Definition su_run (health reuseport : bool) (n : nat) (sched : list sustep) : startup :=
  fold_left (su_step health reuseport n) sched (su_init n).

(* ---- health check listener: edge-triggered readiness, a backlog of pending connections ---- *)
(* one readiness event: handle_health_check accepts until WouldBlock (accept_all = true) or
   accepts once (accept_all = false, the behaviour before the fix) *)
Definition health_event (accept_all : bool) (backlog : nat) : nat * nat :=   (* (answered, left) *)
  if accept_all then (backlog, O)
  else match backlog with O => (O, O) | S b => (1%nat, b) end.

(* bursts: each element is the number of connections that arrive before the next readiness
   event is handled (edge-triggered: a burst raises ONE event) *)
Fixpoint health_run (accept_all : bool) (backlog : nat) (bursts : list nat) : nat * nat :=
  match bursts with
  | [] => (O, backlog)
  | b :: r =>
      let '(ans, rest) := health_event accept_all (backlog + b) in
      let '(ans', rest') := health_run accept_all rest r in
      ((ans + ans')%nat, rest')
  end.

(* the same listener with a bound on the number of accepts per readiness event (None: accept until
   WouldBlock — the code as it is; Some k: any fixed cap, e.g. "for fairness") *)
Definition health_event_cap (cap : option nat) (backlog : nat) : nat * nat :=
  match cap with
  | None => (backlog, O)
  | Some k => (Nat.min k backlog, backlog - Nat.min k backlog)%nat
  end.

Fixpoint health_run_cap (cap : option nat) (backlog : nat) (bursts : list nat) : nat * nat :=
  match bursts with
  | [] => (O, backlog)
  | b :: r =>
      let '(ans, rest) := health_event_cap cap (backlog + b) in
      let '(ans', rest') := health_run_cap cap rest r in
      ((ans + ans')%nat, rest')
  end.
