(* GenSupport.v — the few operations the generated code (Gen/Code.v, produced by /verif/rs2coq from
   /repo's sources on every run) is expressed in, beyond the model's own primitives. *)
Require Import RV.Model.Bytes RV.Gen.Tables RV.Model.Tag RV.Model.Message.
Local Open Scope N_scope.

Definition site_gen : nat := 90.

(* a - b on an unsigned machine integer: panics on underflow (debug build; `attempt to subtract with overflow`) *)
Definition sub_chk {E} (site : nat) (a b : N) : outcome E N :=
  if a <? b then Panic site else Ok (a - b).

(* &x[a..b] with offsets as numbers *)
Definition slice_n {E} (site : nat) (bs : bytes) (a b : N) : outcome E bytes :=
  slice site bs (N.to_nat a) (N.to_nat b).

(* for x in l { body }  where body may `return r` (Some r) or fall through to the next element (None) *)
Fixpoint loop_ret {A R} (l : list A) (body : A -> option R) : option R :=
  match l with
  | [] => None
  | x :: r => match body x with Some v => Some v | None => loop_ret r body end
  end.

(* Cursor::new(four bytes).read_u32::<LittleEndian>() : Err on a short read *)
Definition read_u32_le (b : bytes) : res N :=
  if (length b <? 4)%nat then Err MessageTooShort else Ok (rd32 (firstn 4 b)).

(* slice::chunks(n).take(k) *)
Definition chunks_take (n k : N) (b : bytes) : list bytes :=
  firstn (N.to_nat k) (chunks (N.to_nat n) b).

(* ---- for the client's ResponseHandler (src/bin/roughenough-client.rs) ---- *)
Require Import RV.Model.Merkle RV.Model.Keys RV.Model.Sign RV.Model.Client.

(* map[&Tag::X] on a HashMap: panics when the key is missing *)
Definition idx_p (site : nat) (m : msg) (t : tag) : res bytes :=
  match get_field m t with Some v => Ok v | None => Panic site end.

(* Result::unwrap / expect: an error becomes a panic *)
Definition unwrap_p {A} (site : nat) (x : res A) : res A :=
  match x with Ok a => Ok a | Err _ => Panic site | Panic s => Panic s end.

(* value.as_slice().read_uN::<LittleEndian>() : Err on a short read (the caller unwraps) *)
Definition read_u64_e (b : bytes) : res N :=
  if (length b <? 8)%nat then Err MessageTooShort else Ok (rd64 b).
Definition read_u32_e (b : bytes) : res N :=
  if (length b <? 4)%nat then Err MessageTooShort else Ok (rd32 b).

(* struct ResponseHandler, fields in declaration order *)
Record rh := mkrh {
  rh_pub_key : option bytes; rh_msg : msg; rh_srep : msg; rh_cert : msg; rh_dele : msg;
  rh_nonce : bytes; rh_request : bytes; rh_version : version }.

(* struct ParsedResponse { verified, midpoint, radius } *)
Record parsed3 := mkparsed3 { p3_verified : bool; p3_midpoint : N; p3_radius : N }.

(* MerkleTree::new(version).root_from_paths(index, leaf, paths): panics on a ragged path *)
Definition root_from_paths_p (H : bytes -> bytes) (v : version) (index : N) (leaf paths : bytes) : res bytes :=
  match root_from_paths H v index leaf paths with
  | Ok h => Ok h
  | Err _ => Panic site_gen
  | Panic s => Panic s
  end.

(* self.validate_sig(pk, sig, data): MsgVerifier::new(pk); update(data); verify(sig) — the model of
   src/sign.rs's verifier (C13), which panics on a key that is not a curve point / a signature that
   is not 64 bytes *)
Definition validate_sig_p (ed_verify : bytes -> bytes -> bytes -> bool) (ed_point : bytes -> bool)
           (pk sig data : bytes) : res bool :=
  validate_sig ed_verify ed_point pk sig data.

(* a `for` loop that only updates outer variables: a fold, in the outcome monad *)
Fixpoint fold_res {S A} (f : S -> A -> res S) (l : list A) (s : S) : res S :=
  match l with
  | [] => Ok s
  | x :: r => obind (f s x) (fun s' => fold_res f r s')
  end.

Definition node_len_n (v : version) : N := N.of_nat (node_len v).

(* ---- for src/message.rs ---- *)

(* std::io::Cursor<&[u8]>: the data and a position *)
Definition cursor := (bytes * N)%type.
Definition cur_new (b : bytes) : cursor := (b, 0).
Definition cur_rest (c : cursor) : bytes := skipn (N.to_nat (snd c)) (fst c).

(* msg.read_u32::<LittleEndian>()? : io::Error (UnexpectedEof) converts to Error::EncodingFailure *)
Definition cur_read_u32 (c : cursor) : res (N * cursor) :=
  let r := cur_rest c in
  if (length r <? 4)%nat then Err EncodingFailure else Ok (rd32 r, (fst c, snd c + 4)).

(* msg.read_exact(&mut [0u8; n]): None on a short read *)
Definition cur_read_exact (c : cursor) (n : nat) : option (bytes * cursor) :=
  let r := cur_rest c in
  if (length r <? n)%nat then None else Some (firstn n r, (fst c, snd c + N.of_nat n)).

(* msg.read_to_end(&mut v): appends what is left, the position moves by that much *)
Definition cur_read_to_end (c : cursor) : bytes * cursor :=
  let r := cur_rest c in (r, (fst c, snd c + lenN r)).

(* Tag::from_wire: Err(InvalidTag) outside the table *)
Definition tag_from_wire_r (w : bytes) : res tag :=
  match tag_of_wire w with Some t => Ok t | None => Err InvalidTag end.

Definition tag_lt (a b : tag) : bool := tag_le a b && negb (tag_eqb a b).

(* Vec::last *)
Definition last_opt {A} (l : list A) : option A :=
  match rev l with x :: _ => Some x | [] => None end.

(* a..b as the numbers it iterates over *)
Definition range_n (a b : N) : list N := map (fun i => a + N.of_nat i) (seq 0 (N.to_nat (b - a))).

(* v[i] on a vector: panics out of range *)
Definition vec_idx_p {A} (site : nat) (l : list A) (i : N) : res A :=
  match nth_error l (N.to_nat i) with Some x => Ok x | None => Panic site end.

(* &v[a..b] on a vector of anything *)
Definition slice_l {A} (site : nat) (l : list A) (a b : N) : res (list A) :=
  if (b <? a) || (lenN l <? b) then Panic site
  else Ok (firstn (N.to_nat (b - a)) (skipn (N.to_nat a) l)).

(* iter().enumerate() *)
Definition enumerate_n {A} (l : list A) : list (N * A) := combine (map N.of_nat (seq 0 (length l))) l.

(* values.iter().map(|v| v.len()).sum() *)
Definition sum_len (l : list bytes) : N := fold_right (fun v a => lenN v + a) 0 l.

(* string and char literals as bytes *)
Definition str_bytes (s : String.string) : bytes := String.list_byte_of_string s.

(* " ".repeat(n) *)
Fixpoint repeat_bytes_nat (s : bytes) (n : nat) : bytes :=
  match n with O => [] | S k => s ++ repeat_bytes_nat s k end.
Definition repeat_bytes (s : bytes) (n : N) : bytes := repeat_bytes_nat s (N.to_nat n).

(* ---- for src/server.rs / src/responder.rs ---- *)
Require Import RV.Model.Server.

(* a `for` loop that updates outer variables and may return a value early *)
Fixpoint loop_sr {S A R} (f : S -> A -> res (S * option R)) (l : list A) (s : S) : res (S * option R) :=
  match l with
  | [] => Ok (s, None)
  | x :: r =>
      obind (f s x) (fun '(s', o) =>
      match o with Some v => Ok (s', Some v) | None => loop_sr f r s' end)
  end.

(* the non-blocking UDP socket as the queue of datagrams waiting in it: recv_from takes the oldest
   one into the front of the receive buffer, or reports WouldBlock when nothing is waiting. Other
   I/O errors are not produced by this environment. *)
Inductive iokind := WouldBlock | OtherIo.
Definition sock_recv (q : list dgram) (buf : bytes)
  : outcome iokind (N * addr) * (list dgram * bytes) :=
  match q with
  | [] => (Err WouldBlock, (q, buf))
  | (a, d) :: r => (Ok (lenN d, a), (r, d ++ skipn (length d) buf))
  end.

(* the sending side of the socket: the list of datagrams handed to the network so far;
   send_fails is the environment's answer for a destination (Model/Server.v config) *)
Definition sock_send (send_fails : addr -> bool) (s : list emission) (b : bytes) (a : addr)
  : outcome unit N * list emission :=
  if send_fails a then (Err tt, s) else (Ok (lenN b), s ++ [mkem a b]).

(* Grease: the fault percentage, the decision drawn last, the decisions still to come (the PRNG
   is an input: Model/Server.v coin) *)
Record gstate := mkg { g_fault : N; g_cur : coin; g_coins : list coin }.

(* should_add_error: draws only when grease is enabled *)
Definition grease_should (g : gstate) : bool * gstate :=
  if g_fault g =? 0 then (false, g)
  else
    let '(c, cs) := match g_coins g with [] => (NoFault, []) | c :: cs => (c, cs) end in
    (match c with NoFault => false | _ => true end, mkg (g_fault g) c cs).

(* add_errors: the fault chosen by the last draw *)
Definition grease_apply (g : gstate) (m : msg) : res msg :=
  match g_cur g with
  | NoFault => Ok m
  | Shuffle perm => randomly_order_tags perm m
  | CorruptSig rnd => corrupt_response_signature rnd m
  end.

(* loop { body; if c { break; } } on fuel: body returns the new state and whether it broke out *)
Fixpoint loop_fuel {S} (fuel : nat) (body : S -> res (S * bool)) (s : S) : res S :=
  match fuel with
  | O => Panic site_fuel
  | S f => obind (body s) (fun '(s', stop) => if stop then Ok s' else loop_fuel f body s')
  end.

(* mio readiness tokens of the server's poll *)
Inductive evtoken := EvMessage | EvHealthCheck | EvStatusUpdate | EvOther.

(* while c { body } on fuel *)
Fixpoint while_fuel {S} (fuel : nat) (cond : S -> res bool) (body : S -> res S) (s : S) : res S :=
  match fuel with
  | O => Panic site_fuel
  | S f => obind (cond s) (fun c => if c then obind (body s) (while_fuel f cond body) else Ok s)
  end.

(* v[i] = x (after v[i] was read: in range) *)
Fixpoint vec_set_nat {A} (l : list A) (i : nat) (x : A) : list A :=
  match l, i with
  | [], _ => []
  | _ :: r, O => x :: r
  | y :: r, S j => y :: vec_set_nat r j x
  end.
Definition vec_set {A} (l : list A) (i : N) (x : A) : list A := vec_set_nat l (N.to_nat i) x.

(* self.levels[level].pop().unwrap(): the last node of a level, which is removed *)
Definition pop_level (site : nat) (lv : list (list bytes)) (i : N) : res (bytes * list (list bytes)) :=
  obind (vec_idx_p site lv i) (fun l =>
  match rev l with
  | [] => Panic site
  | x :: r => Ok (x, vec_set lv i (rev r))
  end).

(* ---- for src/kms/envelope.rs ---- *)
Require Import RV.Model.Envelope.

(* tmp.read_u16::<LittleEndian>()? : an io error converts to KmsError::OperationFailed *)
Definition cur_read_u16_k (c : cursor) : kres (N * cursor) :=
  let r := cur_rest c in
  if (length r <? 2)%nat then Err OperationFailed else Ok (rd16 r, (fst c, snd c + 2)).

(* tmp.read_exact(&mut buf)? with buf of n bytes *)
Definition cur_read_exact_k (c : cursor) (n : N) : kres (bytes * cursor) :=
  let r := cur_rest c in
  if (lenN r <? n) then Err OperationFailed else Ok (firstn (N.to_nat n) r, (fst c, snd c + n)).

(* r.map_err(|_| e) *)
Definition omap_err {E E' A} (f : E -> E') (x : outcome E A) : outcome E' A :=
  match x with Ok a => Ok a | Err e => Err (f e) | Panic s => Panic s end.

(* the same fold for a function whose error type is not `error` (restype) *)
Fixpoint fold_out {E S A} (f : S -> A -> outcome E S) (l : list A) (s : S) : outcome E S :=
  match l with
  | [] => Ok s
  | x :: r => obind (f s x) (fun s' => fold_out f r s')
  end.

(* a `for` loop with a `break` in its body: the body answers (state, stopped) *)
Fixpoint fold_brk {E S A} (f : S -> A -> outcome E (S * bool)) (l : list A) (s : S) : outcome E S :=
  match l with
  | [] => Ok s
  | x :: r => obind (f s x) (fun sb => if snd sb then Ok (fst sb) else fold_brk f r (fst sb))
  end.

(* the TCP health-check listener: the backlog of established connections — for each, whether writing
   the response and shutting the stream down succeed — and HFail for an accept error other than
   WouldBlock. accept takes the first; an empty backlog answers WouldBlock. *)
Inductive hconn := HConn (a : addr) (write_ok shutdown_ok : bool) | HFail.
Definition hl_accept (l : list hconn) : outcome iokind ((bool * bool) * addr) * list hconn :=
  match l with
  | [] => (Err WouldBlock, l)
  | HConn a w s :: r => (Ok ((w, s), a), r)
  | HFail :: r => (Err OtherIo, r)
  end.
Definition st_write (st : bool * bool) : outcome unit unit := if fst st then Ok tt else Err tt.
Definition st_shutdown (st : bool * bool) : outcome unit unit := if snd st then Ok tt else Err tt.
Definition iokind_is_wb (k : iokind) : bool := match k with WouldBlock => true | OtherIo => false end.

(* rand's Bernoulli over a generator seen as the stream of its 64-bit outputs: the distribution is its
   ratio (numerator, denominator); a sample takes the next output v and answers v < threshold, where the
   threshold of n/100 is REFLECTED from the compiled rand crate (Gen/Tables.v bernoulli_threshold: found
   by bisection with a generator that returns a chosen value; 2^64 = always true). An exhausted stream is
   a panic value of the model only. *)
Definition bern_threshold (dist : N * N) : N :=
  if snd dist =? 100 then nth (N.to_nat (fst dist)) bernoulli_threshold 0 else 0.
Definition bern_sample (dist : N * N) (prng : list N) : res (bool * list N) :=
  match prng with
  | v :: r => Ok (v <? bern_threshold dist, r)
  | [] => Panic site_fuel
  end.

(* Iterator::sum over unsigned numbers *)
Definition sum_N (l : list N) : N := fold_right N.add 0 l.

(* the server binary's main: the threads it spawns, and how the process ends (process::exit(code) with the
   threads spawned so far) *)
Inductive thr := TWorker (i : N) | TReporter.
Inductive exitw := ExitWith (code : N) (spawned : list thr).
Definition unwrap_x {A} (site : nat) (x : outcome exitw A) : outcome exitw A :=
  match x with Ok a => Ok a | Err _ => Panic site | Panic s => Panic s end.

(* socket builders (net2): the options set before bind / listen. bind_opts is the environment's answer for an
   address and a set of options (the kernel's rule lives in Model/Process.v tcp_bind_ok / the port table) *)
Record sockopts := mksockopts { so_v6 : bool; so_reuse_addr : bool; so_reuse_port : bool }.
Inductive bound := Bound (v6 : bool) (reuse_addr reuse_port : bool) (backlog : N).
Inductive saddr := AddrV4 | AddrV6.
Definition unwrap_u {A} (site : nat) (x : outcome unit A) : outcome unit A :=
  match x with Ok a => Ok a | Err _ => Panic site | Panic s => Panic s end.
