(* GenSupport.v — the few operations the generated code (Gen/Code.v, produced by /verif/rs2coq from
   /repo's sources on every run) is expressed in, beyond the model's own primitives. *)
Require Import RV.Model.Bytes RV.Gen.Tables RV.Model.Tag RV.Model.Message.
Local Open Scope N_scope.

Definition site_gen : nat := 90.

(* a - b on an unsigned machine integer: panics on underflow (debug build; `attempt to subtract with overflow`) *)
Definition sub_chk {E} (site : nat) (a b : N) : outcome E N :=
  if a <? b then Panic site else Ok (a - b).

(* &x[a..b] with offsets as numbers *)
Definition slice_n {E} (site : nat) (bs : bytes) (a b : N) : outcome E bytes :=
  slice site bs (N.to_nat a) (N.to_nat b).

(* for x in l { body }  where body may `return r` (Some r) or fall through to the next element (None) *)
Fixpoint loop_ret {A R} (l : list A) (body : A -> option R) : option R :=
  match l with
  | [] => None
  | x :: r => match body x with Some v => Some v | None => loop_ret r body end
  end.

(* Cursor::new(four bytes).read_u32::<LittleEndian>() : Err on a short read *)
Definition read_u32_le (b : bytes) : res N :=
  if (length b <? 4)%nat then Err MessageTooShort else Ok (rd32 (firstn 4 b)).

(* slice::chunks(n).take(k) *)
Definition chunks_take (n k : N) (b : bytes) : list bytes :=
  firstn (N.to_nat k) (chunks (N.to_nat n) b).
