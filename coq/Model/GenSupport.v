(* GenSupport.v — the few operations the generated code (Gen/Code.v, produced by /verif/rs2coq from
   /repo's sources on every run) is expressed in, beyond the model's own primitives. *)
Require Import RV.Model.Bytes RV.Gen.Tables RV.Model.Tag RV.Model.Message.
Local Open Scope N_scope.

Definition site_gen : nat := 90.

(* a - b on an unsigned machine integer: panics on underflow (debug build; `attempt to subtract with overflow`) *)
Definition sub_chk {E} (site : nat) (a b : N) : outcome E N :=
  if a <? b then Panic site else Ok (a - b).

(* &x[a..b] with offsets as numbers *)
Definition slice_n {E} (site : nat) (bs : bytes) (a b : N) : outcome E bytes :=
  slice site bs (N.to_nat a) (N.to_nat b).

(* for x in l { body }  where body may `return r` (Some r) or fall through to the next element (None) *)
Fixpoint loop_ret {A R} (l : list A) (body : A -> option R) : option R :=
  match l with
  | [] => None
  | x :: r => match body x with Some v => Some v | None => loop_ret r body end
  end.

(* Cursor::new(four bytes).read_u32::<LittleEndian>() : Err on a short read *)
Definition read_u32_le (b : bytes) : res N :=
  if (length b <? 4)%nat then Err MessageTooShort else Ok (rd32 (firstn 4 b)).

(* slice::chunks(n).take(k) *)
Definition chunks_take (n k : N) (b : bytes) : list bytes :=
  firstn (N.to_nat k) (chunks (N.to_nat n) b).

(* ---- for the client's ResponseHandler (src/bin/roughenough-client.rs) ---- *)
Require Import RV.Model.Merkle RV.Model.Keys RV.Model.Sign RV.Model.Client.

(* map[&Tag::X] on a HashMap: panics when the key is missing *)
Definition idx_p (site : nat) (m : msg) (t : tag) : res bytes :=
  match get_field m t with Some v => Ok v | None => Panic site end.

(* Result::unwrap / expect: an error becomes a panic *)
Definition unwrap_p {A} (site : nat) (x : res A) : res A :=
  match x with Ok a => Ok a | Err _ => Panic site | Panic s => Panic s end.

(* value.as_slice().read_uN::<LittleEndian>() : Err on a short read (the caller unwraps) *)
Definition read_u64_e (b : bytes) : res N :=
  if (length b <? 8)%nat then Err MessageTooShort else Ok (rd64 b).
Definition read_u32_e (b : bytes) : res N :=
  if (length b <? 4)%nat then Err MessageTooShort else Ok (rd32 b).

(* struct ResponseHandler, fields in declaration order *)
Record rh := mkrh {
  rh_pub_key : option bytes; rh_msg : msg; rh_srep : msg; rh_cert : msg; rh_dele : msg;
  rh_nonce : bytes; rh_request : bytes; rh_version : version }.

(* struct ParsedResponse { verified, midpoint, radius } *)
Record parsed3 := mkparsed3 { p3_verified : bool; p3_midpoint : N; p3_radius : N }.

(* MerkleTree::new(version).root_from_paths(index, leaf, paths): panics on a ragged path *)
Definition root_from_paths_p (H : bytes -> bytes) (v : version) (index : N) (leaf paths : bytes) : res bytes :=
  match root_from_paths H v index leaf paths with
  | Ok h => Ok h
  | Err _ => Panic site_gen
  | Panic s => Panic s
  end.

(* self.validate_sig(pk, sig, data): MsgVerifier::new(pk); update(data); verify(sig) — the model of
   src/sign.rs's verifier (C13), which panics on a key that is not a curve point / a signature that
   is not 64 bytes *)
Definition validate_sig_p (ed_verify : bytes -> bytes -> bytes -> bool) (ed_point : bytes -> bool)
           (pk sig data : bytes) : res bool :=
  validate_sig ed_verify ed_point pk sig data.

(* a `for` loop that only updates outer variables: a fold, in the outcome monad *)
Fixpoint fold_res {S A} (f : S -> A -> res S) (l : list A) (s : S) : res S :=
  match l with
  | [] => Ok s
  | x :: r => obind (f s x) (fun s' => fold_res f r s')
  end.

Definition node_len_n (v : version) : N := N.of_nat (node_len v).
