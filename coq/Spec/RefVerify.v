(* RefVerify.v — protocol-level specifications written from the protocol texts only
   (Google PROTOCOL.md; draft-ietf-ntp-roughtime-13), independent of the implementation:
   - [wellformed]: which datagrams are requests a server may answer;
   - [verify_response]: what an independent client accepts as a valid response.
   They use the reference decoder, never the implementation's. Ed25519 verification is a
   Section variable. Context strings, tag/width constants are written out literally here. *)
Require Import RV.Model.Bytes RV.Gen.Tables RV.Model.Tag RV.Spec.RefCodec RV.Spec.RefMerkle.
Local Open Scope N_scope.

(* "RoughTime v1 delegation signature--\0" / "RoughTime v1 delegation signature\0" /
   "RoughTime v1 response signature\0" *)
Definition ctx_dele_classic : bytes :=
  [x52;x6f;x75;x67;x68;x54;x69;x6d;x65;x20;x76;x31;x20;x64;x65;x6c;x65;x67;x61;x74;x69;x6f;x6e;
   x20;x73;x69;x67;x6e;x61;x74;x75;x72;x65;x2d;x2d;x00].
Definition ctx_dele_ietf : bytes :=
  [x52;x6f;x75;x67;x68;x54;x69;x6d;x65;x20;x76;x31;x20;x64;x65;x6c;x65;x67;x61;x74;x69;x6f;x6e;
   x20;x73;x69;x67;x6e;x61;x74;x75;x72;x65;x00].
Definition ctx_srep : bytes :=
  [x52;x6f;x75;x67;x68;x54;x69;x6d;x65;x20;x76;x31;x20;x72;x65;x73;x70;x6f;x6e;x73;x65;x20;
   x73;x69;x67;x6e;x61;x74;x75;x72;x65;x00].
Definition magic : bytes := [x52;x4f;x55;x47;x48;x54;x49;x4d].     (* "ROUGHTIM" *)
Definition draft13_wire : bytes := [x0c;x00;x00;x80].                (* 0x8000000c *)

Definition spec_dele_ctx (v : version) : bytes :=
  match v with Google => ctx_dele_classic | RfcDraft13 => ctx_dele_ietf end.
Definition spec_width (v : version) : nat := match v with Google => 64 | RfcDraft13 => 32 end.
Definition spec_nonce_len (v : version) : nat := match v with Google => 64 | RfcDraft13 => 32 end.

Fixpoint rget (m : rmsg) (t : tag) : option bytes :=
  match m with
  | [] => None
  | (u, v) :: r => if tag_beq t u then Some v else rget r t
  end.

(* complete 4-byte words of a value *)
Definition words_of (v : bytes) : list bytes :=
  filter (fun c => (length c =? 4)%nat) (chunks 4 v).

(* IETF framing: magic, little-endian length equal to what follows *)
Definition unframe (d : bytes) : option bytes :=
  if bytes_eqb (firstn 8 d) magic && (12 <=? length d)%nat
     && (rd32 (firstn 4 (skipn 8 d)) =? N.of_nat (length d - 12))
  then Some (skipn 12 d) else None.

(* A datagram is a well-formed request for this server: 1024..1500 bytes and
   classic: a tag-value message with a 64-byte NONC;
   IETF: framed with the right length, VER lists draft-13 among its first four entries,
         SRV absent or this server's, a 32-byte NONC.
   Returns the nonce and the protocol. *)
Definition wellformed (srv d : bytes) : option (bytes * version) :=
  if (length d <? 1024)%nat || (1500 <? length d)%nat then None
  else if bytes_eqb (firstn 8 d) magic then
    match unframe d with
    | None => None
    | Some payload =>
        match ref_decode payload with
        | None => None
        | Some m =>
            match rget m VER, rget m NONC with
            | Some ver, Some nonce =>
                if existsb (bytes_eqb draft13_wire) (firstn 4 (words_of ver))
                   && match rget m SRV with Some s => bytes_eqb s srv | None => true end
                   && (length nonce =? 32)%nat
                then Some (nonce, RfcDraft13) else None
            | _, _ => None
            end
        end
    end
  else
    match ref_decode d with
    | None => None
    | Some m =>
        match rget m NONC with
        | Some nonce => if (length nonce =? 64)%nat then Some (nonce, Google) else None
        | None => None
        end
    end.

Section Verify.
  Variable Hfull : bytes -> bytes.                        (* SHA-512 *)
  Variable ed_verify : bytes -> bytes -> bytes -> bool.    (* pk msg sig *)

  Definition vhash (v : version) (x : bytes) : bytes := firstn (spec_width v) (Hfull x).

  (* the Merkle leaf of a request: the nonce (classic) / the whole request packet (IETF) *)
  Definition spec_leaf (v : version) (request nonce : bytes) : bytes :=
    match v with Google => nonce | RfcDraft13 => request end.

  Definition all_some6 (a b c d e f : option bytes) : option (bytes * bytes * bytes * bytes * bytes * bytes) :=
    match a, b, c, d, e, f with
    | Some a, Some b, Some c, Some d, Some e, Some f => Some (a, b, c, d, e, f)
    | _, _, _, _, _, _ => None
    end.

  (* an independent verifier's verdict on [reply] to [request] under long-term key [pk] *)
  Definition verify_response (v : version) (pk request reply : bytes) : bool :=
    let payload := match v with Google => Some reply | RfcDraft13 => unframe reply end in
    let reqmsg := match v with Google => ref_decode request
                             | RfcDraft13 => match unframe request with
                                             | Some p => ref_decode p | None => None end end in
    match payload, reqmsg with
    | Some payload, Some rq =>
      match ref_decode payload, rget rq NONC with
      | Some m, Some req_nonce =>
        match all_some6 (rget m SIG) (rget m NONC) (rget m PATH) (rget m SREP) (rget m CERT) (rget m INDX) with
        | None => false
        | Some (sig, nonc, path, srep, cert, indx) =>
          match ref_decode cert, ref_decode srep with
          | Some cm, Some sm =>
            match rget cm SIG, rget cm DELE with
            | Some csig, Some dele =>
              match ref_decode dele with
              | Some dm =>
                match rget dm PUBK, rget dm MINT, rget dm MAXT, rget sm MIDP, rget sm RADI, rget sm ROOT with
                | Some pubk, Some mint, Some maxt, Some midp, Some radi, Some root =>
                  let w := spec_width v in
                  let depth := Nat.div (length path) w in
                  (length sig =? 64)%nat && (length csig =? 64)%nat && (length pubk =? 32)%nat
                  && (length mint =? 8)%nat && (length maxt =? 8)%nat && (length midp =? 8)%nat
                  && (length radi =? 4)%nat && (length indx =? 4)%nat && (length root =? w)%nat
                  && bytes_eqb nonc req_nonce
                  && (match v with
                      | Google => true
                      | RfcDraft13 => match rget sm VER with
                                      | Some ver => bytes_eqb ver draft13_wire
                                      | None => false end
                      end)
                  && ed_verify pk (spec_dele_ctx v ++ dele) csig
                  && ed_verify pubk (ctx_srep ++ srep) sig
                  && (rdle mint <=? rdle midp) && (rdle midp <=? rdle maxt)
                  && (Nat.modulo (length path) w =? 0)%nat
                  && (rd32 indx <? 2 ^ N.of_nat depth)
                  && bytes_eqb (s_recompute (vhash v) (spec_leaf v request req_nonce)
                                            (N.to_nat (rd32 indx)) (chunks w path)) root
                | _, _, _, _, _, _ => false
                end
              | None => false
              end
            | _, _ => false
            end
          | _, _ => false
          end
        end
      | _, _ => false
      end
    | _, _ => false
    end.
End Verify.
