(* ProcessGoals.v — exact statements of the process-shell theorems (C15, C18, C19, C20). *)
Require Import RV.Model.Bytes RV.Gen.Tables RV.Model.Message RV.Model.Merkle RV.Model.Keys
        RV.Model.Server RV.Model.Process
        RV.Spec.MerkleGoals RV.Spec.RefVerify RV.Spec.ServerGoals.
Local Open Scope N_scope.

Section Goals.
  Variable H : bytes -> bytes.
  Variable ed_pk : bytes -> bytes.
  Variable ed_sign : bytes -> bytes -> bytes.

  (* ---------- C18: N workers, any distribution of datagrams, any interleaving ---------- *)
  Definition workers_inv (cfg : config) (lt : bytes) (oks : list (bytes * bytes)) (ws : list server) : Prop :=
    Forall2 (fun s ok => SInv H ed_pk ed_sign cfg lt (fst ok) (snd ok) s) ws oks.

  Definition goal_product : Prop :=
    HashLen H -> PkLen ed_pk -> SigLen ed_sign ->
    forall cfg lt oks ws evs,
      workers_inv cfg lt oks ws -> Forall (fun e => (d_worker e < length ws)%nat) evs ->
      fault_pct cfg = 0 -> (1 <= batch_size cfg)%nat -> (batch_size cfg <= 255)%nat ->
      exists ws' outs,
        run_sys H ed_sign ws evs = Ok (ws', outs)
        /\ workers_inv cfg lt oks ws'
        /\ map (fun wo => (fst wo, so_sent (snd wo))) outs
           = map (fun e =>
                    let ok := nth (d_worker e) oks ([], []) in
                    (d_worker e,
                     spec_drain_sent_f H ed_pk ed_sign (send_fails cfg) (S (length (d_queue e))) (batch_size cfg)
                       (ltk_srv_value H ed_pk lt) lt (fst ok) (snd ok) (d_clk e) 0 (d_queue e))) evs.

  (* ---------- C19: the worker loop and the shutdown flag ---------- *)

  (* every datagram a drain emits belongs to a COMPLETED batch whose output is the specified one:
     exit (or anything else) happens only between batches, never inside one *)
  Definition goal_whole_batches : Prop :=
    HashLen H -> PkLen ed_pk -> SigLen ed_sign ->
    forall cfg lt oi oc fuel s queue arrivals clk k coins s' outs,
      SInv H ed_pk ed_sign cfg lt oi oc s -> fault_pct cfg = 0 ->
      (1 <= batch_size cfg)%nat -> (batch_size cfg <= 255)%nat ->
      drain_live H ed_sign fuel s queue arrivals clk k coins = Ok (s', outs) ->
      SInv H ed_pk ed_sign cfg lt oi oc s'
      /\ Forall (fun o => exists ds now,
                   (length ds <= batch_size cfg)%nat
                   /\ so_sent o = spec_batch_sent_f H ed_pk ed_sign (send_fails cfg) (ltk_srv_value H ed_pk lt) lt oi oc now ds) outs.

  (* with nothing arriving during the drains, the loop returns right after the iteration in which
     the flag is seen: after exactly flag_at - i + 1 iterations (idle: each is one poll timeout) *)
  Definition goal_exit_prompt : Prop :=
    HashLen H -> PkLen ed_pk -> SigLen ed_sign ->
    forall cfg lt oi oc iters s i flag_at traffic batches clk,
      SInv H ed_pk ed_sign cfg lt oi oc s -> fault_pct cfg = 0 ->
      (1 <= batch_size cfg)%nat -> (batch_size cfg <= 255)%nat ->
      (i <= flag_at)%nat -> (flag_at - i < iters)%nat ->
      (forall j, (i <= j <= flag_at)%nat ->
                 (forall k, snd (traffic j) k = []) /\ (length (fst (traffic j)) < batches j)%nat) ->
      exists r, polling_loop H ed_sign iters s i flag_at traffic batches clk = Ok r
                /\ length r = (flag_at - i + 1)%nat.

  (* the full-strength statement — prompt exit also under a flood that keeps the receive queue
     non-empty — is FALSE of the model: for every bound, the drain has not returned, so the flag
     is not tested *)
  Definition goal_flood_never_returns : Prop :=
    HashLen H -> PkLen ed_pk -> SigLen ed_sign ->
    forall cfg lt oi oc fuel s queue arrivals clk k coins,
      SInv H ed_pk ed_sign cfg lt oi oc s -> fault_pct cfg = 0 ->
      (1 <= batch_size cfg)%nat -> (batch_size cfg <= 255)%nat ->
      (batch_size cfg <= length queue)%nat ->
      (forall j, (batch_size cfg <= length (arrivals j))%nat) ->
      drain_live H ed_sign fuel s queue arrivals clk k coins = Panic site_mfuel.

  (* ---------- C20: the seed influences the server only through pk and signatures ---------- *)
  Definition goal_noninterference : Prop :=
    forall cfg lt1 lt2 oi oc,
      ed_pk lt1 = ed_pk lt2 -> (forall m, ed_sign lt1 m = ed_sign lt2 m) ->
      server_new H ed_pk ed_sign cfg lt1 oi oc = server_new H ed_pk ed_sign cfg lt2 oi oc.
End Goals.

(* ---------- C15: start-up ---------- *)
Definition count_phase (p : wphase) (l : list wphase) : nat :=
  length (filter (fun q => match p, q with
                           | Serving, Serving | Dead, Dead | Waiting, Waiting | NotStarted, NotStarted => true
                           | _, _ => false end) l).

(* safety, for EVERY schedule: with SO_REUSEPORT on the health listener (or no health port) no
   worker ever dies during start-up and the config mutex is never poisoned *)
Definition goal_startup_safe : Prop :=
  forall health reuseport n sched,
    (health = false \/ reuseport = true) ->
    su_poisoned (su_run health reuseport n sched) = false
    /\ count_phase Dead (su_phases (su_run health reuseport n sched)) = 0%nat.

(* progress: a spawned worker that runs its initialisation step is serving afterwards, and stays
   serving whatever happens next; main can always spawn the next worker *)
Definition goal_startup_progress : Prop :=
  forall health reuseport n sched w,
    (health = false \/ reuseport = true) -> (w < n)%nat ->
    let st := su_run health reuseport n sched in
    (nth_error (su_phases st) w = Some Waiting ->
       nth_error (su_phases (su_step health reuseport n st (WorkerInit w))) w = Some Serving)
    /\ (nth_error (su_phases st) w = Some Serving ->
        forall more, nth_error (su_phases (fold_left (su_step health reuseport n) more st)) w = Some Serving)
    /\ ((su_spawned st < n)%nat ->
        su_spawned (su_step health reuseport n st MainSpawn) = S (su_spawned st)
        /\ nth_error (su_phases (su_step health reuseport n st MainSpawn)) (su_spawned st) = Some Waiting).

(* a complete schedule: spawn every worker, then initialise every worker — and any schedule
   extending it — ends with all n workers serving *)
Definition goal_startup_all_serving : Prop :=
  forall health reuseport n more,
    (health = false \/ reuseport = true) ->
    let sched := repeat MainSpawn n ++ map WorkerInit (seq 0 n) ++ more in
    count_phase Serving (su_phases (su_run health reuseport n sched)) = n.

(* the behaviour before the fix (health port, no SO_REUSEPORT): whatever the schedule, at most
   one worker ever serves *)
Definition goal_startup_refuted : Prop :=
  forall n sched, (count_phase Serving (su_phases (su_run true false n sched)) <= 1)%nat.

(* health check: accepting until WouldBlock answers every connection of every burst pattern *)
Definition goal_health_all : Prop :=
  forall bursts, health_run true 0 bursts = (fold_right Nat.add 0%nat bursts, 0%nat).
