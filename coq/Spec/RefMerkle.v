(* RefMerkle.v — textbook functional Merkle tree with the Roughtime tweaks, written from the
   protocol texts (leaf = h(0x00 || data), node = h(0x01 || left || right), odd levels padded
   with an all-zero node), independent of merkle.rs's level vectors. Generic in the node hash
   [h] and the node width [w]. *)
Require Import RV.Model.Bytes.

Section RefMerkle.
  Variable h : bytes -> bytes.     (* the protocol's node hash (already truncated to w bytes) *)
  Variable w : nat.                (* node width in bytes *)

  Definition s_leaf (d : bytes) : bytes := h (x00 :: d).
  Definition s_node (a b : bytes) : bytes := h (x01 :: a ++ b).
  Definition s_zero : bytes := repeat_byte x00 w.

  (* one level up *)
  Fixpoint pairup (l : list bytes) : list bytes :=
    match l with
    | a :: b :: r => s_node a b :: pairup r
    | [a] => [s_node a s_zero]
    | [] => []
    end.

  (* root of a non-empty level; fuel >= length suffices *)
  Fixpoint root_of (fuel : nat) (l : list bytes) : bytes :=
    match fuel with
    | O => []
    | S f =>
        match l with
        | [] => []
        | [r] => r
        | _ => root_of f (pairup l)
        end
    end.

  Definition s_root (leaves : list bytes) : bytes :=
    root_of (length leaves) (map s_leaf leaves).

  (* sibling of position i in a level (the zero node if it falls off the end) *)
  Definition sibling (l : list bytes) (i : nat) : bytes :=
    nth (if Nat.even i then S i else pred i) l s_zero.

  Fixpoint path_of (fuel : nat) (l : list bytes) (i : nat) : list bytes :=
    match fuel with
    | O => []
    | S f =>
        match l with
        | [] => []
        | [_] => []
        | _ => sibling l i :: path_of f (pairup l) (Nat.div i 2)
        end
    end.

  Definition s_path (leaves : list bytes) (i : nat) : list bytes :=
    path_of (length leaves) (map s_leaf leaves) i.

  (* recomputation from a leaf, an index and a path *)
  Fixpoint s_climb (hash : bytes) (i : nat) (path : list bytes) : bytes :=
    match path with
    | [] => hash
    | p :: r => s_climb (if Nat.even i then s_node hash p else s_node p hash) (Nat.div i 2) r
    end.

  Definition s_recompute (d : bytes) (i : nat) (path : list bytes) : bytes :=
    s_climb (s_leaf d) i path.

  (* what a successful forgery must exhibit *)
  Definition Collision : Prop :=
    (exists x y, x <> y /\ h x = h y) \/ (exists x, h x = s_zero).
End RefMerkle.
