(* ServerGoals.v — functional specification of what the serving path must emit, and the exact
   statements of the server-group theorems (C02, C07, C08, C09, C12), as Props. No proofs. *)
Require Import RV.Model.Bytes RV.Gen.Tables RV.Model.Tag RV.Model.Message RV.Model.Merkle
        RV.Model.Request RV.Model.Keys RV.Model.Server
        RV.Spec.RefCodec RV.Spec.RefMerkle RV.Spec.MerkleGoals RV.Spec.RefVerify.
Local Open Scope N_scope.

Section Goals.
  Variable H : bytes -> bytes.
  Variable ed_pk : bytes -> bytes.
  Variable ed_sign : bytes -> bytes -> bytes.
  Variable ed_verify : bytes -> bytes -> bytes -> bool.

  (* facts about the primitives the theorems are relative to *)
  Definition PkLen : Prop := forall s, length (ed_pk s) = 32%nat.
  Definition SigLen : Prop := forall s m, length (ed_sign s m) = 64%nat.
  Definition SigCorrect : Prop := forall s m, ed_verify (ed_pk s) m (ed_sign s m) = true.

  (* ---------- what must be sent ---------- *)

  (* an accepted request: source, datagram, nonce *)
  Definition req := (addr * bytes * bytes)%type.
  Definition req_src (r : req) : addr := fst (fst r).
  Definition req_dgram (r : req) : bytes := snd (fst r).
  Definition req_nonce (r : req) : bytes := snd r.
  Definition req0 : req := (0%N, [], []).

  (* the requests of protocol v among the datagrams of one batch, in arrival order, as judged
     by the protocol specification (not by the implementation's classifier) *)
  Definition accepted (srv : bytes) (v : version) (ds : list dgram) : list req :=
    flat_map (fun sd =>
      match wellformed srv (snd sd) with
      | Some (n, v') => if version_beq v v' then [(fst sd, snd sd, n)] else []
      | None => []
      end) ds.

  Definition leaf_of (v : version) (r : req) : bytes :=
    match v with Google => req_nonce r | RfcDraft13 => req_dgram r end.

  Definition dele_bytes_of (ok : bytes) : bytes :=
    canon [(PUBK, ed_pk ok); (MINT, repeat_byte x00 8); (MAXT, repeat_byte xff 8)].

  Definition cert_bytes_of (v : version) (lt ok : bytes) : bytes :=
    canon [(SIG, ed_sign lt (dele_prefix v ++ dele_bytes_of ok)); (DELE, dele_bytes_of ok)].

  Definition srep_bytes_of (v : version) (now : clock) (root : bytes) : bytes :=
    let radi := u32le (radi_of v) in
    let midp := u64le (midp_of v now) in
    match v with
    | Google => canon [(RADI, radi); (MIDP, midp); (ROOT, root)]
    | RfcDraft13 => canon [(VER, ver_wire v); (RADI, radi); (MIDP, midp);
                           (VERS, supported_versions_wire); (ROOT, root)]
    end.

  Definition reply_msg (v : version) (lt ok : bytes) (now : clock) (reqs : list req) (i : nat) : rmsg :=
    let leaves := map (leaf_of v) reqs in
    let srep := srep_bytes_of v now (spec_root H v leaves) in
    [(SIG, ed_sign ok (srep_prefix v ++ srep));
     (NONC, req_nonce (nth i reqs req0));
     (PATH, nth i (spec_paths H v leaves) []);
     (SREP, srep);
     (CERT, cert_bytes_of v lt ok);
     (INDX, u32le (N.of_nat i))].

  Definition frame_for (v : version) (payload : bytes) : bytes :=
    match v with
    | Google => payload
    | RfcDraft13 => REQUEST_FRAMING_BYTES ++ u32le (lenN payload) ++ payload
    end.

  Definition reply_bytes (v : version) (lt ok : bytes) (now : clock) (reqs : list req) (i : nat) : bytes :=
    frame_for v (canon (reply_msg v lt ok now reqs i)).

  (* one datagram per accepted request, to its own source, in arrival order *)
  Definition spec_replies (v : version) (lt ok : bytes) (now : clock) (reqs : list req) : list emission :=
    map (fun i => mkem (req_src (nth i reqs req0)) (reply_bytes v lt ok now reqs i))
        (seq 0 (length reqs)).

  Definition spec_request_stats (srv : bytes) (ds : list dgram) : list sev :=
    map (fun sd =>
      match wellformed srv (snd sd) with
      | Some (_, RfcDraft13) => SIetfRequest (fst sd)
      | Some (_, Google) => SClassicRequest (fst sd)
      | None => SInvalidRequest (fst sd)
      end) ds.

  Definition spec_response_stats (v : version) (es : list emission) : list sev :=
    map (fun e => match v with
                  | Google => SClassicResponse (em_dest e) (lenN (em_bytes e))
                  | RfcDraft13 => SRfcResponse (em_dest e) (lenN (em_bytes e))
                  end) es.

  (* with send failures (sf a = true: send_to(.., a) returns an error): the failed replies are not
     emitted, and are recorded as failed send attempts instead of responses *)
  Definition delivered (sf : addr -> bool) (es : list emission) : list emission :=
    filter (fun e => negb (sf (em_dest e))) es.

  Definition spec_response_stats_f (sf : addr -> bool) (v : version) (es : list emission) : list sev :=
    map (fun e => if sf (em_dest e) then SFailedSend (em_dest e)
                  else match v with
                       | Google => SClassicResponse (em_dest e) (lenN (em_bytes e))
                       | RfcDraft13 => SRfcResponse (em_dest e) (lenN (em_bytes e))
                       end) es.

  (* everything one batch must emit: IETF replies, then classic replies *)
  Definition spec_batch_sent (srv lt oi oc : bytes) (now : clock) (ds : list dgram) : list emission :=
    spec_replies RfcDraft13 lt oi now (accepted srv RfcDraft13 ds)
    ++ spec_replies Google lt oc now (accepted srv Google ds).

  Definition spec_batch_stats (srv lt oi oc : bytes) (now : clock) (ds : list dgram) : list sev :=
    spec_request_stats srv ds
    ++ spec_response_stats RfcDraft13 (spec_replies RfcDraft13 lt oi now (accepted srv RfcDraft13 ds))
    ++ spec_response_stats Google (spec_replies Google lt oc now (accepted srv Google ds)).

  Definition spec_batch_sent_f (sf : addr -> bool) (srv lt oi oc : bytes) (now : clock) (ds : list dgram) : list emission :=
    delivered sf (spec_batch_sent srv lt oi oc now ds).

  Definition spec_batch_stats_f (sf : addr -> bool) (srv lt oi oc : bytes) (now : clock) (ds : list dgram) : list sev :=
    spec_request_stats srv ds
    ++ spec_response_stats_f sf RfcDraft13 (spec_replies RfcDraft13 lt oi now (accepted srv RfcDraft13 ds))
    ++ spec_response_stats_f sf Google (spec_replies Google lt oc now (accepted srv Google ds)).

  (* the drain over a queue: chunks of batch_size until a read finds the queue empty *)
  Fixpoint spec_drain_sent (fuel n : nat) (srv lt oi oc : bytes) (clk : nat -> clock) (k : nat)
           (queue : list dgram) : list emission :=
    match fuel with
    | O => []
    | S f =>
        spec_batch_sent srv lt oi oc (clk k) (firstn n queue)
        ++ (if (length queue <? n)%nat then []
            else spec_drain_sent f n srv lt oi oc clk (S k) (skipn n queue))
    end.

  Fixpoint spec_drain_stats (fuel n : nat) (srv lt oi oc : bytes) (clk : nat -> clock) (k : nat)
           (queue : list dgram) : list sev :=
    match fuel with
    | O => []
    | S f =>
        spec_batch_stats srv lt oi oc (clk k) (firstn n queue)
        ++ (if (length queue <? n)%nat then []
            else spec_drain_stats f n srv lt oi oc clk (S k) (skipn n queue))
    end.

  Fixpoint spec_drain_sent_f (sf : addr -> bool) (fuel n : nat) (srv lt oi oc : bytes) (clk : nat -> clock) (k : nat)
           (queue : list dgram) : list emission :=
    match fuel with
    | O => []
    | S f =>
        spec_batch_sent_f sf srv lt oi oc (clk k) (firstn n queue)
        ++ (if (length queue <? n)%nat then []
            else spec_drain_sent_f sf f n srv lt oi oc clk (S k) (skipn n queue))
    end.

  Fixpoint spec_drain_stats_f (sf : addr -> bool) (fuel n : nat) (srv lt oi oc : bytes) (clk : nat -> clock) (k : nat)
           (queue : list dgram) : list sev :=
    match fuel with
    | O => []
    | S f =>
        spec_batch_stats_f sf srv lt oi oc (clk k) (firstn n queue)
        ++ (if (length queue <? n)%nat then []
            else spec_drain_stats_f sf f n srv lt oi oc clk (S k) (skipn n queue))
    end.

  (* ---------- server state invariant ---------- *)
  Definition RInv (v : version) (lt ok : bytes) (r : responder) : Prop :=
    r_version r = v /\ r_online_seed r = ok /\ r_cert_bytes r = cert_bytes_of v lt ok
    /\ tver (r_merkle r) = v /\ levels (r_merkle r) <> [].

  Definition SInv (cfg : config) (lt oi oc : bytes) (s : server) : Prop :=
    s_cfg s = cfg /\ s_srv_value s = ltk_srv_value H ed_pk lt
    /\ RInv RfcDraft13 lt oi (s_ietf s) /\ RInv Google lt oc (s_classic s).

  (* every Shuffle coin is a list of indices into a 6-field response (index_sample(n, n)) *)
  Definition coin_ok (c : coin) : Prop :=
    match c with
    | Shuffle perm => Forall (fun i => (i < 6)%nat) perm
    | _ => True
    end.

  (* ---------- goals ---------- *)

  (* G0: Server::new succeeds and establishes the invariant *)
  Definition goal_server_new : Prop :=
    PkLen -> SigLen ->
    forall cfg lt oi oc, exists s,
      server_new H ed_pk ed_sign cfg lt oi oc = Ok s /\ SInv cfg lt oi oc s.

  (* G1 (C07, C12): the implementation's classifier accepts exactly the protocol's well-formed
     requests, with the same nonce and protocol, and never panics, for EVERY datagram *)
  Definition goal_classify : Prop :=
    forall srv d, ok_opt (classify srv d) = wellformed srv d /\ is_panic (classify srv d) = false.

  (* G2 (C09, C02, C17-wiring): with fault injection off, one loop iteration emits exactly the
     specified replies and statistics, whatever state earlier batches left behind *)
  Definition goal_one_batch : Prop :=
    HashLen H -> PkLen -> SigLen ->
    forall cfg lt oi oc s ds now coins,
      SInv cfg lt oi oc s -> fault_pct cfg = 0 -> sends_ok cfg -> N.of_nat (length ds) <= 4294967296 ->
      let srv := ltk_srv_value H ed_pk lt in
      exists s' lg,
        one_batch H ed_sign s ds now coins =
          Ok (s', mkso (spec_batch_sent srv lt oi oc now ds) (spec_batch_stats srv lt oi oc now ds) lg,
              coins)
        /\ SInv cfg lt oi oc s'.

  (* G3 (C09 across batches, C08 termination): the whole drain *)
  Definition goal_drain : Prop :=
    HashLen H -> PkLen -> SigLen ->
    forall cfg lt oi oc s queue clk coins,
      SInv cfg lt oi oc s -> fault_pct cfg = 0 -> sends_ok cfg ->
      (1 <= batch_size cfg)%nat -> (batch_size cfg <= 255)%nat ->
      let srv := ltk_srv_value H ed_pk lt in
      let n := batch_size cfg in
      exists s' lg,
        process_events H ed_sign s queue clk coins =
          Ok (s', mkso (spec_drain_sent (S (length queue)) n srv lt oi oc clk 0 queue)
                       (spec_drain_stats (S (length queue)) n srv lt oi oc clk 0 queue) lg)
        /\ SInv cfg lt oi oc s'.

  (* G3' (C17 wiring, C09 under send failures): the same drain when some send_to calls fail — the
     failed replies are not emitted and are counted as failed send attempts, everything else is as
     specified; statistics and emissions stay in step for every pattern of failures *)
  Definition goal_drain_f : Prop :=
    HashLen H -> PkLen -> SigLen ->
    forall cfg lt oi oc s queue clk coins,
      SInv cfg lt oi oc s -> fault_pct cfg = 0 ->
      (1 <= batch_size cfg)%nat -> (batch_size cfg <= 255)%nat ->
      let srv := ltk_srv_value H ed_pk lt in
      let n := batch_size cfg in
      let sf := send_fails cfg in
      exists s' lg,
        process_events H ed_sign s queue clk coins =
          Ok (s', mkso (spec_drain_sent_f sf (S (length queue)) n srv lt oi oc clk 0 queue)
                       (spec_drain_stats_f sf (S (length queue)) n srv lt oi oc clk 0 queue) lg)
        /\ SInv cfg lt oi oc s'.

  (* G4 (C08): no datagram sequence, log level, fault percentage or PRNG outcome makes
     processing panic or run out of fuel; the server state stays usable *)
  Definition goal_no_panic : Prop :=
    HashLen H -> PkLen -> SigLen ->
    forall cfg lt oi oc s queue clk coins,
      SInv cfg lt oi oc s -> (1 <= batch_size cfg)%nat -> (batch_size cfg <= 255)%nat ->
      Forall coin_ok coins ->
      exists s' out,
        process_events H ed_sign s queue clk coins = Ok (s', out) /\ SInv cfg lt oi oc s'.

  (* G5 (C02): every specified reply is accepted by the independent verifier *)
  Definition goal_reply_verifies : Prop :=
    HashLen H -> PkLen -> SigLen -> SigCorrect ->
    forall v srv lt ok now ds i,
      let reqs := accepted srv v ds in
      (i < length reqs)%nat -> N.of_nat (length reqs) <= 4294967296 -> fst now < two64 ->
      verify_response H ed_verify v (ed_pk lt) (req_dgram (nth i reqs req0))
                      (reply_bytes v lt ok now reqs i) = true.

  (* G6 (C07): with at most 64 requests in a batch no reply exceeds 1024 bytes, and every
     accepted request is at least 1024 bytes long: no amplification *)
  Definition goal_reply_size : Prop :=
    HashLen H -> PkLen -> SigLen ->
    forall v srv lt ok now ds i,
      let reqs := accepted srv v ds in
      (i < length reqs)%nat -> (length reqs <= 64)%nat ->
      (length (reply_bytes v lt ok now reqs i) <= 1024)%nat
      /\ (1024 <= length (req_dgram (nth i reqs req0)))%nat.

  (* G7 (C02, grease): a fault-injected reply is either unchanged or rejected outright by the
     independent verifier, for every PRNG outcome *)
  Definition goal_grease_dichotomy : Prop :=
    PkLen -> SigLen ->
    forall v pk request srv lt ok now ds i fault c m' bs,
      let reqs := accepted srv v ds in
      N.of_nat (length reqs) <= 4294967296 ->
      grease fault c (reply_msg v lt ok now reqs i) = Ok m' ->
      (match v with Google => encode m' | RfcDraft13 => encode_framed m' end) = Ok bs ->
      m' = reply_msg v lt ok now reqs i
      \/ verify_response H ed_verify v pk request bs = false.
End Goals.
