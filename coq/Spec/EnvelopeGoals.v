(* EnvelopeGoals.v — exact statements of the C14 theorems. *)
Require Import RV.Model.Bytes RV.Model.Envelope.
Local Open Scope N_scope.

Section Goals.
  Variable seal : bytes -> bytes -> bytes -> bytes -> bytes.
  Variable open : bytes -> bytes -> bytes -> bytes -> option bytes.
  Variable wrap : bytes -> kres bytes.
  Variable unwrap : bytes -> kres bytes.

  (* round trip, for every plaintext of at least 32 bytes and every provider whose wrapped key is
     shorter than 2^16 bytes: under AEAD and KMS correctness for the values at hand *)
  Definition goal_roundtrip : Prop :=
    forall dek nonce p w,
      length dek = 32%nat -> length nonce = 12%nat -> (32 <= length p)%nat ->
      length (seal dek nonce AD p) = (length p + 16)%nat ->
      open dek nonce AD (seal dek nonce AD p) = Some p ->
      wrap dek = Ok w -> unwrap w = Ok dek -> (N.of_nat (length w) < 65536) ->
      exists blob, encrypt_seed seal wrap dek nonce p = Ok blob
                   /\ decrypt_seed open unwrap blob = Ok p.

  (* whatever the blob and whatever the provider answers (error, wrong key, wrong-length key):
     an error or a plaintext, never a panic. (A provider that itself panics is outside the claim:
     without the hypothesis the statement is refuted, see env_no_panic_false.) *)
  Definition goal_no_panic : Prop :=
    (forall w, is_panic (unwrap w) = false) ->
    forall blob, is_panic (decrypt_seed open unwrap blob) = false.

  (* nothing bypasses the checks: an accepted blob is, byte for byte, two validated length
     fields, a wrapped key the provider unwrapped to a 32-byte key, a 12-byte nonce, and a
     ciphertext that the AEAD opened under that key, that nonce and the fixed associated data *)
  Definition goal_authenticated : Prop :=
    forall blob p, decrypt_seed open unwrap blob = Ok p ->
      exists w n c k,
        blob = u16le (N.of_nat (length w)) ++ u16le 12 ++ w ++ n ++ c
        /\ (N.of_nat (length w) < 65536) /\ length n = 12%nat
        /\ unwrap w = Ok k /\ length k = 32%nat /\ open k n AD c = Some p.

  (* the parse is injective: two blobs with the same parse are the same blob *)
  Definition goal_parse_injective : Prop :=
    forall b1 b2 t, parse_blob b1 = Ok t -> parse_blob b2 = Ok t -> b1 = b2.

  (* data flow: the blob is exactly lengths ++ wrap(dek) ++ nonce ++ seal(dek, nonce, AD, seed):
     seed and DEK enter it only through seal and wrap *)
  Definition goal_flow : Prop :=
    forall dek nonce p blob, encrypt_seed seal wrap dek nonce p = Ok blob ->
      exists w, wrap dek = Ok w
        /\ blob = u16le (N.of_nat (length w) mod 65536) ++ u16le (N.of_nat (length nonce) mod 65536)
                  ++ w ++ nonce ++ seal dek nonce AD p.

End Goals.
