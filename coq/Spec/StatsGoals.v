(* StatsGoals.v — abstract event counting and the exact statements of the C17 theorems. *)
Require Import RV.Model.Bytes RV.Model.Server RV.Model.Stats.
Local Open Scope N_scope.

(* how many events of kind k for address a a history contains; bytes sent to a *)
Definition count_ka (k : kind) (a : addr) (evs : list sev) : N :=
  N.of_nat (length (filter (fun e => kind_eqb (ev_kind e) k && (ev_addr e =? a)) evs)).
Definition bytes_a (a : addr) (evs : list sev) : N :=
  fold_right (fun e acc => (if ev_addr e =? a then ev_bytes e else 0) + acc) 0 evs.
Definition count_k (k : kind) (evs : list sev) : N :=
  N.of_nat (length (filter (fun e => kind_eqb (ev_kind e) k) evs)).
Definition bytes_all (evs : list sev) : N := fold_right (fun e acc => ev_bytes e + acc) 0 evs.

(* split a history by a mask *)
Fixpoint select (want : bool) (evs : list sev) (mask : list bool) : list sev :=
  match evs, mask with
  | e :: r, b :: bs => if Bool.eqb b want then e :: select want r bs else select want r bs
  | _, _ => []
  end.

Definition cm_lookup (m : cmap) (a : addr) : cstats :=
  match cm_get m a with Some c => c | None => cs_zero end.

(* C17 conservation: every event is reflected exactly once — in the counter of its kind for its
   address (recorded) or in the overflow count (dropped), never both, never another counter *)
Definition goal_conservation : Prop :=
  forall limit evs,
    let '(st, mask) := pc_run (pc_new limit) evs in
    length mask = length evs
    /\ (forall k a, cs_get k (cm_lookup (pc_clients st) a) = count_ka k a (select true evs mask))
    /\ (forall a, c_bytes (cm_lookup (pc_clients st) a) = bytes_a a (select true evs mask))
    /\ pc_overflows st = N.of_nat (length (select false evs mask)).

(* the number of tracked addresses never exceeds the limit (for every prefix: it is an
   invariant of pc_step) *)
Definition goal_bounded : Prop :=
  forall limit evs, (length (pc_clients (fst (pc_run (pc_new limit) evs))) <= limit)%nat
                    /\ NoDup (map fst (pc_clients (fst (pc_run (pc_new limit) evs)))).

(* while no overflow occurs the per-client recorder's totals equal the aggregated recorder's *)
Definition goal_equiv : Prop :=
  forall limit evs,
    pc_overflows (fst (pc_run (pc_new limit) evs)) = 0 ->
    (forall k, pc_total k (fst (pc_run (pc_new limit) evs)) = cs_get k (agg_run evs))
    /\ pc_total_bytes (fst (pc_run (pc_new limit) evs)) = c_bytes (agg_run evs).

(* the aggregated recorder counts every event *)
Definition goal_agg : Prop :=
  forall evs, (forall k, cs_get k (agg_run evs) = count_k k evs) /\ c_bytes (agg_run evs) = bytes_all evs.

(* merging per-worker snapshots preserves every per-address sum *)
Fixpoint snap_sum (k : kind) (a : addr) (snaps : list cmap) : N :=
  match snaps with
  | [] => 0
  | s :: r => fold_right (fun ac acc => (if fst ac =? a then cs_get k (snd ac) else 0) + acc) 0 s
              + snap_sum k a r
  end.
Fixpoint snap_bytes (a : addr) (snaps : list cmap) : N :=
  match snaps with
  | [] => 0
  | s :: r => fold_right (fun ac acc => (if fst ac =? a then c_bytes (snd ac) else 0) + acc) 0 s
              + snap_bytes a r
  end.
Definition goal_merge : Prop :=
  forall snaps a,
    (forall k, cs_get k (cm_lookup (rep_receive [] snaps) a) = snap_sum k a snaps)
    /\ c_bytes (cm_lookup (rep_receive [] snaps) a) = snap_bytes a snaps.

(* end to end: histories recorded by several workers, snapshotted (iter + clear) at arbitrary
   points, merged by the reporter: per-address sums equal the counts of all recorded events *)
Definition goal_split_merge : Prop :=
  forall limit (segments : list (list sev)) a k,
    let runs := map (fun evs => pc_run (pc_new limit) evs) segments in
    let snaps := map (fun r => pc_clients (fst r)) runs in
    let recorded := concat (map (fun p => select true (fst p) (snd (snd p))) (combine segments runs)) in
    cs_get k (cm_lookup (rep_receive [] snaps) a) = count_ka k a recorded.

(* ---- the shared queue between workers and reporter ----
   Conservation through the queue: after any history of publishes and drains, followed by a final
   drain, every per-address sum over ALL published snapshots equals what the reporter merged plus
   what force_push evicted — a snapshot is merged or evicted, never both, never neither. Nothing is
   evicted when no more than `capacity` snapshots are published between two drains. *)
Definition goal_queue_conservation : Prop :=
  forall cap ops a k,
    let '(q, merged, lost) := q_run (mksq cap []) [] [] (ops ++ [QDrain]) in
    sq_items q = []
    /\ cs_get k (cm_lookup merged a) + snap_sum k a lost = snap_sum k a (pushed_snaps ops).

(* pushes since the last drain never exceed the capacity -> nothing is evicted *)
Fixpoint within_capacity (cap pending : nat) (ops : list qop) : bool :=
  match ops with
  | [] => true
  | QDrain :: r => within_capacity cap O r
  | QPush [] :: r => within_capacity cap pending r
  | QPush _ :: r => (S pending <=? cap)%nat && within_capacity cap (S pending) r
  end.

Definition goal_queue_lossless : Prop :=
  forall cap ops,
    within_capacity cap 0 ops = true ->
    snd (q_run (mksq cap []) [] [] ops) = [].
