(* ClientGoals.v — what "authentic" means for the client (C01) and the exact statements of the
   client theorems (C01, C03), as Props. No proofs. *)
Require Import RV.Model.Bytes RV.Gen.Tables RV.Model.Tag RV.Model.Message RV.Model.Merkle
        RV.Model.Keys RV.Model.Sign RV.Model.Client RV.Model.Server
        RV.Spec.RefCodec RV.Spec.RefMerkle RV.Spec.MerkleGoals RV.Spec.RefVerify RV.Spec.ServerGoals.
Local Open Scope N_scope.

Definition all_some5 (a b c d e : option bytes) : option (bytes * bytes * bytes * bytes * bytes) :=
  match a, b, c, d, e with
  | Some a, Some b, Some c, Some d, Some e => Some (a, b, c, d, e)
  | _, _, _, _, _ => None
  end.

(* the midpoint in the protocol's unit as (seconds, nanoseconds) *)
Definition time_of (v : version) (midp : N) : N * N :=
  match v with
  | Google => (midp / 1000000, (midp mod 1000000) * 1000)
  | RfcDraft13 => (midp, 0)
  end.

Section Goals.
  Variable H : bytes -> bytes.
  Variable ed_pk : bytes -> bytes.
  Variable ed_sign : bytes -> bytes -> bytes.
  Variable ed_verify : bytes -> bytes -> bytes -> bool.
  Variable ed_point : bytes -> bool.

  (* The conditions of C01, against the reference decoder and the protocol texts' constants:
     a signature chain from the pinned key over the delegation (version's delegation context) and
     from the delegated key over the signed response (response context), the midpoint inside the
     delegation window, and a Merkle proof binding the client's own request to the signed root. *)
  Definition authentic (v : version) (pk request nonce reply : bytes) : bool :=
    let payload := match v with
                   | Google => Some reply
                   | RfcDraft13 => if (12 <=? length reply)%nat then Some (skipn 12 reply) else None
                   end in
    match payload with
    | None => false
    | Some payload =>
      match ref_decode payload with
      | None => false
      | Some m =>
        match all_some5 (rget m SIG) (rget m PATH) (rget m SREP) (rget m CERT) (rget m INDX) with
        | None => false
        | Some (sig, path, srep, cert, indx) =>
          match ref_decode cert, ref_decode srep with
          | Some cm, Some sm =>
            match rget cm SIG, rget cm DELE with
            | Some csig, Some dele =>
              match ref_decode dele with
              | Some dm =>
                match all_some5 (rget dm PUBK) (rget dm MINT) (rget dm MAXT) (rget sm MIDP) (rget sm ROOT) with
                | Some (pubk, mint, maxt, midp, root) =>
                  let w := spec_width v in
                  (8 <=? length midp)%nat && (8 <=? length mint)%nat && (8 <=? length maxt)%nat
                  && (4 <=? length indx)%nat
                  && (length pk =? 32)%nat && ed_point pk && (length csig =? 64)%nat
                  && ed_verify pk (spec_dele_ctx v ++ dele) csig
                  && (length pubk =? 32)%nat && ed_point pubk && (length sig =? 64)%nat
                  && ed_verify pubk (ctx_srep ++ srep) sig
                  && (rd64 mint <=? rd64 midp) && (rd64 midp <=? rd64 maxt)
                  && (Nat.modulo (length path) w =? 0)%nat
                  && bytes_eqb (s_recompute (vhash H v) (spec_leaf v request nonce)
                                            (N.to_nat (rd32 indx)) (chunks w path)) root
                | None => false
                end
              | None => false
              end
            | _, _ => false
            end
          | _, _ => false
          end
        end
      end
    end.

  (* the signed midpoint of a reply, as the reference decoder sees it *)
  Definition signed_midpoint (v : version) (reply : bytes) : option N :=
    let payload := match v with Google => reply | RfcDraft13 => skipn 12 reply end in
    match ref_decode payload with
    | Some m => match rget m SREP with
                | Some srep => match ref_decode srep with
                               | Some sm => match rget sm MIDP with
                                            | Some b => Some (rd64 b)
                                            | None => None end
                               | None => None end
                | None => None end
    | None => None
    end.

  (* C01 soundness: the client reports verified (exit 0, time printed) only for an authentic reply,
     and the time it prints is the signed midpoint converted from the protocol's unit.
     Datagrams fit the client's 4096-byte receive buffer. *)
  Definition goal_client_sound : Prop :=
    HashLen H ->
    forall v pk nonce request dgram out,
      (length dgram <= 4096)%nat ->
      client_handle H ed_verify ed_point v (Some pk) nonce request dgram = Ok out ->
      authentic v pk request nonce dgram = true
      /\ o_verified out = true
      /\ exists midp, signed_midpoint v dgram = Some midp /\ (o_secs out, o_nsecs out) = time_of v midp.

  (* without a pinned key nothing is ever reported as verified *)
  Definition goal_client_unverified : Prop :=
    forall v nonce request dgram out,
      client_handle H ed_verify ed_point v None nonce request dgram = Ok out -> o_verified out = false.

  (* the client never returns an error value: it prints a time or it panics (non-zero exit) *)
  Definition goal_client_ok_or_panic : Prop :=
    forall v pko nonce request dgram e,
      client_handle H ed_verify ed_point v pko nonce request dgram <> Err e.

  (* replay: a reply authentic for one request is authentic for a different request (different
     Merkle leaf: another nonce for classic, another request packet for IETF) only by exhibiting a
     hash collision *)
  Definition goal_no_replay : Prop :=
    HashLen H ->
    forall v pk req1 nonce1 req2 nonce2 reply,
      authentic v pk req1 nonce1 reply = true -> authentic v pk req2 nonce2 reply = true ->
      spec_leaf v req1 nonce1 <> spec_leaf v req2 nonce2 ->
      Collision (vhash H v) (spec_width v).

  (* C03: request shape, and the server accepts it *)
  Definition goal_request_shape : Prop :=
    forall v nonce pko,
      length nonce = spec_nonce_len v ->
      (match pko with Some pk => length pk = 32%nat | None => True end) -> HashLen H ->
      exists rq, make_request H v nonce pko = Ok rq
        /\ length rq = (match v with Google => 1024 | RfcDraft13 => 1036 end)%nat
        /\ wellformed (match pko with Some pk => calc_srv_value H pk | None => [] end) rq = Some (nonce, v).

  Definition goal_request_any_server : Prop :=
    forall v nonce srv, length nonce = spec_nonce_len v -> HashLen H ->
      exists rq, make_request H v nonce None = Ok rq /\ wellformed srv rq = Some (nonce, v).

  (* C03 completeness: for every honest reply (as specified for the server, any batch, any
     position), with or without a pinned key, the client accepts, reports verified exactly when a
     key was supplied, and prints exactly the signed midpoint *)
  Definition PointOk : Prop := forall s, ed_point (ed_pk s) = true.
  Definition goal_client_complete : Prop :=
    HashLen H -> PkLen ed_pk -> SigLen ed_sign -> SigCorrect ed_pk ed_sign ed_verify -> PointOk ->
    forall v srv lt ok now ds i pko,
      let reqs := accepted srv v ds in
      let r := nth i reqs req0 in
      (i < length reqs)%nat -> (length reqs <= 64)%nat ->
      fst now < two64 -> fst (time_of v (midp_of v now)) <= TS_MAX ->
      (pko = None \/ pko = Some (ed_pk lt)) ->
      client_handle H ed_verify ed_point v pko (req_nonce r) (req_dgram r)
                    (reply_bytes H ed_pk ed_sign v lt ok now reqs i)
      = Ok (mkout (match pko with Some _ => true | None => false end)
                  (fst (time_of v (midp_of v now))) (snd (time_of v (midp_of v now)))
                  (radi_of v) (N.of_nat i)).
End Goals.
