(* RefCodec.v — reference codec for the Roughtime tag-value format, written from the
   protocol description (Google PROTOCOL.md "Messages", draft-ietf-ntp-roughtime-13 §4),
   independently of message.rs's structure:

     uint32 num_tags
     uint32 offsets[max(0, num_tags-1)]      multiples of 4, non-decreasing, <= payload length
     uint32 tags[num_tags]                   known tags, strictly ascending as LE u32 numbers
     byte   payload[]                        values are the cuts of the payload at the offsets *)
Require Import RV.Model.Bytes RV.Gen.Tables RV.Model.Tag.
Local Open Scope N_scope.

Definition rmsg := list (tag * bytes).

(* the i-th little-endian 32-bit word of a byte string *)
Definition word_at (bs : bytes) (i : nat) : N := rd32 (skipn (4 * i) bs).

Definition words_from (bs : bytes) (start count : nat) : list N :=
  map (fun i => word_at bs (start + i)) (seq 0 count).

(* known tag with this numeric value *)
Definition tag_of_num (w : N) : option tag :=
  find (fun t => tag_num t =? w) all_tags.

Fixpoint map_opt {A B} (f : A -> option B) (l : list A) : option (list B) :=
  match l with
  | [] => Some []
  | a :: r =>
      match f a, map_opt f r with
      | Some b, Some bs => Some (b :: bs)
      | _, _ => None
      end
  end.

Fixpoint strictly_ascending (l : list N) : bool :=
  match l with
  | a :: ((b :: _) as r) => (a <? b) && strictly_ascending r
  | _ => true
  end.

Fixpoint non_decreasing (l : list N) : bool :=
  match l with
  | a :: ((b :: _) as r) => (a <=? b) && non_decreasing r
  | _ => true
  end.

(* cut [payload] at absolute positions: pieces [prev, o1), [o1, o2), ..., [ok, end) *)
Fixpoint cuts (payload : bytes) (prev : nat) (offs : list nat) : list bytes :=
  match offs with
  | [] => [skipn prev payload]
  | o :: r => firstn (o - prev) (skipn prev payload) :: cuts payload o r
  end.

Definition ref_decode (bs : bytes) : option rmsg :=
  let len := length bs in
  if (len <? 4)%nat then None
  else if negb (Nat.modulo len 4 =? 0)%nat then None
  else
    let n := word_at bs 0 in
    if n =? 0 then Some []
    else if lenN bs <? 8 * n then None                (* header of 8n bytes must be present *)
    else
      let k := N.to_nat n in                           (* 8n <= len, so k is small *)
      let offs := words_from bs 1 (k - 1) in
      let tagws := words_from bs k k in
      let payload := skipn (8 * k) bs in
      match map_opt tag_of_num tagws with
      | None => None
      | Some tags =>
          if strictly_ascending tagws
             && forallb (fun o => o mod 4 =? 0) offs
             && non_decreasing offs
             && forallb (fun o => o <=? lenN payload) offs
          then Some (combine tags (cuts payload 0 (map N.to_nat offs)))
          else None
      end.

(* canonical encoding of a field list *)
Fixpoint canon_offsets (sum : nat) (vals : list bytes) : bytes :=
  match vals with
  | [] => []
  | v :: r => u32le (N.of_nat sum) ++ canon_offsets (sum + length v) r
  end.

Definition canon (m : rmsg) : bytes :=
  let vals := map snd m in
  u32le (lenN m)
  ++ match vals with [] => [] | v0 :: r => canon_offsets (length v0) r end
  ++ concat (map (fun tv => tag_wire (fst tv)) m)
  ++ concat vals.
