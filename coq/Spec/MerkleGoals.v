(* MerkleGoals.v — exact statements of the C04 theorems, as Props (no proofs here). *)
Require Import RV.Model.Bytes RV.Gen.Tables RV.Model.Merkle RV.Spec.RefMerkle.

(* the single fact about the digest the theorems use (true of SHA-512) *)
Definition HashLen (H : bytes -> bytes) : Prop := forall x, length (H x) = 64%nat.

(* expected outputs of one batch, from the functional specification *)
Definition spec_root (H : bytes -> bytes) (v : version) (ls : list bytes) : bytes :=
  s_root (hashv H v) (node_len v) ls.
Definition spec_paths (H : bytes -> bytes) (v : version) (ls : list bytes) : list bytes :=
  map (fun i => concat (s_path (hashv H v) (node_len v) ls i)) (seq 0 (length ls)).

(* a batch the implementation can be given: non-empty, fewer than 2^32 leaves *)
Definition batch_ok (ls : list bytes) : Prop :=
  ls <> [] /\ (N.of_nat (length ls) <= 4294967296)%N.

(* C04: on ANY tree object with at least one level (fresh, or left behind by earlier batches of
   any sizes), reset + push + compute_root + get_paths never panics and yields exactly the
   functional tree's root and paths, for every leaf count and every position *)
Definition goal_model_is_spec : Prop :=
  forall H v t ls, HashLen H -> tver t = v -> levels t <> [] -> batch_ok ls ->
    exists t', batch H t ls = Ok (t', spec_root H v ls, spec_paths H v ls)
               /\ tver t' = v /\ levels t' <> [].

(* C04: reuse of one tree object over any sequence of batches = fresh trees *)
Definition goal_reuse : Prop :=
  forall H v t bs, HashLen H -> tver t = v -> levels t <> [] -> Forall batch_ok bs ->
    batches H t bs = Ok (map (fun ls => (spec_root H v ls, spec_paths H v ls)) bs).

(* C04: completeness of the functional tree: the issued path recomputes the root *)
Definition goal_complete : Prop :=
  forall (h : bytes -> bytes) (w : nat) ls i, (i < length ls)%nat ->
    s_recompute h (nth i ls []) i (s_path h w ls i) = s_root h w ls.

(* root_from_paths is the functional recomputation (and panics exactly on a ragged path) *)
Definition goal_root_from_paths : Prop :=
  forall H v j d p, HashLen H ->
    root_from_paths H v (N.of_nat j) d p =
      if (Nat.modulo (length p) (node_len v) =? 0)%nat
      then Ok (s_recompute (hashv H v) d j (chunks (node_len v) p))
      else Panic site_paths_len.

(* C04: binding. A (leaf, in-range index, path of w-byte elements) that recomputes the root of a
   batch is the genuine leaf at that index with the genuine path, or exhibits a collision / a
   preimage of the zero node *)
Definition goal_binding : Prop :=
  forall (h : bytes -> bytes) (w : nat) ls j d p,
    (forall x, length (h x) = w) -> Forall (fun q => length q = w) p -> (j < length ls)%nat ->
    s_recompute h d j p = s_root h w ls ->
    (d = nth j ls [] /\ p = s_path h w ls j) \/ Collision h w.
