(* CodecGoals.v — the exact statements of the C05 / C06 theorems, as Props (no proofs here). *)
Require Import RV.Model.Bytes RV.Gen.Tables RV.Model.Tag RV.Model.Message RV.Spec.RefCodec.
Local Open Scope N_scope.

(* messages obtainable through the API: with_capacity + add_field calls that returned Ok *)
Inductive Built : msg -> Prop :=
| Built_nil : Built []
| Built_add : forall m t v m', Built m -> add_field m t v = Ok m' -> Built m'.

Definition aligned_values (m : msg) : Prop := Forall (fun tv => (length (snd tv) mod 4 = 0)%nat) m.

(* C05: the decoder accepts exactly what the reference decoder accepts, with identical content
   (and never panics), for every input shorter than 2^32 bytes *)
Definition goal_decode_agrees : Prop :=
  forall bs, lenN bs < two32 -> ok_opt (from_bytes bs) = ref_decode bs.

(* C05: API-built messages with aligned values encode canonically and decode back *)
Definition goal_roundtrip : Prop :=
  forall m, Built m -> aligned_values m -> N.of_nat (encoded_size m) < two32 ->
            encode m = Ok (canon m) /\ from_bytes (canon m) = Ok m.

(* C05: every accepted non-empty message re-encodes to the identical bytes *)
Definition goal_canonical : Prop :=
  forall bs m, lenN bs < two32 -> from_bytes bs = Ok m -> m <> [] -> encode m = Ok bs.

(* C05: an accepted message has at most one field per known tag *)
Definition goal_tagcount : Prop :=
  forall bs m, from_bytes bs = Ok m -> (length m <= length all_tags)%nat.

(* C05: RFC framing adds exactly the 8-byte magic and the little-endian payload length *)
Definition goal_framed : Prop :=
  forall m e, encode m = Ok e ->
              encode_framed m = Ok (REQUEST_FRAMING_BYTES ++ u32le (as_u32 (lenN e)) ++ e).

(* C06: decoding any byte string, of any length, returns a message or an error: never a panic *)
Definition goal_decode_total : Prop :=
  forall bs, is_panic (from_bytes bs) = false.

(* C06: the values of an accepted non-empty message, concatenated in order, are exactly the
   input bytes that follow the 8n-byte header *)
Definition goal_values_are_payload : Prop :=
  forall bs m, from_bytes bs = Ok m -> m <> [] ->
               concat (map snd m) = skipn (8 * length m) bs.

(* C06: formatting any message (decoded or not) for display returns normally *)
Definition goal_display_total : Prop :=
  forall m, exists s, to_string m = Ok s.

(* C06: display recursion is bounded by the constant, whatever the nesting of the input *)
Definition goal_display_fuel : Prop :=
  forall m indent fuel, (1 <= indent)%nat -> (S MAX_DISPLAY_DEPTH - indent < fuel)%nat ->
                        exists s, to_string_f fuel indent m = Ok s.
