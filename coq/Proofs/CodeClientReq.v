(* CodeClientReq.v — the client's make_request, verify_framing and receive_response as translated
   from src/bin/roughenough-client.rs on this run, against Model/Client.v. *)
Require Import RV.Model.Bytes RV.Gen.Tables RV.Model.Tag RV.Model.Message RV.Model.Merkle
        RV.Model.Keys RV.Model.Sign RV.Model.Client RV.Model.GenSupport RV.Gen.Code.
Require Import RV.Proofs.BytesFacts RV.Proofs.CodeLib RV.Proofs.CodeMsgDec.
From Coq Require Import ZArith Lia ZifyN ZifyBool ZifyNat List.
Import ListNotations.
Local Open Scope N_scope.

Ltac chain_req :=
  repeat (cbn [obind ok_opt unwrap unwrap_p build_unwrap app]; rewrite ?Nat2N.id;
          match goal with
          | |- context [add_field ?m ?t ?v] => destruct (add_field m t v) as [?mm|?ee|?ss]
          | |- context [encode ?m] => destruct (encode m) as [?bb|?ee|?ss]
          | |- context [encode_framed ?m] => destruct (encode_framed m) as [?bb|?ee|?ss]
          end);
  cbn [obind ok_opt unwrap unwrap_p build_unwrap app]; try reflexivity.

Lemma gen_make_request_model : forall H v nonce dump pk,
  ok_opt (gen_make_request H v nonce dump pk) = ok_opt (make_request H v nonce pk).
Proof.
  intros H v nonce dump pk. unfold gen_make_request, make_request, padded. cbv zeta.
  destruct v.
  - chain_req; destruct dump; chain_req.
  - destruct pk as [k|]; cbn [option_map app].
    + chain_req; destruct dump; chain_req.
    + chain_req; destruct dump; chain_req.
Qed.

Lemma kr_repeat_byte_length : forall b n, length (repeat_byte b n) = n.
Proof. induction n as [|n IH]; cbn [repeat_byte length]; [reflexivity|rewrite IH; reflexivity]. Qed.

Lemma kr_slice_n_ok : forall (b : bytes) (lo hi : N), lo <= hi -> hi <= lenN b ->
  slice_n (E:=error) site_gen b lo hi = Ok (firstn (N.to_nat hi - N.to_nat lo) (skipn (N.to_nat lo) b)).
Proof.
  intros b lo hi H1 H2. unfold slice_n, slice, lenN in *.
  replace ((N.to_nat hi <? N.to_nat lo)%nat || (length b <? N.to_nat hi)%nat) with false by lia. reflexivity.
Qed.

(* verify_framing on a receive buffer of at least 12 bytes *)
Lemma gen_verify_framing_model : forall buf, 12 <= lenN buf ->
  gen_verify_framing buf = verify_framing buf.
Proof.
  intros buf Hl. unfold gen_verify_framing, verify_framing.
  rewrite (kr_slice_n_ok buf 0 8) by lia. change (N.to_nat 8 - N.to_nat 0)%nat with 8%nat.
  change (N.to_nat 0) with 0%nat. change (skipn 0 buf) with buf. cbn [obind].
  destruct (negb (bytes_eqb (firstn 8 buf) REQUEST_FRAMING_BYTES)); cbn [obind]; [reflexivity|].
  rewrite (kr_slice_n_ok buf 8 12) by lia. change (N.to_nat 12 - N.to_nat 8)%nat with 4%nat.
  change (N.to_nat 8) with 8%nat. cbn [obind]. cbv zeta.
  unfold read_u32_le. rewrite firstn_length, skipn_length.
  replace (Nat.min 4 (length buf - 8) <? 4)%nat with false by (unfold lenN in Hl; lia).
  cbn [obind]. rewrite firstn_firstn. change (Nat.min 4 4) with 4%nat.
  unfold sub_chk. replace (lenN buf <? 12) with false by lia. cbn [obind].
  replace (lenN buf - 12) with (N.of_nat (length buf - 12)) by (unfold lenN in *; lia).
  destruct (N.of_nat (length buf - 12) <? rd32 (firstn 4 (skipn 8 buf))); cbn [obind]; reflexivity.
Qed.

(* receive_response on the client's zeroed 4096-byte buffer holding a datagram of at most 4096 bytes *)
Lemma gen_receive_response_model : forall v dgram, (length dgram <= RECV_BUF)%nat ->
  ok_opt (gen_receive_response v (dgram ++ repeat_byte x00 (RECV_BUF - length dgram)) (lenN dgram))
  = ok_opt (receive_response v dgram).
Proof.
  intros v dgram Hd. unfold gen_receive_response, receive_response. cbv zeta.
  set (buf := dgram ++ repeat_byte x00 (RECV_BUF - length dgram)).
  assert (Hbl : length buf = RECV_BUF).
  { subst buf. rewrite app_length, kr_repeat_byte_length. lia. }
  destruct v.
  - rewrite (kr_slice_n_ok buf 0 (lenN dgram)) by (unfold lenN; lia).
    change (N.to_nat 0) with 0%nat. change (skipn 0 buf) with buf. cbn [obind]. rewrite Nat.sub_0_r.
    replace (firstn (N.to_nat (lenN dgram)) buf) with dgram.
    2:{ subst buf. unfold lenN. rewrite Nat2N.id, firstn_app, Nat.sub_diag, firstn_all. cbn [firstn]. rewrite app_nil_r. reflexivity. }
    rewrite gen_from_bytes_model. destruct (from_bytes dgram); reflexivity.
  - rewrite gen_verify_framing_model by (unfold lenN; rewrite Hbl; unfold RECV_BUF; lia).
    destruct (verify_framing buf) as [u| |]; cbn [unwrap unwrap_p obind ok_opt]; try reflexivity.
    unfold slice_n. change (N.to_nat 12) with 12%nat. unfold lenN. rewrite Nat2N.id.
    unfold slice. destruct ((length dgram <? 12)%nat || (length buf <? length dgram)%nat); cbn [obind ok_opt]; [reflexivity|].
    rewrite gen_from_bytes_model.
    destruct (from_bytes (firstn (length dgram - 12) (skipn 12 buf))); reflexivity.
Qed.
