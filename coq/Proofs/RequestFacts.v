(* RequestFacts.v — G1: the request classifier of src/request.rs accepts exactly the
   well-formed requests of the protocol specification (and never panics), plus the C12
   corollaries stated on the implementation's classifier. *)
Require Import RV.Model.Bytes RV.Gen.Tables RV.Model.Tag RV.Model.Message RV.Model.Request.
Require Import RV.Spec.RefCodec RV.Spec.CodecGoals RV.Spec.RefVerify RV.Spec.ServerGoals.
Require Import RV.Proofs.TagFacts RV.Proofs.BytesFacts RV.Proofs.CodecDecode.
From Coq Require Import ZArith Lia ZifyN ZifyBool ZifyNat.
Ltac Zify.zify_post_hook ::= Z.div_mod_to_equations.
Local Open Scope N_scope.

(* ------------------------------------------------------------------ *)
(* constants of the generated table against the literals of the specification *)

Lemma framing_is_magic : REQUEST_FRAMING_BYTES = magic.
Proof. reflexivity. Qed.

Lemma ver_wire_draft13 : ver_wire RfcDraft13 = draft13_wire.
Proof. reflexivity. Qed.

Lemma min_request_length : MIN_REQUEST_LENGTH = 1024.
Proof. reflexivity. Qed.

Lemma max_request_length : MAX_REQUEST_LENGTH = 1500.
Proof. reflexivity. Qed.

Lemma is_rfc_request_magic : forall d, is_rfc_request d = bytes_eqb (firstn 8 d) magic.
Proof. intro d. unfold is_rfc_request. rewrite framing_is_magic. reflexivity. Qed.

(* ------------------------------------------------------------------ *)
(* field lookup: the model's and the specification's are the same function *)

Lemma get_field_rget : forall (m : msg) t, get_field m t = rget m t.
Proof.
  induction m as [|[u v] m IH]; intro t; cbn [get_field rget]; [reflexivity|].
  unfold tag_eqb. destruct (tag_beq t u); [reflexivity|apply IH].
Qed.

(* ------------------------------------------------------------------ *)
(* VER scanning: a short trailing chunk never matters *)

Lemma chunks_fuel_nil : forall f w, chunks_fuel f w [] = [].
Proof. intros [|f] w; reflexivity. Qed.

Lemma existsb_chunks_filter : forall (P : bytes -> bool),
  (forall c, P c = true -> length c = 4%nat) ->
  forall f bs k,
    existsb P (firstn k (chunks_fuel f 4 bs))
    = existsb P (firstn k (filter (fun c => (length c =? 4)%nat) (chunks_fuel f 4 bs))).
Proof.
  intros P HP. induction f as [|f IH]; intros bs k; [reflexivity|].
  cbn [chunks_fuel]. destruct bs as [|b0 bs0]; [reflexivity|].
  remember (b0 :: bs0) as bs eqn:Ebs.
  cbn [filter].
  destruct (Nat.le_gt_cases 4 (length bs)) as [Hlen|Hlen].
  - (* a full chunk: kept by the filter *)
    assert (Hf : length (firstn 4 bs) = 4%nat) by (rewrite firstn_length; lia).
    rewrite Hf. cbn [Nat.eqb].
    destruct k as [|k]; [reflexivity|].
    cbn [firstn existsb]. rewrite IH. reflexivity.
  - (* a short chunk: it is the last one, dropped by the filter, and never matches *)
    assert (Hs : skipn 4 bs = []).
    { apply skipn_all2. lia. }
    rewrite Hs, chunks_fuel_nil. cbn [filter].
    assert (Hf : firstn 4 bs = bs) by (apply firstn_all2; lia).
    rewrite Hf.
    replace (length bs =? 4)%nat with false by lia.
    destruct k as [|k]; [reflexivity|].
    cbn [firstn existsb]. rewrite firstn_nil. cbn [existsb].
    destruct (P bs) eqn:EP; [|reflexivity].
    apply HP in EP. lia.
Qed.

Lemma bytes_eqb_length : forall a b, bytes_eqb a b = true -> length b = length a.
Proof. intros a b H. apply bytes_eqb_eq in H. subst. reflexivity. Qed.

Lemma version_scan_agrees : forall ver,
  existsb (fun c => bytes_eqb (ver_wire RfcDraft13) c) (firstn ITERATION_LIMIT (chunks 4 ver))
  = existsb (bytes_eqb draft13_wire) (firstn 4 (words_of ver)).
Proof.
  intro ver. rewrite ver_wire_draft13. unfold ITERATION_LIMIT, words_of, chunks.
  change (fun c : bytes => bytes_eqb draft13_wire c) with (bytes_eqb draft13_wire).
  apply existsb_chunks_filter.
  intros c Hc. apply bytes_eqb_length in Hc. exact Hc.
Qed.

Lemma get_supported_version_spec : forall (m : msg),
  get_supported_version m
  = match rget m VER with
    | None => None
    | Some ver => if existsb (bytes_eqb draft13_wire) (firstn 4 (words_of ver))
                  then Some RfcDraft13 else None
    end.
Proof.
  intro m. unfold get_supported_version. rewrite get_field_rget.
  destruct (rget m VER) as [ver|]; [|reflexivity].
  rewrite version_scan_agrees. reflexivity.
Qed.

(* ------------------------------------------------------------------ *)
(* decoding through the implementation = decoding through the reference *)

Lemma from_bytes_cases : forall bs, lenN bs < two32 ->
  (exists m, from_bytes bs = Ok m /\ ref_decode bs = Some m)
  \/ (exists e, from_bytes bs = Err e /\ ref_decode bs = None).
Proof.
  intros bs Hlen. pose proof (decode_agrees bs Hlen) as Ha.
  pose proof (decode_total bs) as Ht.
  destruct (from_bytes bs) as [m|e|s]; cbn [ok_opt is_panic] in *.
  - left. exists m. split; [reflexivity|]. symmetry. exact Ha.
  - right. exists e. split; [reflexivity|]. symmetry. exact Ha.
  - discriminate.
Qed.

Lemma lenN_small : forall (d : bytes), (length d <= 1500)%nat -> lenN d < two32.
Proof. intros d H. unfold lenN, two32. lia. Qed.

(* ------------------------------------------------------------------ *)
(* the classic branch *)

Definition wf_classic (d : bytes) : option (bytes * version) :=
  match ref_decode d with
  | None => None
  | Some m =>
      match rget m NONC with
      | Some nonce => if (length nonce =? 64)%nat then Some (nonce, Google) else None
      | None => None
      end
  end.

Lemma classic_agrees : forall d, (length d <= 1500)%nat ->
  ok_opt (nonce_from_classic_request d) = wf_classic d
  /\ is_panic (nonce_from_classic_request d) = false.
Proof.
  intros d Hlen. unfold nonce_from_classic_request, wf_classic.
  destruct (from_bytes_cases d (lenN_small d Hlen)) as [(m & Hf & Hr)|(e & Hf & Hr)];
    rewrite Hf, Hr; cbn [obind ok_opt is_panic]; [|split; reflexivity].
  rewrite get_field_rget. unfold CLASSIC_NONCE_LENGTH.
  destruct (rget m NONC) as [nonce|]; [|split; reflexivity].
  destruct (length nonce =? 64)%nat; split; reflexivity.
Qed.

(* ------------------------------------------------------------------ *)
(* the IETF branch *)

Definition wf_rfc (srv d : bytes) : option (bytes * version) :=
  match unframe d with
  | None => None
  | Some payload =>
      match ref_decode payload with
      | None => None
      | Some m =>
          match rget m VER, rget m NONC with
          | Some ver, Some nonce =>
              if existsb (bytes_eqb draft13_wire) (firstn 4 (words_of ver))
                 && match rget m SRV with Some s => bytes_eqb s srv | None => true end
                 && (length nonce =? 32)%nat
              then Some (nonce, RfcDraft13) else None
          | _, _ => None
          end
      end
  end.

Lemma unframe_framed : forall d, (12 <= length d)%nat -> bytes_eqb (firstn 8 d) magic = true ->
  unframe d = if rd32 (firstn 4 (skipn 8 d)) =? N.of_nat (length d - 12)
              then Some (skipn 12 d) else None.
Proof.
  intros d Hlen Hm. unfold unframe. rewrite Hm.
  replace (12 <=? length d)%nat with true by lia. reflexivity.
Qed.

Lemma rfc_agrees : forall srv d, (1024 <= length d <= 1500)%nat ->
  bytes_eqb (firstn 8 d) magic = true ->
  ok_opt (nonce_from_rfc_request d srv) = wf_rfc srv d
  /\ is_panic (nonce_from_rfc_request d srv) = false.
Proof.
  intros srv d Hlen Hm. unfold nonce_from_rfc_request, wf_rfc.
  rewrite (slice_ok site_req_slice d 8 12) by lia.
  change (12 - 8)%nat with 4%nat. cbn [obind]. cbv zeta.
  rewrite (unframe_framed d) by (lia || exact Hm).
  rewrite as_u32_small by (unfold two32; lia).
  destruct (rd32 (firstn 4 (skipn 8 d)) =? N.of_nat (length d - 12)) eqn:Eframe;
    cbn [negb]; [|split; reflexivity].
  assert (Hp : lenN (skipn 12 d) < two32).
  { apply lenN_small. rewrite skipn_length. lia. }
  destruct (from_bytes_cases (skipn 12 d) Hp) as [(m & Hf & Hr)|(e & Hf & Hr)];
    rewrite Hf, Hr; cbn [obind ok_opt is_panic]; [|split; reflexivity].
  rewrite get_supported_version_spec, (get_field_rget m SRV), (get_field_rget m NONC). unfold RFC_NONCE_LENGTH.
  destruct (rget m VER) as [ver|]; [|split; reflexivity].
  destruct (existsb (bytes_eqb draft13_wire) (firstn 4 (words_of ver)));
    cbn [andb]; [|destruct (rget m NONC); split; reflexivity].
  destruct (rget m SRV) as [s|].
  - destruct (bytes_eqb s srv); cbn [negb andb].
    + destruct (rget m NONC) as [nonce|]; [|split; reflexivity].
      destruct (length nonce =? 32)%nat; split; reflexivity.
    + destruct (rget m NONC); split; reflexivity.
  - cbn [andb]. destruct (rget m NONC) as [nonce|]; [|split; reflexivity].
    destruct (length nonce =? 32)%nat; split; reflexivity.
Qed.

(* ------------------------------------------------------------------ *)
(* G1 *)

Lemma wellformed_unfold : forall srv d,
  wellformed srv d
  = if (length d <? 1024)%nat || (1500 <? length d)%nat then None
    else if bytes_eqb (firstn 8 d) magic then wf_rfc srv d else wf_classic d.
Proof. reflexivity. Qed.

Lemma classify_wellformed : goal_classify.
Proof.
  intros srv d. rewrite wellformed_unfold. unfold classify.
  rewrite min_request_length, max_request_length, is_rfc_request_magic.
  destruct (lenN d <? 1024) eqn:Emin.
  { replace (length d <? 1024)%nat with true by (unfold lenN in Emin; lia).
    split; reflexivity. }
  destruct (1500 <? lenN d) eqn:Emax.
  { replace (1500 <? length d)%nat with true by (unfold lenN in Emax; lia).
    rewrite orb_true_r. split; reflexivity. }
  assert (Hlen : (1024 <= length d <= 1500)%nat) by (unfold lenN in Emin, Emax; lia).
  replace (length d <? 1024)%nat with false by lia.
  replace (1500 <? length d)%nat with false by lia.
  cbn [orb].
  destruct (bytes_eqb (firstn 8 d) magic) eqn:Em.
  - apply rfc_agrees; assumption.
  - apply classic_agrees. lia.
Qed.
Print Assumptions classify_wellformed.

(* ------------------------------------------------------------------ *)
(* inversion of the specification *)

Lemma classify_ok_wellformed : forall srv d n v,
  classify srv d = Ok (n, v) <-> wellformed srv d = Some (n, v).
Proof.
  intros srv d n v. destruct (classify_wellformed srv d) as [Hw _].
  rewrite <- Hw. destruct (classify srv d) as [a|e|s]; cbn [ok_opt]; split; intro H;
    try discriminate; congruence.
Qed.

Lemma existsb_draft13_In : forall l,
  existsb (bytes_eqb draft13_wire) l = true <-> In draft13_wire l.
Proof.
  intro l. rewrite existsb_exists. split.
  - intros (x & Hin & Hx). apply bytes_eqb_eq in Hx. subst. exact Hin.
  - intro Hin. exists draft13_wire. split; [exact Hin|apply bytes_eqb_refl].
Qed.

Lemma wellformed_length : forall srv d r, wellformed srv d = Some r ->
  (1024 <= length d <= 1500)%nat.
Proof.
  intros srv d r H. rewrite wellformed_unfold in H.
  destruct ((length d <? 1024)%nat || (1500 <? length d)%nat) eqn:E; [discriminate|].
  apply orb_false_iff in E. lia.
Qed.

Lemma wf_rfc_inv : forall srv d n v, wf_rfc srv d = Some (n, v) ->
  v = RfcDraft13 /\
  exists payload m ver,
    unframe d = Some payload /\ ref_decode payload = Some m /\ rget m VER = Some ver
    /\ In draft13_wire (firstn 4 (words_of ver))
    /\ (rget m SRV = None \/ rget m SRV = Some srv)
    /\ rget m NONC = Some n /\ length n = 32%nat.
Proof.
  intros srv d n v H. unfold wf_rfc in H.
  destruct (unframe d) as [payload|] eqn:Eu; [|discriminate].
  destruct (ref_decode payload) as [m|] eqn:Er; [|discriminate].
  destruct (rget m VER) as [ver|] eqn:Ev; [|discriminate].
  destruct (rget m NONC) as [nonce|] eqn:En; [|discriminate].
  destruct (existsb (bytes_eqb draft13_wire) (firstn 4 (words_of ver))) eqn:Ex;
    cbn [andb] in H; [|discriminate].
  destruct (match rget m SRV with Some s => bytes_eqb s srv | None => true end) eqn:Es;
    cbn [andb] in H; [|discriminate].
  destruct (length nonce =? 32)%nat eqn:El; [|discriminate].
  injection H as Hn Hv. subst n v. split; [reflexivity|].
  exists payload, m, ver.
  split; [reflexivity|]. split; [exact Er|]. split; [exact Ev|].
  split; [apply existsb_draft13_In; exact Ex|].
  split.
  - destruct (rget m SRV) as [s|]; [|left; reflexivity].
    right. apply bytes_eqb_eq in Es. subst. reflexivity.
  - split; [exact En|]. lia.
Qed.

Lemma wf_classic_inv : forall d n v, wf_classic d = Some (n, v) ->
  v = Google /\ length n = 64%nat.
Proof.
  intros d n v H. unfold wf_classic in H.
  destruct (ref_decode d) as [m|]; [|discriminate].
  destruct (rget m NONC) as [nonce|]; [|discriminate].
  destruct (length nonce =? 64)%nat eqn:El; [|discriminate].
  injection H as Hn Hv. subst. split; [reflexivity|]. lia.
Qed.

Lemma wellformed_inv : forall srv d n v, wellformed srv d = Some (n, v) ->
  (bytes_eqb (firstn 8 d) magic = true /\ wf_rfc srv d = Some (n, v))
  \/ (bytes_eqb (firstn 8 d) magic = false /\ wf_classic d = Some (n, v)).
Proof.
  intros srv d n v H. rewrite wellformed_unfold in H.
  destruct ((length d <? 1024)%nat || (1500 <? length d)%nat); [discriminate|].
  destruct (bytes_eqb (firstn 8 d) magic); [left|right]; split; (reflexivity || exact H).
Qed.

(* ------------------------------------------------------------------ *)
(* C12 corollaries on the implementation's classifier *)

Lemma classify_rfc_inv : forall srv d n, classify srv d = Ok (n, RfcDraft13) ->
  exists payload m ver,
    unframe d = Some payload /\ ref_decode payload = Some m /\ rget m VER = Some ver
    /\ In draft13_wire (firstn 4 (words_of ver))
    /\ (rget m SRV = None \/ rget m SRV = Some srv)
    /\ rget m NONC = Some n /\ length n = 32%nat.
Proof.
  intros srv d n H. apply classify_ok_wellformed in H.
  apply wellformed_inv in H. destruct H as [[_ H]|[_ H]].
  - apply wf_rfc_inv in H. destruct H as [_ H]. exact H.
  - apply wf_classic_inv in H. destruct H as [H _]. discriminate.
Qed.

Lemma classify_version_needed :
  forall srv d n, classify srv d = Ok (n, RfcDraft13) ->
    exists payload m ver, unframe d = Some payload /\ ref_decode payload = Some m
      /\ rget m VER = Some ver /\ In draft13_wire (firstn 4 (words_of ver)).
Proof.
  intros srv d n H. apply classify_rfc_inv in H.
  destruct H as (payload & m & ver & Hu & Hr & Hv & Hin & _).
  exists payload, m, ver. repeat split; assumption.
Qed.
Print Assumptions classify_version_needed.

Lemma unframe_magic : forall d payload, unframe d = Some payload ->
  bytes_eqb (firstn 8 d) magic = true.
Proof.
  intros d payload H. unfold unframe in H.
  destruct (bytes_eqb (firstn 8 d) magic); [reflexivity|]. discriminate.
Qed.

Lemma classify_first_four :
  forall srv d payload m ver nonce,
    (1024 <= length d <= 1500)%nat -> unframe d = Some payload -> ref_decode payload = Some m ->
    rget m VER = Some ver -> In draft13_wire (firstn 4 (words_of ver)) ->
    (rget m SRV = None \/ rget m SRV = Some srv) ->
    rget m NONC = Some nonce -> length nonce = 32%nat ->
    classify srv d = Ok (nonce, RfcDraft13).
Proof.
  intros srv d payload m ver nonce Hlen Hu Hr Hv Hin Hs Hn Hl.
  apply classify_ok_wellformed. rewrite wellformed_unfold.
  replace (length d <? 1024)%nat with false by lia.
  replace (1500 <? length d)%nat with false by lia.
  cbn [orb]. rewrite (unframe_magic d payload Hu).
  unfold wf_rfc. rewrite Hu, Hr, Hv, Hn.
  apply existsb_draft13_In in Hin. rewrite Hin. cbn [andb].
  replace (match rget m SRV with Some s => bytes_eqb s srv | None => true end) with true.
  2:{ destruct Hs as [Hs|Hs]; rewrite Hs; [reflexivity|]. symmetry. apply bytes_eqb_refl. }
  cbn [andb]. rewrite Hl. reflexivity.
Qed.
Print Assumptions classify_first_four.

Lemma classify_srv :
  forall srv d n payload m s, classify srv d = Ok (n, RfcDraft13) ->
    unframe d = Some payload -> ref_decode payload = Some m -> rget m SRV = Some s -> s = srv.
Proof.
  intros srv d n payload m s H Hu Hr Hs. apply classify_rfc_inv in H.
  destruct H as (payload' & m' & ver & Hu' & Hr' & _ & _ & Hsrv & _).
  rewrite Hu in Hu'. injection Hu' as Hp. subst payload'.
  rewrite Hr in Hr'. injection Hr' as Hm. subst m'.
  rewrite Hs in Hsrv. destruct Hsrv as [Hsrv|Hsrv]; [discriminate|].
  injection Hsrv as Hsrv. exact Hsrv.
Qed.
Print Assumptions classify_srv.

Lemma classify_classic_never_framed :
  forall srv d n, classify srv d = Ok (n, Google) -> firstn 8 d <> magic.
Proof.
  intros srv d n H. apply classify_ok_wellformed in H.
  apply wellformed_inv in H. destruct H as [[_ H]|[Hm _]].
  - apply wf_rfc_inv in H. destruct H as [H _]. discriminate.
  - intro Heq. rewrite Heq, bytes_eqb_refl in Hm. discriminate.
Qed.
Print Assumptions classify_classic_never_framed.

Lemma classify_nonce_length :
  forall srv d n v, classify srv d = Ok (n, v) ->
    length n = (match v with Google => 64 | RfcDraft13 => 32 end)%nat
    /\ (1024 <= length d <= 1500)%nat.
Proof.
  intros srv d n v H. apply classify_ok_wellformed in H.
  split; [|eapply wellformed_length; exact H].
  apply wellformed_inv in H. destruct H as [[_ H]|[_ H]].
  - apply wf_rfc_inv in H. destruct H as [Hv (payload & m & ver & _ & _ & _ & _ & _ & _ & Hl)].
    subst v. exact Hl.
  - apply wf_classic_inv in H. destruct H as [Hv Hl]. subst v. exact Hl.
Qed.
Print Assumptions classify_nonce_length.
