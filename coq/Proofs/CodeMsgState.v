(* CodeMsgState.v — RtMessage::add_field as translated with the state kept on BOTH outcomes: what a caller
   that goes on after a refused call is left with. *)
Require Import RV.Model.Bytes RV.Gen.Tables RV.Model.Tag RV.Model.Message RV.Model.GenSupport RV.Gen.Code.
From Coq Require Import NArith List.
Import ListNotations.

Theorem gen_add_field_state : forall tags values t v,
  gen_add_field_st tags values t v
  = Ok (match last_opt tags with
        | Some l => if tag_le t l then (Err (TagNotStrictlyIncreasing t), (tags, values))
                    else (Ok tt, (tags ++ [t], values ++ [v]))
        | None => (Ok tt, (tags ++ [t], values ++ [v]))
        end).
Proof.
  intros tags values t v. unfold gen_add_field_st.
  destruct (last_opt tags) as [l|]; [|reflexivity]. destruct (tag_le t l); reflexivity.
Qed.

(* a refused add_field leaves tags and values exactly as they were; an accepted one appends exactly one tag
   and one value *)
Corollary gen_add_field_refused_changes_nothing : forall tags values t v e st,
  gen_add_field_st tags values t v = Ok (Err e, st) -> st = (tags, values).
Proof.
  intros tags values t v e st H. rewrite gen_add_field_state in H.
  destruct (last_opt tags) as [l|]; [destruct (tag_le t l)|]; inversion H; reflexivity.
Qed.

Corollary gen_add_field_accepted_appends : forall tags values t v st,
  gen_add_field_st tags values t v = Ok (Ok tt, st) -> st = (tags ++ [t], values ++ [v]).
Proof.
  intros tags values t v st H. rewrite gen_add_field_state in H.
  destruct (last_opt tags) as [l|]; [destruct (tag_le t l)|]; inversion H; reflexivity.
Qed.
