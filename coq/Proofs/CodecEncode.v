(* CodecEncode.v — encode side of C05/C06: framing, display totality, canonical encoding,
   reference decoding of the canonical encoding, round trip. *)
Require Import RV.Model.Bytes RV.Gen.Tables RV.Model.Tag RV.Model.Message RV.Spec.RefCodec.
Require Import RV.Spec.CodecGoals RV.Proofs.TagFacts RV.Proofs.EncFacts.
From Coq Require Import ZArith Lia ZifyN ZifyBool ZifyNat.
Local Open Scope N_scope.

Ltac nlia := unfold lenN, two32 in *; lia.

(* ---------- framing ---------- *)

Lemma framed : goal_framed.
Proof.
  unfold goal_framed. intros m e H. unfold encode_framed. rewrite H. reflexivity.
Qed.
Print Assumptions framed.

(* ---------- display ---------- *)

Lemma display_fuel : goal_display_fuel.
Proof.
  unfold goal_display_fuel. intros m indent fuel. revert indent m.
  induction fuel as [|f IHf]; intros indent m Hpos Hfuel.
  - exfalso. lia.
  - cbn [to_string_f].
    destruct (indent =? 0)%nat eqn:E0.
    { apply Nat.eqb_eq in E0. exfalso. lia. }
    match goal with
    | |- context [obind (?F m)] =>
        assert (Hfields : forall l, exists b, F l = Ok b)
    end.
    { induction l as [|[t v] r IHr].
      - eexists. reflexivity.
      - destruct IHr as [br Hbr].
        destruct (tag_nested t && (indent <? MAX_DISPLAY_DEPTH)%nat) eqn:En.
        + destruct (ok_opt (from_bytes v)) as [nm|] eqn:Eo.
          * apply andb_true_iff in En. destruct En as [_ Hlt].
            apply Nat.ltb_lt in Hlt.
            destruct (IHf (S indent) nm) as [s Hs]; [lia | unfold MAX_DISPLAY_DEPTH in *; lia |].
            rewrite Hbr. rewrite Hs. cbn [obind]. eexists. reflexivity.
          * rewrite Hbr. cbn [obind]. eexists. reflexivity.
        + rewrite Hbr. cbn [obind]. eexists. reflexivity. }
    destruct (Hfields m) as [b Hb]. rewrite Hb. cbn [obind]. eexists. reflexivity.
Qed.
Print Assumptions display_fuel.

Lemma display_total : goal_display_total.
Proof.
  unfold goal_display_total, to_string. intro m.
  apply display_fuel; unfold MAX_DISPLAY_DEPTH; lia.
Qed.
Print Assumptions display_total.

(* ---------- encode produces the canonical encoding ---------- *)

Lemma enc_offsets_canon : forall r s,
  N.of_nat (s + sum_lengths r) < two32 -> enc_offsets s r = canon_offsets s (map snd r).
Proof.
  induction r as [|[t v] r IH]; intros s H; [reflexivity|].
  cbn [enc_offsets canon_offsets map snd sum_lengths] in *.
  rewrite enc_as_u32_small by lia. f_equal. apply IH.
  rewrite <- Nat.add_assoc. exact H.
Qed.

Lemma enc_tags_concat : forall m, enc_tags m = concat (map (fun tv => tag_wire (fst tv)) m).
Proof. induction m as [|[t v] r IH]; [reflexivity|]. cbn [enc_tags map concat fst]. rewrite IH. reflexivity. Qed.

Lemma enc_values_concat : forall m, enc_values m = concat (map snd m).
Proof. induction m as [|[t v] r IH]; [reflexivity|]. cbn [enc_values map concat snd]. rewrite IH. reflexivity. Qed.

Lemma enc_offsets_length : forall r s, length (enc_offsets s r) = (4 * length r)%nat.
Proof.
  induction r as [|[t v] r IH]; intro s; [reflexivity|].
  cbn [enc_offsets length]. rewrite app_length, IH, enc_u32le_length. lia.
Qed.

Lemma enc_tags_length : forall m, length (enc_tags m) = (4 * length m)%nat.
Proof.
  induction m as [|[t v] r IH]; [reflexivity|].
  cbn [enc_tags length]. rewrite app_length, IH, tag_wire_length. lia.
Qed.

Lemma enc_values_length : forall m, length (enc_values m) = sum_lengths m.
Proof.
  induction m as [|[t v] r IH]; [reflexivity|].
  cbn [enc_values sum_lengths]. rewrite app_length, IH. reflexivity.
Qed.

Lemma encoded_size_lower : forall m, (4 + 4 * length m + sum_lengths m <= encoded_size m)%nat.
Proof. intro m. unfold encoded_size. destruct (length m <? 2)%nat; lia. Qed.

Lemma encode_canon : forall m, N.of_nat (encoded_size m) < two32 -> encode m = Ok (canon m).
Proof.
  intros m Hsz.
  pose proof (encoded_size_lower m) as Hlow.
  assert (Hn : as_u32 (N.of_nat (length m)) = lenN m).
  { apply enc_as_u32_small. nlia. }
  unfold encode. rewrite Hn.
  destruct m as [|[t0 v0] r].
  - reflexivity.
  - assert (Hoffs : (if (1 <? length ((t0, v0) :: r))%nat
                     then Ok (enc_offsets (length v0) r) else Ok [])
                    = (Ok (enc_offsets (length v0) r) : res bytes)).
    { destruct r; reflexivity. }
    rewrite Hoffs. cbn [obind].
    assert (Hlen : (length (u32le (lenN ((t0, v0) :: r)) ++ enc_offsets (length v0) r
                     ++ enc_tags ((t0, v0) :: r) ++ enc_values ((t0, v0) :: r))
                    =? encoded_size ((t0, v0) :: r))%nat = true).
    { apply Nat.eqb_eq. rewrite !app_length, enc_u32le_length, enc_offsets_length,
        enc_tags_length, enc_values_length.
      unfold encoded_size. cbn [length]. destruct r; cbn [length Nat.ltb Nat.leb]; lia. }
    rewrite Hlen. f_equal. unfold canon.
    rewrite enc_tags_concat, enc_values_concat.
    cbn [map snd]. rewrite enc_offsets_canon; [reflexivity|].
    cbn [sum_lengths] in Hlow. nlia.
Qed.

Lemma encode_built : forall m, Built m -> N.of_nat (encoded_size m) < two32 -> encode m = Ok (canon m).
Proof. intros m _ H. apply encode_canon. exact H. Qed.
Print Assumptions encode_built.

(* ---------- the reference decoder on a well laid out byte string ---------- *)

Ltac Zify.zify_post_hook ::= Z.div_mod_to_equations.

Lemma map_opt_tag_of_num : forall tags, map_opt tag_of_num (map tag_num tags) = Some tags.
Proof.
  induction tags as [|t r IH]; [reflexivity|].
  cbn [map map_opt]. rewrite tag_of_num_num, IH. reflexivity.
Qed.

Lemma Forall_tag_wire_len : forall tags, Forall (fun w : bytes => length w = 4%nat) (map tag_wire tags).
Proof. induction tags; constructor; auto using tag_wire_length. Qed.

Lemma ref_decode_layout : forall (tags : list tag) (offs : list N) (payload : bytes),
  tags <> [] ->
  length offs = (length tags - 1)%nat ->
  lenN tags < two32 ->
  Forall (fun x => x < two32) offs ->
  (length payload mod 4 = 0)%nat ->
  ref_decode (u32le (lenN tags) ++ concat (map u32le offs) ++ concat (map tag_wire tags) ++ payload)
  = if strictly_ascending (map tag_num tags)
       && forallb (fun o => o mod 4 =? 0) offs
       && non_decreasing offs
       && forallb (fun o => o <=? lenN payload) offs
    then Some (combine tags (cuts payload 0 (map N.to_nat offs))) else None.
Proof.
  intros tags offs payload Hne Hlo Hk Hoffs Hpay.
  assert (Hk1 : (1 <= length tags)%nat).
  { destruct tags; [congruence | cbn [length]; lia]. }
  remember (u32le (lenN tags) ++ concat (map u32le offs) ++ concat (map tag_wire tags) ++ payload)
    as bs eqn:Ebs.
  assert (Hlen : length bs = (8 * length tags + length payload)%nat).
  { subst bs. rewrite !app_length, enc_u32le_length.
    rewrite (enc_concat_words_length _ (enc_Forall_u32le_len offs)).
    rewrite (enc_concat_words_length _ (Forall_tag_wire_len tags)).
    rewrite !map_length. lia. }
  assert (Hw0 : word_at bs 0 = lenN tags).
  { subst bs. unfold word_at. cbn [Nat.mul skipn]. apply enc_rd32_u32le_app. exact Hk. }
  assert (Hwo : words_from bs 1 (length tags - 1) = offs).
  { subst bs. rewrite <- Hlo, <- (map_length u32le offs).
    rewrite enc_words_from_concat.
    - apply enc_map_rd32_u32le. exact Hoffs.
    - reflexivity.
    - apply enc_Forall_u32le_len. }
  assert (Hwt : words_from bs (length tags) (length tags) = map tag_num tags).
  { subst bs. rewrite (app_assoc (u32le _)).
    rewrite <- (map_length tag_wire tags) at 2.
    rewrite enc_words_from_concat.
    - rewrite map_map. reflexivity.
    - rewrite app_length, enc_u32le_length.
      rewrite (enc_concat_words_length _ (enc_Forall_u32le_len offs)).
      rewrite map_length. lia.
    - apply Forall_tag_wire_len. }
  assert (Hsk : skipn (8 * length tags) bs = payload).
  { subst bs. rewrite !app_assoc. apply enc_skipn_app_exact.
    rewrite !app_length, enc_u32le_length.
    rewrite (enc_concat_words_length _ (enc_Forall_u32le_len offs)).
    rewrite (enc_concat_words_length _ (Forall_tag_wire_len tags)).
    rewrite !map_length. lia. }
  clear Ebs.
  unfold ref_decode. cbv zeta.
  assert (H1 : (length bs <? 4)%nat = false) by (apply Nat.ltb_ge; lia).
  rewrite H1.
  assert (H2 : (length bs mod 4 =? 0)%nat = true) by (apply Nat.eqb_eq; lia).
  rewrite H2. cbn [negb].
  rewrite Hw0.
  assert (H3 : (lenN tags =? 0) = false) by (apply N.eqb_neq; nlia).
  rewrite H3.
  assert (H4 : (lenN bs <? 8 * lenN tags) = false) by (apply N.ltb_ge; nlia).
  rewrite H4.
  assert (H5 : N.to_nat (lenN tags) = length tags) by (unfold lenN; apply Nat2N.id).
  rewrite H5, Hwo, Hwt, Hsk, map_opt_tag_of_num.
  reflexivity.
Qed.

(* ---------- API-built messages have strictly ascending tags ---------- *)

Lemma sa_snoc : forall l y x,
  strictly_ascending (l ++ [y]) = true -> y < x ->
  strictly_ascending ((l ++ [y]) ++ [x]) = true.
Proof.
  induction l as [|a l IH]; intros y x Hsa Hyx.
  - cbn [app strictly_ascending]. apply andb_true_iff. split; [apply N.ltb_lt; exact Hyx | reflexivity].
  - destruct l as [|b l].
    + cbn [app strictly_ascending] in *. apply andb_true_iff in Hsa. destruct Hsa as [Hab _].
      rewrite Hab. cbn [andb]. apply andb_true_iff. split; [apply N.ltb_lt; exact Hyx | reflexivity].
    + change (strictly_ascending (a :: (b :: l ++ [y]) ++ [x]) = true).
      change (strictly_ascending (a :: (b :: l ++ [y])) = true) in Hsa.
      cbn [app strictly_ascending] in Hsa |- *.
      apply andb_true_iff in Hsa. destruct Hsa as [Hab Hrest].
      rewrite Hab. cbn [andb]. apply (IH y x); assumption.
Qed.

Definition tag_nums (m : msg) : list N := map (fun tv => tag_num (fst tv)) m.

Lemma Built_ascending : forall m, Built m -> strictly_ascending (tag_nums m) = true.
Proof.
  induction 1 as [|m t v m' HB IH Hadd]; [reflexivity|].
  unfold add_field, last_tag in Hadd.
  destruct (rev m) as [|[lt lv] rm] eqn:Er.
  - apply (f_equal (@rev _)) in Er. rewrite rev_involutive in Er. cbn [rev] in Er.
    subst m. inversion Hadd; subst m'. reflexivity.
  - apply (f_equal (@rev _)) in Er. rewrite rev_involutive in Er. cbn [rev] in Er.
    destruct (tag_le t lt) eqn:Ele; [discriminate Hadd|].
    inversion Hadd; subst m'. subst m.
    rewrite tag_le_numeric in Ele. apply N.leb_gt in Ele.
    unfold tag_nums in *. rewrite !map_app in *. cbn [map fst] in *.
    apply sa_snoc; assumption.
Qed.

(* ---------- partial sums: aligned, monotone, bounded ---------- *)

Lemma psums_aligned : forall vs s,
  Forall (fun v : bytes => (length v mod 4 = 0)%nat) vs -> (s mod 4 = 0)%nat ->
  forallb (fun o => o mod 4 =? 0) (map N.of_nat (enc_psums s vs)) = true.
Proof.
  induction vs as [|v vs IH]; intros s Hvs Hs; [reflexivity|].
  inversion Hvs as [|v' vs' Hv Hvs']; subst v' vs'.
  cbn [enc_psums map forallb]. apply andb_true_iff. split.
  - apply N.eqb_eq. lia.
  - apply IH; [exact Hvs' | lia].
Qed.

Lemma psums_nondecreasing : forall vs s,
  non_decreasing (map N.of_nat (enc_psums s vs)) = true.
Proof.
  induction vs as [|v vs IH]; intro s; [reflexivity|].
  destruct vs as [|v1 vs]; [reflexivity|].
  specialize (IH (s + length v)%nat).
  cbn [enc_psums map non_decreasing] in IH |- *.
  apply andb_true_iff. split; [apply N.leb_le; lia | exact IH].
Qed.

Lemma psums_bounded : forall vs s B,
  (s + length (concat vs) <= B)%nat ->
  Forall (fun o => o <= N.of_nat B) (map N.of_nat (enc_psums s vs)).
Proof.
  induction vs as [|v vs IH]; intros s B HB; [constructor|].
  cbn [enc_psums map concat] in *. rewrite app_length in HB. constructor.
  - lia.
  - apply IH. lia.
Qed.

Lemma sum_lengths_concat : forall m, sum_lengths m = length (concat (map snd m)).
Proof.
  induction m as [|[t v] r IH]; [reflexivity|].
  cbn [sum_lengths map snd concat]. rewrite app_length, IH. reflexivity.
Qed.

Lemma aligned_sum : forall m, aligned_values m -> (sum_lengths m mod 4 = 0)%nat.
Proof.
  induction 1 as [|[t v] r Hv Hr IH]; [reflexivity|].
  cbn [sum_lengths snd] in *. lia.
Qed.

Lemma aligned_Forall_snd : forall m, aligned_values m ->
  Forall (fun v : bytes => (length v mod 4 = 0)%nat) (map snd m).
Proof. induction 1; constructor; auto. Qed.

(* ---------- the reference decoder inverts the canonical encoding ---------- *)

Lemma ref_decode_canon : forall m, Built m -> aligned_values m ->
  N.of_nat (encoded_size m) < two32 -> ref_decode (canon m) = Some m.
Proof.
  intros m HB Hal Hsz.
  pose proof (encoded_size_lower m) as Hlow.
  pose proof (Built_ascending m HB) as Hasc.
  pose proof (aligned_sum m Hal) as Hsum.
  destruct m as [|[t0 v0] r]; [reflexivity|].
  set (m := (t0, v0) :: r) in *.
  set (ps := enc_psums (length v0) (map snd r)).
  assert (Hcanon : canon m = u32le (lenN (map fst m)) ++ concat (map u32le (map N.of_nat ps))
                           ++ concat (map tag_wire (map fst m)) ++ concat (map snd m)).
  { unfold canon, m, ps. cbn [map snd]. rewrite enc_canon_offsets_psums.
    unfold lenN. cbn [length]. rewrite map_length, (map_map fst tag_wire). reflexivity. }
  rewrite Hcanon.
  assert (Hr : (length v0 + length (concat (map snd r)) = sum_lengths m)%nat).
  { unfold m. cbn [sum_lengths]. rewrite sum_lengths_concat. reflexivity. }
  assert (Hal0 : (length v0 mod 4 = 0)%nat /\ Forall (fun v : bytes => (length v mod 4 = 0)%nat) (map snd r)).
  { unfold m in Hal. inversion Hal as [|x l Hx Hl]; subst x l. split; [exact Hx|].
    apply aligned_Forall_snd. exact Hl. }
  destruct Hal0 as [Hv0 Hrest].
  rewrite ref_decode_layout.
  - unfold ps. rewrite (map_map fst tag_num). fold (tag_nums m). rewrite Hasc.
    rewrite psums_aligned by assumption.
    rewrite psums_nondecreasing.
    assert (Hb : forallb (fun o => o <=? lenN (concat (map snd m))) (map N.of_nat (enc_psums (length v0) (map snd r))) = true).
    { apply forallb_forall. intros x Hx.
      pose proof (psums_bounded (map snd r) (length v0) (sum_lengths m)) as Hbd.
      rewrite Forall_forall in Hbd. apply N.leb_le.
      unfold lenN. rewrite <- sum_lengths_concat. apply Hbd; [lia | exact Hx]. }
    rewrite Hb. cbn [andb].
    rewrite enc_map_to_nat_of_nat.
    change (map snd m) with (v0 :: map snd r).
    rewrite enc_cuts_concat.
    change (v0 :: map snd r) with (map snd m).
    rewrite enc_combine_fst_snd. reflexivity.
  - discriminate.
  - unfold ps. rewrite map_length, enc_psums_length, !map_length. unfold m. cbn [length]. lia.
  - unfold lenN. rewrite map_length. nlia.
  - pose proof (psums_bounded (map snd r) (length v0) (sum_lengths m)) as Hbd.
    rewrite Forall_forall in Hbd |- *. intros x Hx.
    specialize (Hbd ltac:(lia) x Hx). nlia.
  - rewrite <- sum_lengths_concat. exact Hsum.
Qed.
Print Assumptions ref_decode_canon.

(* ---------- round trip, given agreement of the decoder with the reference ---------- *)

Lemma canon_length : forall m, length (canon m) = encoded_size m.
Proof.
  intro m. unfold canon, encoded_size. rewrite !app_length, enc_u32le_length.
  rewrite <- enc_tags_concat, enc_tags_length.
  rewrite <- sum_lengths_concat.
  destruct m as [|[t0 v0] r]; [reflexivity|].
  cbn [map snd length]. rewrite enc_canon_offsets_psums.
  rewrite (enc_concat_words_length _ (enc_Forall_u32le_len _)).
  rewrite !map_length, enc_psums_length, map_length.
  destruct r; cbn [length Nat.ltb Nat.leb]; lia.
Qed.

Lemma roundtrip_from_agrees : goal_decode_agrees -> goal_roundtrip.
Proof.
  unfold goal_decode_agrees, goal_roundtrip. intros Hagree m HB Hal Hsz. split.
  - apply encode_built; assumption.
  - pose proof (ref_decode_canon m HB Hal Hsz) as Hrd.
    rewrite <- Hagree in Hrd.
    + destruct (from_bytes (canon m)) as [a|e|s]; cbn [ok_opt] in Hrd; try discriminate Hrd.
      inversion Hrd. reflexivity.
    + unfold lenN. rewrite canon_length. exact Hsz.
Qed.
Print Assumptions roundtrip_from_agrees.
