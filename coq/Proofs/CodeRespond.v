(* CodeRespond.v — src/responder.rs (send_responses, add_*_request, reset) and Server::process_events as
   translated on this run, against Model/Server.v *)
Require Import RV.Model.Bytes RV.Gen.Tables RV.Model.Tag RV.Model.Message RV.Model.Merkle RV.Model.Request
        RV.Model.Keys RV.Model.Server RV.Model.GenSupport RV.Gen.Code.
Require Import RV.Proofs.BytesFacts RV.Proofs.CodeLib.
From Coq Require Import ZArith Lia ZifyN ZifyBool ZifyNat List.
Import ListNotations.
Local Open Scope N_scope.
Require Import RV.Proofs.CodeCollect.

(* ------------------------------------------------------------------ responder.rs *)
Require Import RV.Proofs.CodeOnline RV.Proofs.CodeResp.

Lemma gen_responder_add_classic_model : forall H r nonce src,
  omap (fun '(t, rq) => mkresp (r_version r) (r_online_seed r) (r_cert_bytes r) rq t)
       (gen_add_classic_request H (r_merkle r) (r_requests r) nonce src)
  = lift (responder_add H r nonce nonce src).
Proof.
  intros. unfold gen_add_classic_request, responder_add.
  destruct (push_leaf H (r_merkle r) nonce) as [t| |]; reflexivity.
Qed.

Lemma gen_responder_add_ietf_model : forall H r data nonce src,
  omap (fun '(t, rq) => mkresp (r_version r) (r_online_seed r) (r_cert_bytes r) rq t)
       (gen_add_ietf_request H (r_merkle r) (r_requests r) data nonce src)
  = lift (responder_add H r data nonce src).
Proof.
  intros. unfold gen_add_ietf_request, responder_add.
  destruct (push_leaf H (r_merkle r) data) as [t| |]; reflexivity.
Qed.

Lemma gen_responder_reset_model : forall r,
  omap (fun '(t, rq) => mkresp (r_version r) (r_online_seed r) (r_cert_bytes r) rq t)
       (gen_responder_reset (r_merkle r) (r_requests r))
  = Ok (responder_reset r).
Proof. reflexivity. Qed.

(* ---- send_responses ---- *)

Lemma ks_grease : forall g (r : msg),
  (let '(c, g') := grease_should g in
   if c then obind (grease_apply g' r) (fun m => Ok (m, g')) else Ok (r, g'))
  = (let '(c, cs) := match g_coins g with [] => (NoFault, []) | c :: cs => (c, cs) end in
     obind (grease (g_fault g) c r) (fun m =>
       Ok (m, if g_fault g =? 0 then g else mkg (g_fault g) c cs))).
Proof.
  intros g r. unfold grease_should, grease.
  destruct (g_fault g =? 0) eqn:Ef.
  - destruct (g_coins g) as [|c cs]; reflexivity.
  - destruct (g_coins g) as [|c cs]; [reflexivity|].
    destruct c; cbn [grease_apply g_cur]; try reflexivity.
Qed.

Lemma ks_as_u32_idem : forall n, as_u32 (as_u32 n) = as_u32 n.
Proof. intros. unfold as_u32, two32. rewrite N.mod_mod by discriminate. reflexivity. Qed.

Lemma ks_make_response : forall srep cert paths i nonce,
  ok_opt (gen_make_response tt srep cert paths (as_u32 i) nonce)
  = ok_opt (make_response srep cert paths i nonce).
Proof.
  intros. rewrite gen_make_response_model. unfold make_response. rewrite ks_as_u32_idem. reflexivity.
Qed.

Section Respond.
  Variable H : bytes -> bytes.
  Variable cfg : config.
  Variable v : version.
  Variable srep : msg.
  Variable cert : bytes.
  Variable t : tree.

  Definition proj_g (x : gstate * list emission * list sev) : list coin * list emission * list sev :=
    let '(g, s, st) := x in (g_coins g, s, st).

  Definition nonces_ok (reqs : list (bytes * addr)) : Prop :=
    Forall (fun na : bytes * addr => (4 <= length (fst na))%nat) reqs.

  Lemma ks_respond_loop : forall (F : _ -> N * (bytes * addr) -> _),
    (forall s x, F s x =
      (let '(g0, sock0, st0) := s in
       let '(idx, (nonce, src)) := x in
       obind (lift (get_paths t (N.to_nat idx))) (fun paths =>
       obind (obind (gen_make_response tt srep cert paths (as_u32 idx) nonce) (fun r =>
              let '(c, g1) := grease_should g0 in
              if c then obind (grease_apply g1 r) (fun m => Ok (m, g1)) else Ok (r, g1)))
             (fun '(resp_msg, g1) =>
       obind (match v with
              | Google => obind (unwrap_p site_gen (encode resp_msg)) (fun u => Ok u)
              | RfcDraft13 => obind (unwrap_p site_gen (encode_framed resp_msg)) (fun u => Ok u)
              end) (fun resp_bytes =>
       obind (let '(sc, sock1) := sock_send (send_fails cfg) sock0 resp_bytes src in
              match sc with
              | Ok n => Ok (sock1, n, true)
              | Err _ => Ok (sock1, 0, false)
              | Panic sp => Panic sp
              end) (fun '(sock1, bytes_sent, okf) =>
       obind (if okf
              then obind (match v with
                          | Google => Ok (st0 ++ [SClassicResponse src bytes_sent])
                          | RfcDraft13 => Ok (st0 ++ [SRfcResponse src bytes_sent])
                          end) (fun st1 => Ok st1)
              else Ok (st0 ++ [SFailedSend src])) (fun st1 =>
       Ok (g1, sock1, st1)))))))) ->
    forall reqs idx g sock st,
    nonces_ok reqs -> g_fault g = fault_pct cfg ->
    ok_opt (omap proj_g (fold_res F (combine (map N.of_nat (seq idx (length reqs))) reqs) (g, sock, st)))
    = obo (ok_opt (respond_each cfg v srep cert t reqs idx (g_coins g))) (fun bo =>
        Some (bo_coins bo, sock ++ bo_sent bo, st ++ bo_stats bo)).
  Proof.
    intros F HF. induction reqs as [|[nonce src] reqs IH]; intros idx g sock st Hn Hg.
    - cbn. rewrite !app_nil_r. reflexivity.
    - cbn [length seq map combine fold_res respond_each]. rewrite HF.
      inversion Hn as [|x l Hn0 Hn1]; subst x l. cbn [fst] in Hn0.
      rewrite Nat2N.id.
      destruct (lift (get_paths t idx)) as [paths| |]; cbn [obind omap ok_opt obo]; try reflexivity.
      pose proof (ks_make_response srep cert paths (N.of_nat idx) nonce) as Hmr.
      destruct (gen_make_response tt srep cert paths (as_u32 (N.of_nat idx)) nonce) as [r| |];
        destruct (make_response srep cert paths (N.of_nat idx) nonce) as [r'| |];
        cbn [ok_opt] in Hmr; try discriminate Hmr; cbn [obind omap ok_opt obo]; try reflexivity.
      injection Hmr as <-.
      rewrite ks_grease. rewrite Hg.
      set (pc := match g_coins g with [] => (NoFault, []) | c :: cs => (c, cs) end).
      destruct pc as [c cs] eqn:Epc.
      destruct (grease (fault_pct cfg) c r) as [resp_msg| |]; cbn [obind omap ok_opt obo]; try reflexivity.
      set (g1 := if fault_pct cfg =? 0 then g else mkg (fault_pct cfg) c cs).
      assert (Hg1 : g_fault g1 = fault_pct cfg) by (subst g1; destruct (fault_pct cfg =? 0); [exact Hg|reflexivity]).
      assert (Hc1 : g_coins g1 = if fault_pct cfg =? 0 then g_coins g else cs)
        by (subst g1; destruct (fault_pct cfg =? 0); reflexivity).
      assert (Hslice : slice (E:=error) site_log_nonce nonce 0 4 = Ok (firstn 4 nonce)).
      { unfold slice. replace ((4 <? 0)%nat || (length nonce <? 4)%nat) with false by lia. reflexivity. }
      rewrite Hslice. clear Hslice.
      set (enc := match v with Google => encode resp_msg | RfcDraft13 => encode_framed resp_msg end).
      assert (Henc : (match v with
                      | Google => obind (unwrap_p site_gen (encode resp_msg)) (fun u => Ok u)
                      | RfcDraft13 => obind (unwrap_p site_gen (encode_framed resp_msg)) (fun u => Ok u)
                      end) = unwrap_p site_gen enc).
      { subst enc. destruct v; [destruct (encode resp_msg)|destruct (encode_framed resp_msg)]; reflexivity. }
      rewrite Henc. clear Henc.
      destruct enc as [resp_bytes| |]; cbn [unwrap unwrap_p obind omap ok_opt obo]; try reflexivity.
      unfold sock_send.
      destruct (send_fails cfg src) eqn:Esf; cbn [obind].
      + (* the send is refused *)
        fold (proj_g). rewrite (IH (S idx) g1 sock (st ++ [SFailedSend src]) Hn1 Hg1). rewrite Hc1.
        destruct (lvl_debug <=? log_level cfg)%nat; cbn [obind];
          destruct (respond_each cfg v srep cert t reqs (S idx) _) as [bo| |]; cbn [obind ok_opt obo];
          try reflexivity; cbn [bo_coins bo_sent bo_stats app]; rewrite <- app_assoc; reflexivity.
      + destruct v; cbn [obind].
        * rewrite (IH (S idx) g1 _ (st ++ [SClassicResponse src (lenN resp_bytes)]) Hn1 Hg1). rewrite Hc1.
          destruct (lvl_debug <=? log_level cfg)%nat; cbn [obind];
            destruct (respond_each cfg Google srep cert t reqs (S idx) _) as [bo| |]; cbn [obind ok_opt obo];
            try reflexivity; cbn [bo_coins bo_sent bo_stats app]; rewrite <- !app_assoc; reflexivity.
        * rewrite (IH (S idx) g1 _ (st ++ [SRfcResponse src (lenN resp_bytes)]) Hn1 Hg1). rewrite Hc1.
          destruct (lvl_debug <=? log_level cfg)%nat; cbn [obind];
            destruct (respond_each cfg RfcDraft13 srep cert t reqs (S idx) _) as [bo| |]; cbn [obind ok_opt obo];
            try reflexivity; cbn [bo_coins bo_sent bo_stats app]; rewrite <- !app_assoc; reflexivity.
  Qed.
End Respond.

(* Responder::send_responses as translated from src/responder.rs: same Merkle tree afterwards, the
   same datagrams handed to the socket in the same order, the same statistics events, the same PRNG
   decisions consumed as the model's send_responses — or both fail. (The model additionally lists
   the debug log records, which the translation skips.) *)
Theorem gen_send_responses_model : forall H ed_sign cfg now r g sock st,
  nonces_ok (r_requests r) -> g_fault g = fault_pct cfg ->
  ok_opt (omap (fun '(t', g', s', st') => (t', g_coins g', s', st'))
     (gen_send_responses H ed_sign now (send_fails cfg) (r_version r) (r_online_seed r) (r_cert_bytes r)
        (r_requests r) (r_merkle r) g sock st))
  = obo (ok_opt (send_responses H ed_sign cfg r now (g_coins g))) (fun '(r', bo) =>
      Some (r_merkle r', bo_coins bo, sock ++ bo_sent bo, st ++ bo_stats bo)).
Proof.
  intros H ed_sign cfg now r g sock st Hn Hg. unfold gen_send_responses, send_responses.
  destruct (r_requests r) as [|rq0 rqs] eqn:Erq.
  - cbn. rewrite !app_nil_r. reflexivity.
  - rewrite <- Erq in *. cbv iota.
    destruct (lift (compute_root H (r_merkle r))) as [[t' root]| |]; cbn [obind omap ok_opt obo]; try reflexivity.
    pose proof (gen_make_srep_model ed_sign (r_online_seed r) (r_version r) now root) as Hs.
    destruct (gen_make_srep ed_sign (r_online_seed r) (r_version r) now root) as [srep| |];
      destruct (make_srep ed_sign (r_version r) (r_online_seed r) now root) as [srep'| |];
      cbn [ok_opt] in Hs; try discriminate Hs; cbn [obind omap ok_opt obo]; try reflexivity.
    injection Hs as <-. cbv zeta.
    match goal with |- ok_opt (omap _ (obind (fold_res ?F ?l ?s) _)) = _ =>
      pose proof (ks_respond_loop H cfg (r_version r) srep (r_cert_bytes r) t' F) as HL
    end.
    specialize (HL ltac:(body_eq)).
    specialize (HL (r_requests r) 0%nat g sock st Hn Hg).
    unfold enumerate_n.
    destruct (fold_res _ (combine (map N.of_nat (seq 0 (length (r_requests r)))) (r_requests r)) (g, sock, st))
      as [[[g' s'] st']| |]; cbn [omap ok_opt proj_g obind] in *;
      destruct (respond_each cfg (r_version r) srep (r_cert_bytes r) t' (r_requests r) 0 (g_coins g)) as [bo| |];
      cbn [obind ok_opt obo] in *; try discriminate HL; try reflexivity.
    injection HL as -> -> ->. reflexivity.
Qed.

Lemma gen_queueing_model : forall H r data nonce src,
  omap (fun '(t, rq) => mkresp (r_version r) (r_online_seed r) (r_cert_bytes r) rq t)
       (gen_add_ietf_request H (r_merkle r) (r_requests r) data nonce src)
  = lift (responder_add H r data nonce src)
  /\ omap (fun '(t, rq) => mkresp (r_version r) (r_online_seed r) (r_cert_bytes r) rq t)
       (gen_add_classic_request H (r_merkle r) (r_requests r) nonce src)
  = lift (responder_add H r nonce nonce src)
  /\ omap (fun '(t, rq) => mkresp (r_version r) (r_online_seed r) (r_cert_bytes r) rq t)
       (gen_responder_reset (r_merkle r) (r_requests r))
  = Ok (responder_reset r).
Proof.
  intros. split; [apply gen_responder_add_ietf_model|split; [apply gen_responder_add_classic_model|apply gen_responder_reset_model]].
Qed.

(* ------------------------------------------------------------------ process_events: the drain loop *)
Require Import RV.Spec.RefVerify RV.Spec.ServerGoals RV.Proofs.RequestFacts RV.Proofs.ServerFacts.

Lemma ks_add_nonces : forall H r leaf nonce src r', (4 <= length nonce)%nat -> nonces_ok (r_requests r) ->
  lift (responder_add H r leaf nonce src) = Ok r' -> nonces_ok (r_requests r').
Proof.
  intros H r leaf nonce src r' Hn Hr. unfold responder_add.
  destruct (push_leaf H (r_merkle r) leaf) as [t| |]; cbn [obind lift]; try discriminate.
  intros Heq. injection Heq as <-. cbn [r_requests]. apply Forall_app. split; [exact Hr|].
  constructor; [exact Hn|constructor].
Qed.

Lemma ks_collect_nonces : forall H srv cfg ds ri rc i ri' rc' st lg,
  nonces_ok (r_requests ri) -> nonces_ok (r_requests rc) ->
  collect H srv cfg ri rc ds i = Ok (ri', rc', st, lg) ->
  nonces_ok (r_requests ri') /\ nonces_ok (r_requests rc').
Proof.
  intros H srv cfg. induction ds as [|[src d] ds IH]; intros ri rc i ri' rc' st lg Hi Hc Hcol.
  - cbn [collect] in Hcol. injection Hcol as <- <- _ _. split; assumption.
  - cbn [collect] in Hcol. destruct (classify_wellformed srv d) as [Hok _].
    destruct (classify srv d) as [[nonce ver]| |] eqn:Ecl; [| |discriminate Hcol].
    + cbn [ok_opt] in Hok. symmetry in Hok. apply sf_wellformed_nonce in Hok.
      assert (Hlen : (4 <= length nonce)%nat) by (destruct ver; cbn in Hok; lia).
      destruct ver.
      * destruct (lift (responder_add H rc nonce nonce src)) as [rc1| |] eqn:Ea; cbn [obind] in Hcol; try discriminate Hcol.
        pose proof (ks_add_nonces _ _ _ _ _ _ Hlen Hc Ea) as Hc1.
        destruct (collect H srv cfg ri rc1 ds (S i)) as [[[[ri2 rc2] st2] lg2]| |] eqn:E2; cbn [obind] in Hcol; try discriminate Hcol.
        injection Hcol as <- <- _ _. exact (IH _ _ _ _ _ _ _ Hi Hc1 E2).
      * destruct (lift (responder_add H ri d nonce src)) as [ri1| |] eqn:Ea; cbn [obind] in Hcol; try discriminate Hcol.
        pose proof (ks_add_nonces _ _ _ _ _ _ Hlen Hi Ea) as Hi1.
        destruct (collect H srv cfg ri1 rc ds (S i)) as [[[[ri2 rc2] st2] lg2]| |] eqn:E2; cbn [obind] in Hcol; try discriminate Hcol.
        injection Hcol as <- <- _ _. exact (IH _ _ _ _ _ _ _ Hi1 Hc E2).
    + destruct (collect H srv cfg ri rc ds (S i)) as [[[[ri2 rc2] st2] lg2]| |] eqn:E2; cbn [obind] in Hcol; try discriminate Hcol.
      injection Hcol as <- <- _ _. exact (IH _ _ _ _ _ _ _ Hi Hc E2).
Qed.

Lemma ks_send_same_fields : forall H ed_sign cfg r now coins r' bo,
  send_responses H ed_sign cfg r now coins = Ok (r', bo) ->
  r' = mkresp (r_version r) (r_online_seed r) (r_cert_bytes r) (r_requests r) (r_merkle r').
Proof.
  intros H ed_sign cfg r now coins r' bo. unfold send_responses.
  destruct (r_requests r) as [|x l] eqn:Er.
  - intros Heq. injection Heq as <- _. destruct r; cbn in *. subst. reflexivity.
  - rewrite <- Er.
    destruct (lift (compute_root H (r_merkle r))) as [[t' root]| |]; cbn [obind]; try discriminate.
    destruct (make_srep ed_sign (r_version r) (r_online_seed r) now root) as [srep| |]; cbn [obind]; try discriminate.
    destruct (respond_each cfg (r_version r) srep (r_cert_bytes r) t' (r_requests r) 0 coins) as [bo'| |]; cbn [obind]; try discriminate.
    intros Heq. injection Heq as <- _. reflexivity.
Qed.

Lemma ks_send_via : forall H ed_sign cfg now r sock st coins,
  nonces_ok (r_requests r) ->
  ok_opt (send_via H ed_sign cfg now r sock st coins)
  = obo (ok_opt (send_responses H ed_sign cfg r now coins)) (fun '(r', bo) =>
      Some (r', (fst sock, snd sock ++ bo_sent bo), st ++ bo_stats bo, bo_coins bo)).
Proof.
  intros H ed_sign cfg now r sock st coins Hn. unfold send_via.
  pose proof (gen_send_responses_model H ed_sign cfg now r (mkg (fault_pct cfg) NoFault coins) (snd sock) st Hn eq_refl) as Hm.
  cbn [g_coins] in Hm.
  destruct (gen_send_responses H ed_sign now (send_fails cfg) (r_version r) (r_online_seed r) (r_cert_bytes r)
              (r_requests r) (r_merkle r) (mkg (fault_pct cfg) NoFault coins) (snd sock) st)
    as [[[[t' g'] s'] st']| |]; cbn [omap ok_opt obind] in *;
    destruct (send_responses H ed_sign cfg r now coins) as [[r' bo]| |] eqn:Es; cbn [ok_opt obo] in *;
    try discriminate Hm; try reflexivity.
  injection Hm as -> -> -> ->. rewrite (ks_send_same_fields _ _ _ _ _ _ _ _ Es) at 2. reflexivity.
Qed.

Lemma ks_collect_via : forall H srv cfg n q sent buf ri rc st i,
  match collect H srv cfg ri rc (firstn n q) i with
  | Ok (ri', rc', sts, _) => exists buf1,
      collect_via H (N.of_nat n) (q, sent) buf srv ri rc st
      = Ok ((length q <? n)%nat, ((skipn n q, sent), buf1, ri', rc', st ++ sts))
  | Err e => collect_via H (N.of_nat n) (q, sent) buf srv ri rc st = Err e
  | Panic s => collect_via H (N.of_nat n) (q, sent) buf srv ri rc st = Panic s
  end.
Proof.
  intros H srv cfg n q sent buf ri rc st i.
  pose proof (gen_collect_requests_model H srv cfg n q buf ri rc st i) as Hm. unfold collect_via. cbn [fst snd].
  destruct (gen_collect_requests H (N.of_nat n) q buf srv ri rc st) as [[b [[[[q' b'] ri'] rc'] st']]| |];
    cbn [omap obind] in *;
    destruct (collect H srv cfg ri rc (firstn n q) i) as [[[[ri2 rc2] sts] lg]| |]; cbn [obind] in *;
    try discriminate Hm.
  - injection Hm as -> -> -> -> ->. exists b'. reflexivity.
  - injection Hm as ->. reflexivity.
  - injection Hm as ->. reflexivity.
Qed.

Lemma ks_none_bind : forall A B C (x : res A) (K : A -> res B) (f : B -> C),
  ok_opt x = None -> ok_opt (omap f (obind x K)) = None.
Proof. intros A B C [a| |] K f Hx; cbn in *; try discriminate; reflexivity. Qed.

Lemma ks_send_via_cases : forall H ed_sign cfg now r sock st coins,
  nonces_ok (r_requests r) ->
  match send_responses H ed_sign cfg r now coins with
  | Ok (r', bo) =>
      send_via H ed_sign cfg now r sock st coins
      = Ok (r', (fst sock, snd sock ++ bo_sent bo), st ++ bo_stats bo, bo_coins bo)
  | _ => ok_opt (send_via H ed_sign cfg now r sock st coins) = None
  end.
Proof.
  intros H ed_sign cfg now r sock st coins Hn.
  pose proof (ks_send_via H ed_sign cfg now r sock st coins Hn) as Hs.
  destruct (send_responses H ed_sign cfg r now coins) as [[r' bo]| |]; cbn [ok_opt obo] in Hs; try exact Hs.
  apply ks_ok_opt_some. exact Hs.
Qed.

Ltac kill_none Hs :=
  match type of Hs with ok_opt ?X = None => destruct X as [?a| |]; cbn in Hs; try discriminate Hs; reflexivity end.

Section Drain.
  Variable H : bytes -> bytes.
  Variable ed_sign : bytes -> bytes -> bytes.
  Variable cfg : config.
  Variable srv : bytes.
  Variable clk : nat -> clock.

  Definition dstate := (responder * responder * (list dgram * list emission) * bytes * list sev * list coin * nat)%type.

  Definition proj_d (x : dstate) : responder * responder * list emission * list sev :=
    let '(ri, rc, sock, _, st, _, _) := x in (ri, rc, snd sock, st).

  Lemma ks_reset_nonces : forall r, nonces_ok (r_requests (responder_reset r)).
  Proof. intros. constructor. Qed.

  Lemma ks_drain_loop : forall (B : dstate -> res (dstate * bool)),
    (forall s, B s =
      (let '(ri, rc, sock, buf, st, coins, k) := s in
       obind (collect_via H (N.of_nat (batch_size cfg)) sock buf srv (responder_reset ri) (responder_reset rc) st)
         (fun '(empty, (sock1, buf1, ri1, rc1, st1)) =>
       obind (send_via H ed_sign cfg (clk k) ri1 sock1 st1 coins) (fun '(ri2, sock2, st2, coins2) =>
       obind (obind (send_via H ed_sign cfg (clk k) rc1 sock2 st2 coins2)
                (fun '(r_sv, s_sv, st_sv, c_sv) => Ok (r_sv, s_sv, st_sv, c_sv, S k)))
             (fun '(rc2, sock3, st3, coins3, k') =>
       if empty then Ok ((ri2, rc2, sock3, buf1, st3, coins3, k'), true)
       else Ok ((ri2, rc2, sock3, buf1, st3, coins3, k'), false)))))) ->
    forall fuel ri rc q sent buf st coins k,
    ok_opt (omap proj_d (loop_fuel fuel B (ri, rc, (q, sent), buf, st, coins, k)))
    = obo (ok_opt (drain H ed_sign fuel (mksrv cfg srv ri rc) q clk k coins)) (fun '(s2, o) =>
        Some (s_ietf s2, s_classic s2, sent ++ so_sent o, st ++ so_stats o)).
  Proof.
    intros B HB. induction fuel as [|f IH]; intros ri rc q sent buf st coins k; [reflexivity|].
    cbn [loop_fuel drain]. rewrite HB. unfold one_batch. cbn [s_ietf s_classic s_cfg s_srv_value].
    pose proof (ks_collect_via H srv cfg (batch_size cfg) q sent buf (responder_reset ri) (responder_reset rc) st 0) as Hc.
    destruct (collect H srv cfg (responder_reset ri) (responder_reset rc) (firstn (batch_size cfg) q) 0)
      as [[[[ri1 rc1] sts] lg]| |] eqn:Ecol; cbn [obind].
    2:{ rewrite Hc. reflexivity. }
    2:{ rewrite Hc. reflexivity. }
    destruct Hc as [buf1 Hc]. rewrite Hc. cbn [obind].
    destruct (ks_collect_nonces _ _ _ _ _ _ _ _ _ _ _ (ks_reset_nonces ri) (ks_reset_nonces rc) Ecol) as [Hn1 Hn2].
    pose proof (ks_send_via_cases H ed_sign cfg (clk k) ri1 (skipn (batch_size cfg) q, sent) (st ++ sts) coins Hn1) as Hs1.
    destruct (send_responses H ed_sign cfg ri1 (clk k) coins) as [[ri2 bo1]| |]; cbn [ok_opt obo obind].
    2:{ kill_none Hs1. }
    2:{ kill_none Hs1. }
    rewrite Hs1. cbn [obind fst snd].
    pose proof (ks_send_via_cases H ed_sign cfg (clk k) rc1 (skipn (batch_size cfg) q, sent ++ bo_sent bo1)
                  ((st ++ sts) ++ bo_stats bo1) (bo_coins bo1) Hn2) as Hs2.
    destruct (send_responses H ed_sign cfg rc1 (clk k) (bo_coins bo1)) as [[rc2 bo2]| |]; cbn [ok_opt obo obind].
    2:{ kill_none Hs2. }
    2:{ kill_none Hs2. }
    rewrite Hs2. cbn [obind fst snd so_sent so_stats].
    destruct (length q <? batch_size cfg)%nat; cbn [obind ok_opt obo omap proj_d snd].
    - rewrite <- !app_assoc. reflexivity.
    - rewrite IH.
      destruct (drain H ed_sign f _ _ clk (S k) (bo_coins bo2)) as [[s2 o2]| |]; cbn [obind ok_opt obo]; try reflexivity.
      cbn [so_sent so_stats]. rewrite <- !app_assoc. reflexivity.
  Qed.
End Drain.

(* Server::process_events as translated from src/server.rs, for a wake-up with the UDP socket
   readable: reset both responders, collect at most batch_size requests, answer the IETF ones then
   the classic ones, repeat until a read found the socket empty — the model's drain, with the same
   datagrams sent in the same order and the same statistics events, or both fail. *)
Theorem gen_process_events_model : forall H ed_sign cfg clk on_health on_status srv ri rc q sent buf st coins k events,
  ok_opt (omap (fun '(sock, _, ri', rc', st', _, _) => (ri', rc', snd sock, st'))
     (gen_process_events H ed_sign cfg clk [EvMessage] on_health on_status (N.of_nat (batch_size cfg))
        (q, sent) buf srv ri rc st coins k events))
  = obo (ok_opt (drain H ed_sign (S (length q)) (mksrv cfg srv ri rc) q clk k coins)) (fun '(s2, o) =>
      Some (s_ietf s2, s_classic s2, sent ++ so_sent o, st ++ so_stats o)).
Proof.
  intros. unfold gen_process_events. cbv zeta. cbn [fold_res fst].
  match goal with |- context [loop_fuel _ ?B _] =>
    pose proof (ks_drain_loop H ed_sign cfg srv clk B) as HL
  end.
  specialize (HL ltac:(body_eq)).
  specialize (HL (S (length q)) ri rc q sent buf st coins k). unfold dstate in HL.
  match goal with |- context [loop_fuel ?f ?B ?s] => destruct (loop_fuel f B s) as [[[[[[[ri' rc'] sock'] buf'] st'] coins'] k']| |] end;
    cbn [obind omap ok_opt proj_d] in *; exact HL.
Qed.

(* a wake-up for the health-check listener or the statistics timer does not touch the responders
   or the UDP socket *)
Theorem gen_process_events_other : forall H ed_sign cfg clk on_health on_status bs srv ri rc sock buf st coins k events,
  gen_process_events H ed_sign cfg clk [EvHealthCheck] on_health on_status bs sock buf srv ri rc st coins k events
  = Ok (sock, buf, ri, rc, on_health st, coins, k)
  /\ gen_process_events H ed_sign cfg clk [EvStatusUpdate] on_health on_status bs sock buf srv ri rc st coins k events
  = Ok (sock, buf, ri, rc, on_status st, coins, k).
Proof. intros. split; reflexivity. Qed.

(* ------------------------------------------------------------------ C09 of the code as written *)
Require Import RV.Spec.MerkleGoals.
(* With fault injection off and sends succeeding, one wake-up of the TRANSLATED process_events on any
   server state reachable from Server::new hands the socket exactly the specified datagrams — one per
   accepted request, in order, each to its sender — and records exactly the specified events *)
Theorem gen_process_events_spec : forall H ed_pk ed_sign, HashLen H -> PkLen ed_pk -> SigLen ed_sign ->
  forall cfg lt oi oc s queue clk coins on_health on_status sent buf st events,
    SInv H ed_pk ed_sign cfg lt oi oc s -> fault_pct cfg = 0 -> sends_ok cfg ->
    (1 <= batch_size cfg)%nat -> (batch_size cfg <= 255)%nat ->
    let srv := ltk_srv_value H ed_pk lt in
    let n := batch_size cfg in
    exists ri' rc',
      ok_opt (omap (fun '(sock, _, ri', rc', st', _, _) => (ri', rc', snd sock, st'))
         (gen_process_events H ed_sign cfg clk [EvMessage] on_health on_status (N.of_nat n)
            (queue, sent) buf srv (s_ietf s) (s_classic s) st coins 0%nat events))
      = Some (ri', rc',
              sent ++ spec_drain_sent H ed_pk ed_sign (S (length queue)) n srv lt oi oc clk 0 queue,
              st ++ spec_drain_stats H ed_pk ed_sign (S (length queue)) n srv lt oi oc clk 0 queue).
Proof.
  intros H ed_pk ed_sign HL HP HS cfg lt oi oc s queue clk coins on_health on_status sent buf st events
         Hinv Hf Hsend Hb1 Hb2 srv n.
  destruct (drain_spec H ed_pk ed_sign classify_wellformed HL HP HS cfg lt oi oc s queue clk coins Hinv Hf Hsend Hb1 Hb2)
    as [s' [lg [Hpe _]]].
  destruct Hinv as [Hcfg [Hsrv _]].
  exists (s_ietf s'), (s_classic s'). subst n srv.
  rewrite (gen_process_events_model H ed_sign cfg clk on_health on_status (ltk_srv_value H ed_pk lt) (s_ietf s) (s_classic s) queue sent buf st coins 0 events).
  unfold process_events in Hpe.
  replace (mksrv cfg (ltk_srv_value H ed_pk lt) (s_ietf s) (s_classic s)) with s
    by (destruct s as [c sv i c0]; cbn [s_cfg s_srv_value s_ietf s_classic] in *; subst c sv; reflexivity).
  rewrite Hpe. reflexivity.
Qed.
