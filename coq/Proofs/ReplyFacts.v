(* ReplyFacts.v — server goals G5 (every specified reply verifies), G6 (reply size, no
   amplification) and G7 (grease dichotomy), against the independent verifier of RefVerify.v. *)
Require Import RV.Model.Bytes RV.Gen.Tables RV.Model.Tag RV.Model.Message RV.Model.Merkle
        RV.Model.Request RV.Model.Keys RV.Model.Server.
Require Import RV.Spec.RefCodec RV.Spec.RefMerkle RV.Spec.MerkleGoals RV.Spec.RefVerify
        RV.Spec.CodecGoals.
Require Import RV.Proofs.TagFacts RV.Proofs.BytesFacts RV.Proofs.EncFacts RV.Proofs.CodecDecode
        RV.Proofs.CodecEncode RV.Proofs.MerkleModel.
Require Import RV.Spec.ServerGoals.
From Coq Require Import ZArith Lia ZifyN ZifyBool ZifyNat.
Ltac Zify.zify_post_hook ::= Z.div_mod_to_equations.

(* ================================================================== *)
(* Part A: generic helpers                                             *)
(* ================================================================== *)

(* ---------- strictly ascending tag lists are API-buildable ---------- *)

Lemma rf_asc_app_r : forall l1 l2, strictly_ascending (l1 ++ l2) = true -> strictly_ascending l2 = true.
Proof.
  induction l1 as [|a l1 IH]; intros l2 H; [exact H|].
  apply IH. eapply asc_tail. exact H.
Qed.

Lemma rf_asc_app_l : forall l1 l2, strictly_ascending (l1 ++ l2) = true -> strictly_ascending l1 = true.
Proof.
  induction l1 as [|a l1 IH]; intros l2 H; [reflexivity|].
  destruct l1 as [|b l1]; [reflexivity|].
  change (strictly_ascending (a :: b :: (l1 ++ l2)) = true) in H.
  rewrite asc_cons in H |- *. apply andb_true_iff in H. destruct H as [H1 H2].
  rewrite H1. cbn [andb]. apply (IH l2). exact H2.
Qed.

Lemma rf_Built_of_asc : forall m, strictly_ascending (tag_nums m) = true -> Built m.
Proof.
  induction m as [|[t v] acc IH] using rev_ind; intro H; [constructor|].
  unfold tag_nums in H. rewrite map_app in H. cbn [map fst] in H.
  eapply Built_add.
  - apply IH. eapply rf_asc_app_l. exact H.
  - apply (add_field_ok acc t v []).
    destruct acc as [|[lt lv] acc' _] using rev_ind; [reflexivity|].
    rewrite last_tag_snoc. cbn [pre].
    rewrite map_app in H. cbn [map fst] in H. rewrite <- app_assoc in H.
    apply rf_asc_app_r in H. exact H.
Qed.

(* ---------- canonical encodings are 4-byte aligned ---------- *)

Lemma rf_canon_aligned : forall m, aligned_values m -> (length (canon m) mod 4 = 0)%nat.
Proof.
  intros m Hal. rewrite canon_length. pose proof (aligned_sum m Hal) as Hs.
  unfold encoded_size. destruct (length m <? 2)%nat; lia.
Qed.

(* ---------- little-endian words ---------- *)

Lemma rf_rdle_wrle : forall k n, (n < 256 ^ N.of_nat k)%N -> rdle (wrle k n) = n.
Proof.
  induction k as [|k IH]; intros n Hn.
  - cbn in Hn. cbn [wrle rdle]. lia.
  - rewrite Nat2N.inj_succ, N.pow_succ_r' in Hn.
    cbn [wrle rdle]. rewrite b2n_n2b. rewrite IH.
    + pose proof (N.div_mod' n 256). lia.
    + apply N.div_lt_upper_bound; lia.
Qed.

Lemma rf_rdle_u64le : forall n, (n < two64)%N -> rdle (u64le n) = n.
Proof. intros n Hn. unfold u64le. apply rf_rdle_wrle. exact Hn. Qed.

Lemma rf_u64le_length : forall n, length (u64le n) = 8.
Proof. reflexivity. Qed.

(* ---------- IETF framing ---------- *)

Lemma rf_unframe_frame : forall p, (lenN p < two32)%N ->
  unframe (REQUEST_FRAMING_BYTES ++ u32le (lenN p) ++ p) = Some p.
Proof.
  intros p Hp. unfold unframe.
  change (firstn 8 (REQUEST_FRAMING_BYTES ++ u32le (lenN p) ++ p)) with magic.
  rewrite bytes_eqb_refl.
  change (skipn 8 (REQUEST_FRAMING_BYTES ++ u32le (lenN p) ++ p)) with (u32le (lenN p) ++ p).
  change (firstn 4 (u32le (lenN p) ++ p)) with (u32le (lenN p)).
  rewrite rd32_u32le by exact Hp.
  change (skipn 12 (REQUEST_FRAMING_BYTES ++ u32le (lenN p) ++ p)) with p.
  change (length (REQUEST_FRAMING_BYTES ++ u32le (lenN p) ++ p)) with (12 + length p).
  replace (12 <=? 12 + length p) with true by (symmetry; apply Nat.leb_le; lia).
  replace (lenN p =? N.of_nat (12 + length p - 12))%N with true
    by (symmetry; apply N.eqb_eq; unfold lenN; lia).
  reflexivity.
Qed.

(* an accepted frame always carries exactly what follows the 12-byte header *)
Lemma rf_unframe_skipn : forall d p, unframe d = Some p -> p = skipn 12 d.
Proof.
  intros d p H. unfold unframe in H.
  destruct (_ && _ && _); [injection H as <-; reflexivity | discriminate].
Qed.

(* ---------- chunks of a concatenation of equal-width nodes ---------- *)

Lemma rf_chunks_fuel_concat : forall w nodes f, (0 < w)%nat ->
  Forall (fun q : bytes => length q = w) nodes -> (length nodes <= f)%nat ->
  chunks_fuel f w (concat nodes) = nodes.
Proof.
  intros w nodes. induction nodes as [|q r IH]; intros f Hw Hall Hf.
  - destruct f; reflexivity.
  - inversion Hall as [|q' r' Hq Hr]; subst q' r'.
    destruct f as [|f]; [cbn in Hf; lia|].
    cbn [concat chunks_fuel].
    destruct (q ++ concat r) as [|b rest] eqn:E.
    { apply (f_equal (@length _)) in E. rewrite app_length in E. cbn in E. lia. }
    rewrite <- E. rewrite enc_firstn_app_exact by exact Hq.
    rewrite enc_skipn_app_exact by exact Hq.
    rewrite IH; [reflexivity | exact Hw | exact Hr | cbn in Hf; lia].
Qed.

Lemma rf_concat_length : forall w (nodes : list bytes),
  Forall (fun q : bytes => length q = w) nodes -> length (concat nodes) = w * length nodes.
Proof.
  induction 1 as [|q r Hq Hr IH]; [cbn; lia|].
  cbn [concat length]. rewrite app_length, IH, Hq. lia.
Qed.

Lemma rf_concat_length_le : forall w (nodes : list bytes),
  Forall (fun q : bytes => length q <= w) nodes -> length (concat nodes) <= w * length nodes.
Proof.
  induction 1 as [|q r Hq Hr IH]; [cbn; lia|].
  cbn [concat length]. rewrite app_length. lia.
Qed.

Lemma rf_chunks_concat : forall w nodes, (0 < w)%nat ->
  Forall (fun q : bytes => length q = w) nodes -> chunks w (concat nodes) = nodes.
Proof.
  intros w nodes Hw Hall. unfold chunks. apply rf_chunks_fuel_concat; [exact Hw | exact Hall |].
  rewrite (rf_concat_length w nodes Hall). nia.
Qed.

(* ---------- the functional Merkle tree: widths and depths ---------- *)

Section Tree.
  Variable h : bytes -> bytes.
  Variable w : nat.
  Variable P : bytes -> Prop.
  Hypothesis Ph : forall x, P (h x).
  Hypothesis Pz : P (s_zero w).

  Lemma rf_pairup_P : forall l, Forall P (pairup h w l).
  Proof.
    induction l as [| a | a b r IH] using mk_list_pair_ind; cbn [pairup].
    - constructor.
    - constructor; [apply Ph | constructor].
    - constructor; [apply Ph | exact IH].
  Qed.

  Lemma rf_sibling_P : forall l i, Forall P l -> P (sibling w l i).
  Proof.
    intros l i Hl. unfold sibling.
    set (j := if Nat.even i then S i else pred i). clearbody j.
    destruct (Nat.lt_ge_cases j (length l)) as [Hj|Hj].
    - rewrite Forall_forall in Hl. apply Hl. apply nth_In. exact Hj.
    - rewrite nth_overflow by exact Hj. exact Pz.
  Qed.

  Lemma rf_path_of_P : forall f l i, Forall P l -> Forall P (path_of h w f l i).
  Proof.
    induction f as [|f IH]; intros l i Hl; [constructor|].
    destruct l as [|a [|b r]]; [constructor | constructor |].
    cbn [path_of]. constructor.
    - apply rf_sibling_P. exact Hl.
    - apply IH. apply rf_pairup_P.
  Qed.

  Lemma rf_root_of_P : forall f l, P [] -> Forall P l -> P (root_of h w f l).
  Proof.
    induction f as [|f IH]; intros l Pn Hl; [exact Pn|].
    destruct l as [|a [|b r]]; [exact Pn | inversion Hl; assumption |].
    cbn [root_of]. apply IH; [exact Pn | apply rf_pairup_P].
  Qed.

  Lemma rf_root_of_P' : forall f l, l <> [] -> (length l <= f)%nat -> Forall P l ->
    P (root_of h w f l).
  Proof.
    induction f as [|f IH]; intros l Hne Hf Hl.
    - destruct l; [congruence | cbn in Hf; lia].
    - destruct l as [|a [|b r]]; [congruence | inversion Hl; assumption |].
      remember (a :: b :: r) as l0 eqn:E0.
      assert (Hr : root_of h w (S f) l0 = root_of h w f (pairup h w l0)) by (subst l0; reflexivity).
      rewrite Hr.
      assert (Hl2 : (2 <= length l0)%nat) by (subst l0; cbn; lia).
      pose proof (mk_pairup_length h w l0) as Hpl.
      apply IH.
      + intro Hp. rewrite Hp in Hpl. cbn [length] in Hpl. lia.
      + lia.
      + apply rf_pairup_P.
  Qed.
End Tree.

Lemma rf_path_of_depth_le : forall h w f l i k,
  (length l <= 2 ^ k)%nat -> (length (path_of h w f l i) <= k)%nat.
Proof.
  intros h w. induction f as [|f IH]; intros l i k Hk; [cbn; lia|].
  destruct l as [|a [|b r]]; [cbn; lia | cbn; lia |].
  remember (a :: b :: r) as l0 eqn:E0.
  assert (Hp : path_of h w (S f) l0 i = sibling w l0 i :: path_of h w f (pairup h w l0) (i / 2))
    by (subst l0; reflexivity).
  rewrite Hp. cbn [length].
  assert (Hl2 : (2 <= length l0)%nat) by (subst l0; cbn; lia).
  destruct k as [|k]; [cbn in Hk; lia|].
  apply le_n_S. apply IH. rewrite mk_pairup_length.
  rewrite Nat.pow_succ_r' in Hk. lia.
Qed.

Lemma rf_path_of_depth_ge : forall h w f l i,
  l <> [] -> (length l <= f)%nat -> (length l <= 2 ^ length (path_of h w f l i))%nat.
Proof.
  intros h w. induction f as [|f IH]; intros l i Hne Hf.
  - destruct l; [congruence | cbn in Hf; lia].
  - destruct l as [|a [|b r]]; [congruence | cbn; lia |].
    remember (a :: b :: r) as l0 eqn:E0.
    assert (Hp : path_of h w (S f) l0 i = sibling w l0 i :: path_of h w f (pairup h w l0) (i / 2))
      by (subst l0; reflexivity).
    rewrite Hp. cbn [length]. rewrite Nat.pow_succ_r'.
    assert (Hl2 : (2 <= length l0)%nat) by (subst l0; cbn; lia).
    pose proof (mk_pairup_length h w l0) as Hpl.
    assert (Hne' : pairup h w l0 <> []).
    { intro Hp'. rewrite Hp' in Hpl. cbn [length] in Hpl. lia. }
    specialize (IH (pairup h w l0) (i / 2)%nat Hne' ltac:(lia)).
    lia.
Qed.

Lemma rf_pow2_32 : (2 ^ 32)%nat = N.to_nat 4294967296.
Proof. apply Nat2N.inj. rewrite N2Nat.id. apply mk_two32. Qed.

Lemma rf_le_pow2_32 : forall n, (N.of_nat n <= 4294967296)%N -> (n <= 2 ^ 32)%nat.
Proof. intros n Hn. rewrite rf_pow2_32. lia. Qed.

Lemma rf_repeat_byte_length : forall b n, length (repeat_byte b n) = n.
Proof. induction n as [|n IH]; cbn [repeat_byte length]; [|rewrite IH]; reflexivity. Qed.

(* ================================================================== *)
(* Part B: what [accepted] and [wellformed] guarantee                  *)
(* ================================================================== *)

Lemma rf_accepted_In : forall srv v ds r, In r (accepted srv v ds) ->
  wellformed srv (req_dgram r) = Some (req_nonce r, v).
Proof.
  intros srv v ds r Hin. unfold accepted in Hin. apply in_flat_map in Hin.
  destruct Hin as [[a d] [_ Hr]]. cbn [fst snd] in Hr.
  destruct (wellformed srv d) as [[n v']|] eqn:E; [|contradiction].
  destruct (version_beq v v') eqn:Ev; [|contradiction].
  apply internal_version_dec_bl in Ev. subst v'.
  destruct Hr as [Hr|[]]. subst r. exact E.
Qed.

Lemma rf_wellformed_len : forall srv d x, wellformed srv d = Some x -> (1024 <= length d)%nat.
Proof.
  intros srv d x Hw. unfold wellformed in Hw.
  destruct (length d <? 1024)%nat eqn:E; cbn [orb] in Hw; [discriminate|].
  apply Nat.ltb_ge in E. exact E.
Qed.

Lemma rf_wellformed_google : forall srv d n, wellformed srv d = Some (n, Google) ->
  exists m, ref_decode d = Some m /\ rget m NONC = Some n /\ length n = 64.
Proof.
  intros srv d n Hw. unfold wellformed in Hw.
  destruct ((length d <? 1024)%nat || (1500 <? length d)%nat); [discriminate|].
  destruct (bytes_eqb (firstn 8 d) magic).
  - destruct (unframe d) as [p|]; [|discriminate].
    destruct (ref_decode p) as [m|]; [|discriminate].
    destruct (rget m VER); [|discriminate]. destruct (rget m NONC); [|discriminate].
    destruct (_ && _ && _); discriminate.
  - destruct (ref_decode d) as [m|]; [|discriminate].
    destruct (rget m NONC) as [nn|] eqn:En; [|discriminate].
    destruct (length nn =? 64)%nat eqn:El; [|discriminate].
    injection Hw as <-. exists m. split; [reflexivity|]. split; [exact En|]. apply Nat.eqb_eq. exact El.
Qed.

Lemma rf_wellformed_ietf : forall srv d n, wellformed srv d = Some (n, RfcDraft13) ->
  exists p m, unframe d = Some p /\ ref_decode p = Some m /\ rget m NONC = Some n /\ length n = 32.
Proof.
  intros srv d n Hw. unfold wellformed in Hw.
  destruct ((length d <? 1024)%nat || (1500 <? length d)%nat); [discriminate|].
  destruct (bytes_eqb (firstn 8 d) magic).
  - destruct (unframe d) as [p|] eqn:Eu; [|discriminate].
    destruct (ref_decode p) as [m|] eqn:Ed; [|discriminate].
    destruct (rget m VER) as [ver|]; [|discriminate].
    destruct (rget m NONC) as [nn|] eqn:En; [|discriminate].
    destruct (existsb (bytes_eqb draft13_wire) (firstn 4 (words_of ver))); cbn [andb] in Hw; [|discriminate].
    destruct (match rget m SRV with Some s => bytes_eqb s srv | None => true end); cbn [andb] in Hw; [|discriminate].
    destruct (length nn =? 32)%nat eqn:El; [|discriminate].
    injection Hw as <-. exists p, m. repeat split; [exact Ed | exact En |]. apply Nat.eqb_eq. exact El.
  - destruct (ref_decode d) as [m|]; [|discriminate].
    destruct (rget m NONC) as [nn|]; [|discriminate].
    destruct (length nn =? 64)%nat; discriminate.
Qed.

(* the nonce of any position of an accepted list, in or out of range, is short *)
Lemma rf_nonce_len_le : forall srv v ds i,
  length (req_nonce (nth i (accepted srv v ds) req0)) <= 64.
Proof.
  intros srv v ds i.
  destruct (Nat.lt_ge_cases i (length (accepted srv v ds))) as [Hi|Hi].
  - pose proof (rf_accepted_In srv v ds _ (nth_In _ req0 Hi)) as Hw.
    destruct v.
    + apply rf_wellformed_google in Hw. destruct Hw as (m & _ & _ & Hl). lia.
    + apply rf_wellformed_ietf in Hw. destruct Hw as (p & m & _ & _ & _ & Hl). lia.
  - rewrite nth_overflow by exact Hi. cbn. lia.
Qed.

(* ================================================================== *)
(* Part C: the nested messages of a reply                              *)
(* ================================================================== *)

Ltac rf_esize := unfold encoded_size; cbn [length sum_lengths Nat.ltb Nat.leb].

Section Reply.
  Variable H : bytes -> bytes.
  Variable ed_pk : bytes -> bytes.
  Variable ed_sign : bytes -> bytes -> bytes.
  Variable ed_verify : bytes -> bytes -> bytes -> bool.

  Definition rf_dele_msg (ok : bytes) : rmsg :=
    [(PUBK, ed_pk ok); (MINT, repeat_byte x00 8); (MAXT, repeat_byte xff 8)].
  Definition rf_cert_msg (v : version) (lt ok : bytes) : rmsg :=
    [(SIG, ed_sign lt (dele_prefix v ++ dele_bytes_of ed_pk ok)); (DELE, dele_bytes_of ed_pk ok)].
  Definition rf_srep_msg (v : version) (now : clock) (root : bytes) : rmsg :=
    match v with
    | Google => [(RADI, u32le (radi_of v)); (MIDP, u64le (midp_of v now)); (ROOT, root)]
    | RfcDraft13 => [(VER, ver_wire v); (RADI, u32le (radi_of v)); (MIDP, u64le (midp_of v now));
                     (VERS, supported_versions_wire); (ROOT, root)]
    end.

  Lemma rf_dele_size : PkLen ed_pk -> forall ok, encoded_size (rf_dele_msg ok) = 72.
  Proof. intros HPk ok. unfold rf_dele_msg. rf_esize. rewrite HPk. reflexivity. Qed.

  Lemma rf_dele_len : PkLen ed_pk -> forall ok, length (dele_bytes_of ed_pk ok) = 72.
  Proof. intros HPk ok. unfold dele_bytes_of. rewrite canon_length. apply (rf_dele_size HPk). Qed.

  Lemma rf_dele_decode : PkLen ed_pk -> forall ok,
    ref_decode (dele_bytes_of ed_pk ok) = Some (rf_dele_msg ok).
  Proof.
    intros HPk ok. unfold dele_bytes_of. apply ref_decode_canon.
    - apply rf_Built_of_asc. reflexivity.
    - repeat constructor. cbn [snd]. rewrite HPk. reflexivity.
    - rewrite (rf_dele_size HPk). reflexivity.
  Qed.

  Lemma rf_cert_size : PkLen ed_pk -> SigLen ed_sign -> forall v lt ok,
    encoded_size (rf_cert_msg v lt ok) = 152.
  Proof.
    intros HPk HSig v lt ok. unfold rf_cert_msg. rf_esize.
    rewrite HSig, (rf_dele_len HPk). reflexivity.
  Qed.

  Lemma rf_cert_len : PkLen ed_pk -> SigLen ed_sign -> forall v lt ok,
    length (cert_bytes_of ed_pk ed_sign v lt ok) = 152.
  Proof.
    intros HPk HSig v lt ok. unfold cert_bytes_of. rewrite canon_length.
    apply (rf_cert_size HPk HSig).
  Qed.

  Lemma rf_cert_decode : PkLen ed_pk -> SigLen ed_sign -> forall v lt ok,
    ref_decode (cert_bytes_of ed_pk ed_sign v lt ok) = Some (rf_cert_msg v lt ok).
  Proof.
    intros HPk HSig v lt ok. unfold cert_bytes_of. apply ref_decode_canon.
    - apply rf_Built_of_asc. reflexivity.
    - repeat constructor; cbn [snd]; [rewrite HSig | rewrite (rf_dele_len HPk)]; reflexivity.
    - change (N.of_nat (encoded_size (rf_cert_msg v lt ok)) < two32)%N.
      rewrite (rf_cert_size HPk HSig). reflexivity.
  Qed.

  Lemma rf_srep_canon : forall v now root,
    srep_bytes_of v now root = canon (rf_srep_msg v now root).
  Proof. intros [|] now root; reflexivity. Qed.

  Lemma rf_srep_size : forall v now root,
    encoded_size (rf_srep_msg v now root)
    = (match v with Google => 36 | RfcDraft13 => 64 end) + length root.
  Proof.
    clear H ed_pk ed_sign ed_verify.
    intros [|] now root; unfold rf_srep_msg; rf_esize;
      cbn [length u32le u64le wrle ver_wire supported_versions_wire]; lia.
  Qed.

  Lemma rf_srep_len : forall v now root,
    length (srep_bytes_of v now root)
    = (match v with Google => 36 | RfcDraft13 => 64 end) + length root.
  Proof. intros. rewrite rf_srep_canon, canon_length. apply rf_srep_size. Qed.

  Lemma rf_srep_decode : forall v now root, length root = node_len v ->
    ref_decode (srep_bytes_of v now root) = Some (rf_srep_msg v now root).
  Proof.
    intros v now root Hr. rewrite rf_srep_canon. apply ref_decode_canon.
    - apply rf_Built_of_asc. destruct v; reflexivity.
    - destruct v; repeat constructor; cbn [snd]; rewrite Hr; reflexivity.
    - rewrite rf_srep_size, Hr. destruct v; reflexivity.
  Qed.

  (* ---------- a six-field reply ---------- *)

  Definition rf_six (a b c d e f : bytes) : rmsg :=
    [(SIG, a); (NONC, b); (PATH, c); (SREP, d); (CERT, e); (INDX, f)].

  Lemma rf_six_size : forall a b c d e f,
    encoded_size (rf_six a b c d e f)
    = 48 + length a + length b + length c + length d + length e + length f.
  Proof. clear H ed_pk ed_sign ed_verify. intros. unfold rf_six. rf_esize. lia. Qed.

  Lemma rf_six_decode : forall a b c d e f,
    (length a mod 4 = 0)%nat -> (length b mod 4 = 0)%nat -> (length c mod 4 = 0)%nat ->
    (length d mod 4 = 0)%nat -> (length e mod 4 = 0)%nat -> (length f mod 4 = 0)%nat ->
    (N.of_nat (encoded_size (rf_six a b c d e f)) < two32)%N ->
    ref_decode (canon (rf_six a b c d e f)) = Some (rf_six a b c d e f).
  Proof.
    intros a b c d e f Ha Hb Hc Hd He Hf Hsz. apply ref_decode_canon.
    - apply rf_Built_of_asc. reflexivity.
    - repeat constructor; assumption.
    - exact Hsz.
  Qed.

  Lemma rf_reply_msg_six : forall v lt ok now reqs i,
    reply_msg H ed_pk ed_sign v lt ok now reqs i
    = rf_six (ed_sign ok (srep_prefix v ++ srep_bytes_of v now (spec_root H v (map (leaf_of v) reqs))))
             (req_nonce (nth i reqs req0))
             (nth i (spec_paths H v (map (leaf_of v) reqs)) [])
             (srep_bytes_of v now (spec_root H v (map (leaf_of v) reqs)))
             (cert_bytes_of ed_pk ed_sign v lt ok)
             (u32le (N.of_nat i)).
  Proof. reflexivity. Qed.

  (* ---------- the tree of a batch ---------- *)

  Lemma rf_leaf_nth : forall v (reqs : list req) i,
    nth i (map (leaf_of v) reqs) [] = leaf_of v (nth i reqs req0).
  Proof.
    intros v reqs i. replace (@nil byte) with (leaf_of v req0) at 1 by (destruct v; reflexivity).
    apply map_nth.
  Qed.

  Lemma rf_paths_nth : forall v ls i, (i < length ls)%nat ->
    nth i (spec_paths H v ls) [] = concat (s_path (hashv H v) (node_len v) ls i).
  Proof.
    intros v ls i Hi. unfold spec_paths.
    rewrite (nth_indep _ [] (concat (s_path (hashv H v) (node_len v) ls 0)))
      by (rewrite map_length, seq_length; exact Hi).
    rewrite (map_nth (fun j => concat (s_path (hashv H v) (node_len v) ls j))).
    rewrite seq_nth by exact Hi. reflexivity.
  Qed.

  Lemma rf_paths_nth_over : forall v ls i, (length ls <= i)%nat -> nth i (spec_paths H v ls) [] = [].
  Proof.
    intros v ls i Hi. apply nth_overflow. unfold spec_paths. rewrite map_length, seq_length. exact Hi.
  Qed.

  Lemma rf_node_len_pos : forall v, (0 < node_len v)%nat.
  Proof. destruct v; cbn; lia. Qed.

  Lemma rf_path_nodes : HashLen H -> forall v ls i,
    Forall (fun q : bytes => length q = node_len v) (s_path (hashv H v) (node_len v) ls i).
  Proof.
    intros HL v ls i. unfold s_path. apply rf_path_of_P.
    - intro x. apply mk_hashv_len, HL.
    - apply rf_repeat_byte_length.
    - apply Forall_forall. intros q Hq. apply in_map_iff in Hq. destruct Hq as [d [<- _]].
      apply mk_hashv_len, HL.
  Qed.

  Lemma rf_hashv_len_le : forall v x, (length (hashv H v x) <= node_len v)%nat.
  Proof. intros v x. unfold hashv. apply firstn_le_length. Qed.

  Lemma rf_path_nodes_le : forall v ls i,
    Forall (fun q : bytes => length q <= node_len v) (s_path (hashv H v) (node_len v) ls i).
  Proof.
    intros v ls i. unfold s_path. apply rf_path_of_P.
    - intro x. apply rf_hashv_len_le.
    - cbv beta. unfold s_zero. rewrite rf_repeat_byte_length. apply le_n.
    - apply Forall_forall. intros q Hq. apply in_map_iff in Hq. destruct Hq as [d [<- _]].
      apply rf_hashv_len_le.
  Qed.

  Lemma rf_root_len : HashLen H -> forall v ls, ls <> [] -> length (spec_root H v ls) = node_len v.
  Proof.
    intros HL v ls Hne. unfold spec_root, s_root.
    apply (rf_root_of_P' (hashv H v) (node_len v) (fun q => length q = node_len v)).
    - intro x. apply mk_hashv_len, HL.
    - destruct ls; [congruence | discriminate].
    - rewrite map_length. apply le_n.
    - apply Forall_forall. intros q Hq. apply in_map_iff in Hq. destruct Hq as [d [<- _]].
      apply mk_hashv_len, HL.
  Qed.

  Lemma rf_root_len_le : forall v ls, (length (spec_root H v ls) <= node_len v)%nat.
  Proof.
    intros v ls. unfold spec_root, s_root.
    apply (rf_root_of_P (hashv H v) (node_len v) (fun q => (length q <= node_len v)%nat)).
    - intro x. apply rf_hashv_len_le.
    - cbn. lia.
    - apply Forall_forall. intros q Hq. apply in_map_iff in Hq. destruct Hq as [d [<- _]].
      apply rf_hashv_len_le.
  Qed.

  Lemma rf_depth_le : forall v ls i k, (length ls <= 2 ^ k)%nat ->
    (length (s_path (hashv H v) (node_len v) ls i) <= k)%nat.
  Proof.
    intros v ls i k Hk. unfold s_path. apply rf_path_of_depth_le. rewrite map_length. exact Hk.
  Qed.

  Lemma rf_depth_ge : forall v ls i, ls <> [] ->
    (length ls <= 2 ^ length (s_path (hashv H v) (node_len v) ls i))%nat.
  Proof.
    intros v ls i Hne. unfold s_path.
    rewrite <- (map_length (s_leaf (hashv H v)) ls) at 1.
    apply rf_path_of_depth_ge.
    - destruct ls; [congruence | discriminate].
    - rewrite map_length. apply le_n.
  Qed.

  (* the PATH value of any position, in or out of range, of a batch of at most 2^k requests *)
  Lemma rf_path_len_le : forall v ls i k, (length ls <= 2 ^ k)%nat ->
    (length (nth i (spec_paths H v ls) []) <= 64 * k)%nat.
  Proof.
    intros v ls i k Hk.
    destruct (Nat.lt_ge_cases i (length ls)) as [Hi|Hi].
    - rewrite rf_paths_nth by exact Hi.
      pose proof (rf_concat_length_le _ _ (rf_path_nodes_le v ls i)) as H1.
      pose proof (rf_depth_le v ls i k Hk) as H2.
      assert (node_len v <= 64)%nat by (destruct v; cbn; lia). nia.
    - rewrite rf_paths_nth_over by exact Hi. cbn. lia.
  Qed.

  Lemma rf_path_len : HashLen H -> forall v ls i, (i < length ls)%nat ->
    length (nth i (spec_paths H v ls) [])
    = (node_len v * length (s_path (hashv H v) (node_len v) ls i))%nat.
  Proof.
    intros HL v ls i Hi. rewrite rf_paths_nth by exact Hi.
    apply rf_concat_length. apply rf_path_nodes. exact HL.
  Qed.

  (* ---------- the verifier on a reply whose nested decodings are known ---------- *)

  Ltac rf_conj :=
    repeat (apply andb_true_iff; split);
    try (apply Nat.eqb_eq; assumption); try (apply N.leb_le; assumption);
    try (apply N.ltb_lt; assumption); try assumption; try exact eq_refl.

  Lemma rf_verify_classic : forall pk request reply rq rnonce sig nonc path srep cert indx
      csig dele pubk mint maxt radi midp root,
    ref_decode request = Some rq -> rget rq NONC = Some rnonce ->
    ref_decode reply = Some (rf_six sig nonc path srep cert indx) ->
    ref_decode cert = Some [(SIG, csig); (DELE, dele)] ->
    ref_decode srep = Some [(RADI, radi); (MIDP, midp); (ROOT, root)] ->
    ref_decode dele = Some [(PUBK, pubk); (MINT, mint); (MAXT, maxt)] ->
    length sig = 64 -> length csig = 64 -> length pubk = 32 -> length mint = 8 -> length maxt = 8 ->
    length midp = 8 -> length radi = 4 -> length indx = 4 -> length root = 64 ->
    nonc = rnonce ->
    ed_verify pk (ctx_dele_classic ++ dele) csig = true ->
    ed_verify pubk (ctx_srep ++ srep) sig = true ->
    (rdle mint <= rdle midp)%N -> (rdle midp <= rdle maxt)%N ->
    (length path mod 64 = 0)%nat ->
    (rd32 indx < 2 ^ N.of_nat (length path / 64))%N ->
    s_recompute (vhash H Google) rnonce (N.to_nat (rd32 indx)) (chunks 64 path) = root ->
    verify_response H ed_verify Google pk request reply = true.
  Proof.
    intros pk request reply rq rnonce sig nonc path srep cert indx csig dele pubk mint maxt radi
      midp root Erq Ern Erep Ecert Esrep Edele L1 L2 L3 L4 L5 L6 L7 L8 L9 Enonc V1 V2 T1 T2 Pm Pi Pr.
    unfold verify_response. rewrite Erq, Erep, Ern.
    cbv beta iota zeta delta [rget tag_beq rf_six all_some6].
    rewrite Ecert, Esrep.
    cbv beta iota zeta delta [rget tag_beq].
    rewrite Edele.
    cbv beta iota zeta delta [rget tag_beq spec_width spec_dele_ctx spec_leaf].
    rf_conj.
    - subst nonc. apply bytes_eqb_refl.
    - rewrite Pr. apply bytes_eqb_refl.
  Qed.

  Lemma rf_verify_ietf : forall pk request reqp reply payload rq rnonce sig nonc path srep cert indx
      csig dele pubk mint maxt ver vers radi midp root,
    unframe request = Some reqp -> ref_decode reqp = Some rq -> rget rq NONC = Some rnonce ->
    unframe reply = Some payload ->
    ref_decode payload = Some (rf_six sig nonc path srep cert indx) ->
    ref_decode cert = Some [(SIG, csig); (DELE, dele)] ->
    ref_decode srep = Some [(VER, ver); (RADI, radi); (MIDP, midp); (VERS, vers); (ROOT, root)] ->
    ref_decode dele = Some [(PUBK, pubk); (MINT, mint); (MAXT, maxt)] ->
    length sig = 64 -> length csig = 64 -> length pubk = 32 -> length mint = 8 -> length maxt = 8 ->
    length midp = 8 -> length radi = 4 -> length indx = 4 -> length root = 32 ->
    nonc = rnonce -> ver = draft13_wire ->
    ed_verify pk (ctx_dele_ietf ++ dele) csig = true ->
    ed_verify pubk (ctx_srep ++ srep) sig = true ->
    (rdle mint <= rdle midp)%N -> (rdle midp <= rdle maxt)%N ->
    (length path mod 32 = 0)%nat ->
    (rd32 indx < 2 ^ N.of_nat (length path / 32))%N ->
    s_recompute (vhash H RfcDraft13) request (N.to_nat (rd32 indx)) (chunks 32 path) = root ->
    verify_response H ed_verify RfcDraft13 pk request reply = true.
  Proof.
    intros pk request reqp reply payload rq rnonce sig nonc path srep cert indx csig dele pubk mint
      maxt ver vers radi midp root Eur Erq Ern Eup Erep Ecert Esrep Edele
      L1 L2 L3 L4 L5 L6 L7 L8 L9 Enonc Ever V1 V2 T1 T2 Pm Pi Pr.
    unfold verify_response. rewrite Eur, Eup, Erq, Erep, Ern.
    cbv beta iota zeta delta [rget tag_beq rf_six all_some6].
    rewrite Ecert, Esrep.
    cbv beta iota zeta delta [rget tag_beq].
    rewrite Edele.
    cbv beta iota zeta delta [rget tag_beq spec_width spec_dele_ctx spec_leaf].
    rf_conj.
    - subst nonc. apply bytes_eqb_refl.
    - subst ver. apply bytes_eqb_refl.
    - rewrite Pr. apply bytes_eqb_refl.
  Qed.

  (* ---------- G5 ---------- *)

  Lemma rf_midp_lt : forall v now, (fst now < two64)%N -> (midp_of v now < two64)%N.
  Proof.
    intros [|] [secs nanos] Hnow; cbn [midp_of classic_midp rfc_midp fst] in *.
    - apply N.mod_lt. discriminate.
    - exact Hnow.
  Qed.

  Lemma rf_rdle_zero8 : rdle (repeat_byte x00 8) = 0%N.
  Proof. vm_compute. reflexivity. Qed.
  Lemma rf_rdle_ff8 : rdle (repeat_byte xff 8) = (two64 - 1)%N.
  Proof. vm_compute. reflexivity. Qed.

  Lemma rf_reply_verifies_classic :
    HashLen H -> PkLen ed_pk -> SigLen ed_sign -> SigCorrect ed_pk ed_sign ed_verify ->
    forall srv lt ok now ds i,
      let reqs := accepted srv Google ds in
      (i < length reqs)%nat -> (N.of_nat (length reqs) <= 4294967296)%N -> (fst now < two64)%N ->
      verify_response H ed_verify Google (ed_pk lt) (req_dgram (nth i reqs req0))
                      (reply_bytes H ed_pk ed_sign Google lt ok now reqs i) = true.
  Proof.
    intros HL HPk HSig HSC srv lt ok now ds i reqs Hi Hn Hnow.
    set (r := nth i reqs req0).
    assert (Hw : wellformed srv (req_dgram r) = Some (req_nonce r, Google)).
    { apply (rf_accepted_In srv Google ds). apply nth_In. exact Hi. }
    apply rf_wellformed_google in Hw. destruct Hw as (rq & Erq & Ern & Lnonce).
    set (ls := map (leaf_of Google) reqs).
    assert (Hls : length ls = length reqs) by apply map_length.
    assert (Hne : ls <> []) by (intro E; rewrite E in Hls; cbn in Hls; lia).
    pose proof (rf_root_len HL Google ls Hne) as Lroot.
    set (nodes := s_path (hashv H Google) (node_len Google) ls i).
    assert (Epath : nth i (spec_paths H Google ls) [] = concat nodes) by (apply rf_paths_nth; lia).
    pose proof (rf_path_nodes HL Google ls i) as Hnodes. fold nodes in Hnodes.
    assert (Hd32 : (length nodes <= 32)%nat).
    { apply rf_depth_le. rewrite Hls. apply rf_le_pow2_32. exact Hn. }
    pose proof (rf_depth_ge Google ls i Hne) as Hdge. fold nodes in Hdge.
    pose proof (rf_concat_length _ _ Hnodes) as Lpath.
    pose proof (rf_midp_lt Google now Hnow) as Hmidp.
    unfold reply_bytes, frame_for. rewrite rf_reply_msg_six. fold r. fold ls. rewrite Epath.
    set (root := spec_root H Google ls) in *.
    change (node_len Google) with 64%nat in *.
    eapply rf_verify_classic with (rq := rq) (rnonce := req_nonce r).
    - exact Erq.
    - exact Ern.
    - apply rf_six_decode.
      + rewrite HSig. reflexivity.
      + rewrite Lnonce. reflexivity.
      + rewrite Lpath. lia.
      + rewrite rf_srep_len, Lroot. reflexivity.
      + rewrite (rf_cert_len HPk HSig). reflexivity.
      + reflexivity.
      + rewrite rf_six_size, HSig, Lnonce, Lpath, rf_srep_len, Lroot, (rf_cert_len HPk HSig).
        cbn [length u32le]. unfold two32. lia.
    - exact (rf_cert_decode HPk HSig Google lt ok).
    - exact (rf_srep_decode Google now root Lroot).
    - exact (rf_dele_decode HPk ok).
    - apply HSig.
    - apply HSig.
    - apply HPk.
    - reflexivity.
    - reflexivity.
    - reflexivity.
    - reflexivity.
    - reflexivity.
    - exact Lroot.
    - reflexivity.
    - apply HSC.
    - apply HSC.
    - rewrite rf_rdle_zero8. lia.
    - rewrite rf_rdle_ff8, rf_rdle_u64le by exact Hmidp. lia.
    - rewrite Lpath. rewrite Nat.mul_comm. apply Nat.mod_mul. discriminate.
    - rewrite Lpath. rewrite Nat.mul_comm, Nat.div_mul by discriminate.
      rewrite rd32_u32le by (unfold two32; lia).
      assert (Hpow : (N.of_nat (length ls) <= 2 ^ N.of_nat (length nodes))%N).
      { rewrite <- (Nat2N.inj_pow 2). lia. }
      lia.
    - rewrite rd32_u32le by (unfold two32; lia). rewrite Nat2N.id.
      rewrite rf_chunks_concat by (try exact Hnodes; lia).
      assert (Hil : (i < length ls)%nat) by lia.
      pose proof (complete (hashv H Google) 64%nat ls i Hil) as Hc.
      unfold ls in Hc at 1. rewrite rf_leaf_nth in Hc. exact Hc.
  Qed.

  Lemma rf_reply_verifies_ietf :
    HashLen H -> PkLen ed_pk -> SigLen ed_sign -> SigCorrect ed_pk ed_sign ed_verify ->
    forall srv lt ok now ds i,
      let reqs := accepted srv RfcDraft13 ds in
      (i < length reqs)%nat -> (N.of_nat (length reqs) <= 4294967296)%N -> (fst now < two64)%N ->
      verify_response H ed_verify RfcDraft13 (ed_pk lt) (req_dgram (nth i reqs req0))
                      (reply_bytes H ed_pk ed_sign RfcDraft13 lt ok now reqs i) = true.
  Proof.
    intros HL HPk HSig HSC srv lt ok now ds i reqs Hi Hn Hnow.
    set (r := nth i reqs req0).
    assert (Hw : wellformed srv (req_dgram r) = Some (req_nonce r, RfcDraft13)).
    { apply (rf_accepted_In srv RfcDraft13 ds). apply nth_In. exact Hi. }
    apply rf_wellformed_ietf in Hw. destruct Hw as (reqp & rq & Eur & Erq & Ern & Lnonce).
    set (ls := map (leaf_of RfcDraft13) reqs).
    assert (Hls : length ls = length reqs) by apply map_length.
    assert (Hne : ls <> []) by (intro E; rewrite E in Hls; cbn in Hls; lia).
    pose proof (rf_root_len HL RfcDraft13 ls Hne) as Lroot.
    set (nodes := s_path (hashv H RfcDraft13) (node_len RfcDraft13) ls i).
    assert (Epath : nth i (spec_paths H RfcDraft13 ls) [] = concat nodes) by (apply rf_paths_nth; lia).
    pose proof (rf_path_nodes HL RfcDraft13 ls i) as Hnodes. fold nodes in Hnodes.
    assert (Hd32 : (length nodes <= 32)%nat).
    { apply rf_depth_le. rewrite Hls. apply rf_le_pow2_32. exact Hn. }
    pose proof (rf_depth_ge RfcDraft13 ls i Hne) as Hdge. fold nodes in Hdge.
    pose proof (rf_concat_length _ _ Hnodes) as Lpath.
    pose proof (rf_midp_lt RfcDraft13 now Hnow) as Hmidp.
    unfold reply_bytes, frame_for. rewrite rf_reply_msg_six. fold r. fold ls. rewrite Epath.
    set (root := spec_root H RfcDraft13 ls) in *.
    change (node_len RfcDraft13) with 32%nat in *.
    match goal with |- context [canon ?m] => set (M := m) end.
    assert (HszM : encoded_size M = (396 + 32 * length nodes)%nat).
    { unfold M. rewrite rf_six_size, HSig, Lnonce, Lpath, rf_srep_len, Lroot, (rf_cert_len HPk HSig).
      cbn [length u32le]. lia. }
    eapply rf_verify_ietf with (rq := rq) (rnonce := req_nonce r) (reqp := reqp).
    - exact Eur.
    - exact Erq.
    - exact Ern.
    - apply rf_unframe_frame. unfold lenN. rewrite canon_length, HszM. unfold two32. lia.
    - apply rf_six_decode.
      + rewrite HSig. reflexivity.
      + rewrite Lnonce. reflexivity.
      + rewrite Lpath. lia.
      + rewrite rf_srep_len, Lroot. reflexivity.
      + rewrite (rf_cert_len HPk HSig). reflexivity.
      + reflexivity.
      + fold M. rewrite HszM. unfold two32. lia.
    - exact (rf_cert_decode HPk HSig RfcDraft13 lt ok).
    - exact (rf_srep_decode RfcDraft13 now root Lroot).
    - exact (rf_dele_decode HPk ok).
    - apply HSig.
    - apply HSig.
    - apply HPk.
    - reflexivity.
    - reflexivity.
    - reflexivity.
    - reflexivity.
    - reflexivity.
    - exact Lroot.
    - reflexivity.
    - reflexivity.
    - apply HSC.
    - apply HSC.
    - rewrite rf_rdle_zero8. lia.
    - rewrite rf_rdle_ff8, rf_rdle_u64le by exact Hmidp. lia.
    - rewrite Lpath. rewrite Nat.mul_comm. apply Nat.mod_mul. discriminate.
    - rewrite Lpath. rewrite Nat.mul_comm, Nat.div_mul by discriminate.
      rewrite rd32_u32le by (unfold two32; lia).
      assert (Hpow : (N.of_nat (length ls) <= 2 ^ N.of_nat (length nodes))%N).
      { rewrite <- (Nat2N.inj_pow 2). lia. }
      lia.
    - rewrite rd32_u32le by (unfold two32; lia). rewrite Nat2N.id.
      rewrite rf_chunks_concat by (try exact Hnodes; lia).
      assert (Hil : (i < length ls)%nat) by lia.
      pose proof (complete (hashv H RfcDraft13) 32%nat ls i Hil) as Hc.
      unfold ls in Hc at 1. rewrite rf_leaf_nth in Hc. exact Hc.
  Qed.
End Reply.

Lemma reply_verifies : forall H ed_pk ed_sign ed_verify, goal_reply_verifies H ed_pk ed_sign ed_verify.
Proof.
  intros H ed_pk ed_sign ed_verify HL HPk HSig HSC v srv lt ok now ds i.
  destruct v.
  - apply rf_reply_verifies_classic; assumption.
  - apply rf_reply_verifies_ietf; assumption.
Qed.
Print Assumptions reply_verifies.

(* ================================================================== *)
(* G6: reply size                                                      *)
(* ================================================================== *)

Lemma reply_size : forall H ed_pk ed_sign, goal_reply_size H ed_pk ed_sign.
Proof.
  intros H ed_pk ed_sign HL HPk HSig v srv lt ok now ds i reqs Hi H64.
  set (r := nth i reqs req0).
  assert (Hw : wellformed srv (req_dgram r) = Some (req_nonce r, v)).
  { apply (rf_accepted_In srv v ds). apply nth_In. exact Hi. }
  split; [|eapply rf_wellformed_len; exact Hw].
  set (ls := map (leaf_of v) reqs).
  assert (Hls : length ls = length reqs) by apply map_length.
  assert (Hne : ls <> []) by (intro E; rewrite E in Hls; cbn in Hls; lia).
  pose proof (rf_root_len H HL v ls Hne) as Lroot.
  assert (Hil : (i < length ls)%nat) by lia.
  pose proof (rf_path_len H HL v ls i Hil) as Lpath.
  assert (Hd : (length (s_path (hashv H v) (node_len v) ls i) <= 6)%nat).
  { apply rf_depth_le. rewrite Hls. change (2 ^ 6)%nat with 64%nat. exact H64. }
  unfold reply_bytes. rewrite rf_reply_msg_six. fold r. fold ls.
  destruct v.
  - apply rf_wellformed_google in Hw. destruct Hw as (rq & _ & _ & Lnonce).
    unfold frame_for. rewrite canon_length, rf_six_size.
    rewrite HSig, Lnonce, Lpath, rf_srep_len, Lroot, (rf_cert_len ed_pk ed_sign HPk HSig).
    cbn [length u32le node_len] in *. lia.
  - apply rf_wellformed_ietf in Hw. destruct Hw as (reqp & rq & _ & _ & _ & Lnonce).
    unfold frame_for. rewrite !app_length, canon_length, rf_six_size.
    rewrite HSig, Lnonce, Lpath, rf_srep_len, Lroot, (rf_cert_len ed_pk ed_sign HPk HSig).
    cbn [length u32le node_len REQUEST_FRAMING_BYTES] in *. lia.
Qed.
Print Assumptions reply_size.

(* ================================================================== *)
(* G7: grease dichotomy                                                *)
(* ================================================================== *)

(* ---------- the byte layout of any successful [encode] ---------- *)

Definition rf_hdr_offs (m : msg) : bytes :=
  match m with [] => [] | (_, v0) :: r => enc_offsets (length v0) r end.

Lemma rf_encode_shape : forall m e, encode m = Ok e ->
  e = u32le (as_u32 (lenN m)) ++ rf_hdr_offs m ++ enc_tags m ++ enc_values m.
Proof.
  intros m e He. unfold encode in He.
  destruct m as [|[t0 v0] r].
  - cbn [length Nat.ltb Nat.leb obind] in He.
    match type of He with (if ?c then _ else _) = _ => destruct c end; [|discriminate].
    injection He as <-. reflexivity.
  - assert (Hoffs : (if (1 <? length ((t0, v0) :: r))%nat
                     then Ok (enc_offsets (length v0) r) else Ok [])
                    = (Ok (enc_offsets (length v0) r) : res bytes)).
    { destruct r; reflexivity. }
    rewrite Hoffs in He. cbn [obind] in He.
    match type of He with (if ?c then _ else _) = _ => destruct c end; [|discriminate].
    injection He as <-. reflexivity.
Qed.

Lemma rf_hdr_offs_length : forall m, length (rf_hdr_offs m) = 4 * (length m - 1).
Proof.
  intros [|[t0 v0] r]; [reflexivity|]. cbn [rf_hdr_offs length].
  rewrite enc_offsets_length. lia.
Qed.

Lemma rf_as_u32_lt : forall n, (as_u32 n < two32)%N.
Proof. intro n. unfold as_u32. apply N.mod_lt. discriminate. Qed.

Lemma rf_words_enc_tags : forall m rest,
  words (length m) (enc_tags m ++ rest) = map tag_num (map fst m).
Proof.
  induction m as [|[t v] r IH]; intro rest; [reflexivity|].
  cbn [length words enc_tags map fst]. rewrite <- app_assoc.
  rewrite enc_rd32_app4 by apply tag_wire_length.
  rewrite enc_skipn_app_exact by apply tag_wire_length.
  rewrite IH. reflexivity.
Qed.

Lemma rf_word_at_S_u32le : forall x bs k, word_at (u32le x ++ bs) (S k) = word_at bs k.
Proof.
  intros x bs k. unfold word_at.
  replace (4 * S k) with (4 + 4 * k) by lia.
  rewrite <- skipn_skipn'. rewrite enc_skipn_app_exact by reflexivity. reflexivity.
Qed.

Lemma rf_word_at_offsets : forall r s k rest, k < length r ->
  word_at (enc_offsets s r ++ rest) k = as_u32 (N.of_nat (s + sum_lengths (firstn k r))).
Proof.
  induction r as [|[t v] r IH]; intros s k rest Hk; [cbn in Hk; lia|].
  cbn [enc_offsets]. rewrite <- app_assoc.
  destruct k as [|k].
  - unfold word_at. rewrite Nat.mul_0_r. cbn [skipn firstn sum_lengths].
    rewrite enc_rd32_u32le_app by apply rf_as_u32_lt. f_equal. f_equal. lia.
  - rewrite rf_word_at_S_u32le. rewrite IH by (cbn in Hk; lia).
    cbn [firstn sum_lengths]. f_equal. f_equal. lia.
Qed.

Lemma rf_sum_firstn_le : forall B (r : msg) k,
  Forall (fun tv => length (snd tv) <= B) r -> sum_lengths (firstn k r) <= k * B.
Proof.
  intros B r. induction r as [|[t v] r IH]; intros k Hall.
  - destruct k; cbn; lia.
  - inversion Hall as [|x l Hx Hl]; subst x l. cbn [snd] in Hx.
    destruct k as [|k]; [cbn; lia|].
    cbn [firstn sum_lengths]. specialize (IH k Hl). lia.
Qed.

Lemma rf_tag_num_ge : forall t, (4671827 <= tag_num t)%N.
Proof. destruct t; vm_compute; discriminate. Qed.

(* ---------- what the reference decoder can return on encoded bytes ---------- *)

Lemma rf_decode_encoded_small : forall m e m'', encode m = Ok e -> (lenN m < two32)%N ->
  ref_decode e = Some m'' ->
  map fst m'' = map fst m /\ strictly_ascending (map tag_num (map fst m)) = true.
Proof.
  intros m e m'' He Hsmall Hd.
  apply rf_encode_shape in He.
  rewrite (enc_as_u32_small _ Hsmall) in He.
  assert (Hrd : rd32 e = lenN m).
  { rewrite He. apply enc_rd32_u32le_app. exact Hsmall. }
  apply ref_decode_sound in Hd. destruct Hd as (_ & _ & Hacc).
  destruct Hacc as [[H0 Hm]|(k & offs & tags & Hk & Hs)].
  - subst m''. rewrite Hrd in H0. destruct m; [split; reflexivity | unfold lenN in H0; cbn [length] in H0; lia].
  - assert (Ek : k = length m) by (unfold lenN in Hrd; lia).
    destruct (shape_lengths _ _ _ _ _ Hs) as (Hlt & Hlo & Hlm).
    destruct Hs as (Hk0 & _ & _ & Ht & Hasc & _ & _ & _ & Hm).
    assert (Hsk : skipn (4 * k) e = enc_tags m ++ enc_values m).
    { rewrite He. rewrite app_assoc. apply enc_skipn_app_exact.
      rewrite app_length, rf_hdr_offs_length. cbn [length u32le]. lia. }
    rewrite Hsk, Ek, rf_words_enc_tags in Ht.
    apply map_tag_num_inj in Ht. subst tags.
    split; [|exact Hasc].
    rewrite Hm. apply map_fst_combine.
    rewrite cuts_length, !map_length. lia.
Qed.

Lemma rf_decode_encoded_big : forall B m e m'', encode m = Ok e -> (two32 <= lenN m)%N ->
  Forall (fun tv => length (snd tv) <= B) m -> (N.of_nat (18 * B) < 4671827)%N ->
  ref_decode e = Some m'' -> m'' = [].
Proof.
  intros B m e m'' He Hbig Hall HB Hd.
  apply rf_encode_shape in He.
  assert (Hrd : rd32 e = as_u32 (lenN m)).
  { rewrite He. apply enc_rd32_u32le_app. apply rf_as_u32_lt. }
  apply ref_decode_sound in Hd. destruct Hd as (_ & _ & Hacc).
  destruct Hacc as [[_ Hm]|(k & offs & tags & Hk & Hs)]; [exact Hm|exfalso].
  destruct (shape_lengths _ _ _ _ _ Hs) as (Hlt & _ & _).
  destruct Hs as (Hk0 & _ & _ & Ht & Hasc & _).
  pose proof (tags_bound _ Hasc) as Hk18. change (length all_tags) with 18 in Hk18.
  pose proof (rf_as_u32_lt (lenN m)) as Hlt32.
  assert (Hkm : k < length m) by (unfold lenN, two32 in *; lia).
  destruct k as [|k]; [congruence|].
  destruct tags as [|t0 tags]; [discriminate Hlt|].
  change (words (S k) (skipn (4 * S k) e))
    with (word_at e (S k) :: words k (skipn 4 (skipn (4 * S k) e))) in Ht.
  cbn [map] in Ht. injection Ht as Ht0 _.
  destruct m as [|[tm v0] r]; [cbn in Hkm; lia|].
  rewrite He in Ht0. cbn [rf_hdr_offs] in Ht0.
  rewrite rf_word_at_S_u32le in Ht0.
  rewrite rf_word_at_offsets in Ht0 by (cbn [length] in Hkm; lia).
  inversion Hall as [|x l Hx Hl]; subst x l. cbn [snd] in Hx.
  pose proof (rf_sum_firstn_le B r k Hl) as Hsum.
  cbn [length] in Hlt, Hk18.
  assert (Hk17 : k * B <= 17 * B) by (apply Nat.mul_le_mono_r; lia).
  assert (Hval : length v0 + sum_lengths (firstn k r) <= 18 * B) by lia.
  rewrite enc_as_u32_small in Ht0 by (unfold two32; lia).
  pose proof (rf_tag_num_ge t0). lia.
Qed.

(* ---------- rget and the tag list ---------- *)

Lemma rf_rget_in : forall m t v, rget m t = Some v -> In t (map fst m).
Proof.
  induction m as [|[u x] r IH]; intros t v Hg; [discriminate|].
  cbn [rget] in Hg. cbn [map fst]. destruct (tag_beq t u) eqn:E.
  - left. symmetry. apply tag_beq_eq. exact E.
  - right. eapply IH. exact Hg.
Qed.

Lemma rf_rget_notin : forall m t, ~ In t (map fst m) -> rget m t = None.
Proof.
  intros m t Hn. destruct (rget m t) as [v|] eqn:E; [|reflexivity].
  exfalso. apply Hn. eapply rf_rget_in. exact E.
Qed.

Lemma rf_rget_none_notin : forall m t, rget m t = None -> ~ In t (map fst m).
Proof.
  induction m as [|[u x] r IH]; intros t E Hin; [exact Hin|].
  cbn [rget] in E. cbn [map fst] in Hin. destruct (tag_beq t u) eqn:Eb; [discriminate|].
  destruct Hin as [Hin|Hin].
  - subst u. assert (tag_beq t t = true) by (apply tag_beq_eq; reflexivity). congruence.
  - apply (IH t E Hin).
Qed.

Lemma rf_rget_fst_eq : forall m1 m2 t, map fst m1 = map fst m2 -> rget m1 t = None -> rget m2 t = None.
Proof.
  intros m1 m2 t Hf Hn. apply rf_rget_notin. rewrite <- Hf. apply rf_rget_none_notin. exact Hn.
Qed.

(* ---------- the two pathologies ---------- *)

Lemma rf_shuffle_ok : forall perm (m m' : msg) d, randomly_order_tags perm m = Ok m' ->
  Forall (fun j => j < length m) perm /\ m' = map (fun j => nth j m d) perm.
Proof.
  intros perm m m' d. unfold randomly_order_tags. revert m'.
  induction perm as [|j p IH]; intros m' Hr.
  - injection Hr as <-. split; [constructor | reflexivity].
  - destruct (nth_error m j) as [tv|] eqn:E; [|discriminate].
    match type of Hr with obind ?X _ = _ => destruct X as [rest|er|s] eqn:Eg end;
      cbn [obind] in Hr; try discriminate.
    injection Hr as <-. destruct (IH rest eq_refl) as [Hall Hrest].
    split.
    + constructor; [|exact Hall]. apply nth_error_Some. congruence.
    + cbn [map]. rewrite <- Hrest. f_equal. symmetry. apply nth_error_nth. exact E.
Qed.

Lemma rf_corrupt_six : forall rnd a b c d e f,
  corrupt_response_signature rnd (rf_six a b c d e f)
  = Ok [(SIG, rnd); (PATH, c); (SREP, d); (CERT, e); (INDX, f)].
Proof. reflexivity. Qed.

(* ---------- a strictly ascending selection of all six fields is the identity ---------- *)

Definition rf_six_tags : list tag := [SIG; NONC; PATH; SREP; CERT; INDX].
Definition rf_key (j : nat) : N := tag_num (nth j rf_six_tags SIG).

Lemma rf_key_mono : forall a b, a < 6 -> b < 6 -> (rf_key a < rf_key b)%N -> a < b.
Proof.
  intros a b Ha Hb Hk.
  do 6 (destruct a as [|a];
        [ do 6 (destruct b as [|b];
                [ try lia; exfalso; vm_compute in Hk; discriminate Hk | ]); lia | ]).
  lia.
Qed.

Lemma rf_key_inj : forall a b, a < 6 -> b < 6 -> nth a rf_six_tags SIG = nth b rf_six_tags SIG -> a = b.
Proof.
  intros a b Ha Hb He.
  do 6 (destruct a as [|a];
        [ do 6 (destruct b as [|b]; [ try reflexivity; discriminate He | ]); lia | ]).
  lia.
Qed.

Lemma rf_perm_id : forall perm a,
  Forall (fun x => a <= x < 6) perm ->
  strictly_ascending (map rf_key perm) = true ->
  (forall j, a <= j < 6 -> In j perm) ->
  perm = seq a (6 - a).
Proof.
  induction perm as [|x l IH]; intros a Hall Hasc Hin.
  - destruct (6 - a) as [|n] eqn:E; [reflexivity|].
    exfalso. apply (Hin a). lia.
  - inversion Hall as [|x' l' Hx Hl]; subst x' l'.
    cbn [map] in Hasc.
    pose proof (asc_forall _ _ Hasc) as Hgt. rewrite Forall_forall in Hgt.
    assert (Hxa : x = a).
    { destruct (Hin a ltac:(lia)) as [Hxa|Hal]; [exact Hxa|exfalso].
      assert (Hk : (rf_key x < rf_key a)%N) by (apply Hgt; apply in_map; exact Hal).
      apply rf_key_mono in Hk; lia. }
    subst x.
    replace (6 - a) with (S (6 - S a)) by lia. cbn [seq]. f_equal.
    apply IH.
    + rewrite Forall_forall in Hl |- *. intros y Hy. specialize (Hl y Hy).
      assert (Hk : (rf_key a < rf_key y)%N) by (apply Hgt; apply in_map; exact Hy).
      apply rf_key_mono in Hk; lia.
    + eapply asc_tail. exact Hasc.
    + intros j Hj. destruct (Hin j ltac:(lia)) as [Hja|Hjl]; [lia | exact Hjl].
Qed.

Lemma rf_six_fst_nth : forall a b c d e f d0 j, j < 6 ->
  fst (nth j (rf_six a b c d e f) d0) = nth j rf_six_tags SIG.
Proof.
  intros a b c d e f d0 j Hj.
  do 6 (destruct j as [|j]; [reflexivity|]). lia.
Qed.

Lemma rf_all_some6_inv : forall a b c d e f x, all_some6 a b c d e f = Some x ->
  a <> None /\ b <> None /\ c <> None /\ d <> None /\ e <> None /\ f <> None.
Proof.
  intros [a|] [b|] [c|] [d|] [e|] [f|] x Hx; try discriminate Hx.
  repeat split; discriminate.
Qed.

Lemma rf_shuffle_id : forall a b c d e f perm d0 m'',
  Forall (fun j => j < 6) perm ->
  map fst m'' = map fst (map (fun j => nth j (rf_six a b c d e f) d0) perm) ->
  strictly_ascending (map tag_num (map fst (map (fun j => nth j (rf_six a b c d e f) d0) perm))) = true ->
  (forall t, In t rf_six_tags -> rget m'' t <> None) ->
  map (fun j => nth j (rf_six a b c d e f) d0) perm = rf_six a b c d e f.
Proof.
  intros a b c d e f perm d0 m'' Hall Hfst Hasc Hpres.
  assert (Htags : map fst (map (fun j => nth j (rf_six a b c d e f) d0) perm)
                  = map (fun j => nth j rf_six_tags SIG) perm).
  { rewrite map_map. apply map_ext_in. intros j Hj.
    rewrite Forall_forall in Hall. apply rf_six_fst_nth. apply Hall. exact Hj. }
  rewrite Htags in Hfst, Hasc.
  assert (Hperm : perm = seq 0 (6 - 0)).
  { apply rf_perm_id.
    - eapply Forall_impl; [|exact Hall]. cbn beta. intros; lia.
    - unfold rf_key. rewrite <- (map_map (fun j => nth j rf_six_tags SIG) tag_num). exact Hasc.
    - intros j Hj.
      assert (Hin : In (nth j rf_six_tags SIG) (map fst m'')).
      { destruct (rget m'' (nth j rf_six_tags SIG)) as [v|] eqn:E.
        - eapply rf_rget_in. exact E.
        - exfalso. apply (Hpres (nth j rf_six_tags SIG)); [|exact E].
          apply nth_In. cbn. lia. }
      rewrite Hfst in Hin. apply in_map_iff in Hin. destruct Hin as (j' & Hj' & Hin').
      rewrite Forall_forall in Hall. pose proof (Hall j' Hin') as Hlt.
      apply rf_key_inj in Hj'; [subst j'; exact Hin' | exact Hlt | lia]. }
  rewrite Hperm. reflexivity.
Qed.

(* ---------- rejection by the verifier ---------- *)

Definition rf_payload_of (v : version) (bs : bytes) : option bytes :=
  match v with Google => Some bs | RfcDraft13 => unframe bs end.

Section Reject.
  Variable H : bytes -> bytes.
  Variable ed_verify : bytes -> bytes -> bytes -> bool.

  Lemma rf_vr_no_payload : forall v pk request bs, rf_payload_of v bs = None ->
    verify_response H ed_verify v pk request bs = false.
  Proof.
    intros v pk request bs Hp. unfold verify_response. destruct v; cbn [rf_payload_of] in Hp.
    - discriminate.
    - rewrite Hp. reflexivity.
  Qed.

  Lemma rf_vr_no_decode : forall v pk request bs p, rf_payload_of v bs = Some p ->
    ref_decode p = None -> verify_response H ed_verify v pk request bs = false.
  Proof.
    intros v pk request bs p Hp Hd. unfold verify_response. destruct v; cbn [rf_payload_of] in Hp.
    - injection Hp as ->. destruct (ref_decode request) as [rq|]; [|reflexivity].
      rewrite Hd. reflexivity.
    - rewrite Hp. destruct (unframe request) as [rp|]; [|reflexivity].
      destruct (ref_decode rp) as [rq|]; [|reflexivity].
      rewrite Hd. reflexivity.
  Qed.

  Lemma rf_vr_missing : forall v pk request bs p m, rf_payload_of v bs = Some p ->
    ref_decode p = Some m ->
    all_some6 (rget m SIG) (rget m NONC) (rget m PATH) (rget m SREP) (rget m CERT) (rget m INDX) = None ->
    verify_response H ed_verify v pk request bs = false.
  Proof.
    intros v pk request bs p m Hp Hd Ha. unfold verify_response. destruct v; cbn [rf_payload_of] in Hp.
    - injection Hp as ->. destruct (ref_decode request) as [rq|]; [|reflexivity].
      rewrite Hd. destruct (rget rq NONC); [|reflexivity]. rewrite Ha. reflexivity.
    - rewrite Hp. destruct (unframe request) as [rp|]; [|reflexivity].
      destruct (ref_decode rp) as [rq|]; [|reflexivity].
      rewrite Hd. destruct (rget rq NONC); [|reflexivity]. rewrite Ha. reflexivity.
  Qed.
End Reject.

Lemma grease_dichotomy : forall H ed_pk ed_sign ed_verify,
  goal_grease_dichotomy H ed_pk ed_sign ed_verify.
Proof.
  intros H ed_pk ed_sign ed_verify HPk HSig v pk request srv lt ok now ds i fault c m' bs reqs
    Hn Hg Henc.
  rewrite rf_reply_msg_six in *.
  set (ls := map (leaf_of v) reqs) in *.
  set (A := ed_sign ok (srep_prefix v ++ srep_bytes_of v now (spec_root H v ls))) in *.
  set (B := req_nonce (nth i reqs req0)) in *.
  set (C := nth i (spec_paths H v ls) []) in *.
  set (D := srep_bytes_of v now (spec_root H v ls)) in *.
  set (E := cert_bytes_of ed_pk ed_sign v lt ok) in *.
  set (F := u32le (N.of_nat i)) in *.
  (* every value of the specified reply is short *)
  assert (Hbound : Forall (fun tv : tag * bytes => length (snd tv) <= 2048) (rf_six A B C D E F)).
  { assert (Hw : node_len v <= 64) by (destruct v; cbn; lia).
    unfold rf_six. repeat (apply Forall_cons || apply Forall_nil); cbn [snd].
    - unfold A. rewrite HSig. lia.
    - unfold B, reqs. pose proof (rf_nonce_len_le srv v ds i). lia.
    - unfold C. pose proof (rf_path_len_le H v ls i 32) as Hp.
      assert (Hls : length ls <= 2 ^ 32).
      { unfold ls. rewrite map_length. apply rf_le_pow2_32. exact Hn. }
      specialize (Hp Hls). lia.
    - unfold D. rewrite rf_srep_len. pose proof (rf_root_len_le H v ls). destruct v; lia.
    - unfold E. rewrite (rf_cert_len ed_pk ed_sign HPk HSig). lia.
    - unfold F. cbn [length u32le]. lia. }
  (* the payload the verifier decodes is the encoding of m' *)
  assert (Hpay : exists e, encode m' = Ok e /\ forall p, rf_payload_of v bs = Some p -> p = e).
  { destruct v.
    - exists bs. split; [exact Henc|]. intros p Hp. injection Hp as <-. reflexivity.
    - unfold encode_framed in Henc.
      destruct (encode m') as [e|err|s]; cbn [obind] in Henc; try discriminate Henc.
      injection Henc as <-. exists e. split; [reflexivity|].
      intros p Hp. cbn [rf_payload_of] in Hp. apply rf_unframe_skipn in Hp. subst p. reflexivity. }
  destruct Hpay as (e & He & Hpe).
  destruct (rf_payload_of v bs) as [p|] eqn:Ep;
    [|right; apply rf_vr_no_payload; exact Ep].
  pose proof (Hpe p eq_refl) as Hp. subst p.
  destruct (ref_decode e) as [m''|] eqn:Ed;
    [|right; eapply rf_vr_no_decode; [exact Ep | exact Ed]].
  destruct (all_some6 (rget m'' SIG) (rget m'' NONC) (rget m'' PATH) (rget m'' SREP)
                      (rget m'' CERT) (rget m'' INDX)) as [x|] eqn:Ea;
    [left | right; eapply rf_vr_missing; [exact Ep | exact Ed | exact Ea]].
  apply rf_all_some6_inv in Ea. destruct Ea as (P1 & P2 & P3 & P4 & P5 & P6).
  unfold grease in Hg.
  destruct (fault =? 0)%N; [injection Hg as <-; reflexivity|].
  destruct c as [|perm|rnd].
  - injection Hg as <-. reflexivity.
  - apply (rf_shuffle_ok perm _ _ (SIG, [])) in Hg. destruct Hg as [Hall Hm'].
    change (length (rf_six A B C D E F)) with 6 in Hall.
    destruct (N.lt_ge_cases (lenN m') two32) as [Hs|Hb].
    + destruct (rf_decode_encoded_small _ _ _ He Hs Ed) as [Hfst Hasc]. subst m'.
      eapply rf_shuffle_id; [exact Hall | exact Hfst | exact Hasc |].
      intros t Ht. cbn [rf_six_tags In] in Ht.
      destruct Ht as [<-|[<-|[<-|[<-|[<-|[<-|[]]]]]]]; assumption.
    + assert (Hm'' : m'' = []).
      { apply (rf_decode_encoded_big 2048 m' e m'' He Hb); [| reflexivity | exact Ed].
        subst m'. apply Forall_forall. intros tv Htv.
        apply in_map_iff in Htv. destruct Htv as (j & <- & Hj).
        rewrite Forall_forall in Hall, Hbound. apply Hbound. apply nth_In.
        change (length (rf_six A B C D E F)) with 6. apply Hall. exact Hj. }
      subst m''. exfalso. apply P1. reflexivity.
  - rewrite rf_corrupt_six in Hg. injection Hg as <-.
    assert (Hs : (lenN [(SIG, rnd); (PATH, C); (SREP, D); (CERT, E); (INDX, F)] < two32)%N)
      by reflexivity.
    destruct (rf_decode_encoded_small _ _ _ He Hs Ed) as [Hfst _].
    exfalso. apply P2. apply rf_rget_notin. rewrite Hfst. cbn [map fst In].
    intros [Hx|[Hx|[Hx|[Hx|[Hx|[]]]]]]; discriminate Hx.
Qed.
Print Assumptions grease_dichotomy.
