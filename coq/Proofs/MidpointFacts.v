(* MidpointFacts.v — C11: what is signed in a reply is the clock reading of ITS batch, in the
   protocol's unit, with the protocol's radius; one reading per batch. *)
Require Import RV.Model.Bytes RV.Gen.Tables RV.Model.Tag RV.Model.Message RV.Model.Merkle RV.Model.Keys RV.Model.Server.
Require Import RV.Spec.RefCodec RV.Spec.MerkleGoals RV.Spec.RefVerify RV.Spec.ServerGoals RV.Proofs.ReplyFacts.
Local Open Scope N_scope.

Lemma signed_reading : forall H ed_pk ed_sign, HashLen H ->
  forall v lt ok now reqs i, reqs <> [] ->
    let m := reply_msg H ed_pk ed_sign v lt ok now reqs i in
    exists srep fields,
      rget m SREP = Some srep
      /\ rget m SIG = Some (ed_sign ok (srep_prefix v ++ srep))
      /\ ref_decode srep = Some fields
      /\ rget fields MIDP = Some (u64le (midp_of v now))
      /\ rget fields RADI = Some (u32le (radi_of v)).
Proof.
  intros H ed_pk ed_sign HL v lt ok now reqs i Hne m.
  exists (srep_bytes_of v now (spec_root H v (map (leaf_of v) reqs))), (rf_srep_msg v now (spec_root H v (map (leaf_of v) reqs))).
  split; [reflexivity|]. split; [reflexivity|]. split.
  - apply rf_srep_decode. apply rf_root_len; [exact HL|]. destruct reqs; [contradiction|discriminate].
  - destruct v; split; reflexivity.
Qed.

(* every reply of one batch carries the same signed response: the clock is read once per batch *)
Lemma one_reading_per_batch : forall H ed_pk ed_sign v lt ok now reqs i j,
  rget (reply_msg H ed_pk ed_sign v lt ok now reqs i) SREP = rget (reply_msg H ed_pk ed_sign v lt ok now reqs j) SREP
  /\ rget (reply_msg H ed_pk ed_sign v lt ok now reqs i) SIG = rget (reply_msg H ed_pk ed_sign v lt ok now reqs j) SIG.
Proof. intros. split; reflexivity. Qed.

(* in a drain the k-th batch is built from the k-th clock reading (clk k), not from the reading of
   the wake-up: unfolding one step of the specified drain *)
Lemma drain_uses_batch_clock : forall H ed_pk ed_sign fuel n srv lt oi oc clk k queue,
  spec_drain_sent H ed_pk ed_sign (S fuel) n srv lt oi oc clk k queue
  = spec_batch_sent H ed_pk ed_sign srv lt oi oc (clk k) (firstn n queue)
    ++ (if (length queue <? n)%nat then []
        else spec_drain_sent H ed_pk ed_sign fuel n srv lt oi oc clk (S k) (skipn n queue)).
Proof. reflexivity. Qed.
