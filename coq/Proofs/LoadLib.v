(* LoadLib.v — facts about the text-level operations of Model/ConfigLoad.v: decimal parsing
   (str::parse::<uN>), decimal printing, hex decoding. *)
From Coq Require Import ZArith List Bool Lia.
Require Import RV.Model.Bytes RV.Model.Config RV.Model.ConfigLoad.
Import ListNotations.
Local Open Scope Z_scope.

(* ---- bytes and digits *)
Lemma b2n_n2b_small : forall n, (n < 256)%N -> b2n (n2b n) = n.
Proof.
  intros n Hn. unfold b2n, n2b. rewrite N.mod_small by exact Hn.
  destruct (Byte.of_N n) as [b|] eqn:E.
  - apply Byte.to_of_N in E. exact E.
  - apply Byte.of_N_None_iff in E. lia.
Qed.

Lemma digit_val_char : forall d, 0 <= d <= 9 -> digit_val (digit_char d) = Some d.
Proof.
  intros d Hd. unfold digit_val, digit_char. rewrite b2n_n2b_small by lia.
  rewrite Z2N.id by lia.
  replace ((48 <=? 48 + d) && (48 + d <=? 57)) with true by (symmetry; apply andb_true_iff; lia).
  f_equal. lia.
Qed.

Lemma digit_char_not_plus : forall d, 0 <= d <= 9 -> byte_eqb (digit_char d) x2b = false.
Proof.
  intros d Hd. unfold byte_eqb, digit_char. rewrite b2n_n2b_small by lia.
  apply N.eqb_neq. change (b2n x2b) with 43%N. lia.
Qed.

Lemma digit_val_range : forall c d, digit_val c = Some d -> 0 <= d <= 9.
Proof.
  intros c d. unfold digit_val.
  destruct ((48 <=? Z.of_N (b2n c)) && (Z.of_N (b2n c) <=? 57)) eqn:E; [|discriminate].
  intros H. injection H as <-. apply andb_true_iff in E. lia.
Qed.

(* ---- parsing: bounds and monotonicity in the maximum *)
Lemma parse_digits_bounds : forall max s a r,
  0 <= a <= max -> parse_digits max a s = Some r -> a <= r <= max.
Proof.
  intros max s. induction s as [|c s IH]; intros a r Ha H; cbn [parse_digits] in H.
  - injection H as <-. lia.
  - destruct (digit_val c) as [d|] eqn:Ed; [|discriminate].
    apply digit_val_range in Ed.
    destruct (max <? a * 10 + d) eqn:El; [discriminate|].
    apply Z.ltb_ge in El. apply IH in H; lia.
Qed.

Lemma parse_digits_mono : forall max max' s a r,
  max <= max' -> parse_digits max a s = Some r -> parse_digits max' a s = Some r.
Proof.
  intros max max' s. induction s as [|c s IH]; intros a r Hm H; cbn [parse_digits] in *.
  - exact H.
  - destruct (digit_val c) as [d|]; [|discriminate].
    destruct (max <? a * 10 + d) eqn:El; [discriminate|].
    apply Z.ltb_ge in El.
    replace (max' <? a * 10 + d) with false by (symmetry; apply Z.ltb_ge; lia).
    apply IH; assumption.
Qed.

Lemma parse_uint_bounds : forall max s r, 0 <= max -> parse_uint max s = Some r -> 0 <= r <= max.
Proof.
  intros max s r Hm. unfold parse_uint.
  set (digits := match s with c :: r0 => if byte_eqb c x2b then r0 else s | [] => [] end).
  destruct digits; [discriminate|]. intros H. apply parse_digits_bounds in H; lia.
Qed.

Lemma parse_uint_mono : forall max max' s r,
  max <= max' -> parse_uint max s = Some r -> parse_uint max' s = Some r.
Proof.
  intros max max' s r Hm. unfold parse_uint.
  set (digits := match s with c :: r0 => if byte_eqb c x2b then r0 else s | [] => [] end).
  destruct digits; [discriminate|]. apply parse_digits_mono. exact Hm.
Qed.

(* ---- printing then parsing *)
Lemma to_dec_aux_parse : forall f z acc a max,
  0 <= z < 10 ^ Z.of_nat f -> (0 < f)%nat -> 0 <= a ->
  exists d, 1 <= d /\ z < 10 ^ d /\
    (a * 10 ^ d + z <= max ->
     parse_digits max a (to_dec_aux f z acc) = parse_digits max (a * 10 ^ d + z) acc).
Proof.
  induction f as [|f IH]; intros z acc a max Hz Hf Ha; [lia|].
  cbn [to_dec_aux]. destruct (z <? 10) eqn:E.
  - apply Z.ltb_lt in E. exists 1. split; [lia|]. split; [lia|]. intros Hmax.
    cbn [parse_digits]. rewrite Z.mod_small by lia. rewrite digit_val_char by lia.
    replace (max <? a * 10 + z) with false by (symmetry; apply Z.ltb_ge; lia).
    f_equal; try lia.
  - apply Z.ltb_ge in E.
    assert (Hf' : (0 < f)%nat).
    { destruct f; [|lia]. change (10 ^ Z.of_nat 1) with 10 in Hz. lia. }
    assert (Hq : 0 <= z / 10 < 10 ^ Z.of_nat f).
    { split; [apply Z.div_pos; lia|]. apply Z.div_lt_upper_bound; [lia|].
      rewrite Nat2Z.inj_succ, Z.pow_succ_r in Hz by lia. lia. }
    destruct (IH (z / 10) (digit_char (z mod 10) :: acc) a max Hq Hf' Ha) as (d & Hd1 & Hd2 & Hd3).
    exists (d + 1). split; [lia|].
    assert (Hp : 10 ^ (d + 1) = 10 * 10 ^ d) by (rewrite Z.pow_add_r by lia; lia).
    assert (Hzz : z = 10 * (z / 10) + z mod 10) by (apply Z.div_mod; lia).
    assert (Hm : 0 <= z mod 10 < 10) by (apply Z.mod_pos_bound; lia).
    split; [lia|]. intros Hmax.
    assert (Hpos : 0 < 10 ^ d) by (apply Z.pow_pos_nonneg; lia).
    rewrite Hd3 by nia.
    cbn [parse_digits]. rewrite digit_val_char by lia.
    replace (max <? (a * 10 ^ d + z / 10) * 10 + z mod 10) with false by (symmetry; apply Z.ltb_ge; nia).
    f_equal. nia.
Qed.

Lemma to_dec_aux_head : forall f z acc, (0 < f)%nat -> 0 <= z ->
  exists d r, 0 <= d <= 9 /\ to_dec_aux f z acc = digit_char d :: r.
Proof.
  induction f as [|f IH]; intros z acc Hf Hz; [lia|].
  cbn [to_dec_aux]. destruct (z <? 10) eqn:E.
  - exists (z mod 10), acc. split; [pose proof (Z.mod_pos_bound z 10); lia|reflexivity].
  - destruct f as [|f'].
    + cbn [to_dec_aux]. exists (z mod 10), acc. split; [pose proof (Z.mod_pos_bound z 10); lia|reflexivity].
    + apply IH; [lia|apply Z.div_pos; lia].
Qed.

Lemma to_dec_fuel : forall z, 0 <= z -> z < 10 ^ Z.of_nat (S (Z.to_nat (Z.log2 z))).
Proof.
  intros z Hz. destruct (Z.eq_dec z 0) as [->|Hn]; [cbn; lia|].
  assert (Hl : z < 2 ^ (Z.log2 z + 1)).
  { replace (Z.log2 z + 1) with (Z.succ (Z.log2 z)) by lia. apply Z.log2_spec. lia. }
  rewrite Nat2Z.inj_succ, Z2Nat.id by apply Z.log2_nonneg.
  replace (Z.succ (Z.log2 z)) with (Z.log2 z + 1) by lia.
  eapply Z.lt_le_trans; [exact Hl|].
  apply Z.pow_le_mono_l. lia.
Qed.

(* the decimal text of z parses back to z, in any type that can hold it *)
Theorem parse_uint_to_dec : forall max z, 0 <= z <= max -> parse_uint max (to_dec z) = Some z.
Proof.
  intros max z Hz. unfold to_dec.
  set (f := S (Z.to_nat (Z.log2 z))).
  assert (Hfu : z < 10 ^ Z.of_nat f) by (apply to_dec_fuel; lia).
  destruct (to_dec_aux_head f z [] ltac:(unfold f; lia) ltac:(lia)) as (d0 & r0 & Hd0 & Hhead).
  destruct (to_dec_aux_parse f z [] 0 max ltac:(lia) ltac:(unfold f; lia) ltac:(lia)) as (d & Hd1 & Hd2 & Hd3).
  unfold parse_uint. rewrite Hhead. rewrite digit_char_not_plus by exact Hd0.
  rewrite <- Hhead. rewrite Hd3 by lia. cbn [parse_digits]. f_equal; lia.
Qed.

(* ... and to nothing in a type that cannot: the written value is refused, never wrapped *)
Theorem parse_uint_to_dec_overflow : forall max z, 0 <= max < z -> parse_uint max (to_dec z) = None.
Proof.
  intros max z Hz. destruct (parse_uint max (to_dec z)) as [r|] eqn:E; [|reflexivity].
  pose proof (parse_uint_bounds max (to_dec z) r (proj1 Hz) E) as Hb.
  apply (parse_uint_mono max z) in E; [|lia].
  rewrite parse_uint_to_dec in E by lia. injection E as <-. lia.
Qed.

(* a minus sign is never accepted by an unsigned type *)
Lemma parse_uint_minus : forall max s, parse_uint max (x2d :: s) = None.
Proof. intros. reflexivity. Qed.

Lemma parse_uint_empty : forall max, parse_uint max [] = None.
Proof. reflexivity. Qed.

(* ---- hex: what hex_encode writes, hex_decode reads *)
Lemma hex_val_digit : forall n, (n < 16)%N -> hex_val (hexdigit n) = Some n.
Proof.
  intros n Hn.
  assert (H : forallb (fun k => match hex_val (hexdigit k) with Some m => N.eqb m k | None => false end)
                (map N.of_nat (seq 0 16)) = true) by (vm_compute; reflexivity).
  rewrite forallb_forall in H.
  specialize (H n). 
  assert (Hin : In n (map N.of_nat (seq 0 16))).
  { apply in_map_iff. exists (N.to_nat n). split; [lia|]. apply in_seq. lia. }
  apply H in Hin. destruct (hex_val (hexdigit n)) as [m|]; [|discriminate].
  apply N.eqb_eq in Hin. subst. reflexivity.
Qed.

Theorem hex_decode_encode : forall b, hex_decode (hex_encode b) = Some b.
Proof.
  induction b as [|x b IH]; [reflexivity|].
  cbn [hex_encode hex_decode].
  assert (Hx : (b2n x < 256)%N) by (unfold b2n; apply Byte.to_N_bounded || (pose proof (Byte.to_N_bounded x); lia)).
  rewrite !hex_val_digit by (try apply N.mod_upper_bound; try apply N.div_lt_upper_bound; lia).
  rewrite IH. f_equal. f_equal.
  rewrite <- N.div_mod by lia.
  unfold n2b. rewrite N.mod_small by exact Hx. unfold b2n. rewrite Byte.of_to_N. reflexivity.
Qed.
