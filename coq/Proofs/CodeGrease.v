(* CodeGrease.v — the two pathologies of src/grease.rs as translated on this run (the random bytes and
   the sampled index permutation are parameters), against Model/Server.v. *)
Require Import RV.Model.Bytes RV.Gen.Tables RV.Model.Tag RV.Model.Message RV.Model.Merkle RV.Model.Request
        RV.Model.Keys RV.Model.Server RV.Model.GenSupport RV.Gen.Code.
Require Import RV.Proofs.BytesFacts RV.Proofs.EncFacts RV.Proofs.CodeLib.
From Coq Require Import ZArith Lia List.
Import ListNotations.
Local Open Scope N_scope.

Lemma gen_corrupt_model : forall rnd m,
  ok_opt (gen_corrupt_response_signature rnd m) = ok_opt (corrupt_response_signature rnd m).
Proof.
  intros rnd m. unfold gen_corrupt_response_signature, corrupt_response_signature, get_unwrap. cbv zeta.
  cbn [fold_res].   (* the copied fields written as a loop over a literal list of tags: unrolled *)
  destruct (get_field m SIG) as [sg|]; [|reflexivity].
  destruct (get_field m PATH) as [p|]; [|chain].
  destruct (get_field m SREP) as [s|]; [|chain].
  destruct (get_field m CERT) as [c|]; [|chain].
  destruct (get_field m INDX) as [i|]; chain.
Qed.

Lemma kg_nth_fst : forall (m : msg) i, nth_error (map fst m) i = option_map fst (nth_error m i).
Proof. induction m as [|x m IH]; intros [|i]; cbn [map nth_error option_map]; try reflexivity. apply IH. Qed.
Lemma kg_nth_snd : forall (m : msg) i, nth_error (map snd m) i = option_map snd (nth_error m i).
Proof. induction m as [|x m IH]; intros [|i]; cbn [map nth_error option_map]; try reflexivity. apply IH. Qed.

Lemma kg_loop : forall (m : msg) (F : list tag * list bytes -> N -> res (list tag * list bytes)),
  (forall ts vs idx, F (ts, vs) idx =
     obind (match nth_error (map fst m) (N.to_nat idx) with Some x => Ok x | None => Panic site_gen end) (fun t =>
     obind (match nth_error (map snd m) (N.to_nat idx) with Some x => Ok x | None => Panic site_gen end) (fun v =>
     Ok (ts ++ [t], vs ++ [v])))) ->
  forall (perm : list nat) ts vs,
  ok_opt (fold_res F (map N.of_nat perm) (ts, vs))
  = obo (ok_opt (randomly_order_tags perm m)) (fun rest => Some (ts ++ map fst rest, vs ++ map snd rest)).
Proof.
  intros m F HF. unfold randomly_order_tags.
  induction perm as [|i perm IH]; intros ts vs.
  - cbn. rewrite !app_nil_r. reflexivity.
  - cbn [map fold_res]. rewrite HF, Nat2N.id, kg_nth_fst, kg_nth_snd.
    destruct (nth_error m i) as [[t v]|]; cbn [option_map fst snd obind ok_opt obo]; [|reflexivity].
    rewrite IH.
    match goal with |- context [ok_opt (?go perm)] => destruct (go perm) as [rest| |] end;
      cbn [obind ok_opt obo map fst snd]; try reflexivity.
    rewrite <- !app_assoc. reflexivity.
Qed.

Lemma gen_shuffle_model : forall (perm : list nat) m,
  ok_opt (gen_randomly_order_tags (map N.of_nat perm) m) = ok_opt (randomly_order_tags perm m).
Proof.
  intros perm m. unfold gen_randomly_order_tags. cbv zeta.
  match goal with |- ok_opt (obind (fold_res ?F _ _) _) = _ =>
    pose proof (kg_loop m F ltac:(body_eq) perm [] []) as HL
  end.
  destruct (fold_res _ (map N.of_nat perm) ([], [])) as [[ts vs]| |];
    destruct (randomly_order_tags perm m) as [rest| |]; cbn [ok_opt obo obind app] in *; try discriminate HL; try reflexivity.
  injection HL as -> ->. rewrite enc_combine_fst_snd. reflexivity.
Qed.

Lemma gen_grease_model : forall rnd (perm : list nat) m,
  ok_opt (gen_corrupt_response_signature rnd m) = ok_opt (corrupt_response_signature rnd m)
  /\ ok_opt (gen_randomly_order_tags (map N.of_nat perm) m) = ok_opt (randomly_order_tags perm m).
Proof. intros. split; [apply gen_corrupt_model|apply gen_shuffle_model]. Qed.
