(* CodeMerkle.v — the verifier side of src/merkle.rs (root_from_paths, finalize_output) and
   LongTermKey::calc_srv_value as translated from the source on this run, against the models. *)
Require Import RV.Model.Bytes RV.Gen.Tables RV.Model.Tag RV.Model.Message RV.Model.Merkle RV.Model.Keys
        RV.Model.GenSupport RV.Gen.Code RV.Spec.MerkleGoals.
From Coq Require Import ZArith Lia ZifyN ZifyBool ZifyNat List.
Import ListNotations.
Local Open Scope N_scope.

Lemma cm_slice_prefix : forall s (x : bytes) n, (n <= length x)%nat ->
  slice_n (E:=error) s x 0 (N.of_nat n) = Ok (firstn n x).
Proof.
  intros s x n Hn. unfold slice_n, slice. change (N.to_nat 0) with 0%nat. rewrite Nat2N.id.
  assert ((n <? 0)%nat || (length x <? n)%nat = false) as -> by lia.
  cbn [skipn]. rewrite Nat.sub_0_r. reflexivity.
Qed.

Lemma gen_finalize_model : forall v d,
  ok_opt (gen_finalize_output v d) = ok_opt (finalize v d).
Proof.
  intros [|] d; unfold gen_finalize_output, finalize; [reflexivity|].
  unfold slice_n. change (N.to_nat 0) with 0%nat. change (N.to_nat 32) with 32%nat.
  unfold slice. destruct ((32 <? 0)%nat || (length d <? 32)%nat); reflexivity.
Qed.

Section Climb.
  Variable H : bytes -> bytes.
  Hypothesis HL : HashLen H.

  Lemma cm_node_len_le : forall v, (node_len v <= 64)%nat.
  Proof. intros [|]; cbn; lia. Qed.

  Lemma cm_fold : forall v (l : list bytes) h i,
    fold_res (fun '(hash, index) path =>
       let ctx_5 := [] in
       let ctx_6 := ctx_5 ++ TREE_NODE_TWEAK in
       obind (if (N.land index 1 =? 0) then
                let ctx_7 := ctx_6 ++ hash in let ctx_8 := ctx_7 ++ path in Ok ctx_8
              else
                let ctx_9 := ctx_6 ++ path in let ctx_10 := ctx_9 ++ hash in Ok ctx_10) (fun ctx_11 =>
       obind (slice_n site_gen (H ctx_11) 0 (node_len_n v)) (fun s_12 =>
       let hash_13 := s_12 in
       let index_14 := N.shiftr index 1 in
       Ok (hash_13, index_14)))) l (h, i)
    = Ok (climb H v h i l, N.shiftr i (N.of_nat (length l))).
  Proof.
    intros v l. induction l as [|p r IH]; intros h i.
    - cbn [fold_res climb length]. rewrite N.shiftr_0_r. reflexivity.
    - cbn [fold_res climb]. cbn [app].
      assert (Hev : (N.land i 1 =? 0) = N.even i).
      { destruct i as [|[q|q|]]; reflexivity. }
      rewrite Hev. unfold node_len_n.
      destruct (N.even i); cbn [obind];
        (rewrite cm_slice_prefix by (rewrite HL; apply cm_node_len_le)); cbn [obind];
        rewrite IH; unfold hashv; rewrite <- N.div2_spec;
        replace (N.of_nat (length (p :: r))) with (N.succ (N.of_nat (length r))) by (cbn [length]; lia);
        rewrite <- N.add_1_l, <- N.shiftr_shiftr, N.div2_spec; rewrite <- app_assoc; reflexivity.
  Qed.

  Lemma gen_root_from_paths_model : forall v index data paths,
    ok_opt (gen_root_from_paths H v index data paths) = ok_opt (root_from_paths H v index data paths).
  Proof.
    intros v index data paths. unfold gen_root_from_paths, root_from_paths. cbv zeta.
    assert (Hm : (lenN paths mod node_len_n v =? 0) = (Nat.modulo (length paths) (node_len v) =? 0)%nat).
    { unfold lenN, node_len_n. destruct v; cbn [node_len];
        destruct (Nat.eqb_spec (length paths mod 64) 0); destruct (Nat.eqb_spec (length paths mod 32) 0); lia. }
    rewrite Hm. destruct (Nat.modulo (length paths) (node_len v) =? 0)%nat; cbn [negb]; [|reflexivity].
    unfold node_len_n at 2. rewrite Nat2N.id.
    rewrite cm_fold. cbn [obind].
    unfold hash_leaf.
    pose proof (gen_finalize_model v (climb H v (hashv H v (TREE_LEAF_TWEAK ++ data)) index (chunks (node_len v) paths))) as Hf.
    destruct (gen_finalize_output v (climb H v (hashv H v (TREE_LEAF_TWEAK ++ data)) index (chunks (node_len v) paths)));
      cbn [obind ok_opt] in *; exact Hf.
  Qed.
End Climb.
