(* CodeMain.v — main of src/bin/roughenough-server.rs as translated on this run: from the command line to
   the exit status, and which threads are spawned on the way. *)
Require Import RV.Model.Bytes RV.Gen.Tables RV.Model.Tag RV.Model.Message RV.Model.Config RV.Model.ConfigLoad
        RV.Model.GenSupport RV.Model.LoadModel RV.Gen.Code.
Require Import RV.Proofs.CodeLoad.
From Coq Require Import NArith ZArith List Bool Lia.
Import ListNotations.
Local Open Scope N_scope.

Lemma range_n_length : forall n, length (range_n 0 n) = N.to_nat n.
Proof. intro n. unfold range_n. rewrite map_length, seq_length, N.sub_0_r. reflexivity. Qed.

Section Main.
  Variables (argc : N) (arg : bytes) (cores : Z) (env : bytes -> option bytes) (fs : bytes -> cres (list ydoc))
            (valid : lcfg -> bool) (bind_ok : N -> bool) (joins_ok : thr -> bool).

  (* the threads of a configuration: one worker per num_workers, the reporter when client_stats is on *)
  Definition threads_of (c : lcfg) : list thr :=
    map TWorker (range_n 0 (Z.to_N (lc_workers c))) ++ (if lc_cstats c then [TReporter] else []).

  Definition main_spec : outcome exitw unit :=
    if negb (argc =? 2) then Err (ExitWith 1 [])
    else match (if bytes_eqb arg t_ENV then env_load cores env else file_load cores (fs arg)) with
         | Err _ => Err (ExitWith 1 [])
         | Panic p => Panic p
         | Ok c =>
             if negb (valid c) then Err (ExitWith 1 [])
             else if forallb bind_ok (range_n 0 (Z.to_N (lc_workers c))) then
                    if forallb joins_ok (threads_of c) then Err (ExitWith 0 (threads_of c))
                    else Panic site_gen
                  else Panic site_gen
         end.

  Lemma spawn_fold : forall (l : list N) ths sp,
    fold_out (fun '(t0, s0) i =>
                obind (if bind_ok i then Ok tt else Panic site_gen)
                  (fun _ : unit => Ok (t0 ++ [TWorker i], s0 ++ [TWorker i]))) l (ths, sp)
    = if forallb bind_ok l then (Ok (ths ++ map TWorker l, sp ++ map TWorker l) : outcome exitw _)
      else Panic site_gen.
  Proof.
    induction l as [|i l IH]; intros ths sp; cbn [fold_out forallb map].
    - rewrite !app_nil_r. reflexivity.
    - destruct (bind_ok i); cbn [obind andb]; [|reflexivity].
      rewrite IH. rewrite <- !app_assoc. reflexivity.
  Qed.

  Lemma join_fold : forall (ths : list thr),
    fold_out (fun (_ : unit) t =>
                obind (unwrap_x site_gen (if joins_ok t then Ok tt else Err (ExitWith 0 [])))
                  (fun _ : unit => Ok tt)) ths tt
    = if forallb joins_ok ths then (Ok tt : outcome exitw unit) else Panic site_gen.
  Proof.
    induction ths as [|t ths IH]; cbn [fold_out forallb]; [reflexivity|].
    destruct (joins_ok t); cbn [unwrap_x obind andb]; [exact IH|reflexivity].
  Qed.

  Theorem gen_server_main_model :
    gen_server_main argc arg cores env fs valid bind_ok joins_ok [] = main_spec.
  Proof.
    unfold gen_server_main, main_spec. cbv zeta.
    destruct (negb (argc =? 2)); cbn [obind]; [reflexivity|].
    rewrite gen_make_config_model.
    destruct (if bytes_eqb arg t_ENV then env_load cores env else file_load cores (fs arg)) as [c|e|p]; try reflexivity.
    destruct (negb (valid c)); [reflexivity|].
    rewrite (spawn_fold (range_n 0 (Z.to_N (lc_workers c))) [] []).
    destruct (forallb bind_ok (range_n 0 (Z.to_N (lc_workers c)))); cbn [obind app]; [|reflexivity].
    unfold threads_of.
    destruct (lc_cstats c); cbn [obind]; rewrite join_fold.
    - destruct (forallb joins_ok (map TWorker (range_n 0 (Z.to_N (lc_workers c))) ++ [TReporter])); reflexivity.
    - rewrite !app_nil_r.
      destruct (forallb joins_ok (map TWorker (range_n 0 (Z.to_N (lc_workers c))))); reflexivity.
  Qed.

  (* ---- what the start-up decision is *)
  (* exit status 1 happens exactly for a refused start, and then NO thread has been spawned *)
  Theorem main_exit_1 : forall ths,
    main_spec = Err (ExitWith 1 ths) ->
    ths = [] /\ (argc <> 2 \/ (exists e, (if bytes_eqb arg t_ENV then env_load cores env else file_load cores (fs arg)) = Err e)
                 \/ (exists c, (if bytes_eqb arg t_ENV then env_load cores env else file_load cores (fs arg)) = Ok c /\ valid c = false)).
  Proof.
    intros ths H. unfold main_spec in H.
    destruct (argc =? 2) eqn:Ea; cbn [negb] in H.
    - destruct (if bytes_eqb arg t_ENV then env_load cores env else file_load cores (fs arg)) as [c|e|p] eqn:El.
      + destruct (valid c) eqn:Ev; cbn [negb] in H.
        * destruct (forallb bind_ok (range_n 0 (Z.to_N (lc_workers c)))); [|discriminate H].
          destruct (forallb joins_ok (threads_of c)); discriminate H.
        * injection H as <-. split; [reflexivity|]. right. right. exists c. split; [reflexivity|exact Ev].
      + injection H as <-. split; [reflexivity|]. right. left. exists e. reflexivity.
      + discriminate H.
    - injection H as <-. split; [reflexivity|]. left. apply N.eqb_neq. exact Ea.
  Qed.

  (* exit status 0 is reached only after a valid configuration was loaded, exactly its threads were spawned —
     one worker per num_workers, the reporter iff client_stats — and every one of them ended without a panic *)
  Theorem main_exit_0 : forall ths,
    main_spec = Err (ExitWith 0 ths) ->
    exists c, (if bytes_eqb arg t_ENV then env_load cores env else file_load cores (fs arg)) = Ok c
              /\ valid c = true /\ ths = threads_of c /\ forallb joins_ok ths = true
              /\ length (filter (fun t => match t with TWorker _ => true | TReporter => false end) ths) = N.to_nat (Z.to_N (lc_workers c)).
  Proof.
    intros ths H. unfold main_spec in H.
    destruct (argc =? 2); cbn [negb] in H; try discriminate H.
    destruct (if bytes_eqb arg t_ENV then env_load cores env else file_load cores (fs arg)) as [c|e|p]; try discriminate H.
    destruct (valid c) eqn:Ev; cbn [negb] in H; try discriminate H.
    destruct (forallb bind_ok (range_n 0 (Z.to_N (lc_workers c)))); [|discriminate H].
    destruct (forallb joins_ok (threads_of c)) eqn:Ej; [|discriminate H].
    injection H as <-. exists c. repeat split; try assumption.
    unfold threads_of. rewrite filter_app.
    assert (Hw : forall l, filter (fun t => match t with TWorker _ => true | TReporter => false end) (map TWorker l) = map TWorker l).
    { induction l as [|x l IH]; cbn [map filter]; [reflexivity|]. rewrite IH. reflexivity. }
    rewrite Hw, app_length, map_length.
    assert (Hr : length (filter (fun t => match t with TWorker _ => true | TReporter => false end) (if lc_cstats c then [TReporter] else [])) = 0%nat)
      by (destruct (lc_cstats c); reflexivity).
    rewrite Hr, Nat.add_0_r. apply range_n_length.
  Qed.
End Main.

(* ------------------------------------------------------------------ with the translated validator plugged in *)
Require Import RV.Proofs.CodeConfig.

(* is_valid_config on what the loader produced; ds / ap: the state of the persistence directory and whether
   "<interface>:<port>" parses (inputs). A validator that panics does not start the server either. *)
Definition valid_of (ds : bytes -> dirinfo) (ap : bytes -> Z -> bool) (c : lcfg) : bool :=
  match gen_is_valid_config (to_settings c ds ap) with Ok true => true | _ => false end.

Lemma valid_of_iff : forall ds ap c, valid_of ds ap c = true <-> config_ok (to_settings c ds ap) = true.
Proof.
  intros ds ap c. unfold valid_of. rewrite <- gen_is_valid_config_iff.
  destruct (gen_is_valid_config (to_settings c ds ap)) as [[|]| |]; split; intro H; try reflexivity; try discriminate H.
Qed.

(* the server gets as far as spawning threads exactly when the loader returns a configuration that is one of the
   documented ones (config_ok); otherwise it exits with status 1 (or the loader panicked) before spawning *)
Theorem main_runs_iff_documented : forall argc arg cores env fs ds ap bind_ok joins_ok,
  argc = 2 ->
  match (if bytes_eqb arg t_ENV then env_load cores env else file_load cores (fs arg)) with
  | Ok c => if config_ok (to_settings c ds ap)
            then main_spec argc arg cores env fs (valid_of ds ap) bind_ok joins_ok
                 = (if forallb bind_ok (range_n 0 (Z.to_N (lc_workers c))) then
                      if forallb joins_ok (threads_of c) then Err (ExitWith 0 (threads_of c)) else Panic site_gen
                    else Panic site_gen)
            else main_spec argc arg cores env fs (valid_of ds ap) bind_ok joins_ok = Err (ExitWith 1 [])
  | Err _ => main_spec argc arg cores env fs (valid_of ds ap) bind_ok joins_ok = Err (ExitWith 1 [])
  | Panic p => main_spec argc arg cores env fs (valid_of ds ap) bind_ok joins_ok = Panic p
  end.
Proof.
  intros argc arg cores env fs ds ap bind_ok joins_ok ->. unfold main_spec. change (negb (2 =? 2)) with false. cbv iota.
  destruct (if bytes_eqb arg t_ENV then env_load cores env else file_load cores (fs arg)) as [c|e|p]; try reflexivity.
  destruct (config_ok (to_settings c ds ap)) eqn:Ec.
  - apply valid_of_iff in Ec. rewrite Ec. reflexivity.
  - assert (Hv : valid_of ds ap c = false).
    { destruct (valid_of ds ap c) eqn:Ev; [|reflexivity]. apply valid_of_iff in Ev. congruence. }
    rewrite Hv. reflexivity.
Qed.
