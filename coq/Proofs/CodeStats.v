(* CodeStats.v — the eight recording operations of src/stats/aggregated.rs as translated on this run,
   against Model/Stats.v (cs_bump: the `+= 1` / `bytes_sent += n` of each add_* method). *)
Require Import RV.Model.Bytes RV.Gen.Tables RV.Model.Tag RV.Model.Message RV.Model.Server RV.Model.Stats
        RV.Model.GenSupport RV.Gen.Code.
From Coq Require Import NArith List.
Import ListNotations.
Local Open Scope N_scope.

Definition cs_tuple (c : cstats) : N * N * N * N * N * N * N * N * N :=
  (c_rfc_req c, c_classic_req c, c_invalid c, c_health c, c_rfc_resp c, c_classic_resp c, c_bytes c, c_failed c, c_retried c).

(* the translated add_* method that records event e, applied to the counters c *)
Definition gen_agg_record (c : cstats) (e : sev) : res (N * N * N * N * N * N * N * N * N) :=
  let f := fun (g : N -> N -> N -> N -> N -> N -> N -> N -> N -> res (N * N * N * N * N * N * N * N * N)) =>
             g (c_rfc_req c) (c_classic_req c) (c_invalid c) (c_health c) (c_rfc_resp c) (c_classic_resp c)
               (c_bytes c) (c_failed c) (c_retried c) in
  match e with
  | SIetfRequest a => f (fun a1 a2 a3 a4 a5 a6 a7 a8 a9 => gen_agg_add_ietf_request a1 a2 a3 a4 a5 a6 a7 a8 a9 a)
  | SClassicRequest a => f (fun a1 a2 a3 a4 a5 a6 a7 a8 a9 => gen_agg_add_classic_request a1 a2 a3 a4 a5 a6 a7 a8 a9 a)
  | SInvalidRequest a => f (fun a1 a2 a3 a4 a5 a6 a7 a8 a9 => gen_agg_add_invalid_request a1 a2 a3 a4 a5 a6 a7 a8 a9 a a)
  | SHealthCheck a => f (fun a1 a2 a3 a4 a5 a6 a7 a8 a9 => gen_agg_add_health_check a1 a2 a3 a4 a5 a6 a7 a8 a9 a)
  | SRfcResponse a n => f (fun a1 a2 a3 a4 a5 a6 a7 a8 a9 => gen_agg_add_rfc_response a1 a2 a3 a4 a5 a6 a7 a8 a9 a n)
  | SClassicResponse a n => f (fun a1 a2 a3 a4 a5 a6 a7 a8 a9 => gen_agg_add_classic_response a1 a2 a3 a4 a5 a6 a7 a8 a9 a n)
  | SFailedSend a => f (fun a1 a2 a3 a4 a5 a6 a7 a8 a9 => gen_agg_add_failed_send_attempt a1 a2 a3 a4 a5 a6 a7 a8 a9 a)
  | SRetriedSend a => f (fun a1 a2 a3 a4 a5 a6 a7 a8 a9 => gen_agg_add_retried_send_attempt a1 a2 a3 a4 a5 a6 a7 a8 a9 a)
  end.

Theorem gen_agg_record_model : forall c e, gen_agg_record c e = Ok (cs_tuple (cs_bump e c)).
Proof. intros c [a|a|a|a n|a n|a|a|a]; reflexivity. Qed.

(* a whole event sequence through the translated operations is the model's aggregated run *)
Fixpoint gen_agg_run (c : cstats) (evs : list sev) : res cstats :=
  match evs with
  | [] => Ok c
  | e :: r =>
      obind (gen_agg_record c e) (fun '(a1, a2, a3, a4, a5, a6, a7, a8, a9) =>
      gen_agg_run (mkcs a1 a2 a3 a4 a5 a6 a7 a8 a9) r)
  end.

Theorem gen_agg_run_model : forall evs c, gen_agg_run c evs = Ok (fold_left agg_step evs c).
Proof.
  induction evs as [|e evs IH]; intros c; [reflexivity|].
  cbn [gen_agg_run fold_left]. rewrite gen_agg_record_model. cbn [obind cs_tuple].
  unfold agg_step at 2. rewrite <- IH. f_equal. destruct (cs_bump e c); reflexivity.
Qed.

(* ------------------------------------------------------------------ Server::send_client_stats *)
Theorem gen_send_client_stats_model : forall rec q ev,
  gen_send_client_stats rec q ev
  = (let '(rec', q', o) := send_client_stats rec q in
     Ok (rec', q', ev ++ match o with Some x => [x] | None => [] end)).
Proof.
  intros rec q ev. unfold gen_send_client_stats, send_client_stats. cbv zeta.
  destruct rec as [|c rec].
  - cbn. rewrite app_nil_r. reflexivity.
  - replace (0 <? lenN (c :: rec)) with true by (unfold lenN; cbn [length]; destruct (length rec); reflexivity).
    cbn [obind]. destruct (sq_force_push q (c :: rec)) as [q' o]. reflexivity.
Qed.

(* in particular the aggregated recorder (no per-client records) is left alone by a statistics tick,
   and a per-client recorder is cleared exactly when its records were handed to the queue *)
Corollary gen_tick_keeps_empty : forall q ev, gen_send_client_stats [] q ev = Ok ([], q, ev).
Proof. intros. rewrite gen_send_client_stats_model. cbn. rewrite app_nil_r. reflexivity. Qed.

(* the publishing step of the shared-queue model (the C17_queue theorems) is this function *)
Lemma q_run_push_is_send_client_stats : forall q m lost x r,
  q_run q m lost (QPush x :: r)
  = (let '(_, q', o) := send_client_stats x q in
     q_run q' m (lost ++ match o with Some y => [y] | None => [] end) r).
Proof.
  intros q m lost x r. cbn [q_run]. unfold send_client_stats. destruct x as [|c x].
  - rewrite app_nil_r. reflexivity.
  - destruct (sq_force_push q (c :: x)) as [q' [o|]]; [reflexivity|rewrite app_nil_r; reflexivity].
Qed.
