(* CodeStats.v — the eight recording operations of src/stats/aggregated.rs as translated on this run,
   against Model/Stats.v (cs_bump: the `+= 1` / `bytes_sent += n` of each add_* method). *)
Require Import RV.Model.Bytes RV.Gen.Tables RV.Model.Tag RV.Model.Message RV.Model.Server RV.Model.Stats
        RV.Model.GenSupport RV.Gen.Code.
From Coq Require Import NArith List.
Import ListNotations.
Local Open Scope N_scope.

Definition cs_tuple (c : cstats) : N * N * N * N * N * N * N * N * N :=
  (c_rfc_req c, c_classic_req c, c_invalid c, c_health c, c_rfc_resp c, c_classic_resp c, c_bytes c, c_failed c, c_retried c).

(* the translated add_* method that records event e, applied to the counters c *)
Definition gen_agg_record (c : cstats) (e : sev) : res (N * N * N * N * N * N * N * N * N) :=
  let f := fun (g : N -> N -> N -> N -> N -> N -> N -> N -> N -> res (N * N * N * N * N * N * N * N * N)) =>
             g (c_rfc_req c) (c_classic_req c) (c_invalid c) (c_health c) (c_rfc_resp c) (c_classic_resp c)
               (c_bytes c) (c_failed c) (c_retried c) in
  match e with
  | SIetfRequest a => f (fun a1 a2 a3 a4 a5 a6 a7 a8 a9 => gen_agg_add_ietf_request a1 a2 a3 a4 a5 a6 a7 a8 a9 a)
  | SClassicRequest a => f (fun a1 a2 a3 a4 a5 a6 a7 a8 a9 => gen_agg_add_classic_request a1 a2 a3 a4 a5 a6 a7 a8 a9 a)
  | SInvalidRequest a => f (fun a1 a2 a3 a4 a5 a6 a7 a8 a9 => gen_agg_add_invalid_request a1 a2 a3 a4 a5 a6 a7 a8 a9 a a)
  | SHealthCheck a => f (fun a1 a2 a3 a4 a5 a6 a7 a8 a9 => gen_agg_add_health_check a1 a2 a3 a4 a5 a6 a7 a8 a9 a)
  | SRfcResponse a n => f (fun a1 a2 a3 a4 a5 a6 a7 a8 a9 => gen_agg_add_rfc_response a1 a2 a3 a4 a5 a6 a7 a8 a9 a n)
  | SClassicResponse a n => f (fun a1 a2 a3 a4 a5 a6 a7 a8 a9 => gen_agg_add_classic_response a1 a2 a3 a4 a5 a6 a7 a8 a9 a n)
  | SFailedSend a => f (fun a1 a2 a3 a4 a5 a6 a7 a8 a9 => gen_agg_add_failed_send_attempt a1 a2 a3 a4 a5 a6 a7 a8 a9 a)
  | SRetriedSend a => f (fun a1 a2 a3 a4 a5 a6 a7 a8 a9 => gen_agg_add_retried_send_attempt a1 a2 a3 a4 a5 a6 a7 a8 a9 a)
  end.

Theorem gen_agg_record_model : forall c e, gen_agg_record c e = Ok (cs_tuple (cs_bump e c)).
Proof. intros c [a|a|a|a n|a n|a|a|a]; reflexivity. Qed.

(* a whole event sequence through the translated operations is the model's aggregated run *)
Fixpoint gen_agg_run (c : cstats) (evs : list sev) : res cstats :=
  match evs with
  | [] => Ok c
  | e :: r =>
      obind (gen_agg_record c e) (fun '(a1, a2, a3, a4, a5, a6, a7, a8, a9) =>
      gen_agg_run (mkcs a1 a2 a3 a4 a5 a6 a7 a8 a9) r)
  end.

Theorem gen_agg_run_model : forall evs c, gen_agg_run c evs = Ok (fold_left agg_step evs c).
Proof.
  induction evs as [|e evs IH]; intros c; [reflexivity|].
  cbn [gen_agg_run fold_left]. rewrite gen_agg_record_model. cbn [obind cs_tuple].
  unfold agg_step at 2. rewrite <- IH. f_equal. destruct (cs_bump e c); reflexivity.
Qed.
