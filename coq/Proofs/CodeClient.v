(* CodeClient.v — the client's ResponseHandler as translated from src/bin/roughenough-client.rs on
   this run (Gen/Code.v: new, extract_time, validate_merkle, validate_midpoint, validate_dele,
   validate_srep) against the hand-written client model (Model/Client.v handle_response), which the
   C01 / C03 theorems are stated about. *)
Require Import RV.Model.Bytes RV.Gen.Tables RV.Model.Tag RV.Model.Message RV.Model.Merkle
        RV.Model.Keys RV.Model.Sign RV.Model.Client RV.Model.GenSupport RV.Gen.Code.
Require Import RV.Proofs.CodeLib.
From Coq Require Import ZArith Lia ZifyN ZifyBool ZifyNat.
Local Open Scope N_scope.

Definition drop_index (p : parsed) : parsed3 := mkparsed3 (p_verified p) (p_midpoint p) (p_radius p).

Definition gen_handle (H : bytes -> bytes) (ev : bytes -> bytes -> bytes -> bool) (ep : bytes -> bool)
           (v : version) (pk : option bytes) (nonce request : bytes) (resp : msg) : res parsed3 :=
  obind (gen_response_handler_new v pk resp nonce request) (gen_extract_time H ev ep).


Lemma oo_idx_p : forall s m t, ok_opt (idx_p s m t) = get_field m t.
Proof. intros. unfold idx_p. destruct (get_field m t); reflexivity. Qed.
Lemma oo_idx : forall m t, ok_opt (idx m t) = get_field m t.
Proof. intros. unfold idx. destruct (get_field m t); reflexivity. Qed.
Lemma oo_r64e : forall b, ok_opt (read_u64_e b) = if (length b <? 8)%nat then None else Some (rd64 b).
Proof. intros. unfold read_u64_e. destruct (length b <? 8)%nat; reflexivity. Qed.
Lemma oo_r64 : forall b, ok_opt (read_u64 b) = if (length b <? 8)%nat then None else Some (rd64 b).
Proof. intros. unfold read_u64. destruct (length b <? 8)%nat; reflexivity. Qed.
Lemma oo_r32e : forall b, ok_opt (read_u32_e b) = if (length b <? 4)%nat then None else Some (rd32 b).
Proof. intros. unfold read_u32_e. destruct (length b <? 4)%nat; reflexivity. Qed.
Lemma oo_r32 : forall b, ok_opt (read_u32 b) = if (length b <? 4)%nat then None else Some (rd32 b).
Proof. intros. unfold read_u32. destruct (length b <? 4)%nat; reflexivity. Qed.
Lemma oo_rfp : forall H v i l p, ok_opt (root_from_paths_p H v i l p) = ok_opt (root_from_paths H v i l p).
Proof. intros. unfold root_from_paths_p. destruct (root_from_paths H v i l p); reflexivity. Qed.
Lemma oo_rfp_m : forall H v i l p,
  ok_opt (match root_from_paths H v i l p with Ok h => Ok h | Err _ => Panic site_mfuel | Panic s => Panic s end : res bytes)
  = ok_opt (root_from_paths H v i l p).
Proof. intros. destruct (root_from_paths H v i l p); reflexivity. Qed.
Lemma oo_vsig : forall ev ep pk sg d,
  ok_opt (match run_verifier ev ep pk [d] sg with Ok b => Ok b | Err _ => Panic site_pubkey | Panic s => Panic s end : res bool)
  = ok_opt (run_verifier ev ep pk [d] sg).
Proof. intros. destruct (run_verifier ev ep pk [d] sg); reflexivity. Qed.

(* ---- the pieces ---- *)
Lemma cc_midpoint : forall self midp,
  ok_opt (gen_validate_midpoint self midp) = ok_opt (validate_midpoint (rh_dele self) midp).
Proof.
  intros self midp. unfold gen_validate_midpoint, validate_midpoint. cbv zeta.
  rewrite !oo_bind, !oo_idx_p, !oo_idx.
  destruct (get_field (rh_dele self) MINT) as [a|]; cbn [obo]; [|reflexivity].
  rewrite !oo_bind, oo_unwrap_p, oo_r64e, oo_r64.
  destruct (length a <? 8)%nat; cbn [obo]; [reflexivity|].
  rewrite !oo_bind, !oo_idx_p, !oo_idx.
  destruct (get_field (rh_dele self) MAXT) as [b|]; cbn [obo]; [|reflexivity].
  rewrite !oo_bind, oo_unwrap_p, oo_r64e, oo_r64.
  destruct (length b <? 8)%nat; cbn [obo]; [reflexivity|].
  destruct (rd64 a <=? midp) eqn:E1; destruct (midp <? rd64 a) eqn:E2; try lia;
    destruct (midp <=? rd64 b) eqn:E3; destruct (rd64 b <? midp) eqn:E4; try lia; reflexivity.
Qed.

Lemma cc_merkle : forall H self srep,
  ok_opt (obind (idx_p site_gen (rh_msg self) SREP) (fun s => unwrap_p site_gen (from_bytes s))) = Some srep ->
  ok_opt (gen_validate_merkle H self)
  = option_map (fun _ => tt)
      (ok_opt (validate_merkle H (rh_version self) (rh_nonce self) (rh_request self) (rh_msg self) srep)).
Proof.
  intros H self srep Hs. unfold gen_validate_merkle, validate_merkle. cbv zeta.
  rewrite oo_bind, oo_idx_p in Hs. rewrite !oo_bind, oo_idx_p.
  destruct (get_field (rh_msg self) SREP) as [sb|]; cbn [obo] in *; [|discriminate Hs].
  rewrite oo_unwrap_p in Hs. rewrite !oo_bind, oo_unwrap_p. rewrite Hs. cbn [obo].
  rewrite !oo_bind, oo_idx_p, oo_idx.
  destruct (get_field (rh_msg self) INDX) as [ib|]; cbn [obo]; [|reflexivity].
  rewrite !oo_bind, oo_unwrap_p, oo_r32e, oo_r32.
  destruct (length ib <? 4)%nat; cbn [obo]; [reflexivity|].
  rewrite !oo_bind, oo_idx_p, oo_idx.
  destruct (get_field (rh_msg self) PATH) as [pb|]; cbn [obo]; [|reflexivity].
  rewrite !oo_bind, oo_rfp, oo_rfp_m.
  assert (Hleaf : (match rh_version self with Google => rh_nonce self | RfcDraft13 => rh_request self end)
                  = (match rh_version self with Google => rh_nonce self | RfcDraft13 => rh_request self end)) by reflexivity.
  destruct (ok_opt (root_from_paths H (rh_version self) (rd32 ib)
              (match rh_version self with Google => rh_nonce self | RfcDraft13 => rh_request self end) pb)) as [h|];
    cbn [obo]; [|reflexivity].
  rewrite !oo_bind, oo_idx_p, oo_idx.
  destruct (get_field srep ROOT) as [rb|]; cbn [obo]; [|reflexivity].
  destruct (bytes_eqb h rb); reflexivity.
Qed.

Lemma cc_sigs : forall ev ep self pk, rh_pub_key self = Some pk ->
  ok_opt (obind (gen_validate_dele ev ep self) (fun _ => gen_validate_srep ev ep self))
  = ok_opt (validate_signatures ev ep (rh_version self) pk (rh_msg self) (rh_cert self) (rh_dele self)).
Proof.
  intros ev ep self pk Hpk. unfold gen_validate_dele, gen_validate_srep, validate_signatures, validate_sig_p, validate_sig. cbv zeta.
  rewrite Hpk. cbn [obind]. rewrite !oo_bind, oo_idx_p, oo_idx.
  destruct (get_field (rh_cert self) SIG) as [cs|]; cbn [obo]; [|reflexivity].
  rewrite !oo_bind, oo_idx_p, oo_idx.
  destruct (get_field (rh_cert self) DELE) as [db|]; cbn [obo]; [|reflexivity].
  rewrite !oo_bind, !oo_vsig.
  match goal with |- context [ok_opt (run_verifier ?a ?b ?c ?d ?e)] =>
    destruct (ok_opt (run_verifier a b c d e)) as [[|]|] end; cbn [obo negb ok_opt]; try reflexivity.
  rewrite !oo_bind, oo_idx_p, oo_idx.
  destruct (get_field (rh_dele self) PUBK) as [pb|]; cbn [obo]; [|reflexivity].
  rewrite !oo_bind, oo_idx_p, oo_idx.
  destruct (get_field (rh_msg self) SIG) as [sg|]; cbn [obo]; [|reflexivity].
  rewrite !oo_bind, oo_idx_p, oo_idx.
  destruct (get_field (rh_msg self) SREP) as [sb|]; cbn [obo]; [|reflexivity].
  rewrite !oo_bind, !oo_vsig.
  match goal with |- context [ok_opt (run_verifier ?a ?b ?c ?d ?e)] =>
    destruct (ok_opt (run_verifier a b c d e)) as [[|]|] end; cbn [obo negb ok_opt]; reflexivity.
Qed.

Lemma cc_sigs_true : forall ev ep self pk, rh_pub_key self = Some pk ->
  ok_opt (obind (gen_validate_dele ev ep self) (fun _ => obind (gen_validate_srep ev ep self) (fun _ => Ok true)))
  = option_map (fun _ => true)
      (ok_opt (validate_signatures ev ep (rh_version self) pk (rh_msg self) (rh_cert self) (rh_dele self))).
Proof.
  intros ev ep self pk Hpk. rewrite <- (cc_sigs ev ep self pk Hpk). rewrite !oo_bind.
  destruct (ok_opt (gen_validate_dele ev ep self)) as [[]|]; cbn [obo option_map]; [|reflexivity].
  destruct (ok_opt (gen_validate_srep ev ep self)) as [[]|]; reflexivity.
Qed.

(* ---- the whole handler ---- *)
Lemma gen_client_model : forall H ev ep v pk nonce request resp,
  ok_opt (gen_handle H ev ep v pk nonce request resp)
  = option_map drop_index (ok_opt (handle_response H ev ep v pk nonce request resp)).
Proof.
  intros H ev ep v pk nonce request resp.
  unfold gen_handle, gen_response_handler_new, handle_response. cbv zeta.
  rewrite !oo_bind, oo_idx_p, oo_idx.
  destruct (get_field resp SREP) as [sb|] eqn:ES; cbn [obo]; [|reflexivity].
  rewrite !oo_bind, oo_unwrap_p, oo_unwrap.
  destruct (ok_opt (from_bytes sb)) as [srep|] eqn:ESd; cbn [obo]; [|reflexivity].
  rewrite !oo_bind, oo_idx_p, oo_idx.
  destruct (get_field resp CERT) as [cb|] eqn:EC; cbn [obo]; [|reflexivity].
  rewrite !oo_bind, oo_unwrap_p, oo_unwrap.
  destruct (ok_opt (from_bytes cb)) as [cert|] eqn:ECd; cbn [obo]; [|reflexivity].
  rewrite !oo_bind, oo_idx_p, oo_idx.
  destruct (get_field cert DELE) as [db|] eqn:ED; cbn [obo]; [|reflexivity].
  rewrite !oo_bind, oo_unwrap_p, oo_unwrap.
  destruct (ok_opt (from_bytes db)) as [dele|] eqn:EDd; cbn [obo ok_opt]; [|reflexivity].
  set (self := mkrh pk resp srep cert dele nonce request v).
  unfold gen_extract_time. cbv zeta.
  change (rh_srep self) with srep.
  rewrite !oo_bind, oo_idx_p, oo_idx.
  destruct (get_field srep MIDP) as [mb|]; cbn [obo]; [|reflexivity].
  rewrite !oo_bind, oo_unwrap_p, oo_r64e, oo_r64.
  destruct (length mb <? 8)%nat; cbn [obo]; [reflexivity|].
  rewrite !oo_bind, oo_idx_p, oo_idx.
  destruct (get_field srep RADI) as [rb|]; cbn [obo]; [|reflexivity].
  rewrite !oo_bind, oo_unwrap_p, oo_r32e, oo_r32.
  destruct (length rb <? 4)%nat; cbn [obo]; [reflexivity|].
  rewrite !oo_bind.
  rewrite (cc_merkle H self srep).
  2:{ rewrite oo_bind, oo_idx_p. change (rh_msg self) with resp. rewrite ES. cbn [obo].
      rewrite oo_unwrap_p. exact ESd. }
  change (rh_version self) with v. change (rh_nonce self) with nonce. change (rh_request self) with request.
  change (rh_msg self) with resp.
  destruct (ok_opt (validate_merkle H v nonce request resp srep)) as [index|]; cbn [obo option_map]; [|reflexivity].
  rewrite !oo_bind, cc_midpoint. change (rh_dele self) with dele.
  destruct (ok_opt (validate_midpoint dele (rd64 mb))) as [[]|]; cbn [obo]; [|reflexivity].
  rewrite ?oo_bind, oo_if.
  change (rh_pub_key self) with pk.
  destruct pk as [k|].
  - pose proof (cc_sigs_true ev ep self k eq_refl) as Hs.
    change (rh_version self) with v in Hs. change (rh_msg self) with resp in Hs.
    change (rh_cert self) with cert in Hs. change (rh_dele self) with dele in Hs.
    rewrite Hs. rewrite oo_bind.
    destruct (ok_opt (validate_signatures ev ep v k resp cert dele)) as [[]|]; reflexivity.
  - reflexivity.
Qed.

(* the translated handler never returns an error value either: failure is a panic (non-zero exit) *)
Lemma oo_none_not_err_help : forall A (x : res A) e, x = Err e -> ok_opt x = None.
Proof. intros A x e ->. reflexivity. Qed.

(* ---- C01 soundness stated of the translated handler ---- *)
Require Import RV.Spec.RefCodec RV.Spec.RefMerkle RV.Spec.MerkleGoals RV.Spec.RefVerify RV.Spec.ClientGoals
        RV.Proofs.ClientSound.

Lemma gen_client_sound : forall H ev ep, HashLen H ->
  forall v pk nonce request dgram resp p3 s ns,
    (length dgram <= 4096)%nat ->
    receive_response v dgram = Ok resp ->
    gen_handle H ev ep v (Some pk) nonce request resp = Ok p3 ->
    to_time v (p3_midpoint p3) = Ok (s, ns) ->
    authentic H ev ep v pk request nonce dgram = true
    /\ p3_verified p3 = true
    /\ exists midp, signed_midpoint v dgram = Some midp /\ (s, ns) = time_of v midp.
Proof.
  intros H ev ep HL v pk nonce request dgram resp p3 s ns Hlen Hrecv Hgen Ht.
  pose proof (gen_client_model H ev ep v (Some pk) nonce request resp) as Hm.
  rewrite Hgen in Hm. cbn [ok_opt] in Hm.
  destruct (handle_response H ev ep v (Some pk) nonce request resp) as [p|e|st] eqn:Eh; cbn [ok_opt option_map] in Hm;
    try discriminate Hm.
  injection Hm as Hp. subst p3. cbn [drop_index p3_midpoint p3_verified] in *.
  assert (Hc : client_handle H ev ep v (Some pk) nonce request dgram
               = Ok (mkout (p_verified p) s ns (p_radius p) (p_index p))).
  { unfold client_handle. rewrite Hrecv. cbn [obind]. rewrite Eh. cbn [obind]. rewrite Ht. reflexivity. }
  destruct (client_sound H ev ep HL v pk nonce request dgram _ Hlen Hc) as (A & B & C).
  cbn [o_verified o_secs o_nsecs] in B, C. split; [exact A|]. split; [exact B|exact C].
Qed.
