(* CodeSmall.v — small constructors and accessors as translated on this run (MerkleTree::new, the RtMessage
   constructors / accessors, Responder::is_empty): they are what the models take them to be. *)
Require Import RV.Model.Bytes RV.Gen.Tables RV.Model.Tag RV.Model.Message RV.Model.Merkle RV.Model.Keys RV.Model.Server
        RV.Model.GenSupport RV.Gen.Code.
From Coq Require Import NArith List.
Import ListNotations.
Local Open Scope N_scope.

Theorem gen_tree_new_model : forall v, gen_tree_new v = Ok (tree_new v).
Proof. intros []; reflexivity. Qed.

(* inside message.rs a message is the pair of vectors (tags, values); the model's is the list of pairs *)
Theorem gen_msg_accessors_model : forall tags values n,
  gen_msg_with_capacity n = Ok ([], [])
  /\ gen_msg_new_deliberately_invalid tags values = Ok (tags, values)
  /\ gen_msg_num_fields tags values = Ok (as_u32 (lenN tags))
  /\ gen_msg_into_hash_map tags values = Ok (combine tags values)
  /\ gen_msg_clear tags values = Ok ([], []).
Proof. intros. repeat split; reflexivity. Qed.

Theorem gen_responder_is_empty_model : forall reqs,
  gen_responder_is_empty reqs = Ok (match reqs with [] => true | _ => false end).
Proof. reflexivity. Qed.
