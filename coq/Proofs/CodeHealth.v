(* CodeHealth.v — Server::handle_health_check as translated from src/server.rs on this run: one readiness
   event of the edge-triggered listener accepts EVERY pending connection (up to an accept error other
   than WouldBlock), records one health check per connection, and leaves nothing behind. *)
Require Import RV.Model.Bytes RV.Gen.Tables RV.Model.Tag RV.Model.Message RV.Model.Server RV.Model.GenSupport RV.Gen.Code.
From Coq Require Import NArith List Lia.
Import ListNotations.
Local Open Scope N_scope.

(* what one readiness event does to a backlog: the addresses answered, in order, and what is left *)
Fixpoint health_accepts (l : list hconn) : list addr * list hconn :=
  match l with
  | [] => ([], [])
  | HConn a _ _ :: r => let '(answered, rest) := health_accepts r in (a :: answered, rest)
  | HFail :: r => ([], r)
  end.

Definition no_accept_failure (l : list hconn) : Prop := forall c, In c l -> c <> HFail.

Lemma health_loop : forall (B : list hconn * list sev -> res (list hconn * list sev * bool)) l fuel st,
  (forall l0 st0, B (l0, st0) =
     match l0 with
     | [] => Ok (([], st0), true)
     | HConn a _ _ :: r => Ok ((r, st0 ++ [SHealthCheck a]), false)
     | HFail :: r => Ok ((r, st0), true)
     end) ->
  (length l < fuel)%nat ->
  loop_fuel fuel B (l, st) = Ok (snd (health_accepts l), st ++ map SHealthCheck (fst (health_accepts l))).
Proof.
  intros B l. induction l as [|c r IH]; intros fuel st HB Hf; (destruct fuel as [|fuel]; [cbn [length] in Hf; lia|]);
    cbn [loop_fuel]; rewrite HB; cbn [obind].
  - cbn [health_accepts fst snd map]. rewrite app_nil_r. reflexivity.
  - destruct c as [a w s|]; cbn [obind].
    + cbn [health_accepts]. rewrite IH by (cbn [length] in Hf; try exact HB; lia).
      destruct (health_accepts r) as [answered rest]. cbn [fst snd map]. rewrite <- app_assoc. reflexivity.
    + cbn [health_accepts fst snd map]. rewrite app_nil_r. reflexivity.
Qed.

Theorem gen_handle_health_check_model : forall l st,
  gen_handle_health_check (Some l) st
  = Ok (snd (health_accepts l), st ++ map SHealthCheck (fst (health_accepts l))).
Proof.
  intros l st. unfold gen_handle_health_check. cbn [obind].
  match goal with |- context [loop_fuel _ ?B _] => rewrite (health_loop B l (S (length l)) st) end.
  - reflexivity.
  - intros l0 st0. destruct l0 as [|[a w s|] r]; cbn [hl_accept]; try reflexivity.
    unfold st_write, st_shutdown. cbn [fst snd]. destruct w, s; reflexivity.
  - lia.
Qed.

(* with no accept failure, every pending connection is answered by this one event and none is left: the
   health_event of the start-up model (Model/Process.v) with accept_all = true *)
Lemma health_accepts_all : forall l, no_accept_failure l ->
  snd (health_accepts l) = [] /\ length (fst (health_accepts l)) = length l.
Proof.
  induction l as [|c r IH]; intros H; [split; reflexivity|].
  destruct c as [a w s|]; [|exfalso; apply (H HFail); [left; reflexivity|reflexivity]].
  cbn [health_accepts]. destruct (health_accepts r) as [answered rest] eqn:E.
  destruct IH as [I1 I2]; [intros c Hc; apply H; right; exact Hc|]. cbn [fst snd] in *.
  split; [exact I1|cbn [length]; rewrite I2; reflexivity].
Qed.

Theorem gen_health_every_connection : forall l st, no_accept_failure l ->
  exists answered, gen_handle_health_check (Some l) st = Ok ([], st ++ map SHealthCheck answered)
                   /\ length answered = length l.
Proof.
  intros l st H. rewrite gen_handle_health_check_model. destruct (health_accepts_all l H) as [H1 H2].
  exists (fst (health_accepts l)). rewrite H1. split; [reflexivity|exact H2].
Qed.

(* a worker without a health listener never gets this event; if it did, the handler panics *)
Lemma gen_handle_health_check_none : forall st, gen_handle_health_check None st = Panic site_gen.
Proof. reflexivity. Qed.
